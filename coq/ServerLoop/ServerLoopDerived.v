(* What acceptance by the monitors means in terms of the raw log (pure reasoning about the Spec),
   and the resulting statements about every log of the model. *)
From Coq Require Import ZArith List Bool Lia.
From ServerLoop Require Import ServerLoopSpec ServerLoopModel ServerLoopBase ServerLoopInv
  ServerLoopCplT ServerLoopCplR ServerLoopCplC ServerLoopCplI.
Import ListNotations.
Local Open Scope Z_scope.

(* ---------- running a monitor over a concatenated log ------------------------------------------------------------------ *)
Section Run.
  Context {M : Type} (step : M -> ev -> option M).
  Lemma mon_run_app m0 l2 l1 :
    mon_run step m0 (l2 ++ l1) = match mon_run step m0 l1 with Some m => mon_run step m l2 | None => None end.
  Proof.
    induction l2 as [|x l2 IH]; cbn [app mon_run].
    - destruct (mon_run step m0 l1); reflexivity.
    - rewrite IH. destruct (mon_run step m0 l1); reflexivity.
  Qed.

  (* an invariant of the monitor state along an accepted log *)
  Lemma mon_run_inv (P : M -> Prop) m0 l m :
    P m0 -> (forall a x b, P a -> step a x = Some b -> P b) -> mon_run step m0 l = Some m -> P m.
  Proof.
    intros H0 Hs. revert m. induction l as [|x l IH]; cbn [mon_run]; intros m E.
    - inversion E; subst; exact H0.
    - destruct (mon_run step m0 l) as [a|]; [|discriminate]. eapply Hs; [apply IH; reflexivity | exact E].
  Qed.
End Run.

(* ========== life times ========================================================================================================== *)
Definition r_list (m : rmon) (e : ent) : list Z :=
  match e with Tm _ => r_tm m | Cl _ => r_cl m | Li _ => r_li m | Es _ => r_es m end.

Lemma r_alive_list m e : r_alive m e = zmem (ent_id e) (r_list m e).
Proof. destruct e; reflexivity. Qed.

(* live objects have been seen, and are listed once *)
Record RI (m : rmon) : Prop := {
  ri_seen : forall e, r_alive m e = true -> In e (r_seen m);
  ri_nd_t : NoDup (r_tm m); ri_nd_c : NoDup (r_cl m); ri_nd_l : NoDup (r_li m); ri_nd_e : NoDup (r_es m)
}.

Lemma zmem_app i l j : zmem i (l ++ [j]) = zmem i l || (j =? i).
Proof. induction l as [|x l IH]; cbn [app zmem]; [rewrite orb_false_r; reflexivity | rewrite IH, orb_assoc; reflexivity]. Qed.

Lemma r_alive_add x m e : r_alive (r_add x m) e = r_alive m e || ent_eqb x e.
Proof.
  destruct x, e; cbn [r_add r_alive r_tm r_cl r_li r_es ent_eqb]; rewrite ?zmem_app, ?orb_false_r; reflexivity.
Qed.

Lemma zmem_zremove_neq i j l : i <> j -> zmem i (zremove j l) = zmem i l.
Proof.
  intros N. destruct (zmem i l) eqn:E.
  - apply zmem_In in E. apply zmem_In. apply In_zremove_neq; assumption.
  - apply zmem_false in E. apply zmem_false. intros C. apply E. eapply In_zremove; eauto.
Qed.

Lemma r_alive_del_other x m e : x <> e -> r_alive (r_del x m) e = r_alive m e.
Proof.
  intros N. destruct x as [j|j|j|j], e as [i|i|i|i]; cbn [r_del r_alive r_tm r_cl r_li r_es]; try reflexivity;
    apply zmem_zremove_neq; congruence.
Qed.

Lemma RI_add x m : RI m -> ~ In x (r_seen m) -> RI (r_add x m).
Proof.
  intros [S N1 N2 N3 N4] Hn.
  assert (r_alive m x = false) as Hd by (destruct (r_alive m x) eqn:E; [exfalso; apply Hn; apply S; exact E | reflexivity]).
  constructor.
  - intros e He. rewrite r_alive_add in He. destruct x; cbn [r_add r_seen]; apply orb_true_iff in He; destruct He as [He|He];
      try (right; apply S; exact He); apply ent_eqb_eq in He; subst; left; reflexivity.
  - destruct x; cbn [r_add r_tm]; auto. apply NoDup_snoc; [exact N1|]. cbn [r_alive] in Hd. apply zmem_false; exact Hd.
  - destruct x; cbn [r_add r_cl]; auto. apply NoDup_snoc; [exact N2|]. cbn [r_alive] in Hd. apply zmem_false; exact Hd.
  - destruct x; cbn [r_add r_li]; auto. apply NoDup_snoc; [exact N3|]. cbn [r_alive] in Hd. apply zmem_false; exact Hd.
  - destruct x; cbn [r_add r_es]; auto. apply NoDup_snoc; [exact N4|]. cbn [r_alive] in Hd. apply zmem_false; exact Hd.
Qed.

Lemma r_alive_del_self x m : RI m -> r_alive (r_del x m) x = false.
Proof.
  intros [S N1 N2 N3 N4]. destruct x; cbn [r_del r_alive r_tm r_cl r_li r_es]; apply zmem_false; apply notin_zremove; assumption.
Qed.

Lemma RI_del x m : RI m -> RI (r_del x m).
Proof.
  intros H. pose proof H as [S N1 N2 N3 N4]. constructor.
  - intros e He. replace (r_seen (r_del x m)) with (r_seen m) by (destruct x; reflexivity).
    destruct (ent_eqb x e) eqn:E.
    + apply ent_eqb_eq in E; subst. rewrite r_alive_del_self in He by exact H. discriminate.
    + apply ent_eqb_neq in E. rewrite r_alive_del_other in He by exact E. auto.
  - destruct x; cbn [r_del r_tm]; auto. apply NoDup_zremove; assumption.
  - destruct x; cbn [r_del r_cl]; auto. apply NoDup_zremove; assumption.
  - destruct x; cbn [r_del r_li]; auto. apply NoDup_zremove; assumption.
  - destruct x; cbn [r_del r_es]; auto. apply NoDup_zremove; assumption.
Qed.

Lemma RI_setreg v ld m : RI m -> RI (r_setreg v ld m).
Proof. intros [S N1 N2 N3 N4]. constructor; cbn; auto. Qed.

(* the shape of every accepted step: the live sets change only by r_add of an unseen object or r_del *)
Inductive rshape (m : rmon) : rmon -> Prop :=
| rs_same v ld : rshape m (r_setreg v ld m)
| rs_add x : ~ In x (r_seen m) -> rshape m (r_add x m)
| rs_del x : rshape m (r_del x m).

Ltac ifs H :=
  repeat match type of H with
         | (if ?c then _ else _) = Some _ => let E := fresh "E" in destruct c eqn:E; [|try discriminate H]
         | (match ?c with _ => _ end) = Some _ => let E := fresh "E" in destruct c eqn:E; try discriminate H
         end.

Lemma rmon_step_shape m x m' : rmon_step m x = Some m' -> rshape m m'.
Proof.
  intros H. destruct x; cbn [rmon_step] in H; ifs H; injection H as <-;
    try (apply rs_del); try (unfold r_plain; apply rs_same); try (apply rs_same).
  - exact (rs_del m (Cl i)).
  - apply rs_add. apply andb_true_iff in E. destruct E as [_ E]. apply negb_true_iff in E. apply emem_false; exact E.
  - exact (rs_del m (Cl i)).
Qed.

Lemma RI_step m x m' : RI m -> rmon_step m x = Some m' -> RI m'.
Proof.
  intros H S. apply rmon_step_shape in S. destruct S; [apply RI_setreg | apply RI_add | apply RI_del]; assumption.
Qed.

Lemma RI_init : RI rmon0.
Proof. constructor; cbn; try constructor. intros e He. destruct e; discriminate. Qed.

(* dead: not alive, but seen (so the identity can never be created again) *)
Definition dead (e : ent) (m : rmon) : Prop := r_alive m e = false /\ In e (r_seen m).

Lemma dead_shape e m m' : rshape m m' -> dead e m -> dead e m'.
Proof.
  intros S [D1 D2]. destruct S.
  - split; [destruct e; exact D1 | exact D2].
  - split.
    + rewrite r_alive_add, D1. cbn [orb]. apply ent_eqb_neq. intros ->. contradiction.
    + destruct x; cbn [r_add r_seen]; right; exact D2.
  - split; [|destruct x; exact D2].
    destruct (ent_eqb x e) eqn:E.
    + apply ent_eqb_eq in E; subst. destruct e; cbn [r_del r_alive r_tm r_cl r_li r_es] in *;
        apply zmem_false; intros C; apply In_zremove in C; apply zmem_false in D1; contradiction.
    + apply ent_eqb_neq in E. rewrite r_alive_del_other by exact E. exact D1.
Qed.

(* the callbacks an object receives *)
Definition callback_for (e : ent) (x : ev) : bool :=
  match x with
  | EvCb e' _ _ => ent_eqb e' e
  | EvAct t _ _ => ent_eqb (Tm t) e
  | EvIntro e' _ _ _ => ent_eqb e' e
  | _ => false
  end.

Lemma dead_no_callback e m x m' : dead e m -> rmon_step m x = Some m' -> callback_for e x = false.
Proof.
  intros [D1 D2] S. destruct x; cbn [callback_for]; try reflexivity.
  - cbn [rmon_step] in S. destruct (r_alive m (Tm t)) eqn:A; [|discriminate].
    apply ent_eqb_neq. intros <-. congruence.
  - cbn [rmon_step] in S. destruct (r_alive m e0) eqn:A; [|discriminate].
    apply ent_eqb_neq. intros ->. congruence.
  - cbn [rmon_step] in S. destruct (r_alive m e0) eqn:A; [|discriminate].
    apply ent_eqb_neq. intros ->. congruence.
Qed.

(* the events after which an object is gone *)
Definition gone (e : ent) (x : ev) : bool :=
  match x with
  | EvRemoved e' => ent_eqb e' e
  | EvDeferred e' => ent_eqb e' e            (* remove() of the client that is being announced *)
  | EvIntroRet i false => ent_eqb (Cl i) e
  | _ => false
  end.

Lemma gone_dead e m x m' : RI m -> gone e x = true -> rmon_step m x = Some m' -> dead e m'.
Proof.
  intros H G S. destruct x; cbn [gone] in G; try discriminate.
  - destruct acc; [discriminate|]. apply ent_eqb_eq in G; subst e. cbn [rmon_step] in S.
    destruct (r_alive m (Cl i)) eqn:A.
    + injection S as <-. split; [exact (r_alive_del_self (Cl i) m H) | apply (ri_seen _ H); exact A].
    + destruct (emem (Cl i) (r_seen m)) eqn:Se; [|discriminate]. injection S as <-.
      split; [exact A | apply emem_In; exact Se].
  - apply ent_eqb_eq in G; subst e0. cbn [rmon_step] in S.
    destruct (r_alive m e) eqn:A; [|discriminate]. destruct (negb _); [|discriminate]. injection S as <-.
    split; [exact (r_alive_del_self e m H) | destruct e; apply (ri_seen _ H); exact A].
  - apply ent_eqb_eq in G; subst e0. cbn [rmon_step] in S. destruct e as [i|i|i|i]; try discriminate.
    destruct (r_alive m (Cl i)) eqn:A; [|discriminate]. injection S as <-.
    split; [exact (r_alive_del_self (Cl i) m H) | apply (ri_seen _ H); exact A].
Qed.

Theorem accepted_no_callback_after_remove later x earlier e :
  rmon_run (later ++ x :: earlier) <> None -> gone e x = true ->
  forallb (fun y => negb (callback_for e y)) later = true.
Proof.
  unfold rmon_run. intros Acc G.
  assert (exists m1, mon_run rmon_step rmon0 (x :: earlier) = Some m1 /\ RI m1 /\ dead e m1) as [m1 [A1 [I1 D1]]].
  { rewrite mon_run_app in Acc. destruct (mon_run rmon_step rmon0 (x :: earlier)) as [m1|] eqn:E; [|congruence].
    exists m1. split; [reflexivity|]. cbn [mon_run] in E. destruct (mon_run rmon_step rmon0 earlier) as [m0|] eqn:E0; [|discriminate].
    assert (RI m0) as I0 by (eapply (mon_run_inv rmon_step RI); [apply RI_init | intros; eapply RI_step; eauto | exact E0]).
    split; [eapply RI_step; eauto | eapply gone_dead; eauto]. }
  rewrite mon_run_app, A1 in Acc. clear A1.
  induction later as [|y later IH]; [reflexivity|].
  cbn [mon_run] in Acc. destruct (mon_run rmon_step m1 later) as [m2|] eqn:E2; [|congruence].
  cbn [forallb]. rewrite IH by congruence. rewrite andb_true_r.
  assert (dead e m2) as D2.
  { clear IH Acc. revert m2 E2. induction later as [|z later IH]; cbn [mon_run]; intros m2 E2; [inversion E2; subst; exact D1|].
    destruct (mon_run rmon_step m1 later) as [m3|]; [|discriminate].
    eapply dead_shape; [eapply rmon_step_shape; exact E2 | apply IH; reflexivity]. }
  destruct (rmon_step m2 y) as [m3|] eqn:E3; [|congruence].
  rewrite (dead_no_callback e m2 y m3 D2 E3). reflexivity.
Qed.

(* ========== timers ============================================================================================================== *)
(* what the log says about timer t: clock at creation, interval, activations since *)
Fixpoint tinfo (t : Z) (tr : list ev) : option (Z * Z * Z) :=
  match tr with
  | [] => None
  | x :: r =>
      match x with
      | EvCreated (Tm i) c iv => if i =? t then (match tinfo t r with None => Some (c, iv, 0) | o => o end) else tinfo t r
      | EvRemoved (Tm i) => if i =? t then None else tinfo t r
      | EvAct i _ _ => if i =? t then option_map (fun x => (fst (fst x), snd (fst x), snd x + 1)) (tinfo t r) else tinfo t r
      | _ => tinfo t r
      end
  end.

(* both monitors see the same live timers; the table's keys are distinct; its entries are what the log says *)
Definition TR (tr : list ev) (mt : tmon) (mr : rmon) : Prop :=
  r_tm mr = map fst (tm_tab mt) /\ RI mr /\ forall t, alookup Z.eqb t (tm_tab mt) = tinfo t tr.

Lemma tirr_tinfo t x r : tirr x = true -> tinfo t (x :: r) = tinfo t r.
Proof. intros I. destruct x; cbn in *; try discriminate; try reflexivity; destruct e; cbn in *; try discriminate; reflexivity. Qed.

Lemma TR_step tr mt mr x mt' mr' :
  TR tr mt mr -> tmon_step mt x = Some mt' -> rmon_step mr x = Some mr' -> TR (x :: tr) mt' mr'.
Proof.
  intros (K & I & T) St Sr. pose proof (RI_step _ _ _ I Sr) as I'.
  assert (NoDup (map fst (tm_tab mt))) as ND by (rewrite <- K; apply (ri_nd_t _ I)).
  destruct (tirr x) eqn:Ir.
  - (* not a timer event: the table is unchanged, and so are the live timers *)
    rewrite tmon_step_irr in St by exact Ir. injection St as <-.
    split; [|split; [exact I'|intros t; rewrite tirr_tinfo by exact Ir; apply T]].
    rewrite <- K. pose proof (rmon_step_shape _ _ _ Sr) as Sh.
    destruct x; cbn in Ir; try discriminate; cbn [rmon_step] in Sr; ifs Sr; injection Sr as <-; try reflexivity;
      repeat match goal with
             | |- context [r_add ?e _] => is_var e; destruct e; try discriminate
             | |- context [r_del ?e _] => is_var e; destruct e; try discriminate
             end; reflexivity.
  - destruct x; cbn in Ir; try discriminate.
    + (* EvNow *) cbn in St, Sr. injection St as <-. injection Sr as <-. split; [exact K | split; [exact I' | exact T]].
    + (* EvAct *) cbn [tmon_step] in St. destruct (alookup Z.eqb t (tm_tab mt)) as [[[c iv] n]|] eqn:L; [|discriminate].
      destruct (_ && _); [|discriminate]. injection St as <-.
      cbn [rmon_step] in Sr. destruct (r_alive mr (Tm t)); [|discriminate]. injection Sr as <-.
      cbn [tm_tab]. split; [|split; [exact I'|]].
      * cbn. rewrite keys_aset_in; [exact K | apply zeq | eapply alookup_Some_key; [apply zeq | eauto]].
      * intros t'. cbn [tinfo tm_tab]. destruct (t =? t') eqn:E.
        -- apply Z.eqb_eq in E; subst t'. rewrite alookup_aset_eq by apply zeq. rewrite <- T, L. reflexivity.
        -- apply Z.eqb_neq in E. rewrite alookup_aset_neq by (try apply zeq; congruence). apply T.
    + (* EvWait *) cbn [tmon_step] in St. destruct (forallb _ _); [|discriminate]. injection St as <-.
      cbn in Sr. injection Sr as <-. split; [exact K | split; [exact I' | exact T]].
    + (* EvCreated *) destruct e; try discriminate. cbn [tmon_step] in St. injection St as <-.
      cbn [rmon_step] in Sr. destruct (_ && _) eqn:F; [|discriminate]. injection Sr as <-.
      apply andb_true_iff in F. destruct F as [_ F]. apply negb_true_iff, emem_false in F.
      assert (~ In i (map fst (tm_tab mt))) as Hn.
      { rewrite <- K. intros C. apply F. apply (ri_seen _ I). cbn [r_alive]. apply zmem_In; exact C. }
      cbn [tm_tab]. split; [|split; [exact I'|]].
      * cbn [r_add r_tm tm_tab]. rewrite map_app, K. reflexivity.
      * intros t'. cbn [tinfo tm_tab]. rewrite alookup_app. destruct (i =? t') eqn:E.
        -- apply Z.eqb_eq in E; subst t'. apply (alookup_None Z.eqb zeq) in Hn. rewrite <- T, Hn. cbn [alookup]. rewrite Z.eqb_refl. reflexivity.
        -- rewrite <- T. destruct (alookup Z.eqb t' (tm_tab mt)); [reflexivity|]. cbn [alookup]. rewrite E. reflexivity.
    + (* EvRemoved *) destruct e; try discriminate. cbn [tmon_step] in St. injection St as <-.
      cbn [rmon_step] in Sr. destruct (_ && _); [|discriminate]. injection Sr as <-.
      cbn [tm_tab]. split; [|split; [exact I'|]].
      * cbn [r_del r_tm tm_tab]. rewrite K. apply zremove_keys.
      * intros t'. cbn [tinfo tm_tab]. destruct (i =? t') eqn:E.
        -- apply Z.eqb_eq in E; subst t'. apply alookup_aremove_eq; [apply zeq | exact ND].
        -- apply Z.eqb_neq in E. rewrite alookup_aremove_neq by (try apply zeq; congruence). apply T.
Qed.

Lemma TR_run tr mt mr : tmon_run tr = Some mt -> rmon_run tr = Some mr -> TR tr mt mr.
Proof.
  unfold tmon_run, rmon_run. revert mt mr. induction tr as [|x tr IH]; cbn [mon_run]; intros mt mr Et Er.
  - injection Et as <-. injection Er as <-. split; [reflexivity | split; [apply RI_init | reflexivity]].
  - destruct (mon_run tmon_step tmon0 tr) as [mt0|]; [|discriminate]. destruct (mon_run rmon_step rmon0 tr) as [mr0|]; [|discriminate].
    eapply TR_step; eauto.
Qed.

(* every activation in an accepted log: the timer was created at clock c with interval iv and has been activated n times
   since; this activation is the one due at c + (n+1)*iv; it is not early; no live timer is due earlier *)
Theorem accepted_activation later t due now earlier :
  tmon_run (later ++ EvAct t due now :: earlier) <> None -> rmon_run (later ++ EvAct t due now :: earlier) <> None ->
  exists c iv n, tinfo t earlier = Some (c, iv, n) /\ due = c + (n + 1) * iv /\ due <= now /\
    forall t' c' iv' n', tinfo t' earlier = Some (c', iv', n') -> due <= c' + (n' + 1) * iv'.
Proof.
  unfold tmon_run, rmon_run. rewrite !mon_run_app. cbn [mon_run]. intros At Ar.
  destruct (mon_run tmon_step tmon0 earlier) as [mt|] eqn:Et; [|congruence].
  destruct (mon_run rmon_step rmon0 earlier) as [mr|] eqn:Er; [|congruence].
  pose proof (TR_run earlier mt mr Et Er) as (K & I & T).
  destruct (tmon_step mt (EvAct t due now)) as [mt'|] eqn:St; [|congruence].
  cbn [tmon_step] in St. destruct (alookup Z.eqb t (tm_tab mt)) as [[[c iv] n]|] eqn:L; [|discriminate].
  destruct (_ && _) eqn:C; [|discriminate].
  apply andb_true_iff in C. destruct C as [C C4]. apply andb_true_iff in C. destruct C as [C C3].
  apply andb_true_iff in C. destruct C as [C1 C2]. apply Z.eqb_eq in C1. apply Z.leb_le in C2.
  exists c, iv, n. rewrite <- T. split; [exact L | split; [exact C1 | split; [exact C2|]]].
  intros t' c' iv' n' L'. rewrite <- T in L'. apply (alookup_In Z.eqb zeq) in L'.
  rewrite forallb_forall in C4. specialize (C4 _ L'). apply Z.leb_le in C4. exact C4.
Qed.

(* the clock value the loop sampled last *)
Fixpoint now_of (tr : list ev) : Z :=
  match tr with [] => 0 | EvNow n :: _ => n | _ :: r => now_of r end.

Lemma tmon_now_of tr mt : tmon_run tr = Some mt -> tm_now mt = now_of tr.
Proof.
  unfold tmon_run. revert mt. induction tr as [|x tr IH]; cbn [mon_run]; intros mt E.
  - injection E as <-. reflexivity.
  - destruct (mon_run tmon_step tmon0 tr) as [m0|]; [|discriminate]. specialize (IH m0 eq_refl).
    destruct x; cbn [tmon_step now_of] in *; ifs E; injection E as <-; cbn [tm_now]; try exact IH; reflexivity.
Qed.

(* the loop never sleeps past a due time: when it waits with time-out t after having sampled the clock at now, no live
   timer (created at c, interval iv, activated n times so far) is due before now + t *)
Theorem accepted_wait_not_past_due later t earlier :
  tmon_run (later ++ EvWait t :: earlier) <> None -> rmon_run (later ++ EvWait t :: earlier) <> None ->
  forall t' c iv n, tinfo t' earlier = Some (c, iv, n) -> now_of earlier + t <= c + (n + 1) * iv.
Proof.
  unfold tmon_run, rmon_run. rewrite !mon_run_app. cbn [mon_run]. intros At Ar.
  destruct (mon_run tmon_step tmon0 earlier) as [mt|] eqn:Et; [|congruence].
  destruct (mon_run rmon_step rmon0 earlier) as [mr|] eqn:Er; [|congruence].
  pose proof (TR_run earlier mt mr Et Er) as (K & I & T). pose proof (tmon_now_of earlier mt Et) as N.
  destruct (tmon_step mt (EvWait t)) as [mt'|] eqn:St; [|congruence].
  cbn [tmon_step] in St. destruct (forallb _ _) eqn:C; [|discriminate].
  intros t' c iv n L'. rewrite <- T in L'. apply (alookup_In Z.eqb zeq) in L'.
  rewrite forallb_forall in C. specialize (C _ L'). apply Z.leb_le in C. cbn [snd tm_due] in C. rewrite <- N. exact C.
Qed.

(* ========== failed reads and writes ============================================================================================= *)
Definition settles (i : Z) (x : ev) : bool :=
  match x with
  | EvCb (Cl j) KClosed _ => j =? i
  | EvRemoved (Cl j) => j =? i
  | EvDeferred (Cl j) => j =? i
  | EvIntroRet j false => j =? i
  | _ => false
  end.

Definition fails (i : Z) (x : ev) : bool :=
  match x with
  | EvRecv j r => (j =? i) && failed_io r
  | EvSend j _ r false => (j =? i) && failed_io r
  | _ => false
  end.

Lemma owed_step i m x m' : cmon_step m x = Some m' -> In i (c_owed m) -> settles i x = false -> In i (c_owed m').
Proof.
  intros S Hin Hs. unfold cmon_step in S. destruct (c_must m) as [j|].
  - destruct x; try discriminate; try (injection S as <-; exact Hin).
    destruct e; try discriminate. destruct k; try discriminate. destruct (i0 =? j) eqn:E; [|discriminate]. injection S as <-.
    cbn [c_owed]. apply In_zremove_all. split; [|exact Hin]. apply Z.eqb_eq in E. subst j. cbn in Hs. apply Z.eqb_neq in Hs. congruence.
  - destruct x; try (injection S as <-; exact Hin).
    + destruct e; try (injection S as <-; exact Hin); destruct k; try (injection S as <-; exact Hin);
        try (destruct (is_nil (c_owed m)); [|discriminate]; injection S as <-; exact Hin).
      injection S as <-. cbn [c_owed]. apply In_zremove_all. split; [|exact Hin]. cbn in Hs. apply Z.eqb_neq in Hs. congruence.
    + destruct acc; injection S as <-; [exact Hin|]. cbn [c_owed]. apply In_zremove_all. split; [|exact Hin].
      cbn in Hs. apply Z.eqb_neq in Hs. congruence.
    + destruct (is_nil (c_owed m)); [|discriminate]. injection S as <-; exact Hin.
    + destruct disp.
      * destruct (is_nil (c_owed m)); [|discriminate]. injection S as <-. destruct (failed_io r); exact Hin.
      * injection S as <-. destruct (failed_io r); [right|]; exact Hin.
    + injection S as <-. destruct (failed_io r); [right|]; exact Hin.
    + destruct (is_nil (c_owed m)); [|discriminate]. injection S as <-; exact Hin.
    + destruct (is_nil (c_owed m)); [|discriminate]. injection S as <-; exact Hin.
    + destruct e; try (injection S as <-; exact Hin). injection S as <-. cbn [c_owed]. apply In_zremove_all. split; [|exact Hin].
      cbn in Hs. apply Z.eqb_neq in Hs. congruence.
    + destruct e; try (injection S as <-; exact Hin). injection S as <-. cbn [c_owed]. apply In_zremove_all. split; [|exact Hin].
      cbn in Hs. apply Z.eqb_neq in Hs. congruence.
    + destruct (is_nil (c_owed m)); [|discriminate]. injection S as <-; exact Hin.
Qed.

Lemma fails_owed i m x m' : cmon_step m x = Some m' -> fails i x = true -> In i (c_owed m').
Proof.
  intros S F. unfold cmon_step in S. destruct x; cbn in F; try discriminate.
  - destruct disp; [discriminate|]. apply andb_true_iff in F. destruct F as [F1 F2]. apply Z.eqb_eq in F1; subst i0.
    destruct (c_must m); [discriminate|]. injection S as <-. rewrite F2. left; reflexivity.
  - apply andb_true_iff in F. destruct F as [F1 F2]. apply Z.eqb_eq in F1; subst i0.
    destruct (c_must m); [discriminate|]. injection S as <-. rewrite F2. left; reflexivity.
Qed.

Lemma check_empty m x m' : cmon_step m x = Some m' -> ccheck x = true -> c_owed m = [].
Proof.
  intros S C. unfold cmon_step in S. destruct (c_must m).
  - destruct x; cbn in C; try discriminate. destruct e; destruct k; discriminate.
  - destruct x; cbn in C; try discriminate; try (destruct (c_owed m); [reflexivity | discriminate]).
    destruct e; destruct k; try discriminate; destruct (c_owed m); try reflexivity; discriminate.
Qed.

(* a failed read or write of client i is answered (onClosed, or the client's removal) before the loop waits for, or
   dispatches, another socket event, and before run() returns *)
Theorem accepted_failed_io_answered l3 w l2 f l1 i :
  cmon_run (l3 ++ w :: l2 ++ f :: l1) <> None -> fails i f = true -> ccheck w = true ->
  existsb (settles i) l2 = true.
Proof.
  unfold cmon_run. rewrite mon_run_app. cbn [mon_run]. rewrite mon_run_app. cbn [mon_run].
  intros Acc F C.
  destruct (mon_run cmon_step cmon0 l1) as [m1|]; [|congruence].
  destruct (cmon_step m1 f) as [m2|] eqn:S2; [|congruence].
  pose proof (fails_owed i m1 f m2 S2 F) as Hin.
  destruct (mon_run cmon_step m2 l2) as [m3|] eqn:R3; [|congruence].
  destruct (cmon_step m3 w) as [m4|] eqn:S4; [|congruence].
  pose proof (check_empty m3 w m4 S4 C) as Emp.
  destruct (existsb (settles i) l2) eqn:Ex; [reflexivity|]. exfalso.
  assert (In i (c_owed m3)) as K; [|rewrite Emp in K; exact K].
  clear S4 Emp Acc. revert m3 R3. induction l2 as [|y l2 IH]; cbn [mon_run]; intros m3 R3.
  - injection R3 as <-. exact Hin.
  - cbn [existsb] in Ex. apply orb_false_iff in Ex. destruct Ex as [Ey Ex].
    destruct (mon_run cmon_step m2 l2) as [m|] eqn:R; [|discriminate].
    eapply owed_step; [exact R3 | apply IH; [exact Ex | reflexivity] | exact Ey].
Qed.

(* ========== interrupt =========================================================================================================== *)
Fixpoint pending_of (tr : list ev) : bool :=
  match tr with
  | [] => false
  | EvInterrupt _ :: _ => true
  | EvRunRet :: _ => false
  | _ :: r => pending_of r
  end.

Lemma imon_pending tr m : imon_run tr = Some m -> i_pending m = pending_of tr.
Proof.
  unfold imon_run. revert m. induction tr as [|x tr IH]; cbn [mon_run]; intros m E.
  - injection E as <-. reflexivity.
  - destruct (mon_run imon_step imon0 tr) as [m0|]; [|discriminate]. specialize (IH m0 eq_refl).
    destruct x; cbn [imon_step pending_of] in *; ifs E; inversion E; subst; cbn [i_pending]; auto.
Qed.

(* run() returns only when interrupt() was called since it last returned *)
Theorem accepted_ret_needs_interrupt later earlier :
  imon_run (later ++ EvRunRet :: earlier) <> None -> pending_of earlier = true.
Proof.
  unfold imon_run. rewrite mon_run_app. cbn [mon_run]. intros Acc.
  destruct (mon_run imon_step imon0 earlier) as [m|] eqn:E; [|congruence].
  rewrite <- (imon_pending earlier m E).
  destruct (imon_step m EvRunRet) eqn:S; [|congruence]. cbn [imon_step] in S.
  destruct (i_inrun m && i_pending m) eqn:C; [|discriminate]. apply andb_true_iff in C. tauto.
Qed.

Definition quiet (x : ev) : bool := match x with EvItem _ | EvInterrupt _ => true | _ => false end.

(* when interrupt() was called before the loop waits, that wait is its last action: the next thing is the return of run() *)
Theorem accepted_wait_is_last rest y q t earlier :
  imon_run (rest ++ y :: q ++ EvWait t :: earlier) <> None -> pending_of earlier = true ->
  forallb quiet q = true -> quiet y = false -> y = EvRunRet.
Proof.
  unfold imon_run. rewrite mon_run_app. cbn [mon_run]. rewrite mon_run_app. cbn [mon_run]. intros Acc P Q Y.
  destruct (mon_run imon_step imon0 earlier) as [m0|] eqn:E0; [|congruence].
  pose proof (imon_pending earlier m0 E0) as P0. rewrite P in P0.
  destruct (imon_step m0 (EvWait t)) as [m1|] eqn:S1; [|congruence].
  assert (i_pending m1 = true /\ i_wait m1 = true) as [P1 W1].
  { cbn [imon_step] in S1. destruct (i_wait m0); [discriminate|]. destruct (i_inrun m0); [|discriminate]. injection S1 as <-. cbn. auto. }
  destruct (mon_run imon_step m1 q) as [m2|] eqn:R2; [|congruence].
  assert (i_pending m2 = true /\ i_wait m2 = true) as [P2 W2].
  { clear Acc. revert m2 R2. induction q as [|z q IH]; cbn [mon_run]; intros m2 R2; [injection R2 as <-; auto|].
    cbn [forallb] in Q. apply andb_true_iff in Q. destruct Q as [Qz Q].
    destruct (mon_run imon_step m1 q) as [m|]; [|discriminate]. destruct (IH Q m eq_refl) as [Pm Wm].
    destruct z; cbn in Qz; try discriminate; cbn [imon_step] in R2; injection R2 as <-; cbn; rewrite ?Pm, ?Wm, ?orb_true_r; auto. }
  destruct (imon_step m2 y) as [m3|] eqn:S3; [|congruence].
  destruct y; cbn in Y; try discriminate; try reflexivity; cbn [imon_step] in S3; rewrite ?W2, ?orb_true_r in S3; discriminate.
Qed.

(* ========== registrations and event kinds ====================================================================================== *)
(* what the log says about the registration of e: the mask of its last epoll_ctl, unless that was a DEL *)
Fixpoint reg_of (e : ent) (tr : list ev) : option Z :=
  match tr with
  | [] => None
  | EvCtl CDel x _ :: r => if ent_eqb x e then None else reg_of e r
  | EvCtl _ x mask :: r => if ent_eqb x e then Some mask else reg_of e r
  | _ :: r => reg_of e r
  end.

Definition RG (tr : list ev) (m : rmon) : Prop :=
  NoDup (map fst (r_reg m)) /\ forall e, alookup ent_eqb e (r_reg m) = reg_of e tr.

Lemma r_reg_add x m : r_reg (r_add x m) = r_reg m. Proof. destruct x; reflexivity. Qed.
Lemma r_reg_del x m : r_reg (r_del x m) = r_reg m. Proof. destruct x; reflexivity. Qed.

Lemma RG_step tr m x m' : RG tr m -> rmon_step m x = Some m' -> RG (x :: tr) m'.
Proof.
  intros [ND L] S.
  destruct x; try (cbn [rmon_step] in S; ifs S; injection S as <-; unfold RG; cbn [reg_of r_plain r_setreg r_reg]; rewrite ?r_reg_add, ?r_reg_del; split; assumption).
  (* EvCtl *)
  destruct o; cbn [rmon_step] in S; ifs S; injection S as <-; unfold RG; cbn [reg_of r_setreg r_reg].
  - apply andb_true_iff in E. destruct E as [E _]. apply andb_true_iff in E. destruct E as [_ E]. apply negb_true_iff in E.
    unfold reg_has in E. destruct (alookup ent_eqb e (r_reg m)) eqn:El; [discriminate|].
    pose proof El as Hn. apply (alookup_None ent_eqb ent_eqb_eq) in Hn. split.
    + rewrite map_app. cbn [map fst]. apply NoDup_snoc; assumption.
    + intros e'. rewrite alookup_app. destruct (ent_eqb e e') eqn:Ee.
      * apply ent_eqb_eq in Ee; subst e'. rewrite El. cbn [alookup]. rewrite ent_eqb_refl. reflexivity.
      * rewrite <- L. destruct (alookup ent_eqb e' (r_reg m)); [reflexivity|]. cbn [alookup]. rewrite Ee. reflexivity.
  - split; [apply NoDup_keys_aset; [apply ent_eqb_eq | exact ND]|].
    intros e'. destruct (ent_eqb e e') eqn:Ee.
    + apply ent_eqb_eq in Ee; subst e'. apply alookup_aset_eq. apply ent_eqb_eq.
    + apply ent_eqb_neq in Ee. rewrite alookup_aset_neq by (try apply ent_eqb_eq; congruence). apply L.
  - split; [apply NoDup_keys_aremove; exact ND|].
    intros e'. destruct (ent_eqb e e') eqn:Ee.
    + apply ent_eqb_eq in Ee; subst e'. apply alookup_aremove_eq; [apply ent_eqb_eq | exact ND].
    + apply ent_eqb_neq in Ee. rewrite alookup_aremove_neq by (try apply ent_eqb_eq; congruence). apply L.
Qed.

Lemma RG_run tr m : rmon_run tr = Some m -> RG tr m.
Proof.
  unfold rmon_run. revert m. induction tr as [|x tr IH]; cbn [mon_run]; intros m E.
  - injection E as <-. split; [constructor | reflexivity].
  - destruct (mon_run rmon_step rmon0 tr) as [m0|]; [|discriminate]. eapply RG_step; eauto.
Qed.

(* the first observable effect of each dispatched event kind, and the registration it needs *)
Definition needs_reg (x : ev) : option (ent * (Z -> bool)) :=
  match x with
  | EvCb (Cl i) KRead _ => Some (Cl i, has_in)            (* read readiness: onRead *)
  | EvSend i _ _ true => Some (Cl i, has_out)             (* write readiness: the loop sends the backlog *)
  | EvAccept i _ => Some (Li i, has_in)                   (* accept readiness *)
  | _ => None
  end.

Theorem accepted_dispatch_registered later x earlier e p :
  rmon_run (later ++ x :: earlier) <> None -> needs_reg x = Some (e, p) ->
  exists mask, reg_of e earlier = Some mask /\ p mask = true.
Proof.
  unfold rmon_run. rewrite mon_run_app. cbn [mon_run]. intros Acc N.
  destruct (mon_run rmon_step rmon0 earlier) as [m|] eqn:E; [|congruence].
  destruct (RG_run earlier m E) as [_ L]. rewrite <- L.
  destruct (rmon_step m x) as [m'|] eqn:S; [|congruence].
  destruct x; cbn in N; try discriminate.
  - destruct e0; try discriminate. destruct k; try discriminate. injection N as <- <-.
    cbn [rmon_step] in S. destruct (r_alive m (Cl i)); [|discriminate]. cbn [andb] in S. unfold reg_has in S.
    destruct (alookup ent_eqb (Cl i) (r_reg m)) as [mask|]; [|discriminate]. destruct (has_in mask) eqn:Hm; [|discriminate]. eauto.
  - destruct disp; [|discriminate]. injection N as <- <-.
    cbn [rmon_step] in S. destruct (r_alive m (Cl i)); [|discriminate]. cbn [andb] in S. unfold reg_has in S.
    destruct (alookup ent_eqb (Cl i) (r_reg m)) as [mask|]; [|discriminate]. destruct (has_out mask) eqn:Hm; [|discriminate]. eauto.
  - injection N as <- <-.
    cbn [rmon_step] in S. destruct (r_alive m (Li i)); [|discriminate]. cbn [andb] in S. unfold reg_has in S.
    destruct (alookup ent_eqb (Li i) (r_reg m)) as [mask|]; [|discriminate]. destruct (has_in mask) eqn:Hm; [|discriminate]. eauto.
Qed.

Lemma r_lastdel_add x m : r_lastdel (r_add x m) = None. Proof. destruct x; reflexivity. Qed.
Lemma r_lastdel_del x m : r_lastdel (r_del x m) = None. Proof. destruct x; reflexivity. Qed.

Lemma lastdel_inv m0 y m o e old : rmon_step m0 y = Some m -> r_lastdel m = Some (o, e, old) ->
  exists mask, y = EvCtl o e mask /\ alookup ent_eqb e (r_reg m0) = Some old.
Proof.
  intros S Ld.
  destruct y; cbn [rmon_step] in S; ifs S; injection S as <-;
    rewrite ?r_lastdel_add, ?r_lastdel_del in Ld; try (cbn in Ld; discriminate).
  all: try (exfalso; revert Ld; clear; intros Ld; match type of Ld with r_lastdel (r_del ?x _) = _ => rewrite r_lastdel_del in Ld end; discriminate).
  all: cbn in Ld; injection Ld as <- <- <-; eauto.
Qed.

(* the connect readiness: the SO_ERROR query comes right after the establisher's connect interest was withdrawn *)
Theorem accepted_connect_dispatch later i err earlier :
  rmon_run (later ++ EvSoErr i err :: earlier) <> None ->
  exists mask rest, earlier = EvCtl CDel (Es i) mask :: rest /\ exists old, reg_of (Es i) rest = Some old /\ has_out old = true.
Proof.
  unfold rmon_run. rewrite mon_run_app. cbn [mon_run]. intros Acc.
  destruct (mon_run rmon_step rmon0 earlier) as [m|] eqn:E; [|congruence].
  destruct (rmon_step m (EvSoErr i err)) as [m'|] eqn:S; [|congruence].
  cbn [rmon_step] in S. destruct (r_lastdel m) as [[[[| |] [j|j|j|j]] old]|] eqn:Ld; try discriminate.
  destruct ((j =? i) && r_alive m (Es i) && has_out old) eqn:C; [|discriminate].
  apply andb_true_iff in C. destruct C as [C C3]. apply andb_true_iff in C. destruct C as [C1 _]. apply Z.eqb_eq in C1; subst j.
  destruct earlier as [|y rest]; [cbn in E; injection E as <-; discriminate|].
  cbn [mon_run] in E. destruct (mon_run rmon_step rmon0 rest) as [m0|] eqn:E0; [|discriminate].
  destruct (RG_run rest m0 E0) as [_ L0].
  destruct (lastdel_inv m0 y m CDel (Es i) old E Ld) as [mask [-> Lo]].
  exists mask, rest. split; [reflexivity|]. exists old. rewrite <- L0. auto.
Qed.

(* the write readiness: onWrite comes right after the client's write interest was withdrawn (the backlog is sent) *)
Theorem accepted_write_dispatch later i c earlier :
  rmon_run (later ++ EvCb (Cl i) KWrite c :: earlier) <> None ->
  exists mask rest, earlier = EvCtl CMod (Cl i) mask :: rest /\ exists old, reg_of (Cl i) rest = Some old /\ has_out old = true.
Proof.
  unfold rmon_run. rewrite mon_run_app. cbn [mon_run]. intros Acc.
  destruct (mon_run rmon_step rmon0 earlier) as [m|] eqn:E; [|congruence].
  destruct (rmon_step m (EvCb (Cl i) KWrite c)) as [m'|] eqn:S; [|congruence].
  cbn [rmon_step] in S. destruct (r_alive m (Cl i)); [|discriminate]. cbn [andb] in S.
  destruct (r_lastdel m) as [[[[| |] [j|j|j|j]] old]|] eqn:Ld; try discriminate.
  destruct ((j =? i) && has_out old) eqn:C; [|discriminate].
  apply andb_true_iff in C. destruct C as [C1 C3]. apply Z.eqb_eq in C1; subst j.
  destruct earlier as [|y rest]; [cbn in E; injection E as <-; discriminate|].
  cbn [mon_run] in E. destruct (mon_run rmon_step rmon0 rest) as [m0|] eqn:E0; [|discriminate].
  destruct (RG_run rest m0 E0) as [_ L0].
  destruct (lastdel_inv m0 y m CMod (Cl i) old E Ld) as [mask [-> Lo]].
  exists mask, rest. split; [reflexivity|]. exists old. rewrite <- L0. auto.
Qed.

(* ========== the model ============================================================================================================ *)
Theorem model_accepted fuel ops : accepts (trace (steps fuel init ops)) = true.
Proof.
  unfold accepts.
  pose proof (tmon_accepts_model fuel ops). pose proof (rmon_accepts_model fuel ops).
  pose proof (cmon_accepts_model fuel ops). pose proof (imon_accepts_model fuel ops).
  destruct (tmon_run _); [|congruence]. destruct (rmon_run _); [|congruence].
  destruct (cmon_run _); [|congruence]. destruct (imon_run _); [|congruence]. reflexivity.
Qed.

(* ========== statements about every log of the model ============================================================================== *)
Theorem model_no_callback_after_remove fuel ops later x earlier e :
  trace (steps fuel init ops) = later ++ x :: earlier -> gone e x = true ->
  forallb (fun y => negb (callback_for e y)) later = true.
Proof.
  intros E G. apply (accepted_no_callback_after_remove later x earlier e); [|exact G].
  rewrite <- E. apply rmon_accepts_model.
Qed.

Theorem model_timer_activation fuel ops later t due now earlier :
  trace (steps fuel init ops) = later ++ EvAct t due now :: earlier ->
  exists c iv n, tinfo t earlier = Some (c, iv, n) /\ due = c + (n + 1) * iv /\ due <= now /\
    forall t' c' iv' n', tinfo t' earlier = Some (c', iv', n') -> due <= c' + (n' + 1) * iv'.
Proof.
  intros E. apply (accepted_activation later t due now earlier); rewrite <- E; [apply tmon_accepts_model | apply rmon_accepts_model].
Qed.

Theorem model_wait_not_past_due fuel ops later t earlier :
  trace (steps fuel init ops) = later ++ EvWait t :: earlier ->
  forall t' c iv n, tinfo t' earlier = Some (c, iv, n) -> now_of earlier + t <= c + (n + 1) * iv.
Proof.
  intros E. apply (accepted_wait_not_past_due later t earlier); rewrite <- E; [apply tmon_accepts_model | apply rmon_accepts_model].
Qed.

Theorem model_dispatch_registered fuel ops later x earlier e p :
  trace (steps fuel init ops) = later ++ x :: earlier -> needs_reg x = Some (e, p) ->
  exists mask, reg_of e earlier = Some mask /\ p mask = true.
Proof.
  intros E N. apply (accepted_dispatch_registered later x earlier e p); [|exact N]. rewrite <- E. apply rmon_accepts_model.
Qed.

Theorem model_connect_dispatch fuel ops later i err earlier :
  trace (steps fuel init ops) = later ++ EvSoErr i err :: earlier ->
  exists mask rest, earlier = EvCtl CDel (Es i) mask :: rest /\ exists old, reg_of (Es i) rest = Some old /\ has_out old = true.
Proof. intros E. apply (accepted_connect_dispatch later i err earlier). rewrite <- E. apply rmon_accepts_model. Qed.

Theorem model_write_dispatch fuel ops later i c earlier :
  trace (steps fuel init ops) = later ++ EvCb (Cl i) KWrite c :: earlier ->
  exists mask rest, earlier = EvCtl CMod (Cl i) mask :: rest /\ exists old, reg_of (Cl i) rest = Some old /\ has_out old = true.
Proof. intros E. apply (accepted_write_dispatch later i c earlier). rewrite <- E. apply rmon_accepts_model. Qed.

Theorem model_failed_io_answered fuel ops l3 w l2 f l1 i :
  trace (steps fuel init ops) = l3 ++ w :: l2 ++ f :: l1 -> fails i f = true -> ccheck w = true ->
  existsb (settles i) l2 = true.
Proof.
  intros E F C. apply (accepted_failed_io_answered l3 w l2 f l1 i); [|exact F | exact C]. rewrite <- E. apply cmon_accepts_model.
Qed.

(* a failed send from the loop: the socket is unregistered and onClosed is called at once *)
Theorem model_loop_send_failed fuel ops later y i n r earlier :
  trace (steps fuel init ops) = later ++ y :: EvSend i n r true :: earlier -> failed_io r = true ->
  (exists o e mask, y = EvCtl o e mask) \/ (exists c, y = EvCb (Cl i) KClosed c).
Proof.
  intros E F. pose proof (cmon_accepts_model fuel ops) as Acc. rewrite E in Acc.
  unfold cmon_run in Acc. rewrite mon_run_app in Acc. cbn [mon_run] in Acc.
  destruct (mon_run cmon_step cmon0 earlier) as [m0|]; [|congruence].
  destruct (cmon_step m0 (EvSend i n r true)) as [m1|] eqn:S1; [|congruence].
  assert (c_must m1 = Some i) as M1.
  { unfold cmon_step in S1. destruct (c_must m0); [discriminate|]. destruct (is_nil (c_owed m0)); [|discriminate].
    injection S1 as <-. rewrite F. reflexivity. }
  destruct (cmon_step m1 y) as [m2|] eqn:S2; [|congruence].
  unfold cmon_step in S2. rewrite M1 in S2.
  destruct y; try discriminate; [|left; eauto].
  destruct e; try discriminate. destruct k; try discriminate. destruct (i0 =? i) eqn:Ei; [|discriminate].
  apply Z.eqb_eq in Ei; subst. right; eauto.
Qed.

Theorem model_ret_needs_interrupt fuel ops later earlier :
  trace (steps fuel init ops) = later ++ EvRunRet :: earlier -> pending_of earlier = true.
Proof. intros E. apply (accepted_ret_needs_interrupt later earlier). rewrite <- E. apply imon_accepts_model. Qed.

Theorem model_interrupted_wait_is_last fuel ops rest y q t earlier :
  trace (steps fuel init ops) = rest ++ y :: q ++ EvWait t :: earlier -> pending_of earlier = true ->
  forallb quiet q = true -> quiet y = false -> y = EvRunRet.
Proof.
  intros E. apply (accepted_wait_is_last rest y q t earlier). rewrite <- E. apply imon_accepts_model.
Qed.

(* buffered (selected, undelivered) events never name an unregistered socket or an event kind outside its interest *)
Theorem model_buffered_within_interest fuel ops e f :
  alookup ent_eqb e (selected (steps fuel init ops)) = Some f ->
  exists g, alookup ent_eqb e (socks (steps fuel init ops)) = Some g /\ fl_sub f g = true.
Proof. apply (si_sel _ (SInv_reachable fuel ops)). Qed.

(* registered sockets belong to live objects, with the interest their kind allows *)
Theorem model_registered_alive fuel ops e g :
  alookup ent_eqb e (socks (steps fuel init ops)) = Some g -> sock_ok (steps fuel init ops) e g.
Proof. apply (si_socks _ (SInv_reachable fuel ops)). Qed.

(* ---------- run() ends only by returning (after an interrupt) or - in the model - by running out of fuel ---------------- *)
Theorem run_returns_or_stuck fuel items s :
  stuck (run_loop fuel items s) = true \/ exists tr', trace (run_loop fuel items s) = EvRunRet :: tr'.
Proof.
  revert items s. induction fuel as [|f IH]; intros items s; cbn [run_loop]; [left; reflexivity|].
  cbn zeta. set (s1 := closing_phase f (timer_phase f (clk s) (log (EvSel (sel_view (selected s))) (log (EvNow (clk s)) s)))).
  destruct (stuck s1) eqn:Est; [left; exact Est|].
  destruct (poll _ items s1) as [[s2 evt] items2].
  destruct evt as [[e fl]|]; [destruct (fl_is_none fl)|]; try apply IH; destruct (intr s2); try apply IH; right; eexists; reflexivity.
Qed.

(* ---------- eventual dispatch, the part that does not depend on the kernel ------------------------------------------------- *)
(* (1) a registered socket the kernel reports is put into the buffer, with the reported bits mapped to its interest *)
Lemma absorb_socks r s : socks (absorb r s) = socks s.
Proof.
  revert s. induction r as [|[e n] r IH]; intros s; cbn [absorb]; [reflexivity|].
  destruct (alookup ent_eqb e (socks s)); rewrite IH; reflexivity.
Qed.

Lemma absorb_other e r s : ~ In e (map fst r) -> alookup ent_eqb e (selected (absorb r s)) = alookup ent_eqb e (selected s).
Proof.
  revert s. induction r as [|[e' n] r IH]; intros s Hn; cbn [absorb]; [reflexivity|].
  cbn [map fst In] in Hn. assert (e' <> e /\ ~ In e (map fst r)) as [N Hn'] by tauto.
  destruct (alookup ent_eqb e' (socks s)); rewrite IH by exact Hn'; [|reflexivity].
  sproj. apply alookup_aset_neq; [apply ent_eqb_eq | congruence].
Qed.

Theorem reported_socket_is_buffered_partial e g r s :
  alookup ent_eqb e (socks s) = Some g -> In e (map fst r) ->
  exists n, In (e, n) r /\ alookup ent_eqb e (selected (absorb r s)) = Some (unmap_events n g).
Proof.
  revert s. induction r as [|[e' n'] r IH]; intros s Hg Hin; [contradiction|].
  cbn [absorb].
  destruct (in_dec (fun a b => match ent_eqb a b as x return ent_eqb a b = x -> {a = b} + {a <> b} with
                               | true => fun E => left (proj1 (ent_eqb_eq a b) E)
                               | false => fun E => right (proj1 (ent_eqb_neq a b) E) end eq_refl) e (map fst r)) as [Hr|Hr].
  - destruct (alookup ent_eqb e' (socks s)) eqn:E'.
    + destruct (IH (set_selected (aset ent_eqb e' (unmap_events n' f) (selected s)) s) Hg Hr) as [n [A B]].
      exists n. split; [right; exact A | exact B].
    + destruct (IH s Hg Hr) as [n [A B]]. exists n. split; [right; exact A | exact B].
  - cbn [map fst In] in Hin. destruct Hin as [->|Hin]; [|contradiction].
    rewrite Hg. exists n'. split; [left; reflexivity|]. rewrite absorb_other by exact Hr. sproj.
    apply alookup_aset_eq. apply ent_eqb_eq.
Qed.

(* (2) the buffer is served head first, one event per iteration of the loop, without waiting *)
Theorem buffered_head_is_delivered_partial t items e f r s :
  selected s = (e, f) :: r -> poll t items s = (set_selected r s, Some (e, f), items).
Proof. intros E. unfold poll, pop_selected. rewrite E. reflexivity. Qed.
