(* Round 5: theorems about the three monitors of ServerLoopSpecMore.
   (A) only epoll_wait appends an EvWait to the log (framework EW, a copy of the EI lemmas of ServerLoopLiveBase for another event kind);
   (B) under the environment hypothesis Env (timer intervals > 0, no callback sets the clock back) every wait of the model has a
       time-out >= 0: the timer phase leaves nothing due at the sampled now, and the callbacks of the closing pass only create timers
       that are due later (wait_nonneg_l); hence wmon accepts the model's log (wmon_accepts_l);
   (C) every log accepted by cmon (failed io answered before the next wait or dispatch) is accepted by cmt (... before the loop
       has waited twice): cmon_implies_cmt; hence cmt accepts the model's log;
   (D) kmon accepts the model's log: the model takes a socket out of the poll set only as part of its removal, of its connect
       dispatch or of its closing after a failed send (kmon_accepts_l). *)
From Coq Require Import ZArith List Bool Lia.
From ServerLoop Require Import ServerLoopSpec ServerLoopSpecMore ServerLoopModel ServerLoopBase ServerLoopInv ServerLoopCplC ServerLoopDerived
  ServerLoopTerm ServerLoopLiveBase ServerLoopLive ServerLoopFuel.
Import ListNotations.
Local Open Scope Z_scope.

(* ---------- (A) only epoll_wait appends a wait ------------------------------------------------------------------------------ *)
Definition nowait (e : ev) : bool := match e with EvWait _ => false | _ => true end.
Definition wait_ok (e : ev) : bool := match e with EvWait t => 0 <=? t | _ => true end.
Definition EW (s' s : state) : Prop := exists l, trace s' = l ++ trace s /\ forallb nowait l = true.
Definition WN (s : state) : Prop := forallb wait_ok (trace s) = true.

Lemma EW_refl s : EW s s. Proof. exists []. split; reflexivity. Qed.
Lemma EW_trans s1 s2 s3 : EW s1 s2 -> EW s2 s3 -> EW s1 s3.
Proof.
  intros [l1 [A1 B1]] [l2 [A2 B2]]. exists (l1 ++ l2). rewrite A1, A2, app_assoc, forallb_app, B1, B2. split; reflexivity.
Qed.
Lemma EW_frame s' s : trace s' = trace s -> EW s' s.
Proof. intros A. exists []. split; [exact A | reflexivity]. Qed.
Lemma EW_log e s : nowait e = true -> EW (log e s) s.
Proof. intros H. exists [e]. split; [reflexivity|]. cbn [forallb]. rewrite H. reflexivity. Qed.
Lemma nowait_ok e : nowait e = true -> wait_ok e = true.
Proof. destruct e; cbn; congruence. Qed.
Lemma WN_EW s' s : EW s' s -> WN s -> WN s'.
Proof.
  intros [l [A B]] H. unfold WN. rewrite A, forallb_app. apply andb_true_iff. split; [|exact H].
  apply forallb_forall. intros x Hx. apply nowait_ok. rewrite forallb_forall in B. apply B; exact Hx.
Qed.
Lemma WN_frame s' s : trace s' = trace s -> WN s -> WN s'.
Proof. unfold WN. intros ->. auto. Qed.

Ltac efr := (apply EW_frame; reflexivity).
Ltac elog := (eapply EW_trans; [apply EW_log; reflexivity|]).

Lemma EW_poll_set e f s : EW (poll_set e f s) s.
Proof.
  unfold poll_set. destruct (alookup ent_eqb e (socks s)) as [old|].
  - destruct (fl_eqb old f); [apply EW_refl|]. cbn zeta. sproj.
    apply (EW_trans _ (log (EvCtl CMod e (map_events f)) s)); [|apply EW_log; reflexivity].
    destruct (alookup ent_eqb e (selected s)) as [sel|]; [destruct (fl_is_none _)|]; efr.
  - cbn zeta. apply (EW_trans _ (log (EvCtl CAdd e (map_events f)) s)); [efr | apply EW_log; reflexivity].
Qed.

Lemma EW_poll_remove e s : EW (poll_remove e s) s.
Proof.
  unfold poll_remove. destruct (alookup ent_eqb e (socks s)); [|apply EW_refl]. cbn zeta.
  apply (EW_trans _ (log (EvCtl CDel e 0) s)); [efr | apply EW_log; reflexivity].
Qed.

Lemma EW_delete_client i s : EW (delete_client i s) s.
Proof.
  unfold delete_client. cbn zeta.
  apply (EW_trans _ (poll_remove (Cl i) (set_closing (zremove i (closing s)) s))); [efr|].
  apply (EW_trans _ (set_closing (zremove i (closing s)) s)); [apply EW_poll_remove | efr].
Qed.

Lemma EW_new_client i s : EW (new_client i s) s.
Proof. unfold new_client. cbn zeta. eapply EW_trans; [apply EW_poll_set | efr]. Qed.
Lemma EW_upd_client i c s : EW (upd_client i c s) s. Proof. efr. Qed.
Lemma EW_closing_append i s : EW (closing_append i s) s.
Proof. unfold closing_append. destruct (zmem i (closing s)); [apply EW_refl | efr]. Qed.

Lemma EW_do_interrupt b s : EW (do_interrupt b s) s.
Proof.
  unfold do_interrupt. cbn zeta. destruct (intr (log (EvInterrupt b) s)).
  - apply EW_log; reflexivity.
  - eapply EW_trans; [efr | apply EW_log; reflexivity].
Qed.

Ltac estep :=
  first [ apply EW_refl
        | eapply EW_trans; [apply EW_log; reflexivity|]
        | eapply EW_trans; [apply EW_poll_set|]
        | eapply EW_trans; [apply EW_poll_remove|]
        | eapply EW_trans; [apply EW_upd_client|]
        | eapply EW_trans; [apply EW_delete_client|]
        | eapply EW_trans; [apply EW_new_client|]
        | eapply EW_trans; [apply EW_closing_append|]
        | eapply EW_trans; [apply EW_do_interrupt|]
        | efr ].
Ltac echain := repeat estep.

Lemma EW_exec_action a s : EW (exec_action a s) s.
Proof.
  destruct a; cbn [exec_action].
  - destruct (fresh (Tm i) s); [|echain]. cbn zeta.
    apply (EW_trans _ (log (EvCreated (Tm i) (clk s) iv) s)); [efr | apply EW_log; reflexivity].
  - destruct (alookup Z.eqb i (timers s)) as [[et iv]|]; [|echain]. cbn zeta.
    eapply EW_trans; [apply EW_log; reflexivity | efr].
  - destruct (fresh (Cl i) s); echain.
  - destruct (live_client i s) as [c|]; [destruct (c_cb c)|]; echain.
  - destruct (fresh (Li i) s); [|echain]. cbn zeta. eapply EW_trans; [apply EW_poll_set|].
    apply (EW_trans _ (log (EvCreated (Li i) 0 0) s)); [efr | apply EW_log; reflexivity].
  - destruct (zmem i (listeners s)); [|echain]. cbn zeta. eapply EW_trans; [apply EW_log; reflexivity|].
    apply (EW_trans _ (poll_remove (Li i) s)); [efr | apply EW_poll_remove].
  - destruct (fresh (Es i) s); [|echain]. cbn zeta. eapply EW_trans; [apply EW_poll_set|].
    apply (EW_trans _ (log (EvCreated (Es i) 0 0) s)); [efr | apply EW_log; reflexivity].
  - destruct (zmem i (estabs s)); [|echain]. cbn zeta. eapply EW_trans; [apply EW_log; reflexivity|].
    apply (EW_trans _ (poll_remove (Es i) s)); [efr | apply EW_poll_remove].
  - destruct (live_client i s) as [c|]; [|echain]. destruct (n <? 0); [echain|]. destruct (c_back c =? 0); [|echain].
    cbn zeta. destruct (failed_io _); [echain|]. destruct (n <=? _); echain.
  - destruct (live_client i s) as [c|]; [|echain]. cbn zeta. destruct (failed_io _); echain.
  - destruct (live_client i s) as [c|]; [|echain]. destruct (c_susp c); echain.
  - destruct (live_client i s) as [c|]; [|echain]. destruct (negb (c_susp c)); echain.
  - apply EW_do_interrupt.
  - efr.
Qed.

Lemma EW_exec_actions l s : EW (exec_actions l s) s.
Proof.
  unfold exec_actions. revert s. induction l as [|a l IH]; cbn [fold_left]; intros s; [apply EW_refl|].
  eapply EW_trans; [apply IH | apply EW_exec_action].
Qed.

Lemma EW_run_script e k s : EW (run_script e k s) s.
Proof.
  unfold run_script. destruct (pop_script e k (scripts s)) as [[x|] rest]; [|efr].
  eapply EW_trans; [apply EW_exec_actions | efr].
Qed.

Lemma EW_callback e k s : EW (callback e k s) s.
Proof. unfold callback. eapply EW_trans; [apply EW_run_script | apply EW_log; reflexivity]. Qed.

Lemma EW_timer_phase fuel now s : EW (timer_phase fuel now s) s.
Proof.
  revert s. induction fuel as [|f IH]; intros s; cbn [timer_phase]; [efr|].
  destruct (queue s) as [|[k v] q']; [apply EW_refl|]. destruct (k - now <=? 0); [|apply EW_refl].
  destruct v as [t|]; [destruct (alookup Z.eqb t (timers s)) as [[et iv]|]|]; (eapply EW_trans; [apply IH|]); try efr.
  eapply EW_trans; [apply EW_run_script|]. eapply EW_trans; [apply EW_log; reflexivity | efr].
Qed.

Lemma EW_closing_phase fuel s : EW (closing_phase fuel s) s.
Proof.
  revert s. induction fuel as [|f IH]; intros s; cbn [closing_phase]; [efr|].
  destruct (closing s) as [|i r]; [apply EW_refl|]. sproj.
  destruct (alookup Z.eqb i (clients s)) as [c|]; [destruct (c_cb c); [|destruct (c_rm c)]|]; (eapply EW_trans; [apply IH|]).
  - eapply EW_trans; [apply EW_callback | efr].
  - eapply EW_trans; [apply EW_delete_client | efr].
  - eapply EW_trans; [apply EW_log; reflexivity|]. eapply EW_trans; [apply EW_delete_client | efr].
  - efr.
Qed.

Lemma EW_introduce e k i acc s : EW (introduce e k i acc s) s.
Proof.
  unfold introduce. cbn zeta.
  set (s1 := new_client i (log (EvCreated (Cl i) 0 0) s)).
  assert (EW s1 s) as H1 by (subst s1; eapply EW_trans; [apply EW_new_client | apply EW_log; reflexivity]).
  set (s2 := log (EvIntroRet i acc) (run_script e (SIn k) (log (EvIntro e k i (clk s1)) s1))).
  assert (EW s2 s) as H2.
  { subst s2. eapply EW_trans; [apply EW_log; reflexivity|]. eapply EW_trans; [apply EW_run_script|].
    eapply EW_trans; [apply EW_log; reflexivity | exact H1]. }
  destruct acc; [destruct (alookup Z.eqb i (clients s2)) as [c|]; [destruct (c_rm c)|]|].
  - eapply EW_trans; [apply EW_delete_client | exact H2].
  - eapply EW_trans; [apply EW_upd_client | exact H2].
  - exact H2.
  - eapply EW_trans; [apply EW_delete_client | exact H2].
Qed.

Lemma EW_dispatch_write i ar s : EW (dispatch_write i ar s) s.
Proof.
  unfold dispatch_write. destruct (alookup Z.eqb i (clients s)) as [c|]; [|apply EW_refl].
  destruct (0 <? c_back c); cbn zeta.
  - destruct (failed_io _).
    + eapply EW_trans; [apply EW_callback|]. echain.
    + destruct (_ =? 0).
      * eapply EW_trans; [apply EW_callback|]. echain.
      * destruct ar; [eapply EW_trans; [apply EW_callback|]|]; echain.
  - eapply EW_trans; [apply EW_callback|]. echain.
Qed.

Lemma EW_dispatch e f s : EW (dispatch e f s) s.
Proof.
  destruct e as [i|i|i|i]; cbn [dispatch]; [apply EW_refl | | |].
  - destruct (fW f); [apply EW_dispatch_write|]. destruct (fR f); [apply EW_callback | apply EW_refl].
  - destruct (fA f); [|apply EW_refl]. cbn zeta.
    destruct (if next_accept s then peek_new (Li i) KAccepted (drop_accept s) else None) as [[n acc]|].
    + eapply EW_trans; [apply EW_introduce|]. eapply EW_trans; [apply EW_log; reflexivity | efr].
    + eapply EW_trans; [apply EW_log; reflexivity | efr].
  - destruct (fC f); [|apply EW_refl]. cbn zeta.
    assert (EW (drop_conn (poll_remove (Es i) s)) s) as H1 by (eapply EW_trans; [|apply (EW_poll_remove (Es i) s)]; efr).
    destruct (if next_conn (poll_remove (Es i) s) =? 0 then peek_new (Es i) KConnected (drop_conn (poll_remove (Es i) s)) else None) as [[n acc]|].
    + eapply EW_trans; [apply EW_introduce|]. eapply EW_trans; [apply EW_log; reflexivity | exact H1].
    + eapply EW_trans; [apply EW_callback|]. eapply EW_trans; [apply EW_log; reflexivity | exact H1].
Qed.

Lemma EW_absorb r s : EW (absorb r s) s.
Proof.
  revert s. induction r as [|[e n] r IH]; intros s; cbn [absorb]; [apply EW_refl|].
  destruct (alookup ent_eqb e (socks s)); [|apply IH]. eapply EW_trans; [apply IH | efr].
Qed.

(* ---------- (B) the time-out of a wait is never negative --------------------------------------------------------------------- *)
Lemma tlag0_head now s k v q : tlag now s = O -> queue s = (k, v) :: q -> now < k.
Proof.
  unfold tlag. intros H Eq. rewrite Eq in H. cbn [qlag] in H. unfold elag in H. cbn [fst snd] in H.
  destruct (k - now <=? 0) eqn:E; [discriminate H | apply Z.leb_gt in E; lia].
Qed.

Lemma Good_closing_phase now f s :
  Good now s -> Good now (closing_phase f s) /\ (tlag now (closing_phase f s) <= tlag now s)%nat.
Proof.
  revert s. induction f as [|f IH]; intros s G; cbn [closing_phase].
  { destruct G as [HI HE Hn]. split; [|unfold tlag; sproj; lia].
    constructor; [apply SInv_set_stuck; exact HI | eapply Env_same; [..|exact HE]; reflexivity | exact Hn]. }
  destruct (closing s) as [|i r] eqn:Ec; [split; [exact G | lia]|]. sproj.
  assert (Good now (set_closing r s)) as G1.
  { destruct G as [HI HE Hn]. constructor; [eapply SInv_closing_pop; eauto | eapply Env_same; [..|exact HE]; reflexivity | exact Hn]. }
  assert (tlag now (set_closing r s) = tlag now s) as T1 by reflexivity.
  assert (forall s', same5 s' (set_closing r s) -> SInv s' -> Good now s' /\ tlag now s' = tlag now s) as Hs5.
  { intros s' S5 HI'. split; [|rewrite (tlag_same5 now _ _ S5); exact T1].
    destruct G1 as [HI1 HE1 Hn1]. constructor; [exact HI' | apply (ES_same5 _ _ S5); exact HE1|].
    destruct S5 as (_ & _ & C & _). rewrite C. exact Hn1. }
  destruct (alookup Z.eqb i (clients s)) as [c|]; [destruct (c_cb c); [|destruct (c_rm c)]|].
  - unfold callback.
    assert (Good now (log (EvCb (Cl i) KClosed (clk (set_closing r s))) (set_closing r s))) as G2.
    { destruct G1 as [HI1 HE1 Hn1]. constructor; [apply SInv_log; exact HI1 | eapply Env_same; [..|exact HE1]; reflexivity | exact Hn1]. }
    destruct (Good_run_script now (Cl i) (SCb KClosed) _ G2) as (G3 & L3 & _).
    destruct (IH _ G3) as [G4 L4]. split; [exact G4|].
    assert (tlag now (log (EvCb (Cl i) KClosed (clk (set_closing r s))) (set_closing r s)) = tlag now s) as T2 by reflexivity.
    lia.
  - destruct (Hs5 (delete_client i (set_closing r s)) (same5_delete_client i _)) as [G2 T2];
      [apply SInv_delete_client; destruct G1; assumption|].
    destruct (IH _ G2) as [G4 L4]. split; [exact G4 | lia].
  - destruct (Hs5 (log (EvRemoved (Cl i)) (delete_client i (set_closing r s)))) as [G2 T2].
    + eapply same5_trans; [apply same5_log | apply same5_delete_client].
    + apply SInv_log. apply SInv_delete_client. destruct G1; assumption.
    + destruct (IH _ G2) as [G4 L4]. split; [exact G4 | lia].
  - destruct (IH _ G1) as [G4 L4]. split; [exact G4 | lia].
Qed.

(* when the head of an iteration is not cut off, nothing is due at the sampled now *)
Lemma head_state_nothing_due f s :
  SInv s -> Env s -> stuck s = false -> stuck (head_state f s) = false -> tlag (clk s) (head_state f s) = O.
Proof.
  intros HI HE Hst H. unfold head_state in *.
  set (s0 := log (EvSel (sel_view (selected s))) (log (EvNow (clk s)) s)) in *.
  assert (SInv s0) as HI0 by (apply SInv_log; apply SInv_log; exact HI).
  assert (Env s0) as HE0 by (eapply Env_same; [..|exact HE]; reflexivity).
  assert (stuck (timer_phase f (clk s) s0) = false) as H2.
  { destruct (stuck (timer_phase f (clk s) s0)) eqn:E; [|reflexivity]. rewrite (closing_phase_stuck f _ E) in H. discriminate H. }
  set (F := Nat.max f (S (tlag (clk s) s0))).
  assert (timer_phase F (clk s) s0 = timer_phase f (clk s) s0) as EF by (apply timer_phase_mono; [subst F; lia | exact H2]).
  destruct (timer_phase_terminates_l F (clk s) s0 HI0 HE0 ltac:(subst s0; sproj; lia) ltac:(subst F; lia)) as (_ & B & C & D & E).
  rewrite EF in B, C, D, E.
  destruct (Good_closing_phase (clk s) f (timer_phase f (clk s) s0) (mkGood _ _ C D E)) as [_ L]. lia.
Qed.

Lemma tmo_nonneg f s :
  SInv s -> Env s -> stuck s = false -> stuck (head_state f s) = false -> 0 <= tmo_of (clk s) (head_state f s).
Proof.
  intros HI HE Hst H. pose proof (head_state_nothing_due f s HI HE Hst H) as T. unfold tmo_of.
  destruct (queue (head_state f s)) as [|[k v] q] eqn:Eq; [lia|]. pose proof (tlag0_head _ _ _ _ _ T Eq). lia.
Qed.

Lemma EW_head_state f s : EW (head_state f s) s.
Proof.
  unfold head_state. eapply EW_trans; [apply EW_closing_phase|]. eapply EW_trans; [apply EW_timer_phase|].
  eapply EW_trans; [apply EW_log; reflexivity | apply EW_log; reflexivity].
Qed.

Lemma WN_poll t items s : 0 <= t -> WN s -> WN (fst (fst (poll t items s))).
Proof.
  intros Ht H. unfold poll. destruct (selected s) as [|x r] eqn:Es.
  2:{ unfold pop_selected. rewrite Es. cbn [fst]. eapply WN_frame; [|exact H]. reflexivity. }
  assert (WN (fst (epoll_wait t items s))) as H1.
  { unfold epoll_wait. cbn zeta.
    assert (WN (log (EvWait t) s)) as Hw.
    { unfold WN. sproj. cbn [forallb wait_ok]. apply andb_true_iff. split; [apply Z.leb_le; exact Ht | exact H]. }
    destruct items as [|it rest]; cbn [fst].
    - eapply WN_EW; [|exact Hw]. eapply EW_trans; [apply EW_do_interrupt | apply EW_log; reflexivity].
    - eapply WN_EW; [|exact Hw]. eapply EW_trans; [apply EW_absorb|].
      apply (EW_trans _ (log (EvItem false) (log (EvWait t) s))); [efr | apply EW_log; reflexivity]. }
  destruct (epoll_wait t items s) as [s1 items1]. cbn [fst] in H1.
  destruct (0 <? evcount s1); cbn [fst]; [eapply WN_frame; [|exact H1]; reflexivity|].
  unfold pop_selected. destruct (selected s1); cbn [fst]; [exact H1 | eapply WN_frame; [|exact H1]; reflexivity].
Qed.

Lemma WN_run_loop fuel items s : SInv s -> Env s -> stuck s = false -> WN s -> WN (run_loop fuel items s).
Proof.
  revert items s. induction fuel as [|f IH]; intros items s HI HE Hst H; [eapply WN_frame; [|exact H]; reflexivity|].
  rewrite run_loop_S.
  assert (WN (head_state f s)) as Hh by (eapply WN_EW; [apply EW_head_state | exact H]).
  destruct (stuck (head_state f s)) eqn:Est; [exact Hh|].
  assert (SInv (head_state f s)) as HI1 by (unfold head_state; apply SInv_closing_phase; apply SInv_timer_phase; apply SInv_log; apply SInv_log; exact HI).
  assert (Env (head_state f s)) as HE1.
  { unfold head_state. apply Env_closing_phase. apply Env_timer_phase. eapply Env_same; [..|exact HE]; reflexivity. }
  pose proof (tmo_nonneg f s HI HE Hst Est) as Ht.
  pose proof (WN_poll (tmo_of (clk s) (head_state f s)) items (head_state f s) Ht Hh) as H2.
  pose proof (SInv_poll (tmo_of (clk s) (head_state f s)) items (head_state f s) HI1) as HI2.
  pose proof (ES_poll (tmo_of (clk s) (head_state f s)) items (head_state f s)) as [St2 HE2]. specialize (HE2 HE1). rewrite Est in St2.
  destruct (poll (tmo_of (clk s) (head_state f s)) items (head_state f s)) as [[s2 evt] items2]. cbn [fst snd] in *.
  assert (WN (log EvRunRet (set_intr false s2))) as H3.
  { unfold WN. sproj. cbn [forallb wait_ok]. exact H2. }
  unfold cont. destruct evt as [[e fl]|]; [destruct (fl_is_none fl)|]; try (destruct (intr s2); [exact H3 | apply IH; assumption]).
  destruct (ES_dispatch e fl s2) as [Sd Ed].
  apply IH; [apply SInv_dispatch; exact HI2 | apply Ed; exact HE2 | rewrite Sd; exact St2 | eapply WN_EW; [apply EW_dispatch | exact H2]].
Qed.

Lemma WN_step fuel s o : op_okb o = true -> SInv s -> Env s -> WN s -> WN (step fuel s o).
Proof.
  intros Hok HI HE H. unfold step. destruct (stuck s) eqn:Est; [exact H|]. destruct o; try (eapply WN_frame; [|exact H]; reflexivity).
  - eapply WN_EW; [apply EW_exec_action | exact H].
  - unfold run. apply WN_run_loop; [apply SInv_log; exact HI | eapply Env_same; [..|exact HE]; reflexivity | exact Est |].
    eapply WN_EW; [apply EW_log; reflexivity | exact H].
Qed.

Lemma WN_steps fuel ops : forallb op_okb ops = true -> WN (steps fuel init ops).
Proof.
  unfold steps. assert (SInv init /\ Env init /\ WN init) as H0 by (split; [apply SInv_init | split; reflexivity]).
  revert H0. generalize init. induction ops as [|o ops IH]; cbn [fold_left forallb]; intros s (HI & HE & H) Hok; [exact H|].
  apply andb_true_iff in Hok. destruct Hok as [Ho Hops]. apply IH; [|exact Hops].
  split; [apply SInv_step; exact HI | split; [apply Env_step; assumption | apply WN_step; assumption]].
Qed.

Theorem wait_nonneg_l fuel ops : forallb op_okb ops = true ->
  forall later t earlier, trace (steps fuel init ops) = later ++ EvWait t :: earlier -> 0 <= t.
Proof.
  intros Hok later t earlier E. pose proof (WN_steps fuel ops Hok) as H. unfold WN in H. rewrite E, forallb_app in H.
  apply andb_true_iff in H. destruct H as [_ H]. cbn [forallb wait_ok] in H. apply andb_true_iff in H. destruct H as [H _].
  apply Z.leb_le. exact H.
Qed.

Lemma wmon_from_WN tr : forallb wait_ok tr = true -> is_some (wmon_run tr) = true.
Proof.
  induction tr as [|e r IH]; [reflexivity|]. cbn [forallb]. intros H. apply andb_true_iff in H. destruct H as [He Hr].
  specialize (IH Hr). unfold wmon_run in *. cbn [mon_run]. destruct (mon_run wmon_step wmon0 r) as [m|]; [|discriminate IH].
  destruct e; cbn [wmon_step]; try reflexivity.
  - cbn [wait_ok] in He. rewrite He. reflexivity.
  - destruct e; reflexivity.
  - destruct e; reflexivity.
Qed.

Theorem wmon_accepts_l fuel ops : forallb op_okb ops = true -> is_some (wmon_run (trace (steps fuel init ops))) = true.
Proof. intros Hok. apply wmon_from_WN. apply (WN_steps fuel ops Hok). Qed.

(* ---------- (C) cmon implies cmt --------------------------------------------------------------------------------------------- *)
Definition Rc (cm : cmon) (ct : cmt) : Prop :=
  forall i, In i (map fst (ct_owed ct)) -> In i (c_owed cm) \/ c_must cm = Some i.

Lemma In_ct_drop i j l : In j (map fst (ct_drop i l)) <-> (j <> i /\ In j (map fst l)).
Proof.
  unfold ct_drop. rewrite !in_map_iff. split.
  - intros [x [E Hx]]. apply filter_In in Hx. destruct Hx as [Hx Hn]. subst j. split; [|exists x; auto].
    intros Q. rewrite Q, Z.eqb_refl in Hn. discriminate Hn.
  - intros [Hn [x [E Hx]]]. exists x. split; [exact E|]. apply filter_In. split; [exact Hx|]. subst j.
    apply negb_true_iff. apply Z.eqb_neq. exact Hn.
Qed.
Lemma In_zremove_all i j l : In j (zremove_all i l) <-> (j <> i /\ In j l).
Proof.
  unfold zremove_all. rewrite filter_In. split; intros [A B].
  - split; [|exact A]. intros Q. rewrite Q, Z.eqb_refl in B. discriminate B.
  - split; [exact B|]. apply negb_true_iff. apply Z.eqb_neq. exact A.
Qed.

Lemma Rc_drop cm0 ct0 i : Rc cm0 ct0 -> (c_must cm0 = None \/ c_must cm0 = Some i) ->
  Rc (mkCm (zremove_all i (c_owed cm0)) None) (mkCt (ct_drop i (ct_owed ct0))).
Proof.
  intros HR Hm j Hj. cbn [ct_owed c_owed c_must] in *. apply In_ct_drop in Hj. destruct Hj as [Hn Hj].
  left. apply In_zremove_all. split; [exact Hn|]. destruct (HR j Hj) as [A|A]; [exact A|].
  destruct Hm as [Hm|Hm]; rewrite Hm in A; [discriminate A | inversion A; subst; contradiction].
Qed.
Lemma Rc_add cm0 ct0 i : Rc cm0 ct0 -> Rc (mkCm (i :: c_owed cm0) (c_must cm0)) (mkCt ((i, false) :: ct_owed ct0)).
Proof.
  intros HR j Hj. cbn [ct_owed c_owed c_must map fst] in *. destruct Hj as [<-|Hj]; [left; left; reflexivity|].
  destruct (HR j Hj) as [A|A]; [left; right; exact A | right; exact A].
Qed.
Lemma Rc_nil cm0 ct0 : Rc cm0 ct0 -> c_must cm0 = None -> c_owed cm0 = [] -> ct_owed ct0 = [].
Proof.
  intros HR Hm Ho. destruct (ct_owed ct0) as [|[i b] l] eqn:E; [reflexivity|]. exfalso.
  destruct (HR i) as [A|A]; [rewrite E; left; reflexivity | rewrite Ho in A; exact A | rewrite Hm in A; discriminate A].
Qed.
Lemma is_nil_nil {A} (l : list A) : is_nil l = true -> l = [].
Proof. destruct l; [reflexivity | discriminate]. Qed.

Ltac same_tac HR := let E := fresh "E" in intros E; inversion E; subst; eexists; split; [reflexivity | exact HR].

Lemma cmt_sim cm0 ct0 e cm : Rc cm0 ct0 -> cmon_step cm0 e = Some cm -> exists ct, cmt_step ct0 e = Some ct /\ Rc cm ct.
Proof.
  intros HR. unfold cmon_step. destruct (c_must cm0) as [m|] eqn:Em.
  - destruct e; try discriminate.
    + destruct e as [j|j|j|j]; try discriminate. destruct k; try discriminate.
      destruct (j =? m) eqn:Ej; [|discriminate]. apply Z.eqb_eq in Ej. subst j.
      intros E; inversion E; subst. eexists. split; [reflexivity|]. apply Rc_drop; [exact HR | right; exact Em].
    + same_tac HR.
  - destruct e; cbn [cmt_step]; try (same_tac HR).
    + (* EvCb *)
      destruct e as [j|j|j|j]; destruct k; try (same_tac HR);
        try (destruct (is_nil (c_owed cm0)); [same_tac HR | discriminate]).
      intros E; inversion E; subst. eexists. split; [reflexivity|]. apply Rc_drop; [exact HR | left; exact Em].
    + (* EvIntroRet *)
      destruct acc; [same_tac HR|]. intros E; inversion E; subst. eexists. split; [reflexivity|]. apply Rc_drop; [exact HR | left; exact Em].
    + (* EvWait *)
      destruct (is_nil (c_owed cm0)) eqn:En; [|discriminate]. intros E; inversion E; subst.
      rewrite (Rc_nil cm ct0 HR Em (is_nil_nil _ En)). cbn [existsb map]. eexists. split; [reflexivity|]. intros i [].
    + (* EvSend *)
      destruct disp.
      * destruct (is_nil (c_owed cm0)) eqn:En; [|discriminate]. destruct (failed_io r); [|same_tac HR].
        intros E; inversion E; subst. eexists. split; [reflexivity|]. intros j Hj. cbn [ct_owed c_owed c_must map fst] in *.
        destruct Hj as [<-|Hj]; [right; reflexivity|]. destruct (HR j Hj) as [A|A]; [left; exact A | rewrite Em in A; discriminate A].
      * destruct (failed_io r); [|same_tac HR]. intros E; inversion E; subst. eexists. split; [reflexivity|].
        pose proof (Rc_add cm0 ct0 i HR) as Q. rewrite Em in Q. exact Q.
    + (* EvRecv *)
      destruct (failed_io r); [|same_tac HR]. intros E; inversion E; subst. eexists. split; [reflexivity|].
      pose proof (Rc_add cm0 ct0 i HR) as Q. rewrite Em in Q. exact Q.
    + (* EvAccept *) destruct (is_nil (c_owed cm0)); [same_tac HR | discriminate].
    + (* EvSoErr *) destruct (is_nil (c_owed cm0)); [same_tac HR | discriminate].
    + (* EvRemoved *)
      destruct e as [j|j|j|j]; try (same_tac HR). intros E; inversion E; subst. eexists. split; [reflexivity|]. apply Rc_drop; [exact HR | left; exact Em].
    + (* EvDeferred *)
      destruct e as [j|j|j|j]; try (same_tac HR). intros E; inversion E; subst. eexists. split; [reflexivity|]. apply Rc_drop; [exact HR | left; exact Em].
    + (* EvRunRet *) destruct (is_nil (c_owed cm0)); [same_tac HR | discriminate].
Qed.

Lemma cmon_implies_cmt_strong tr : forall cm, cmon_run tr = Some cm -> exists ct, cmt_run tr = Some ct /\ Rc cm ct.
Proof.
  induction tr as [|e r IH]; intros cm H.
  - cbn in H. inversion H; subst. exists cmt0. split; [reflexivity|]. intros i [].
  - unfold cmon_run, cmt_run in *. cbn [mon_run] in *. destruct (mon_run cmon_step cmon0 r) as [cm0|]; [|discriminate H].
    destruct (IH cm0 eq_refl) as [ct0 [E0 R0]]. rewrite E0. apply (cmt_sim cm0 ct0 e cm R0 H).
Qed.

Theorem cmon_implies_cmt tr : is_some (cmon_run tr) = true -> is_some (cmt_run tr) = true.
Proof.
  intros H. destruct (cmon_run tr) as [cm|] eqn:E; [|discriminate H].
  destruct (cmon_implies_cmt_strong tr cm E) as [ct [E2 _]]. rewrite E2. reflexivity.
Qed.

Theorem cmt_accepts_l fuel ops : is_some (cmt_run (trace (steps fuel init ops))) = true.
Proof.
  apply cmon_implies_cmt. pose proof (model_accepted fuel ops) as H. unfold accepts in H.
  apply andb_true_iff in H. destruct H as [H _]. apply andb_true_iff in H. destruct H as [_ H]. exact H.
Qed.

(* ---------- (D) kmon accepts the model's log -------------------------------------------------------------------------------------- *)
Definition kneutral (e : ev) : bool :=
  match e with EvCtl CDel _ _ => false | EvDeferred _ => false | EvIntroRet _ false => false | _ => true end.
(* every pooled client that was removed inside its announcement is known to the monitor as given up *)
Definition KmG (m : kmon) (s : state) : Prop := forall i c, In (i, c) (clients s) -> c_rm c = true -> emem (Cl i) (k_gone m) = true.
Definition KmS (m : kmon) (s : state) : Prop := kmon_run (trace s) = Some m /\ k_pend m = None /\ KmG m s.
Definition KmI (s : state) : Prop := exists m, KmS m s.

Lemma kstep_neutral m e : k_pend m = None -> kneutral e = true -> kmon_step m e = Some m.
Proof.
  intros P N. unfold kmon_step. rewrite P. destruct e; cbn in N; try reflexivity; try discriminate N.
  - destruct acc; [reflexivity | discriminate N].
  - destruct o; try reflexivity; discriminate N.
Qed.

Lemma krun_log e s : kmon_run (trace (log e s)) = match kmon_run (trace s) with Some m => kmon_step m e | None => None end.
Proof. reflexivity. Qed.

Lemma KmS_log m e s : kneutral e = true -> KmS m s -> KmS m (log e s).
Proof.
  intros N (R & P & G). split; [|split; [exact P | exact G]]. rewrite krun_log, R. apply kstep_neutral; assumption.
Qed.
Lemma KmS_frame_cl m s' s : trace s' = trace s ->
  (forall i c, In (i, c) (clients s') -> c_rm c = true -> In (i, c) (clients s)) -> KmS m s -> KmS m s'.
Proof.
  intros T C (R & P & G). split; [rewrite T; exact R|]. split; [exact P|]. intros i c Hin Hr. apply (G i c); [apply C; assumption | exact Hr].
Qed.
Lemma KmS_frame m s' s : trace s' = trace s -> clients s' = clients s -> KmS m s -> KmS m s'.
Proof. intros T C. apply KmS_frame_cl; [exact T|]. rewrite C. auto. Qed.

Lemma clients_poll_set e f s : clients (poll_set e f s) = clients s.
Proof.
  unfold poll_set. destruct (alookup ent_eqb e (socks s)) as [old|]; [|reflexivity]. destruct (fl_eqb old f); [reflexivity|]. cbn zeta.
  destruct (alookup ent_eqb e (selected _)) as [sel|]; [destruct (fl_is_none _)|]; reflexivity.
Qed.
Lemma clients_poll_remove e s : clients (poll_remove e s) = clients s.
Proof. unfold poll_remove. destruct (alookup ent_eqb e (socks s)); reflexivity. Qed.

Lemma KmS_poll_set m e f s : KmS m s -> KmS m (poll_set e f s).
Proof.
  intros H. unfold poll_set. destruct (alookup ent_eqb e (socks s)) as [old|].
  - destruct (fl_eqb old f); [exact H|]. cbn zeta.
    apply (KmS_frame m _ (log (EvCtl CMod e (map_events f)) s)); [| |apply KmS_log; [reflexivity | exact H]].
    + destruct (alookup ent_eqb e (selected _)) as [sel|]; [destruct (fl_is_none _)|]; reflexivity.
    + destruct (alookup ent_eqb e (selected _)) as [sel|]; [destruct (fl_is_none _)|]; reflexivity.
  - cbn zeta. apply (KmS_frame m _ (log (EvCtl CAdd e (map_events f)) s)); [reflexivity | reflexivity | apply KmS_log; [reflexivity | exact H]].
Qed.

(* right after epoll_ctl DEL of e *)
Definition KmD (m : kmon) (e : ent) (s : state) : Prop :=
  k_pend m = None /\ KmG m s /\ (kmon_run (trace s) = Some m \/ kmon_run (trace s) = Some (mkKm (k_gone m) (Some e))).

Lemma KmD_poll_remove m e s : KmS m s -> KmD m e (poll_remove e s).
Proof.
  intros (R & P & G). unfold poll_remove. destruct (alookup ent_eqb e (socks s)); [|split; [exact P | split; [exact G | left; exact R]]].
  cbn zeta. split; [exact P|]. split; [exact G|].
  change (trace (set_selected (aremove ent_eqb e (selected (set_socks (aremove ent_eqb e (socks (log (EvCtl CDel e 0) s))) (log (EvCtl CDel e 0) s))))
                   (set_socks (aremove ent_eqb e (socks (log (EvCtl CDel e 0) s))) (log (EvCtl CDel e 0) s))))
    with (trace (log (EvCtl CDel e 0) s)).
  rewrite krun_log, R. unfold kmon_step. rewrite P. destruct (emem e (k_gone m)); [left | right]; reflexivity.
Qed.
Lemma KmS_poll_remove_gone m e s : emem e (k_gone m) = true -> KmS m s -> KmS m (poll_remove e s).
Proof.
  intros Hg (R & P & G). unfold poll_remove. destruct (alookup ent_eqb e (socks s)); [|split; [exact R | split; [exact P | exact G]]].
  cbn zeta. split; [|split; [exact P | exact G]].
  change (trace (set_selected (aremove ent_eqb e (selected (set_socks (aremove ent_eqb e (socks (log (EvCtl CDel e 0) s))) (log (EvCtl CDel e 0) s))))
                   (set_socks (aremove ent_eqb e (socks (log (EvCtl CDel e 0) s))) (log (EvCtl CDel e 0) s))))
    with (trace (log (EvCtl CDel e 0) s)).
  rewrite krun_log, R. unfold kmon_step. rewrite P, Hg. reflexivity.
Qed.
Lemma KmD_frame_cl m e s' s : trace s' = trace s ->
  (forall i c, In (i, c) (clients s') -> c_rm c = true -> In (i, c) (clients s)) -> KmD m e s -> KmD m e s'.
Proof.
  intros T C (P & G & R). split; [exact P|]. split; [|rewrite T; exact R].
  intros i c Hin Hr. apply (G i c); [apply C; assumption | exact Hr].
Qed.
Lemma KmD_justified m e ev s : justifies e ev = true -> kneutral ev = true -> KmD m e s -> KmS m (log ev s).
Proof.
  intros J N (P & G & [R|R]).
  - apply KmS_log; [exact N | split; [exact R | split; [exact P | exact G]]].
  - split; [|split; [exact P | exact G]]. rewrite krun_log, R. unfold kmon_step. cbn [k_pend k_gone]. rewrite J.
    destruct m as [g p]. cbn in P. subst p. reflexivity.
Qed.

Lemma KmS_delete_removed m i s : KmS m s -> KmS m (log (EvRemoved (Cl i)) (delete_client i s)).
Proof.
  intros H. apply (KmD_justified m (Cl i)); [cbn; apply Z.eqb_refl | reflexivity|].
  unfold delete_client. cbn zeta.
  apply (KmD_frame_cl m (Cl i) _ (poll_remove (Cl i) (set_closing (zremove i (closing s)) s))); [reflexivity| |].
  - intros j c Hin _. cbn [clients set_clients] in Hin. apply In_aremove in Hin. exact Hin.
  - apply KmD_poll_remove. apply (KmS_frame m _ s); [reflexivity | reflexivity | exact H].
Qed.
Lemma KmS_delete_gone m i s : emem (Cl i) (k_gone m) = true -> KmS m s -> KmS m (delete_client i s).
Proof.
  intros Hg H. unfold delete_client. cbn zeta.
  apply (KmS_frame_cl m _ (poll_remove (Cl i) (set_closing (zremove i (closing s)) s))); [reflexivity| |].
  - intros j c Hin _. cbn [clients set_clients] in Hin. apply In_aremove in Hin. exact Hin.
  - apply KmS_poll_remove_gone; [exact Hg|]. apply (KmS_frame m _ s); [reflexivity | reflexivity | exact H].
Qed.

Lemma In_aset_Z {V} i (v : V) x l : In x (aset Z.eqb i v l) -> x = (i, v) \/ In x l.
Proof.
  induction l as [|[k w] l IH]; cbn [aset]; [intros [H|[]]; left; symmetry; exact H|].
  destruct (k =? i) eqn:E.
  - apply Z.eqb_eq in E. subst k. intros [H|H]; [left; symmetry; exact H | right; right; exact H].
  - intros [H|H]; [right; left; exact H|]. destruct (IH H) as [A|A]; [left; exact A | right; right; exact A].
Qed.

Lemma emem_cons x a l : emem x l = true -> emem x (a :: l) = true.
Proof. intros H. cbn [emem]. rewrite H. apply orb_true_r. Qed.

Lemma KmS_given_up m ev i s' s :
  kmon_step m ev = Some (mkKm (Cl i :: k_gone m) None) -> trace s' = ev :: trace s ->
  (forall j c, In (j, c) (clients s') -> c_rm c = true -> j = i \/ In (j, c) (clients s)) ->
  KmS m s -> KmS (mkKm (Cl i :: k_gone m) None) s'.
Proof.
  intros St T C (R & P & G). split; [|split; [reflexivity|]].
  - unfold kmon_run in *. rewrite T. cbn [mon_run]. rewrite R. exact St.
  - intros j c Hin Hr. cbn [k_gone]. destruct (C j c Hin Hr) as [->|A].
    + cbn [emem]. rewrite ent_eqb_refl. reflexivity.
    + apply emem_cons. apply (G j c A Hr).
Qed.

(* ---- the composite functions keep KmI ---- *)
Lemma KmI_log e s : kneutral e = true -> KmI s -> KmI (log e s).
Proof. intros N [m H]. exists m. apply KmS_log; assumption. Qed.
Lemma KmI_frame s' s : trace s' = trace s -> clients s' = clients s -> KmI s -> KmI s'.
Proof. intros T C [m H]. exists m. eapply KmS_frame; eauto. Qed.
Lemma KmI_frame_cl s' s : trace s' = trace s ->
  (forall i c, In (i, c) (clients s') -> c_rm c = true -> In (i, c) (clients s)) -> KmI s -> KmI s'.
Proof. intros T C [m H]. exists m. eapply KmS_frame_cl; eauto. Qed.
Lemma KmI_poll_set e f s : KmI s -> KmI (poll_set e f s).
Proof. intros [m H]. exists m. apply KmS_poll_set; exact H. Qed.
Lemma KmI_del_just e ev s s1 : trace s1 = trace (poll_remove e s) -> clients s1 = clients s ->
  justifies e ev = true -> kneutral ev = true -> KmI s -> KmI (log ev s1).
Proof.
  intros T C J N [m H]. exists m. apply (KmD_justified m e); [exact J | exact N|].
  apply (KmD_frame_cl m e _ (poll_remove e s)); [exact T | | apply KmD_poll_remove; exact H].
  intros i c Hin _. rewrite C in Hin. rewrite clients_poll_remove. exact Hin.
Qed.
Lemma KmI_delete_removed i s : KmI s -> KmI (log (EvRemoved (Cl i)) (delete_client i s)).
Proof. intros [m H]. exists m. apply KmS_delete_removed; exact H. Qed.
Lemma KmI_delete_rm i c s : alookup Z.eqb i (clients s) = Some c -> c_rm c = true -> KmI s -> KmI (delete_client i s).
Proof.
  intros L Hr [m H]. exists m. apply KmS_delete_gone; [|exact H]. destruct H as (_ & _ & G). apply (G i c); [|exact Hr].
  eapply alookup_In; [apply zeq | exact L].
Qed.
Lemma KmI_new_client i s : KmI s -> KmI (new_client i s).
Proof.
  intros H. unfold new_client. cbn zeta. apply KmI_poll_set.
  apply (KmI_frame_cl _ s); [reflexivity | | exact H].
  intros j c Hin Hr. cbn [clients set_clients set_used] in Hin. apply in_app_or in Hin. destruct Hin as [A|[A|[]]]; [exact A|].
  inversion A; subst. discriminate Hr.
Qed.
Lemma KmI_upd_client_false i c s : c_rm c = false -> KmI s -> KmI (upd_client i c s).
Proof.
  intros Hc H. apply (KmI_frame_cl _ s); [reflexivity | | exact H].
  intros j c' Hin Hr. cbn [clients upd_client set_clients] in Hin. apply In_aset_Z in Hin. destruct Hin as [A|A]; [|exact A].
  inversion A; subst. congruence.
Qed.
Lemma KmI_upd_client_keep i c0 c s : alookup Z.eqb i (clients s) = Some c0 -> c_rm c = c_rm c0 -> KmI s -> KmI (upd_client i c s).
Proof.
  intros L Hc [m (R & P & G)]. exists m. split; [exact R|]. split; [exact P|].
  intros j c' Hin Hr. cbn [clients upd_client set_clients] in Hin. apply In_aset_Z in Hin. destruct Hin as [A|A]; [|apply (G j c' A Hr)].
  inversion A; subst. apply (G i c0); [eapply alookup_In; [apply zeq | exact L] | congruence].
Qed.
Lemma KmI_closing_append i s : KmI s -> KmI (closing_append i s).
Proof. intros H. unfold closing_append. destruct (zmem i (closing s)); [exact H|]. eapply KmI_frame; [..|exact H]; reflexivity. Qed.
Lemma KmI_do_interrupt b s : KmI s -> KmI (do_interrupt b s).
Proof.
  intros H. unfold do_interrupt. cbn zeta. destruct (intr (log (EvInterrupt b) s)).
  - apply KmI_log; [reflexivity | exact H].
  - apply (KmI_frame _ (log (EvInterrupt b) s)); [reflexivity | reflexivity | apply KmI_log; [reflexivity | exact H]].
Qed.

Ltac kfr H := (eapply KmI_frame; [reflexivity | reflexivity | exact H]).

Ltac klog H := (apply KmI_log; [reflexivity | exact H]).

Lemma KmI_exec_action a s : KmI s -> KmI (exec_action a s).
Proof.
  intros H. destruct a; cbn [exec_action].
  - destruct (fresh (Tm i) s); [|klog H]. cbn zeta.
    apply (KmI_frame _ (log (EvCreated (Tm i) (clk s) iv) s)); [reflexivity | reflexivity | klog H].
  - destruct (alookup Z.eqb i (timers s)) as [[et iv]|]; [|klog H]. cbn zeta.
    apply KmI_log; [reflexivity|]. kfr H.
  - destruct (fresh (Cl i) s); [|klog H]. cbn zeta.
    apply KmI_upd_client_false; [reflexivity|]. apply KmI_new_client. klog H.
  - destruct (live_client i s) as [c|] eqn:E; [|klog H].
    apply live_client_some in E. destruct E as [L Hr]. destruct (c_cb c); [apply KmI_delete_removed; exact H|].
    destruct H as [m H]. exists (mkKm (Cl i :: k_gone m) None).
    apply (KmS_given_up m (EvDeferred (Cl i)) i _ s); [| reflexivity | | exact H].
    + destruct H as (_ & P & _). unfold kmon_step. rewrite P. reflexivity.
    + intros j c' Hin Hr'. cbn [clients log set_trace upd_client set_clients] in Hin. apply In_aset_Z in Hin.
      destruct Hin as [A|A]; [left; inversion A; reflexivity | right; exact A].
  - destruct (fresh (Li i) s); [|klog H]. cbn zeta. apply KmI_poll_set.
    apply (KmI_frame _ (log (EvCreated (Li i) 0 0) s)); [reflexivity | reflexivity | klog H].
  - destruct (zmem i (listeners s)); [|klog H]. cbn zeta.
    apply (KmI_del_just (Li i) _ s); [reflexivity | apply clients_poll_remove | cbn; apply Z.eqb_refl | reflexivity | exact H].
  - destruct (fresh (Es i) s); [|klog H]. cbn zeta. apply KmI_poll_set.
    apply (KmI_frame _ (log (EvCreated (Es i) 0 0) s)); [reflexivity | reflexivity | klog H].
  - destruct (zmem i (estabs s)); [|klog H]. cbn zeta.
    apply (KmI_del_just (Es i) _ s); [reflexivity | apply clients_poll_remove | cbn; apply Z.eqb_refl | reflexivity | exact H].
  - destruct (live_client i s) as [c|] eqn:E; [|klog H]. apply live_client_some in E. destruct E as [L Hr].
    destruct (n <? 0); [klog H|]. destruct (c_back c =? 0).
    + cbn zeta.
      assert (KmI (log (EvSend i n (send_result n (next_send n s)) false) (drop_send s))) as H1.
      { apply KmI_log; [reflexivity|]. kfr H. }
      destruct (failed_io _).
      * apply KmI_log; [reflexivity|]. apply KmI_closing_append. exact H1.
      * destruct (n <=? _); [apply KmI_log; [reflexivity | exact H1]|].
        apply KmI_log; [reflexivity|]. apply KmI_poll_set. apply (KmI_upd_client_keep i c); [exact L | reflexivity | exact H1].
    + cbn zeta. apply KmI_log; [reflexivity|]. apply (KmI_upd_client_keep i c); [exact L | reflexivity | exact H].
  - destruct (live_client i s) as [c|]; [|klog H]. cbn zeta.
    assert (KmI (log (EvRecv i (recv_result (next_recv s))) (drop_recv s))) as H1.
    { apply KmI_log; [reflexivity|]. kfr H. }
    destruct (failed_io _); [apply KmI_log; [reflexivity|]; apply KmI_closing_append; exact H1 | apply KmI_log; [reflexivity | exact H1]].
  - destruct (live_client i s) as [c|] eqn:E; [|klog H]. apply live_client_some in E. destruct E as [L Hr].
    destruct (c_susp c); [exact H|]. cbn zeta. apply KmI_poll_set. apply (KmI_upd_client_keep i c); [exact L | reflexivity | exact H].
  - destruct (live_client i s) as [c|] eqn:E; [|klog H]. apply live_client_some in E. destruct E as [L Hr].
    destruct (negb (c_susp c)); [exact H|]. cbn zeta. apply KmI_poll_set. apply (KmI_upd_client_keep i c); [exact L | reflexivity | exact H].
  - apply KmI_do_interrupt. exact H.
  - kfr H.
Qed.

Lemma KmI_exec_actions l s : KmI s -> KmI (exec_actions l s).
Proof.
  unfold exec_actions. revert s. induction l as [|a l IH]; cbn [fold_left]; intros s H; [exact H|].
  apply IH. apply KmI_exec_action. exact H.
Qed.
Lemma KmI_run_script e k s : KmI s -> KmI (run_script e k s).
Proof.
  intros H. unfold run_script. destruct (pop_script e k (scripts s)) as [[x|] rest]; [|kfr H].
  apply KmI_exec_actions. kfr H.
Qed.
Lemma KmI_callback e k s : KmI s -> KmI (callback e k s).
Proof. intros H. unfold callback. apply KmI_run_script. klog H. Qed.

Lemma KmI_timer_phase fuel now s : KmI s -> KmI (timer_phase fuel now s).
Proof.
  revert s. induction fuel as [|f IH]; intros s H; cbn [timer_phase]; [kfr H|].
  destruct (queue s) as [|[k v] q']; [exact H|]. destruct (k - now <=? 0); [|exact H].
  destruct v as [t|]; [destruct (alookup Z.eqb t (timers s)) as [[et iv]|]|]; apply IH; try (kfr H).
  cbn zeta. apply KmI_run_script. apply KmI_log; [reflexivity|]. kfr H.
Qed.

Lemma KmI_closing_phase fuel s : KmI s -> KmI (closing_phase fuel s).
Proof.
  revert s. induction fuel as [|f IH]; intros s H; cbn [closing_phase]; [kfr H|].
  destruct (closing s) as [|i r]; [exact H|]. cbn zeta.
  assert (KmI (set_closing r s)) as H1 by (kfr H).
  change (clients (set_closing r s)) with (clients s).
  destruct (alookup Z.eqb i (clients s)) as [c|] eqn:L; [destruct (c_cb c); [|destruct (c_rm c) eqn:Er]|]; apply IH.
  - apply KmI_callback. exact H1.
  - apply (KmI_delete_rm i c); [exact L | exact Er | exact H1].
  - apply KmI_delete_removed. exact H1.
  - exact H1.
Qed.

Lemma KmI_introduce e k i acc s : KmI s -> KmI (introduce e k i acc s).
Proof.
  intros H. unfold introduce. cbn zeta.
  set (s1 := new_client i (log (EvCreated (Cl i) 0 0) s)).
  assert (KmI s1) as H1 by (subst s1; apply KmI_new_client; klog H).
  set (s2 := run_script e (SIn k) (log (EvIntro e k i (clk s1)) s1)).
  assert (KmI s2) as H2 by (subst s2; apply KmI_run_script; klog H1).
  destruct acc.
  - assert (KmI (log (EvIntroRet i true) s2)) as H3 by (klog H2).
    change (clients (log (EvIntroRet i true) s2)) with (clients s2).
    destruct (alookup Z.eqb i (clients s2)) as [c|] eqn:L; [destruct (c_rm c) eqn:Er|]; [| |exact H3].
    + apply (KmI_delete_rm i c); [exact L | exact Er | exact H3].
    + apply KmI_upd_client_false; [reflexivity | exact H3].
  - (* declined: the monitor learns that the client is given up *)
    destruct H2 as [m H2]. exists (mkKm (Cl i :: k_gone m) None).
    apply KmS_delete_gone; [cbn [k_gone emem]; rewrite ent_eqb_refl; reflexivity|].
    apply (KmS_given_up m (EvIntroRet i false) i _ s2); [| reflexivity | | exact H2].
    + destruct H2 as (_ & P & _). unfold kmon_step. rewrite P. reflexivity.
    + intros j c Hin _. right. exact Hin.
Qed.

Lemma KmI_dispatch_write i ar s : KmI s -> KmI (dispatch_write i ar s).
Proof.
  intros H. unfold dispatch_write. destruct (alookup Z.eqb i (clients s)) as [c|] eqn:L; [|exact H].
  destruct (0 <? c_back c); cbn zeta.
  - set (r := send_result (c_back c) (next_send (c_back c) s)).
    assert (KmI (log (EvSend i (c_back c) r true) (drop_send s))) as H1 by (apply KmI_log; [reflexivity|]; kfr H).
    destruct (failed_io r).
    + unfold callback.
      apply KmI_run_script.
      apply (KmI_del_just (Cl i) _ (upd_client i (mkCl (c_cb c) 0 (c_susp c) (c_rm c)) (log (EvSend i (c_back c) r true) (drop_send s))));
        [reflexivity | apply clients_poll_remove | cbn; apply Z.eqb_refl | reflexivity|].
      apply (KmI_upd_client_keep i c); [exact L | reflexivity | exact H1].
    + destruct (_ =? 0).
      * apply KmI_callback. apply KmI_poll_set. apply (KmI_upd_client_keep i c); [exact L | reflexivity | exact H1].
      * destruct ar; [apply KmI_callback|]; apply (KmI_upd_client_keep i c); try exact L; try reflexivity; exact H1.
  - apply KmI_callback. apply KmI_poll_set. exact H.
Qed.

Lemma KmI_dispatch e f s : KmI s -> KmI (dispatch e f s).
Proof.
  intros H. destruct e as [i|i|i|i]; cbn [dispatch]; [exact H | | |].
  - destruct (fW f); [apply KmI_dispatch_write; exact H|]. destruct (fR f); [apply KmI_callback; exact H | exact H].
  - destruct (fA f); [|exact H]. cbn zeta.
    destruct (if next_accept s then peek_new (Li i) KAccepted (drop_accept s) else None) as [[n acc]|].
    + apply KmI_introduce. apply KmI_log; [reflexivity|]. kfr H.
    + apply KmI_log; [reflexivity|]. kfr H.
  - destruct (fC f); [|exact H]. cbn zeta.
    destruct (if next_conn (poll_remove (Es i) s) =? 0 then peek_new (Es i) KConnected (drop_conn (poll_remove (Es i) s)) else None) as [[n acc]|].
    + apply KmI_introduce.
      apply (KmI_del_just (Es i) _ s); [reflexivity | apply clients_poll_remove | cbn; apply Z.eqb_refl | reflexivity | exact H].
    + unfold callback. apply KmI_run_script. apply KmI_log; [reflexivity|].
      apply (KmI_del_just (Es i) _ s); [reflexivity | apply clients_poll_remove | cbn; apply Z.eqb_refl | reflexivity | exact H].
Qed.

Lemma KmI_absorb r s : KmI s -> KmI (absorb r s).
Proof.
  revert s. induction r as [|[e n] r IH]; intros s H; cbn [absorb]; [exact H|].
  destruct (alookup ent_eqb e (socks s)); apply IH; [kfr H | exact H].
Qed.

Lemma KmI_poll t items s : KmI s -> KmI (fst (fst (poll t items s))).
Proof.
  intros H. unfold poll. destruct (selected s) as [|x r] eqn:Es.
  2:{ unfold pop_selected. rewrite Es. cbn [fst]. kfr H. }
  assert (KmI (fst (epoll_wait t items s))) as H1.
  { unfold epoll_wait. cbn zeta. assert (KmI (log (EvWait t) s)) as Hw by (klog H).
    destruct items as [|it rest]; cbn [fst].
    - apply KmI_do_interrupt. klog Hw.
    - apply KmI_absorb. apply (KmI_frame _ (log (EvItem false) (log (EvWait t) s))); [reflexivity | reflexivity | klog Hw]. }
  destruct (epoll_wait t items s) as [s1 items1]. cbn [fst] in H1.
  destruct (0 <? evcount s1); cbn [fst]; [kfr H1|].
  unfold pop_selected. destruct (selected s1); cbn [fst]; [exact H1 | kfr H1].
Qed.

Lemma KmI_run_loop fuel items s : KmI s -> KmI (run_loop fuel items s).
Proof.
  revert items s. induction fuel as [|f IH]; intros items s H; [kfr H|].
  rewrite run_loop_S.
  assert (KmI (head_state f s)) as Hh.
  { unfold head_state. apply KmI_closing_phase. apply KmI_timer_phase. apply KmI_log; [reflexivity|]. klog H. }
  destruct (stuck (head_state f s)); [exact Hh|].
  pose proof (KmI_poll (tmo_of (clk s) (head_state f s)) items (head_state f s) Hh) as H2.
  destruct (poll (tmo_of (clk s) (head_state f s)) items (head_state f s)) as [[s2 evt] items2]. cbn [fst snd] in *.
  assert (KmI (log EvRunRet (set_intr false s2))) as H3 by (apply KmI_log; [reflexivity|]; kfr H2).
  unfold cont. destruct evt as [[e fl]|]; [destruct (fl_is_none fl)|]; try (destruct (intr s2); [exact H3 | apply IH; exact H2]).
  apply IH. apply KmI_dispatch. exact H2.
Qed.

Lemma KmI_step fuel s o : KmI s -> KmI (step fuel s o).
Proof.
  intros H. unfold step. destruct (stuck s); [exact H|]. destruct o; try (kfr H).
  - apply KmI_exec_action. exact H.
  - unfold run. apply KmI_run_loop. klog H.
Qed.

Lemma KmI_steps fuel ops : KmI (steps fuel init ops).
Proof.
  unfold steps. assert (KmI init) as H0.
  { exists kmon0. split; [reflexivity | split; [reflexivity | intros i c []]]. }
  revert H0. generalize init. induction ops as [|o ops IH]; cbn [fold_left]; intros s H; [exact H|].
  apply IH. apply KmI_step. exact H.
Qed.

Theorem kmon_accepts_l fuel ops : is_some (kmon_run (trace (steps fuel init ops))) = true.
Proof. destruct (KmI_steps fuel ops) as [m (R & _)]. rewrite R. reflexivity. Qed.

(* all six monitors the check applies to the implementation's log accept the model's log *)
Theorem model_accepted_text fuel ops : forallb op_okb ops = true -> accepts_text (trace (steps fuel init ops)) = true.
Proof.
  intros Hok. pose proof (model_accepted fuel ops) as H. unfold accepts in H.
  apply andb_true_iff in H. destruct H as [H Hi]. apply andb_true_iff in H. destruct H as [H _]. apply andb_true_iff in H. destruct H as [Ht Hr].
  unfold accepts_text. rewrite Ht, Hr, (cmt_accepts_l fuel ops), Hi, (wmon_accepts_l fuel ops Hok), (kmon_accepts_l fuel ops). reflexivity.
Qed.
