(* The buffer of selected-but-undelivered events (Socket::Poll::selectedSockets) only loses entries
   between two epoll_wait calls: Poll::set and Poll::remove delete an entry or shrink it in place, nothing
   else touches it.  So an entry only moves towards the head, where Poll::poll serves it. *)
From Coq Require Import ZArith List Bool Lia.
From ServerLoop Require Import ServerLoopSpec ServerLoopModel ServerLoopBase ServerLoopInv.
Import ListNotations.
Local Open Scope Z_scope.

(* l1 is l2 with some elements deleted (order kept) *)
Inductive sublist {A} : list A -> list A -> Prop :=
| sl_nil : sublist [] []
| sl_skip x l1 l2 : sublist l1 l2 -> sublist l1 (x :: l2)
| sl_keep x l1 l2 : sublist l1 l2 -> sublist (x :: l1) (x :: l2).

Lemma sublist_refl {A} (l : list A) : sublist l l.
Proof. induction l; constructor; assumption. Qed.

Lemma sublist_trans {A} (l1 l2 l3 : list A) : sublist l1 l2 -> sublist l2 l3 -> sublist l1 l3.
Proof.
  intros H12 H23. revert l1 H12. induction H23 as [|x l2 l3 H IH|x l2 l3 H IH]; intros l1 H12.
  - exact H12.
  - apply sl_skip. apply IH. exact H12.
  - inversion H12; subst; [apply sl_skip; apply IH; assumption | apply sl_keep; apply IH; assumption].
Qed.

Lemma sublist_keys_aremove {V} e (l : list (ent * V)) : sublist (map fst (aremove ent_eqb e l)) (map fst l).
Proof.
  induction l as [|[k v] l IH]; cbn [aremove map fst]; [constructor|].
  destruct (ent_eqb k e); cbn [map fst]; [apply sl_skip; apply sublist_refl | apply sl_keep; exact IH].
Qed.

Definition skeys (s : state) : list ent := map fst (selected s).
Definition Sub (s' s : state) : Prop := sublist (skeys s') (skeys s).

Lemma Sub_refl s : Sub s s. Proof. apply sublist_refl. Qed.
Lemma Sub_trans s1 s2 s3 : Sub s1 s2 -> Sub s2 s3 -> Sub s1 s3. Proof. apply sublist_trans. Qed.
Lemma Sub_frame s' s : selected s' = selected s -> Sub s' s.
Proof. intros E. unfold Sub, skeys. rewrite E. apply sublist_refl. Qed.

Ltac sfr := (apply Sub_frame; reflexivity).
Ltac strans s2 := apply (Sub_trans _ s2).

Lemma Sub_poll_set e f s : Sub (poll_set e f s) s.
Proof.
  unfold poll_set. destruct (alookup ent_eqb e (socks s)) as [old|]; [|sfr].
  destruct (fl_eqb old f); [apply Sub_refl|]. cbn zeta. sproj.
  destruct (alookup ent_eqb e (selected s)) as [sel|] eqn:E; [|sfr].
  destruct (fl_is_none _); unfold Sub, skeys; sproj.
  - apply sublist_keys_aremove.
  - rewrite keys_aset_in; [apply sublist_refl | apply ent_eqb_eq | eapply alookup_Some_key; [apply ent_eqb_eq | eauto]].
Qed.

Lemma Sub_poll_remove e s : Sub (poll_remove e s) s.
Proof.
  unfold poll_remove. destruct (alookup ent_eqb e (socks s)); [|apply Sub_refl].
  unfold Sub, skeys. sproj. apply sublist_keys_aremove.
Qed.

Lemma Sub_delete_client i s : Sub (delete_client i s) s.
Proof.
  unfold delete_client. cbn zeta. strans (poll_remove (Cl i) (set_closing (zremove i (closing s)) s)); [sfr|].
  strans (set_closing (zremove i (closing s)) s); [apply Sub_poll_remove | sfr].
Qed.

Lemma Sub_new_client i s : Sub (new_client i s) s.
Proof. unfold new_client. cbn zeta. eapply Sub_trans; [apply Sub_poll_set | sfr]. Qed.

Lemma Sub_upd_client i c s : Sub (upd_client i c s) s. Proof. sfr. Qed.
Lemma Sub_log e s : Sub (log e s) s. Proof. sfr. Qed.

Lemma Sub_closing_append i s : Sub (closing_append i s) s.
Proof. unfold closing_append. destruct (zmem i (closing s)); [apply Sub_refl | sfr]. Qed.

Lemma Sub_do_interrupt b s : Sub (do_interrupt b s) s.
Proof. unfold do_interrupt. sproj. destruct (intr s); sfr. Qed.

(* chains of steps each of which only prunes *)
Ltac sstep :=
  first [ apply Sub_refl
        | eapply Sub_trans; [apply Sub_log|]
        | eapply Sub_trans; [apply Sub_poll_set|]
        | eapply Sub_trans; [apply Sub_poll_remove|]
        | eapply Sub_trans; [apply Sub_upd_client|]
        | eapply Sub_trans; [apply Sub_delete_client|]
        | eapply Sub_trans; [apply Sub_new_client|]
        | eapply Sub_trans; [apply Sub_closing_append|]
        | eapply Sub_trans; [apply Sub_do_interrupt|]
        | sfr ].
Ltac schain := repeat sstep.

Lemma Sub_exec_action a s : Sub (exec_action a s) s.
Proof.
  destruct a; cbn [exec_action].
  - destruct (fresh (Tm i) s); sfr.
  - destruct (alookup Z.eqb i (timers s)) as [[et iv]|]; sfr.
  - destruct (fresh (Cl i) s); schain.
  - destruct (live_client i s) as [c|]; [destruct (c_cb c)|]; schain.
  - destruct (fresh (Li i) s); [|sfr]. eapply Sub_trans; [apply Sub_poll_set | sfr].
  - destruct (zmem i (listeners s)); [|sfr]. strans (poll_remove (Li i) s); [sfr | apply Sub_poll_remove].
  - destruct (fresh (Es i) s); [|sfr]. eapply Sub_trans; [apply Sub_poll_set | sfr].
  - destruct (zmem i (estabs s)); [|sfr]. strans (poll_remove (Es i) s); [sfr | apply Sub_poll_remove].
  - destruct (live_client i s) as [c|]; [|sfr]. destruct (n <? 0); [sfr|]. destruct (c_back c =? 0); [|schain].
    cbn zeta. destruct (failed_io _); [schain|]. destruct (n <=? _); schain.
  - destruct (live_client i s) as [c|]; [|sfr]. cbn zeta. destruct (failed_io _); schain.
  - destruct (live_client i s) as [c|]; [|sfr]. destruct (c_susp c); schain.
  - destruct (live_client i s) as [c|]; [|sfr]. destruct (negb (c_susp c)); schain.
  - apply Sub_do_interrupt.
  - sfr.
Qed.

Lemma Sub_exec_actions l s : Sub (exec_actions l s) s.
Proof.
  unfold exec_actions. revert s. induction l as [|a l IH]; cbn [fold_left]; intros s; [apply Sub_refl|].
  eapply Sub_trans; [apply IH | apply Sub_exec_action].
Qed.

Lemma Sub_run_script e k s : Sub (run_script e k s) s.
Proof.
  unfold run_script. destruct (pop_script e k (scripts s)) as [[x|] rest]; [|sfr].
  eapply Sub_trans; [apply Sub_exec_actions | sfr].
Qed.

Lemma Sub_callback e k s : Sub (callback e k s) s.
Proof. unfold callback. eapply Sub_trans; [apply Sub_run_script | sfr]. Qed.

Lemma Sub_timer_phase fuel now s : Sub (timer_phase fuel now s) s.
Proof.
  revert s. induction fuel as [|f IH]; intros s; cbn [timer_phase]; [sfr|].
  destruct (queue s) as [|[k v] q']; [apply Sub_refl|]. destruct (k - now <=? 0); [|apply Sub_refl].
  destruct v as [t|]; [destruct (alookup Z.eqb t (timers s)) as [[et iv]|]|]; (eapply Sub_trans; [apply IH|]); try sfr.
  eapply Sub_trans; [apply Sub_run_script | sfr].
Qed.

Lemma Sub_closing_phase fuel s : Sub (closing_phase fuel s) s.
Proof.
  revert s. induction fuel as [|f IH]; intros s; cbn [closing_phase]; [sfr|].
  destruct (closing s) as [|i r]; [apply Sub_refl|]. sproj.
  destruct (alookup Z.eqb i (clients s)) as [c|]; [destruct (c_cb c); [|destruct (c_rm c)]|]; (eapply Sub_trans; [apply IH|]).
  - eapply Sub_trans; [apply Sub_callback | sfr].
  - eapply Sub_trans; [apply Sub_delete_client | sfr].
  - eapply Sub_trans; [apply Sub_log|]. eapply Sub_trans; [apply Sub_delete_client | sfr].
  - sfr.
Qed.

Lemma Sub_introduce e k i acc s : Sub (introduce e k i acc s) s.
Proof.
  unfold introduce. cbn zeta.
  set (s1 := new_client i (log (EvCreated (Cl i) 0 0) s)).
  assert (Sub s1 s) as H1 by (subst s1; eapply Sub_trans; [apply Sub_new_client | sfr]).
  set (s2 := log (EvIntroRet i acc) (run_script e (SIn k) (log (EvIntro e k i (clk s1)) s1))).
  assert (Sub s2 s) as H2.
  { subst s2. eapply Sub_trans; [apply Sub_log|]. eapply Sub_trans; [apply Sub_run_script|]. eapply Sub_trans; [apply Sub_log | exact H1]. }
  destruct acc; [destruct (alookup Z.eqb i (clients s2)) as [c|]; [destruct (c_rm c)|]|].
  - eapply Sub_trans; [apply Sub_delete_client | exact H2].
  - eapply Sub_trans; [apply Sub_upd_client | exact H2].
  - exact H2.
  - eapply Sub_trans; [apply Sub_delete_client | exact H2].
Qed.

Lemma Sub_dispatch_write i ar s : Sub (dispatch_write i ar s) s.
Proof.
  unfold dispatch_write. destruct (alookup Z.eqb i (clients s)) as [c|]; [|apply Sub_refl].
  destruct (0 <? c_back c); cbn zeta.
  - destruct (failed_io _).
    + eapply Sub_trans; [apply Sub_callback|]. schain.
    + destruct (_ =? 0).
      * eapply Sub_trans; [apply Sub_callback|]. schain.
      * destruct ar; [eapply Sub_trans; [apply Sub_callback|]|]; schain.
  - eapply Sub_trans; [apply Sub_callback|]. schain.
Qed.

(* what a dispatched event does (callbacks included) only prunes the buffer *)
Theorem Sub_dispatch e f s : Sub (dispatch e f s) s.
Proof.
  destruct e as [i|i|i|i]; cbn [dispatch]; [apply Sub_refl | | |].
  - destruct (fW f); [apply Sub_dispatch_write|]. destruct (fR f); [apply Sub_callback | apply Sub_refl].
  - destruct (fA f); [|apply Sub_refl]. cbn zeta.
    destruct (if next_accept s then peek_new (Li i) KAccepted (drop_accept s) else None) as [[n acc]|]; [|sfr].
    eapply Sub_trans; [apply Sub_introduce | sfr].
  - destruct (fC f); [|apply Sub_refl]. cbn zeta.
    assert (Sub (drop_conn (poll_remove (Es i) s)) s) as H1 by (eapply Sub_trans; [|apply (Sub_poll_remove (Es i) s)]; sfr).
    destruct (if next_conn (poll_remove (Es i) s) =? 0 then peek_new (Es i) KConnected (drop_conn (poll_remove (Es i) s)) else None) as [[n acc]|].
    + eapply Sub_trans; [apply Sub_introduce|]. eapply Sub_trans; [apply Sub_log | exact H1].
    + eapply Sub_trans; [apply Sub_callback|]. eapply Sub_trans; [apply Sub_log | exact H1].
Qed.

(* one iteration of run() with a non-empty buffer: the timer and closing phases only prune the buffer; Poll::poll then serves the
   head of what is left without asking the kernel; what the dispatch does only prunes the rest.  So every buffered entry that is
   not deleted (its socket removed or its interest withdrawn) strictly moves towards the head and is served. *)
Theorem buffer_progress fuel now t items s :
  let s1 := closing_phase fuel (timer_phase fuel now s) in
  sublist (skeys s1) (skeys s) /\
  forall e f r, selected s1 = (e, f) :: r ->
    poll t items s1 = (set_selected r s1, Some (e, f), items) /\
    sublist (skeys (dispatch e f (set_selected r s1))) (map fst r).
Proof.
  cbn zeta. split.
  - eapply (Sub_trans _ (timer_phase fuel now s)); [apply Sub_closing_phase | apply Sub_timer_phase].
  - intros e f r E. split.
    + unfold poll, pop_selected. rewrite E. reflexivity.
    + exact (Sub_dispatch e f (set_selected r (closing_phase fuel (timer_phase fuel now s)))).
Qed.
