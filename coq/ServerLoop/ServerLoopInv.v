(* The structural invariant of the model state (no reference to the log) and its preservation
   by every function of the model. *)
From Coq Require Import ZArith List Bool Lia Permutation.
From ServerLoop Require Import ServerLoopSpec ServerLoopModel ServerLoopBase.
Import ListNotations.
Local Open Scope Z_scope.

Ltac sproj :=
  cbn [clk queue timers listeners estabs clients closing socks selected intr evcount used scripts
       sendq recvq acceptq connq trace stuck
       set_clk set_queue set_timers set_listeners set_estabs set_clients set_closing set_socks set_selected
       set_intr set_evcount set_used set_scripts set_sendq set_recvq set_acceptq set_connq set_trace set_stuck log] in *.

Definition zeq := Z.eqb_eq.

Definition sock_ok (s : state) (e : ent) (f : fl) : Prop :=
  match e with
  | Cl i => In i (map fst (clients s)) /\ fA f = false /\ fC f = false
  | Li i => In i (listeners s) /\ f = fl_A
  | Es i => In i (estabs s) /\ f = fl_C
  | Tm _ => False
  end.

Record SInv (s : state) : Prop := mkSInv {
  si_sorted : qsorted (queue s);
  si_q2t : forall k t, In (k, Some t) (queue s) -> exists iv, alookup Z.eqb t (timers s) = Some (k, iv);
  si_t2q : forall t et iv, alookup Z.eqb t (timers s) = Some (et, iv) -> In (et, Some t) (queue s);
  si_qnd : NoDup (qids (queue s));
  si_tnd : NoDup (map fst (timers s));
  si_cnd : NoDup (map fst (clients s));
  si_lnd : NoDup (listeners s);
  si_end : NoDup (estabs s);
  si_clnd : NoDup (closing s);
  si_sknd : NoDup (map fst (socks s));
  si_selnd : NoDup (map fst (selected s));
  si_closing : forall i, In i (closing s) -> In i (map fst (clients s));
  si_socks : forall e f, alookup ent_eqb e (socks s) = Some f -> sock_ok s e f;
  si_sel : forall e f, alookup ent_eqb e (selected s) = Some f ->
                       exists g, alookup ent_eqb e (socks s) = Some g /\ fl_sub f g = true;
  si_used_t : forall i, In i (map fst (timers s)) -> In (Tm i) (used s);
  si_used_c : forall i, In i (map fst (clients s)) -> In (Cl i) (used s);
  si_used_l : forall i, In i (listeners s) -> In (Li i) (used s);
  si_used_e : forall i, In i (estabs s) -> In (Es i) (used s);
  si_evnn : 0 <= evcount s
}.

Ltac dinv H :=
  destruct H as [Hsorted Hq2t Ht2q Hqnd Htnd Hcnd Hlnd Hend Hclnd Hsknd Hselnd Hclosing Hsocks Hsel Hut Huc Hul Hue Hevnn].

Lemma sock_ok_mono s s' e f :
  (forall i, In i (map fst (clients s)) -> In i (map fst (clients s'))) ->
  (forall i, In i (listeners s) -> In i (listeners s')) ->
  (forall i, In i (estabs s) -> In i (estabs s')) ->
  sock_ok s e f -> sock_ok s' e f.
Proof.
  intros Hc Hl He. destruct e; cbn [sock_ok]; [auto | | |].
  - intros [H1 H2]; split; auto.
  - intros [H1 H2]; split; auto.
  - intros [H1 H2]; split; auto.
Qed.

Lemma sock_ok_frame s s' e f :
  clients s' = clients s -> listeners s' = listeners s -> estabs s' = estabs s ->
  sock_ok s e f -> sock_ok s' e f.
Proof. intros Hc Hl He. apply sock_ok_mono; rewrite ?Hc, ?Hl, ?He; auto. Qed.

Lemma SInv_init : SInv init.
Proof.
  constructor; cbn; try (constructor; fail); try (intros; contradiction); try discriminate.
  - split; [constructor | exact I].
  - intros k t [H|[]]; discriminate.
Qed.

(* fields the invariant does not look at *)
Lemma SInv_frame s s' :
  queue s' = queue s -> timers s' = timers s -> listeners s' = listeners s -> estabs s' = estabs s ->
  clients s' = clients s -> closing s' = closing s -> socks s' = socks s -> selected s' = selected s ->
  intr s' = intr s -> evcount s' = evcount s -> used s' = used s ->
  SInv s -> SInv s'.
Proof.
  intros E1 E2 E3 E4 E5 E6 E7 E8 E9 E10 E11 H. dinv H.
  constructor; rewrite ?E1, ?E2, ?E3, ?E4, ?E5, ?E6, ?E7, ?E8, ?E9, ?E10, ?E11; auto.
  intros e f Hf. eapply sock_ok_frame; eauto.
Qed.

Ltac frame := (eapply SInv_frame; [..|eassumption]; reflexivity).

Lemma SInv_log e s : SInv s -> SInv (log e s).
Proof. intros; frame. Qed.
Lemma SInv_set_clk v s : SInv s -> SInv (set_clk v s).
Proof. intros; frame. Qed.
Lemma SInv_set_scripts v s : SInv s -> SInv (set_scripts v s).
Proof. intros; frame. Qed.
Lemma SInv_set_sendq v s : SInv s -> SInv (set_sendq v s).
Proof. intros; frame. Qed.
Lemma SInv_set_recvq v s : SInv s -> SInv (set_recvq v s).
Proof. intros; frame. Qed.
Lemma SInv_set_acceptq v s : SInv s -> SInv (set_acceptq v s).
Proof. intros; frame. Qed.
Lemma SInv_set_connq v s : SInv s -> SInv (set_connq v s).
Proof. intros; frame. Qed.
Lemma SInv_set_stuck v s : SInv s -> SInv (set_stuck v s).
Proof. intros; frame. Qed.

(* ---------- flag algebra -------------------------------------------------------------------------- *)
Lemma fl_sub_spec a b :
  fl_sub a b = true <->
  (fR a = true -> fR b = true) /\ (fW a = true -> fW b = true) /\ (fA a = true -> fA b = true) /\ (fC a = true -> fC b = true).
Proof.
  unfold fl_sub, fl_is_none, fl_diff. cbn [fR fW fA fC].
  destruct (fR a), (fR b), (fW a), (fW b), (fA a), (fA b), (fC a), (fC b); cbn; intuition congruence.
Qed.

Lemma prune_bit (s o n : bool) : (s = true -> o = true) -> s && negb (o && negb n) = true -> n = true.
Proof. destruct s, o, n; cbn; intuition congruence. Qed.

Lemma fl_sub_prune sel old new :
  fl_sub sel old = true -> fl_sub (fl_diff sel (fl_diff old new)) new = true.
Proof.
  rewrite !fl_sub_spec. unfold fl_diff. cbn [fR fW fA fC]. intros (H1 & H2 & H3 & H4).
  repeat split; apply prune_bit; assumption.
Qed.

Lemma unmap_sub n events : fl_sub (unmap_events n events) events = true.
Proof.
  rewrite fl_sub_spec. unfold unmap_events, fl_is_none, fl_or, fl_and, fl_none.
  destruct (nIn n), (nOut n), (nRdhup n), (nHup n), (fR events), (fW events), (fA events), (fC events); cbn; intuition congruence.
Qed.

(* ---------- Socket::Poll ------------------------------------------------------------------------------ *)
Lemma SInv_poll_set e f s : SInv s -> sock_ok s e f -> SInv (poll_set e f s).
Proof.
  intros H Hok. unfold poll_set.
  destruct (alookup ent_eqb e (socks s)) as [old|] eqn:Eold.
  - destruct (fl_eqb old f); [exact H|].
    sproj.
    assert (In e (map fst (socks s))) as Hin by (eapply alookup_Some_key; [apply ent_eqb_eq | eauto]).
    (* the socks part is common to the three outcomes for selected *)
    assert (forall sel', NoDup (map fst sel') ->
              (forall e' f', alookup ent_eqb e' sel' = Some f' ->
                 exists g, alookup ent_eqb e' (aset ent_eqb e f (socks s)) = Some g /\ fl_sub f' g = true) ->
              SInv (set_selected sel' (set_trace (EvCtl CMod e (map_events f) :: trace s) (set_socks (aset ent_eqb e f (socks s)) s)))) as K.
    { intros sel' ND Hs. dinv H. constructor; sproj; auto.
      - apply NoDup_keys_aset; [apply ent_eqb_eq | assumption].
      - intros e' f' Hl. destruct (ent_eqb e e') eqn:E.
        + apply ent_eqb_eq in E; subst e'. rewrite alookup_aset_eq in Hl by apply ent_eqb_eq. inversion Hl; subst.
          eapply sock_ok_frame; [..|exact Hok]; reflexivity.
        + apply ent_eqb_neq in E. rewrite alookup_aset_neq in Hl by (try apply ent_eqb_eq; congruence).
          eapply sock_ok_frame; [..|apply Hsocks; exact Hl]; reflexivity. }
    dinv H.
    destruct (alookup ent_eqb e (selected s)) as [sel|] eqn:Esel.
    + destruct (Hsel _ _ Esel) as [g [Hg1 Hg2]]. rewrite Eold in Hg1. inversion Hg1; subst g.
      destruct (fl_is_none (fl_diff sel (fl_diff old f))).
      * apply K.
        -- apply NoDup_keys_aremove; assumption.
        -- intros e' f' Hl. destruct (ent_eqb e e') eqn:E.
           ++ apply ent_eqb_eq in E; subst e'. rewrite alookup_aremove_eq in Hl by (try apply ent_eqb_eq; assumption). discriminate.
           ++ apply ent_eqb_neq in E. rewrite alookup_aremove_neq in Hl by (try apply ent_eqb_eq; congruence).
              rewrite alookup_aset_neq by (try apply ent_eqb_eq; congruence). auto.
      * apply K.
        -- apply NoDup_keys_aset; [apply ent_eqb_eq | assumption].
        -- intros e' f' Hl. destruct (ent_eqb e e') eqn:E.
           ++ apply ent_eqb_eq in E; subst e'. rewrite alookup_aset_eq in Hl by apply ent_eqb_eq. inversion Hl; subst f'.
              rewrite alookup_aset_eq by apply ent_eqb_eq. eexists; split; [reflexivity|]. apply fl_sub_prune; assumption.
           ++ apply ent_eqb_neq in E. rewrite alookup_aset_neq in Hl by (try apply ent_eqb_eq; congruence).
              rewrite alookup_aset_neq by (try apply ent_eqb_eq; congruence). auto.
    + replace (set_trace (EvCtl CMod e (map_events f) :: trace s) (set_socks (aset ent_eqb e f (socks s)) s))
        with (set_selected (selected s) (set_trace (EvCtl CMod e (map_events f) :: trace s) (set_socks (aset ent_eqb e f (socks s)) s)))
        by (destruct s; reflexivity).
      apply K; [assumption|].
      intros e' f' Hl. sproj. destruct (ent_eqb e e') eqn:E.
      * apply ent_eqb_eq in E; subst e'. congruence.
      * apply ent_eqb_neq in E. rewrite alookup_aset_neq by (try apply ent_eqb_eq; congruence). auto.
  - assert (~ In e (map fst (socks s))) as Hnin by (apply (alookup_None ent_eqb ent_eqb_eq); assumption).
    dinv H. constructor; sproj; auto.
    + rewrite map_app. cbn [map fst]. apply NoDup_snoc; assumption.
    + intros e' f' Hl. rewrite alookup_app in Hl. destruct (alookup ent_eqb e' (socks s)) eqn:E1.
      * inversion Hl; subst. eapply sock_ok_frame; [..|apply Hsocks; exact E1]; reflexivity.
      * cbn [alookup] in Hl. destruct (ent_eqb e e') eqn:E2; [|discriminate]. apply ent_eqb_eq in E2; subst e'.
        inversion Hl; subst. eapply sock_ok_frame; [..|exact Hok]; reflexivity.
    + intros e' f' Hl. destruct (Hsel _ _ Hl) as [g [Hg1 Hg2]]. exists g. split; [|assumption].
      rewrite alookup_app, Hg1. reflexivity.
Qed.

Lemma SInv_poll_remove e s : SInv s -> SInv (poll_remove e s).
Proof.
  intros H. unfold poll_remove. destruct (alookup ent_eqb e (socks s)) eqn:E; [|exact H].
  dinv H. constructor; sproj; auto.
  - apply NoDup_keys_aremove; assumption.
  - apply NoDup_keys_aremove; assumption.
  - intros e' f' Hl. destruct (ent_eqb e e') eqn:E2.
    + apply ent_eqb_eq in E2; subst e'. rewrite alookup_aremove_eq in Hl by (try apply ent_eqb_eq; assumption). discriminate.
    + apply ent_eqb_neq in E2. rewrite alookup_aremove_neq in Hl by (try apply ent_eqb_eq; congruence).
      eapply sock_ok_frame; [..|apply Hsocks; exact Hl]; reflexivity.
  - intros e' f' Hl. destruct (ent_eqb e e') eqn:E2.
    + apply ent_eqb_eq in E2; subst e'. rewrite alookup_aremove_eq in Hl by (try apply ent_eqb_eq; assumption). discriminate.
    + apply ent_eqb_neq in E2. rewrite alookup_aremove_neq in Hl by (try apply ent_eqb_eq; congruence).
      rewrite alookup_aremove_neq by (try apply ent_eqb_eq; congruence). auto.
Qed.

(* what poll_set / poll_remove leave alone *)
Lemma poll_set_frame e f s :
  let s' := poll_set e f s in
  queue s' = queue s /\ timers s' = timers s /\ listeners s' = listeners s /\ estabs s' = estabs s /\
  clients s' = clients s /\ closing s' = closing s /\ intr s' = intr s /\ evcount s' = evcount s /\ used s' = used s /\
  clk s' = clk s /\ scripts s' = scripts s /\ stuck s' = stuck s /\ sendq s' = sendq s /\ recvq s' = recvq s /\
  acceptq s' = acceptq s /\ connq s' = connq s.
Proof.
  unfold poll_set. destruct (alookup ent_eqb e (socks s)); [destruct (fl_eqb f0 f)|]; sproj; [repeat split; reflexivity| |repeat split; reflexivity].
  destruct (alookup ent_eqb e (selected s)); [destruct (fl_is_none _)|]; sproj; repeat split; reflexivity.
Qed.

Lemma poll_remove_frame e s :
  let s' := poll_remove e s in
  queue s' = queue s /\ timers s' = timers s /\ listeners s' = listeners s /\ estabs s' = estabs s /\
  clients s' = clients s /\ closing s' = closing s /\ intr s' = intr s /\ evcount s' = evcount s /\ used s' = used s /\
  clk s' = clk s /\ scripts s' = scripts s /\ stuck s' = stuck s /\ sendq s' = sendq s /\ recvq s' = recvq s /\
  acceptq s' = acceptq s /\ connq s' = connq s.
Proof.
  unfold poll_remove. destruct (alookup ent_eqb e (socks s)); sproj; repeat split; reflexivity.
Qed.

Lemma poll_remove_unreg e s : SInv s -> alookup ent_eqb e (socks (poll_remove e s)) = None.
Proof.
  intros H. unfold poll_remove. destruct (alookup ent_eqb e (socks s)) eqn:E; [|exact E].
  sproj. apply alookup_aremove_eq; [apply ent_eqb_eq | apply (si_sknd _ H)].
Qed.

Lemma poll_remove_other e e' s : e' <> e -> alookup ent_eqb e' (socks (poll_remove e s)) = alookup ent_eqb e' (socks s).
Proof.
  intros N. unfold poll_remove. destruct (alookup ent_eqb e (socks s)) eqn:E; [|reflexivity].
  sproj. apply alookup_aremove_neq; [apply ent_eqb_eq | exact N].
Qed.

(* ---------- clients ------------------------------------------------------------------------------------- *)
Lemma SInv_closing_append i s : SInv s -> In i (map fst (clients s)) -> SInv (closing_append i s).
Proof.
  intros H Hi. unfold closing_append. destruct (zmem i (closing s)) eqn:E; [exact H|].
  apply zmem_false in E. dinv H. constructor; sproj; auto.
  - apply NoDup_snoc; assumption.
  - intros j Hj. apply in_app_iff in Hj. destruct Hj as [Hj|[Hj|[]]]; [auto | subst; assumption].
Qed.

Lemma SInv_upd_client i c s : SInv s -> In i (map fst (clients s)) -> SInv (upd_client i c s).
Proof.
  intros H Hi. unfold upd_client.
  assert (map fst (aset Z.eqb i c (clients s)) = map fst (clients s)) as K by (apply keys_aset_in; [apply zeq | assumption]).
  dinv H. constructor; sproj; rewrite ?K; auto.
  intros e f Hf. specialize (Hsocks _ _ Hf). destruct e; cbn [sock_ok] in *; sproj; rewrite ?K; auto.
Qed.

Lemma SInv_delete_client i s : SInv s -> SInv (delete_client i s).
Proof.
  intros H. unfold delete_client.
  set (s1 := set_closing (zremove i (closing s)) s).
  assert (SInv s1) as H1.
  { subst s1. dinv H. constructor; sproj; auto.
    - apply NoDup_zremove; assumption.
    - intros j Hj. apply Hclosing. eapply In_zremove; eauto. }
  assert (SInv (poll_remove (Cl i) s1)) as H2 by (apply SInv_poll_remove; assumption).
  pose proof (poll_remove_unreg (Cl i) s1 H1) as Hun.
  pose proof (poll_remove_frame (Cl i) s1) as F. cbn zeta in F.
  destruct F as (F1 & F2 & F3 & F4 & F5 & F6 & F7 & F8 & F9 & _).
  set (s2 := poll_remove (Cl i) s1) in *.
  assert (closing s2 = zremove i (closing s)) as Ecl by (rewrite F6; reflexivity).
  assert (NoDup (closing s)) as NDc by (apply (si_clnd _ H)).
  dinv H2. constructor; sproj; auto.
  - apply NoDup_keys_aremove; assumption.
  - intros j Hj. assert (j <> i) as N.
    { intros ->. rewrite Ecl in Hj. eapply notin_zremove; eauto. }
    apply In_keys_aremove_neq; [apply zeq | assumption | auto].
  - intros e f Hf. specialize (Hsocks _ _ Hf). destruct e as [j|j|j|j]; cbn [sock_ok] in *; sproj; auto.
    destruct Hsocks as [A B]. split; [|assumption].
    assert (j <> i) as N by (intros ->; congruence).
    apply In_keys_aremove_neq; [apply zeq | assumption | assumption].
  - intros j Hj. apply Huc. eapply In_keys_aremove; eauto.
Qed.

Lemma SInv_new_client i s : SInv s -> ~ In (Cl i) (used s) -> SInv (new_client i s).
Proof.
  intros H Hf. unfold new_client.
  apply SInv_poll_set.
  - assert (~ In i (map fst (clients s))) as Hn by (intros C; apply Hf; apply (si_used_c _ H); assumption).
    dinv H. constructor; sproj; auto.
    + rewrite map_app. cbn [map fst]. apply NoDup_snoc; assumption.
    + intros j Hj. rewrite map_app, in_app_iff. left; auto.
    + intros e f Hl. specialize (Hsocks _ _ Hl). destruct e; cbn [sock_ok] in *; sproj; auto.
      destruct Hsocks as [A B]. split; [|assumption]. rewrite map_app, in_app_iff. left; assumption.
    + intros j Hj. right; auto.
    + intros j Hj. rewrite map_app, in_app_iff in Hj. cbn [map fst In] in Hj.
      destruct Hj as [Hj|[Hj|[]]]; [right; auto | subst; left; reflexivity].
    + intros j Hj. right; auto.
    + intros j Hj. right; auto.
  - cbn [sock_ok]. sproj. split; [|split; reflexivity]. rewrite map_app, in_app_iff. right. left. reflexivity.
Qed.

Lemma poll_set_clients e f s : clients (poll_set e f s) = clients s.
Proof. pose proof (poll_set_frame e f s) as F. cbn zeta in F. tauto. Qed.
Lemma poll_remove_clients e s : clients (poll_remove e s) = clients s.
Proof. pose proof (poll_remove_frame e s) as F. cbn zeta in F. tauto. Qed.

Lemma new_client_has i s : In i (map fst (clients (new_client i s))).
Proof.
  unfold new_client. cbn zeta. rewrite poll_set_clients. sproj. rewrite map_app, in_app_iff. right; left; reflexivity.
Qed.

Lemma live_client_some i s c : live_client i s = Some c -> alookup Z.eqb i (clients s) = Some c /\ c_rm c = false.
Proof.
  unfold live_client. destruct (alookup Z.eqb i (clients s)) as [c0|]; [|discriminate].
  destruct (c_rm c0) eqn:E; [discriminate|]. intros H; inversion H; subst. auto.
Qed.

(* ---------- actions ---------------------------------------------------------------------------------------- *)
Lemma fresh_spec e s : fresh e s = true -> 0 <= ent_id e /\ ~ In e (used s).
Proof.
  unfold fresh. rewrite andb_true_iff, negb_true_iff, Z.leb_le, emem_false. tauto.
Qed.

Lemma SInv_do_interrupt b s : SInv s -> SInv (do_interrupt b s).
Proof.
  intros H. unfold do_interrupt. sproj. destruct (intr s) eqn:E.
  - frame.
  - dinv H. constructor; sproj; auto; try lia.
Qed.

Lemma SInv_drop_send s : SInv s -> SInv (drop_send s).
Proof. intros; frame. Qed.
Lemma SInv_drop_recv s : SInv s -> SInv (drop_recv s).
Proof. intros; frame. Qed.
Lemma SInv_drop_accept s : SInv s -> SInv (drop_accept s).
Proof. intros; frame. Qed.
Lemma SInv_drop_conn s : SInv s -> SInv (drop_conn s).
Proof. intros; frame. Qed.

Lemma SInv_timer_create i iv s :
  SInv s -> ~ In (Tm i) (used s) ->
  SInv (set_queue (q_insert (clk s + iv) (Some i) (queue s))
         (set_used (Tm i :: used s) (set_timers (timers s ++ [(i, (clk s + iv, iv))]) s))).
Proof.
  intros H Hf.
  assert (~ In i (map fst (timers s))) as Hn by (intros C; apply Hf; apply (si_used_t _ H); assumption).
  assert (alookup Z.eqb i (timers s) = None) as Hl by (apply (alookup_None Z.eqb zeq); assumption).
  dinv H.
  assert (~ In i (qids (queue s))) as Hq.
  { intros C. apply qids_In_inv in C. destruct C as [k Hk]. destruct (Hq2t _ _ Hk) as [iv' Hiv]. congruence. }
  constructor; sproj; auto.
  - apply q_insert_sorted; assumption.
  - intros k t Hk. apply q_insert_In in Hk. rewrite alookup_app. destruct Hk as [Hk|Hk].
    + inversion Hk; subst. rewrite Hl. cbn [alookup]. rewrite Z.eqb_refl. eauto.
    + destruct (Hq2t _ _ Hk) as [iv' Hiv]. rewrite Hiv. eauto.
  - intros t et iv' Ht. apply q_insert_In. rewrite alookup_app in Ht.
    destruct (alookup Z.eqb t (timers s)) as [[et1 iv1]|] eqn:E.
    + inversion Ht; subst. right. eapply Ht2q; eauto.
    + cbn [alookup] in Ht. destruct (i =? t) eqn:E2; [|discriminate]. apply Z.eqb_eq in E2; subst. inversion Ht; subst. left; reflexivity.
  - apply q_insert_qids_nodup; assumption.
  - rewrite map_app. cbn [map fst]. apply NoDup_snoc; assumption.
  - intros j Hj. rewrite map_app, in_app_iff in Hj. cbn [map fst In] in Hj.
    destruct Hj as [Hj|[Hj|[]]]; [right; auto | subst; left; reflexivity].
  - intros j Hj. right; auto.
  - intros j Hj. right; auto.
  - intros j Hj. right; auto.
Qed.

Lemma SInv_timer_remove i et iv s :
  SInv s -> alookup Z.eqb i (timers s) = Some (et, iv) ->
  SInv (set_timers (aremove Z.eqb i (timers s)) (set_queue (q_remove et i (queue s)) s)).
Proof.
  intros H Hl. dinv H.
  destruct (q_remove_spec et i (queue s) Hsorted Hqnd (Ht2q _ _ _ Hl)) as [q1 [q2 [Eq Er]]].
  rewrite Er.
  assert (NoDup (qids q1 ++ i :: qids q2)) as ND by (rewrite Eq in Hqnd; rewrite qids_app in Hqnd; exact Hqnd).
  assert (~ In i (qids q1 ++ qids q2)) as Hni by (apply NoDup_remove_2; exact ND).
  assert (forall k t, In (k, Some t) (q1 ++ q2) -> t <> i) as Hne.
  { intros k t Hk ->. apply Hni. rewrite <- qids_app. eapply qids_In; eauto. }
  assert (forall x, In x (q1 ++ q2) -> In x (queue s)) as Hsub.
  { intros x Hx. rewrite Eq. rewrite in_app_iff in *. cbn [In]. tauto. }
  constructor; sproj; auto.
  - rewrite Eq in Hsorted. eapply qsorted_app_inv; eauto.
  - intros k t Hk. destruct (Hq2t _ _ (Hsub _ Hk)) as [iv' Hiv]. exists iv'.
    rewrite alookup_aremove_neq; [assumption | apply zeq | eapply Hne; eauto].
  - intros t et' iv' Ht. assert (t <> i) as N.
    { intros ->. rewrite alookup_aremove_eq in Ht by (try apply zeq; assumption). discriminate. }
    rewrite alookup_aremove_neq in Ht by (try apply zeq; assumption).
    specialize (Ht2q _ _ _ Ht). rewrite Eq in Ht2q. rewrite in_app_iff in *. cbn [In] in Ht2q.
    destruct Ht2q as [A|[A|A]]; [left; assumption | inversion A; congruence | right; assumption].
  - rewrite qids_app. eapply NoDup_remove_1; eauto.
  - apply NoDup_keys_aremove; assumption.
  - intros j Hj. apply Hut. eapply In_keys_aremove; eauto.
Qed.

Lemma SInv_listener_create i s :
  SInv s -> ~ In (Li i) (used s) ->
  SInv (poll_set (Li i) fl_A (set_used (Li i :: used s) (set_listeners (listeners s ++ [i]) s))).
Proof.
  intros H Hf. apply SInv_poll_set.
  - assert (~ In i (listeners s)) as Hn by (intros C; apply Hf; apply (si_used_l _ H); assumption).
    dinv H. constructor; sproj; auto.
    + apply NoDup_snoc; assumption.
    + intros e f Hl. specialize (Hsocks _ _ Hl). destruct e; cbn [sock_ok] in *; sproj; auto.
      destruct Hsocks as [A B]. split; [|assumption]. rewrite in_app_iff. left; assumption.
    + intros j Hj. right; auto.
    + intros j Hj. right; auto.
    + intros j Hj. rewrite in_app_iff in Hj. cbn [In] in Hj. destruct Hj as [Hj|[Hj|[]]]; [right; auto | subst; left; reflexivity].
    + intros j Hj. right; auto.
  - cbn [sock_ok]. sproj. split; [|reflexivity]. rewrite in_app_iff. right; left; reflexivity.
Qed.

Lemma SInv_estab_create i s :
  SInv s -> ~ In (Es i) (used s) ->
  SInv (poll_set (Es i) fl_C (set_used (Es i :: used s) (set_estabs (estabs s ++ [i]) s))).
Proof.
  intros H Hf. apply SInv_poll_set.
  - assert (~ In i (estabs s)) as Hn by (intros C; apply Hf; apply (si_used_e _ H); assumption).
    dinv H. constructor; sproj; auto.
    + apply NoDup_snoc; assumption.
    + intros e f Hl. specialize (Hsocks _ _ Hl). destruct e; cbn [sock_ok] in *; sproj; auto.
      destruct Hsocks as [A B]. split; [|assumption]. rewrite in_app_iff. left; assumption.
    + intros j Hj. right; auto.
    + intros j Hj. right; auto.
    + intros j Hj. right; auto.
    + intros j Hj. rewrite in_app_iff in Hj. cbn [In] in Hj. destruct Hj as [Hj|[Hj|[]]]; [right; auto | subst; left; reflexivity].
  - cbn [sock_ok]. sproj. split; [|reflexivity]. rewrite in_app_iff. right; left; reflexivity.
Qed.

Lemma SInv_listener_remove i s :
  SInv s -> SInv (set_listeners (zremove i (listeners (poll_remove (Li i) s))) (poll_remove (Li i) s)).
Proof.
  intros H. pose proof (poll_remove_unreg (Li i) s H) as Hun.
  apply SInv_poll_remove with (e := Li i) in H. set (s1 := poll_remove (Li i) s) in *.
  dinv H. constructor; sproj; auto.
  - apply NoDup_zremove; assumption.
  - intros e f Hl. specialize (Hsocks _ _ Hl). destruct e as [j|j|j|j]; cbn [sock_ok] in *; sproj; auto.
    destruct Hsocks as [A B]. split; [|assumption]. assert (j <> i) as N by (intros ->; congruence).
    apply In_zremove_neq; assumption.
  - intros j Hj. apply Hul. eapply In_zremove; eauto.
Qed.

Lemma SInv_estab_remove i s :
  SInv s -> SInv (set_estabs (zremove i (estabs (poll_remove (Es i) s))) (poll_remove (Es i) s)).
Proof.
  intros H. pose proof (poll_remove_unreg (Es i) s H) as Hun.
  apply SInv_poll_remove with (e := Es i) in H. set (s1 := poll_remove (Es i) s) in *.
  dinv H. constructor; sproj; auto.
  - apply NoDup_zremove; assumption.
  - intros e f Hl. specialize (Hsocks _ _ Hl). destruct e as [j|j|j|j]; cbn [sock_ok] in *; sproj; auto.
    destruct Hsocks as [A B]. split; [|assumption]. assert (j <> i) as N by (intros ->; congruence).
    apply In_zremove_neq; assumption.
  - intros j Hj. apply Hue. eapply In_zremove; eauto.
Qed.

Lemma SInv_client_set i c f s :
  SInv s -> In i (map fst (clients s)) -> fA f = false -> fC f = false ->
  SInv (poll_set (Cl i) f (upd_client i c s)).
Proof.
  intros H Hi HA HC. apply SInv_poll_set.
  - apply SInv_upd_client; assumption.
  - cbn [sock_ok]. unfold upd_client. sproj. split; [|split; assumption].
    rewrite keys_aset_in; [assumption | apply zeq | assumption].
Qed.

Lemma SInv_exec_action a s : SInv s -> SInv (exec_action a s).
Proof.
  intros H. destruct a; cbn [exec_action].
  - (* ATimer *) destruct (fresh (Tm i) s) eqn:F; [|apply SInv_log; exact H].
    apply fresh_spec in F. destruct F as [_ F].
    apply (SInv_timer_create i iv (log (EvCreated (Tm i) (clk s) iv) s)); [apply SInv_log; exact H | exact F].
  - (* ARmTimer *) destruct (alookup Z.eqb i (timers s)) as [[et iv]|] eqn:E; [|apply SInv_log; exact H].
    apply SInv_log. apply (SInv_timer_remove i et iv s); assumption.
  - (* APair *) destruct (fresh (Cl i) s) eqn:F; [|apply SInv_log; exact H].
    apply fresh_spec in F. destruct F as [_ F].
    apply SInv_upd_client; [|apply new_client_has].
    apply SInv_new_client; [apply SInv_log; exact H | exact F].
  - (* ARmClient *) destruct (live_client i s) as [c|] eqn:E0; [apply live_client_some in E0; destruct E0 as [E _]|apply SInv_log; exact H].
    destruct (c_cb c); apply SInv_log.
    + apply SInv_delete_client; exact H.
    + apply SInv_upd_client; [exact H | eapply alookup_Some_key; [apply zeq | eauto]].
  - (* AListen *) destruct (fresh (Li i) s) eqn:F; [|apply SInv_log; exact H].
    apply fresh_spec in F. destruct F as [_ F].
    apply (SInv_listener_create i (log (EvCreated (Li i) 0 0) s)); [apply SInv_log; exact H | exact F].
  - (* ARmListener *) destruct (zmem i (listeners s)); [|apply SInv_log; exact H].
    apply SInv_log. apply SInv_listener_remove; exact H.
  - (* AConnect *) destruct (fresh (Es i) s) eqn:F; [|apply SInv_log; exact H].
    apply fresh_spec in F. destruct F as [_ F].
    apply (SInv_estab_create i (log (EvCreated (Es i) 0 0) s)); [apply SInv_log; exact H | exact F].
  - (* ARmEstab *) destruct (zmem i (estabs s)); [|apply SInv_log; exact H].
    apply SInv_log. apply SInv_estab_remove; exact H.
  - (* AWrite *) destruct (live_client i s) as [c|] eqn:E0; [apply live_client_some in E0; destruct E0 as [E _]|apply SInv_log; exact H].
    assert (In i (map fst (clients s))) as Hi by (eapply alookup_Some_key; [apply zeq | eauto]).
    destruct (n <? 0); [apply SInv_log; exact H|].
    destruct (c_back c =? 0).
    + cbn zeta. set (o := next_send n s). set (s1 := drop_send s).
      assert (SInv s1) as H1 by (apply SInv_drop_send; exact H).
      assert (In i (map fst (clients s1))) as Hi1 by exact Hi.
      destruct (failed_io (send_result n o)).
      * apply SInv_log. apply SInv_closing_append; [apply SInv_log; exact H1 | exact Hi1].
      * destruct (n <=? Z.max 0 (send_result n o)); apply SInv_log; [apply SInv_log; exact H1|].
        apply SInv_client_set; [apply SInv_log; exact H1 | exact Hi1 | destruct (c_susp c); reflexivity | destruct (c_susp c); reflexivity].
    + apply SInv_log. apply SInv_upd_client; assumption.
  - (* ARead *) destruct (live_client i s) as [c|] eqn:E0; [apply live_client_some in E0; destruct E0 as [E _]|apply SInv_log; exact H].
    assert (In i (map fst (clients s))) as Hi by (eapply alookup_Some_key; [apply zeq | eauto]).
    cbn zeta. set (o := next_recv s). set (s1 := drop_recv s).
    assert (SInv s1) as H1 by (apply SInv_drop_recv; exact H).
    assert (In i (map fst (clients s1))) as Hi1 by exact Hi.
    destruct (failed_io (recv_result o)); apply SInv_log; [|apply SInv_log; exact H1].
    apply SInv_closing_append; [apply SInv_log; exact H1 | exact Hi1].
  - (* ASuspend *) destruct (live_client i s) as [c|] eqn:E0; [apply live_client_some in E0; destruct E0 as [E _]|apply SInv_log; exact H].
    assert (In i (map fst (clients s))) as Hi by (eapply alookup_Some_key; [apply zeq | eauto]).
    destruct (c_susp c); [exact H|].
    apply SInv_client_set; [exact H | exact Hi | destruct (c_back c =? 0); reflexivity | destruct (c_back c =? 0); reflexivity].
  - (* AResume *) destruct (live_client i s) as [c|] eqn:E0; [apply live_client_some in E0; destruct E0 as [E _]|apply SInv_log; exact H].
    assert (In i (map fst (clients s))) as Hi by (eapply alookup_Some_key; [apply zeq | eauto]).
    destruct (negb (c_susp c)); [exact H|].
    apply SInv_client_set; [exact H | exact Hi | destruct (c_back c =? 0); reflexivity | destruct (c_back c =? 0); reflexivity].
  - apply SInv_do_interrupt; exact H.
  - apply SInv_set_clk; exact H.
Qed.

Lemma SInv_exec_actions l s : SInv s -> SInv (exec_actions l s).
Proof.
  unfold exec_actions. revert s. induction l as [|a l IH]; cbn [fold_left]; intros s H; [exact H|].
  apply IH. apply SInv_exec_action; exact H.
Qed.

Lemma SInv_run_script e k s : SInv s -> SInv (run_script e k s).
Proof.
  intros H. unfold run_script. destruct (pop_script e k (scripts s)) as [[x|] rest].
  - apply SInv_exec_actions. apply SInv_set_scripts; exact H.
  - apply SInv_set_scripts; exact H.
Qed.

Lemma SInv_callback e k s : SInv s -> SInv (callback e k s).
Proof. intros H. unfold callback. apply SInv_run_script. apply SInv_log; exact H. Qed.

(* ---------- the phases of run() -------------------------------------------------------------------------- *)
Lemma SInv_timer_fire k t q' et iv s :
  SInv s -> queue s = (k, Some t) :: q' -> alookup Z.eqb t (timers s) = Some (et, iv) ->
  SInv (set_queue (q_insert (et + iv) (Some t) q') (set_timers (aset Z.eqb t (et + iv, iv) (timers s)) s)).
Proof.
  intros H Eq El. dinv H. rewrite Eq in *.
  cbn [qids] in Hqnd. inversion Hqnd as [|? ? Hnin Hnd]; subst.
  destruct Hsorted as [_ Hs'].
  assert (In t (map fst (timers s))) as Hkey by (eapply alookup_Some_key; [apply zeq | eauto]).
  constructor; sproj; auto.
  - apply q_insert_sorted; assumption.
  - intros k' t' Hk. apply q_insert_In in Hk. destruct Hk as [Hk|Hk].
    + inversion Hk; subst. rewrite alookup_aset_eq by apply zeq. eauto.
    + assert (t' <> t) as N by (intros ->; apply Hnin; eapply qids_In; eauto).
      rewrite alookup_aset_neq by (try apply zeq; assumption). apply Hq2t. right; assumption.
  - intros t' et' iv' Ht. apply q_insert_In. destruct (Z.eq_dec t' t) as [->|N].
    + rewrite alookup_aset_eq in Ht by apply zeq. inversion Ht; subst. left; reflexivity.
    + rewrite alookup_aset_neq in Ht by (try apply zeq; assumption).
      specialize (Ht2q _ _ _ Ht). destruct Ht2q as [A|A]; [inversion A; congruence | right; assumption].
  - apply q_insert_qids_nodup; assumption.
  - apply NoDup_keys_aset; [apply zeq | assumption].
  - intros j Hj. rewrite keys_aset_in in Hj by (try apply zeq; assumption). auto.
Qed.

Lemma SInv_timer_default k q' now s :
  SInv s -> queue s = (k, None) :: q' ->
  SInv (set_queue (q_insert (now + 300000) None q') s).
Proof.
  intros H Eq. dinv H. rewrite Eq in *. cbn [qids] in Hqnd. destruct Hsorted as [_ Hs'].
  constructor; sproj; auto.
  - apply q_insert_sorted; assumption.
  - intros k' t' Hk. apply q_insert_In in Hk. destruct Hk as [Hk|Hk]; [discriminate|]. apply Hq2t. right; assumption.
  - intros t' et' iv' Ht. apply q_insert_In. specialize (Ht2q _ _ _ Ht). destruct Ht2q as [A|A]; [discriminate | right; assumption].
  - apply q_insert_qids_none; assumption.
Qed.

Lemma SInv_timer_phase fuel now s : SInv s -> SInv (timer_phase fuel now s).
Proof.
  revert s. induction fuel as [|f IH]; intros s H; cbn [timer_phase]; [apply SInv_set_stuck; exact H|].
  destruct (queue s) as [|[k v] q'] eqn:Eq; [exact H|].
  destruct (k - now <=? 0); [|exact H].
  destruct v as [t|].
  - destruct (alookup Z.eqb t (timers s)) as [[et iv]|] eqn:El.
    + apply IH. apply SInv_run_script. apply SInv_log. eapply SInv_timer_fire; eauto.
    + exfalso. destruct (si_q2t _ H k t) as [iv Hiv]; [rewrite Eq; left; reflexivity | congruence].
  - apply IH. eapply SInv_timer_default; eauto.
Qed.

Lemma SInv_closing_pop i r s : SInv s -> closing s = i :: r -> SInv (set_closing r s).
Proof.
  intros H E. dinv H. rewrite E in *. inversion Hclnd; subst.
  constructor; sproj; auto. intros j Hj. apply Hclosing. right; assumption.
Qed.

Lemma SInv_closing_phase fuel s : SInv s -> SInv (closing_phase fuel s).
Proof.
  revert s. induction fuel as [|f IH]; intros s H; cbn [closing_phase]; [apply SInv_set_stuck; exact H|].
  destruct (closing s) as [|i r] eqn:E; [exact H|].
  assert (SInv (set_closing r s)) as H1 by (eapply SInv_closing_pop; eauto).
  sproj. destruct (alookup Z.eqb i (clients s)) as [c|]; [destruct (c_cb c); [|destruct (c_rm c)]|]; apply IH.
  - apply SInv_callback; exact H1.
  - apply SInv_delete_client; exact H1.
  - apply SInv_log. apply SInv_delete_client; exact H1.
  - exact H1.
Qed.

Lemma peek_new_spec e k s n acc : peek_new e k s = Some (n, acc) -> 0 <= n /\ ~ In (Cl n) (used s).
Proof.
  unfold peek_new. destruct (fst (pop_script e (SIn k) (scripts s))) as [x|]; [|discriminate].
  destruct (fresh (Cl (s_new x)) s) eqn:F; [|discriminate]. intros E; inversion E; subst.
  apply fresh_spec in F. exact F.
Qed.

Lemma SInv_introduce e k i acc s : SInv s -> ~ In (Cl i) (used s) -> SInv (introduce e k i acc s).
Proof.
  intros H F. unfold introduce. cbn zeta.
  set (s1 := new_client i (log (EvCreated (Cl i) 0 0) s)).
  assert (SInv s1) as H1 by (apply SInv_new_client; [apply SInv_log; exact H | exact F]).
  set (s2 := log (EvIntroRet i acc) (run_script e (SIn k) (log (EvIntro e k i (clk s1)) s1))).
  assert (SInv s2) as H2 by (apply SInv_log; apply SInv_run_script; apply SInv_log; exact H1).
  destruct acc.
  - destruct (alookup Z.eqb i (clients s2)) as [c|] eqn:E; [|exact H2].
    destruct (c_rm c); [apply SInv_delete_client; exact H2|].
    apply SInv_upd_client; [exact H2 | eapply alookup_Some_key; [apply zeq | eauto]].
  - apply SInv_delete_client; exact H2.
Qed.

Lemma SInv_dispatch_write i ar s : SInv s -> SInv (dispatch_write i ar s).
Proof.
  intros H. unfold dispatch_write. destruct (alookup Z.eqb i (clients s)) as [c|] eqn:E; [|exact H].
  assert (In i (map fst (clients s))) as Hi by (eapply alookup_Some_key; [apply zeq | eauto]).
  destruct (0 <? c_back c).
  - cbn zeta. set (o := next_send (c_back c) s). set (s1 := drop_send s).
    assert (SInv s1) as H1 by (apply SInv_drop_send; exact H).
    assert (In i (map fst (clients s1))) as Hi1 by exact Hi.
    destruct (failed_io (send_result (c_back c) o)).
    + apply SInv_callback. apply SInv_poll_remove. apply SInv_upd_client; [apply SInv_log; exact H1 | exact Hi1].
    + destruct (c_back c - Z.max 0 (send_result (c_back c) o) =? 0).
      * apply SInv_callback. apply SInv_client_set; [apply SInv_log; exact H1 | exact Hi1 | destruct (c_susp c); reflexivity | destruct (c_susp c); reflexivity].
      * assert (SInv (upd_client i (mkCl (c_cb c) (c_back c - Z.max 0 (send_result (c_back c) o)) (c_susp c) (c_rm c)) (log (EvSend i (c_back c) (send_result (c_back c) o) true) s1))) as H2
          by (apply SInv_upd_client; [apply SInv_log; exact H1 | exact Hi1]).
        destruct ar; [apply SInv_callback; exact H2 | exact H2].
  - cbn zeta. apply SInv_callback. apply SInv_poll_set; [exact H|].
    cbn [sock_ok]. split; [exact Hi | destruct (c_susp c); split; reflexivity].
Qed.

Lemma SInv_dispatch e f s : SInv s -> SInv (dispatch e f s).
Proof.
  intros H. destruct e as [i|i|i|i]; cbn [dispatch]; [exact H | | |].
  - destruct (fW f); [apply SInv_dispatch_write; exact H|]. destruct (fR f); [apply SInv_callback; exact H | exact H].
  - destruct (fA f); [|exact H].
    cbn zeta. set (ok := next_accept s). set (s1 := drop_accept s).
    assert (SInv s1) as H1 by (apply SInv_drop_accept; exact H).
    destruct (if ok then peek_new (Li i) KAccepted s1 else None) as [[n acc]|] eqn:Pk.
    + destruct ok; [|discriminate]. apply peek_new_spec in Pk. destruct Pk as [_ Pk].
      apply SInv_introduce; [apply SInv_log; exact H1 | exact Pk].
    + apply SInv_log; exact H1.
  - destruct (fC f); [|exact H].
    cbn zeta. set (err := next_conn (poll_remove (Es i) s)). set (s1 := drop_conn (poll_remove (Es i) s)).
    assert (SInv s1) as H1 by (apply SInv_drop_conn; apply SInv_poll_remove; exact H).
    destruct (if err =? 0 then peek_new (Es i) KConnected s1 else None) as [[n acc]|] eqn:Pk.
    + destruct (err =? 0); [|discriminate]. apply peek_new_spec in Pk. destruct Pk as [_ Pk].
      apply SInv_introduce; [apply SInv_log; exact H1 | exact Pk].
    + apply SInv_callback. apply SInv_log; exact H1.
Qed.

(* ---------- poll ------------------------------------------------------------------------------------------------ *)
Lemma SInv_absorb ready s : SInv s -> SInv (absorb ready s).
Proof.
  revert s. induction ready as [|[e n] r IH]; intros s H; cbn [absorb]; [exact H|].
  destruct (alookup ent_eqb e (socks s)) as [events|] eqn:E; [|apply IH; exact H].
  apply IH. dinv H. constructor; sproj; auto.
  - apply NoDup_keys_aset; [apply ent_eqb_eq | assumption].
  - intros e' f' Hl. destruct (ent_eqb e e') eqn:E2.
    + apply ent_eqb_eq in E2; subst e'. rewrite alookup_aset_eq in Hl by apply ent_eqb_eq. inversion Hl; subst.
      exists events. split; [assumption | apply unmap_sub].
    + apply ent_eqb_neq in E2. rewrite alookup_aset_neq in Hl by (try apply ent_eqb_eq; congruence). auto.
Qed.

Lemma SInv_epoll_wait t items s : SInv s -> SInv (fst (epoll_wait t items s)).
Proof.
  intros H. unfold epoll_wait. cbn zeta. destruct items as [|it rest]; cbn [fst].
  - apply SInv_do_interrupt. apply SInv_log. apply SInv_log. exact H.
  - apply SInv_absorb. apply SInv_set_clk. apply SInv_log. apply SInv_log. exact H.
Qed.

Lemma SInv_pop_selected s : SInv s -> SInv (fst (pop_selected s)).
Proof.
  intros H. unfold pop_selected. destruct (selected s) as [|[e f] r] eqn:E; cbn [fst]; [exact H|].
  dinv H. rewrite E in *. cbn [map fst] in Hselnd. inversion Hselnd; subst.
  constructor; sproj; auto.
  intros e' f' Hl. apply Hsel. cbn [alookup]. destruct (ent_eqb e e') eqn:E2; [|exact Hl].
  apply ent_eqb_eq in E2; subst e'. exfalso. apply H1. eapply alookup_Some_key; [apply ent_eqb_eq | eauto].
Qed.

Lemma SInv_poll t items s : SInv s -> SInv (fst (fst (poll t items s))).
Proof.
  intros H. unfold poll. destruct (selected s) as [|x r] eqn:E.
  - destruct (epoll_wait t items s) as [s1 items1] eqn:P.
    assert (SInv s1) as H1 by (replace s1 with (fst (epoll_wait t items s)) by (rewrite P; reflexivity); apply SInv_epoll_wait; exact H).
    destruct (0 <? evcount s1); cbn [fst].
    + dinv H1. constructor; sproj; auto; try lia.
    + destruct (pop_selected s1) as [s2 o] eqn:P2. cbn [fst].
      replace s2 with (fst (pop_selected s1)) by (rewrite P2; reflexivity). apply SInv_pop_selected; exact H1.
  - destruct (pop_selected s) as [s2 o] eqn:P2. cbn [fst].
    replace s2 with (fst (pop_selected s)) by (rewrite P2; reflexivity). apply SInv_pop_selected; exact H.
Qed.

Lemma SInv_run_loop fuel items s : SInv s -> SInv (run_loop fuel items s).
Proof.
  revert items s. induction fuel as [|f IH]; intros items s H; cbn [run_loop]; [apply SInv_set_stuck; exact H|].
  cbn zeta.
  set (s1 := closing_phase f (timer_phase f (clk s) (log (EvSel (sel_view (selected s))) (log (EvNow (clk s)) s)))).
  assert (SInv s1) as H1 by (apply SInv_closing_phase; apply SInv_timer_phase; apply SInv_log; apply SInv_log; exact H).
  destruct (stuck s1); [exact H1|].
  match goal with |- context [poll ?t items s1] => set (tmo := t) end.
  destruct (poll tmo items s1) as [[s2 evt] items2] eqn:P.
  assert (SInv s2) as H2 by (replace s2 with (fst (fst (poll tmo items s1))) by (rewrite P; reflexivity); apply SInv_poll; exact H1).
  assert (SInv (log EvRunRet (set_intr false s2))) as H3.
  { apply SInv_log. dinv H2. constructor; sproj; auto. }
  destruct evt as [[e fl]|].
  - destruct (fl_is_none fl).
    + destruct (intr s2); [exact H3 | apply IH; exact H2].
    + apply IH. apply SInv_dispatch; exact H2.
  - destruct (intr s2); [exact H3 | apply IH; exact H2].
Qed.

Lemma SInv_step fuel s o : SInv s -> SInv (step fuel s o).
Proof.
  intros H. unfold step. destruct (stuck s); [exact H|]. destruct o.
  - apply SInv_exec_action; exact H.
  - apply SInv_set_scripts; exact H.
  - unfold run. apply SInv_run_loop. apply SInv_log; exact H.
  - apply SInv_set_sendq; exact H.
  - apply SInv_set_recvq; exact H.
  - apply SInv_set_acceptq; exact H.
  - apply SInv_set_connq; exact H.
Qed.

Lemma SInv_steps fuel l s : SInv s -> SInv (steps fuel s l).
Proof.
  unfold steps. revert s. induction l as [|o l IH]; cbn [fold_left]; intros s H; [exact H|].
  apply IH. apply SInv_step; exact H.
Qed.

Theorem SInv_reachable fuel l : SInv (steps fuel init l).
Proof. apply SInv_steps. apply SInv_init. Qed.
