(* The life-time / registration / event-kind monitor accepts every log the model can produce. *)
From Coq Require Import ZArith List Bool Lia.
From ServerLoop Require Import ServerLoopSpec ServerLoopModel ServerLoopBase ServerLoopInv ServerLoopCb.
Import ListNotations.
Local Open Scope Z_scope.

Definition sview (l : list (ent * fl)) : list (ent * Z) := map (fun x => (fst x, map_events (snd x))) l.

(* the clients of the pool for which remove() has not been called (a client removed from inside the
   onAccepted/onConnected that announces it stays in the pool until that callback returns) *)
Definition live_keys (l : list (Z * client)) : list Z := map fst (filter (fun x => negb (c_rm (snd x))) l).

Lemma live_keys_app l i c : live_keys (l ++ [(i, c)]) = live_keys l ++ (if c_rm c then [] else [i]).
Proof. unfold live_keys. rewrite filter_app, map_app. cbn [filter snd]. destruct (c_rm c); reflexivity. Qed.

Lemma In_live_keys i l : In i (live_keys l) -> In i (map fst l).
Proof.
  unfold live_keys. intros H. apply in_map_iff in H. destruct H as [[k c] [E H]]. apply filter_In in H. destruct H as [H _].
  cbn in E. subst k. apply (in_map fst) in H. exact H.
Qed.

Lemma live_keys_In i c l : alookup Z.eqb i l = Some c -> c_rm c = false -> In i (live_keys l).
Proof.
  intros L R. apply (alookup_In Z.eqb zeq) in L. unfold live_keys. apply in_map_iff. exists (i, c). split; [reflexivity|].
  apply filter_In. split; [exact L | cbn [snd]; rewrite R; reflexivity].
Qed.

Lemma live_keys_notin i c l : NoDup (map fst l) -> alookup Z.eqb i l = Some c -> c_rm c = true -> ~ In i (live_keys l).
Proof.
  intros ND L R H. unfold live_keys in H. apply in_map_iff in H. destruct H as [[k c'] [E H]]. cbn in E. subst k.
  apply filter_In in H. destruct H as [H Hr]. cbn [snd] in Hr.
  apply (In_alookup Z.eqb zeq _ _ _ ND) in H. rewrite L in H. inversion H; subst. rewrite R in Hr. discriminate.
Qed.

Lemma live_keys_aset_same i c c0 l : alookup Z.eqb i l = Some c0 -> c_rm c = c_rm c0 -> live_keys (aset Z.eqb i c l) = live_keys l.
Proof.
  intros L R. unfold live_keys. induction l as [|[k v] l IH]; cbn [alookup aset] in *; [discriminate|].
  destruct (k =? i) eqn:E.
  - inversion L; subst v. cbn [filter snd]. rewrite R. destruct (negb (c_rm c0)); reflexivity.
  - cbn [filter snd]. destruct (negb (c_rm v)); cbn [map fst]; rewrite IH by exact L; reflexivity.
Qed.

Lemma live_keys_aset_kill i c c0 l :
  NoDup (map fst l) -> alookup Z.eqb i l = Some c0 -> c_rm c0 = false -> c_rm c = true ->
  live_keys (aset Z.eqb i c l) = zremove i (live_keys l).
Proof.
  intros ND L R0 R. unfold live_keys. induction l as [|[k v] l IH]; cbn [alookup aset] in *; [discriminate|].
  inversion ND as [|? ? Hn ND']; subst. destruct (k =? i) eqn:E.
  - inversion L; subst v. cbn [filter snd]. rewrite R, R0. cbn [negb map fst zremove]. rewrite E. reflexivity.
  - cbn [filter snd]. destruct (negb (c_rm v)); cbn [map fst zremove]; rewrite ?E, IH by assumption; reflexivity.
Qed.

Lemma live_keys_aremove i l : NoDup (map fst l) -> live_keys (aremove Z.eqb i l) = zremove i (live_keys l).
Proof.
  intros ND. unfold live_keys. induction l as [|[k v] l IH]; cbn [aremove]; [reflexivity|].
  inversion ND as [|? ? Hn ND']; subst. destruct (k =? i) eqn:E.
  - apply Z.eqb_eq in E; subst k. cbn [filter snd]. destruct (negb (c_rm v)); cbn [map fst zremove]; [rewrite Z.eqb_refl; reflexivity|].
    symmetry. apply zremove_notin. intros C. apply Hn. apply (In_live_keys i l). exact C.
  - cbn [filter snd]. destruct (negb (c_rm v)); cbn [map fst zremove]; rewrite ?E, IH by assumption; reflexivity.
Qed.

(* fc: how the monitor's live clients relate to the pool (identity, except between the "null" return
   of onAccepted/onConnected and the deletion of the client) *)
Definition relRg (fc : list Z -> list Z) (m : rmon) (s : state) : Prop :=
  r_tm m = map fst (timers s) /\ r_cl m = fc (live_keys (clients s)) /\ r_li m = listeners s /\ r_es m = estabs s /\
  r_seen m = used s /\ r_reg m = sview (socks s).
Definition CplRg (fc : list Z -> list Z) (s : state) : Prop := exists m, rmon_run (trace s) = Some m /\ relRg fc m s.
Definition idl (l : list Z) : list Z := l.
Notation relR := (relRg idl).
Notation CplR := (CplRg idl).

Lemma relRg_plain fc m s : relRg fc m s -> relRg fc (r_plain m) s.
Proof. destruct m; exact (fun H => H). Qed.

Lemma CplR_frame fc s s' :
  trace s' = trace s -> timers s' = timers s -> clients s' = clients s -> listeners s' = listeners s -> estabs s' = estabs s ->
  used s' = used s -> socks s' = socks s -> CplRg fc s -> CplRg fc s'.
Proof. intros E1 E2 E3 E4 E5 E6 E7 [m [A H]]. exists m. unfold relRg in *. rewrite E1, E2, E3, E4, E5, E6, E7. auto. Qed.

(* one event whose acceptance does not change the monitor's view *)
Lemma CplR_log_step fc e s :
  (forall m, relRg fc m s -> rmon_step m e = Some (r_plain m)) -> CplRg fc s -> CplRg fc (log e s).
Proof.
  intros K [m [A H]]. exists (r_plain m). sproj. unfold rmon_run in *. cbn [mon_run]. rewrite A.
  split; [apply K; exact H | apply relRg_plain; exact H].
Qed.

Definition rirr (e : ev) : bool :=
  match e with
  | EvNow _ | EvWait _ | EvItem _ | EvWrote _ _ _ | EvRead _ _ | EvSkip | EvInterrupt _ | EvRunEnter | EvRunRet | EvSel _ => true
  | _ => false
  end.

Lemma CplR_log fc e s : rirr e = true -> CplRg fc s -> CplRg fc (log e s).
Proof. intros I. apply CplR_log_step. intros m _. destruct e; cbn in I; try discriminate; reflexivity. Qed.

Ltac rframe := (eapply CplR_frame; [| | | | | | |eassumption]; reflexivity).
Lemma CplR_set_clk n v s : CplRg n s -> CplRg n (set_clk v s). Proof. intros; rframe. Qed.
Lemma CplR_set_queue n v s : CplRg n s -> CplRg n (set_queue v s). Proof. intros; rframe. Qed.
Lemma CplR_set_closing n v s : CplRg n s -> CplRg n (set_closing v s). Proof. intros; rframe. Qed.
Lemma CplR_set_selected n v s : CplRg n s -> CplRg n (set_selected v s). Proof. intros; rframe. Qed.
Lemma CplR_set_intr n v s : CplRg n s -> CplRg n (set_intr v s). Proof. intros; rframe. Qed.
Lemma CplR_set_evcount n v s : CplRg n s -> CplRg n (set_evcount v s). Proof. intros; rframe. Qed.
Lemma CplR_set_scripts n v s : CplRg n s -> CplRg n (set_scripts v s). Proof. intros; rframe. Qed.
Lemma CplR_set_sendq n v s : CplRg n s -> CplRg n (set_sendq v s). Proof. intros; rframe. Qed.
Lemma CplR_set_recvq n v s : CplRg n s -> CplRg n (set_recvq v s). Proof. intros; rframe. Qed.
Lemma CplR_set_acceptq n v s : CplRg n s -> CplRg n (set_acceptq v s). Proof. intros; rframe. Qed.
Lemma CplR_set_connq n v s : CplRg n s -> CplRg n (set_connq v s). Proof. intros; rframe. Qed.
Lemma CplR_set_stuck n v s : CplRg n s -> CplRg n (set_stuck v s). Proof. intros; rframe. Qed.
Lemma CplR_drop_send n s : CplRg n s -> CplRg n (drop_send s). Proof. intros; rframe. Qed.
Lemma CplR_drop_recv n s : CplRg n s -> CplRg n (drop_recv s). Proof. intros; rframe. Qed.
Lemma CplR_drop_accept n s : CplRg n s -> CplRg n (drop_accept s). Proof. intros; rframe. Qed.
Lemma CplR_drop_conn n s : CplRg n s -> CplRg n (drop_conn s). Proof. intros; rframe. Qed.

Create HintDb cplR.
#[export] Hint Resolve CplR_log CplR_set_clk CplR_set_queue CplR_set_closing CplR_set_selected CplR_set_intr CplR_set_evcount
  CplR_set_scripts CplR_set_sendq CplR_set_recvq CplR_set_acceptq CplR_set_connq CplR_set_stuck
  CplR_drop_send CplR_drop_recv CplR_drop_accept CplR_drop_conn : cplR.
#[export] Hint Extern 1 (rirr _ = true) => reflexivity : cplR.

(* ---------- being alive, being registered ------------------------------------------------------------------------ *)
Definition alive_s (s : state) (e : ent) : bool :=
  match e with
  | Tm i => zmem i (map fst (timers s)) | Cl i => zmem i (live_keys (clients s))
  | Li i => zmem i (listeners s) | Es i => zmem i (estabs s)
  end.

Lemma r_alive_rel m s e : relR m s -> r_alive m e = alive_s s e.
Proof. intros (A & B & C & D & _). destruct e; cbn [r_alive alive_s]; rewrite ?A, ?B, ?C, ?D; reflexivity. Qed.

Lemma reg_rel fc m s e : relRg fc m s -> alookup ent_eqb e (r_reg m) = option_map map_events (alookup ent_eqb e (socks s)).
Proof. intros (_ & _ & _ & _ & _ & F). rewrite F. unfold sview. apply alookup_map_snd. Qed.

Lemma reg_has_rel fc m s e p : relRg fc m s ->
  reg_has m e p = match alookup ent_eqb e (socks s) with Some g => p (map_events g) | None => false end.
Proof. intros H. unfold reg_has. rewrite (reg_rel fc m s e H). destruct (alookup ent_eqb e (socks s)); reflexivity. Qed.

Lemma alive_client s i c : alookup Z.eqb i (clients s) = Some c -> c_rm c = false -> alive_s s (Cl i) = true.
Proof. intros H R. cbn [alive_s]. apply zmem_In. eapply live_keys_In; eauto. Qed.

Lemma dead_client s i c : SInv s -> alookup Z.eqb i (clients s) = Some c -> c_rm c = true -> alive_s s (Cl i) = false.
Proof. intros HI H R. cbn [alive_s]. apply zmem_false. eapply live_keys_notin; eauto. apply (si_cnd _ HI). Qed.

(* outside onAccepted/onConnected every pooled client is live *)
Lemma alive_pooled s i : CbEx None s -> In i (map fst (clients s)) -> alive_s s (Cl i) = true.
Proof.
  intros HB Hi. destruct (In_key_alookup Z.eqb zeq i (clients s) Hi) as [c L].
  apply (alive_client s i c L). apply (HB i c); [eapply alookup_In; [apply zeq | exact L] | discriminate].
Qed.

Lemma alive_of_sock s e g : SInv s -> CbEx None s -> alookup ent_eqb e (socks s) = Some g -> alive_s s e = true.
Proof.
  intros HI HB H. pose proof (si_socks _ HI _ _ H) as K. destruct e; cbn [sock_ok] in *; [contradiction | | |].
  - apply alive_pooled; tauto.
  - cbn [alive_s]. apply zmem_In; tauto.
  - cbn [alive_s]. apply zmem_In; tauto.
Qed.

(* events that only need their object to be alive *)
Definition needs_alive (e : ev) : option ent :=
  match e with
  | EvAct t _ _ => Some (Tm t)
  | EvSend i _ _ false => Some (Cl i)
  | EvRecv i _ => Some (Cl i)
  | EvCb (Cl i) KClosed _ => Some (Cl i)
  | EvIntroRet i true => Some (Cl i)
  | _ => None
  end.

Lemma CplR_log_alive e x s : needs_alive e = Some x -> alive_s s x = true -> CplR s -> CplR (log e s).
Proof.
  intros N Al. apply CplR_log_step. intros m H. pose proof (r_alive_rel m s x H) as Ra. rewrite Al in Ra.
  destruct e; cbn in N; try discriminate.
  - inversion N; subst. cbn [rmon_step]. rewrite Ra. reflexivity.
  - destruct e; try discriminate. destruct k; try discriminate. inversion N; subst. cbn [rmon_step]. rewrite Ra. reflexivity.
  - destruct acc; [|discriminate]. inversion N; subst. cbn [rmon_step]. rewrite Ra. reflexivity.
  - destruct disp; [discriminate|]. inversion N; subst. cbn [rmon_step]. rewrite Ra. reflexivity.
  - inversion N; subst. cbn [rmon_step]. rewrite Ra. reflexivity.
Qed.

(* ---------- Socket::Poll --------------------------------------------------------------------------------------------- *)
Lemma sview_app l x : sview (l ++ [x]) = sview l ++ [(fst x, map_events (snd x))].
Proof. unfold sview. rewrite map_app. reflexivity. Qed.

(* a change of interest: the monitor remembers the modification (and the mask before it) as its last event *)
Lemma CplR_poll_set_ld e f old s :
  alive_s s e = true -> mask_ok e (map_events f) = true -> alookup ent_eqb e (socks s) = Some old -> fl_eqb old f = false -> CplR s ->
  exists m, rmon_run (trace (poll_set e f s)) = Some m /\ relR m (poll_set e f s) /\ r_lastdel m = Some (CMod, e, map_events old).
Proof.
  intros Al Mk E Ne [m [A R]]. unfold poll_set. rewrite E, Ne.
  pose proof (r_alive_rel m s e R) as Ra. rewrite Al in Ra.
  pose proof (reg_rel idl m s e R) as Rl. rewrite E in Rl. cbn [option_map] in Rl.
  exists (r_setreg (aset ent_eqb e (map_events f) (r_reg m)) (Some (CMod, e, map_events old)) m).
  assert (forall sel', let s' := set_selected sel' (log (EvCtl CMod e (map_events f)) (set_socks (aset ent_eqb e f (socks s)) s)) in
            rmon_run (trace s') = Some (r_setreg (aset ent_eqb e (map_events f) (r_reg m)) (Some (CMod, e, map_events old)) m) /\
            relR (r_setreg (aset ent_eqb e (map_events f) (r_reg m)) (Some (CMod, e, map_events old)) m) s') as K.
  { intros sel' s'. subst s'. sproj. unfold rmon_run in *. cbn [mon_run]. rewrite A. cbn [rmon_step]. rewrite Rl, Ra, Mk. cbn [andb].
    split; [reflexivity|].
    destruct R as (R1 & R2 & R3 & R4 & R5 & R6). unfold relRg. destruct m; cbn in *. repeat split; auto.
    rewrite R6. unfold sview. apply (aset_map_snd ent_eqb map_events e f). }
  cbn zeta. destruct (alookup ent_eqb e (selected (log _ _))) as [sel|] eqn:Es; [destruct (fl_is_none _)|].
  - destruct (K (aremove ent_eqb e (selected (log (EvCtl CMod e (map_events f)) (set_socks (aset ent_eqb e f (socks s)) s))))) as [K1 K2]. auto.
  - destruct (K (aset ent_eqb e (fl_diff sel (fl_diff old f)) (selected (log (EvCtl CMod e (map_events f)) (set_socks (aset ent_eqb e f (socks s)) s))))) as [K1 K2]. auto.
  - destruct (K (selected s)) as [K1 K2]. split; [exact K1|]. split; [|reflexivity]. exact K2.
Qed.

Lemma CplR_poll_set e f s : alive_s s e = true -> mask_ok e (map_events f) = true -> CplR s -> CplR (poll_set e f s).
Proof.
  intros Al Mk H. destruct (alookup ent_eqb e (socks s)) as [old|] eqn:E.
  - destruct (fl_eqb old f) eqn:Ne; [unfold poll_set; rewrite E, Ne; exact H|].
    destruct (CplR_poll_set_ld e f old s Al Mk E Ne H) as [m [A [R _]]]. exists m. auto.
  - unfold poll_set. rewrite E. destruct H as [m [A R]]. pose proof (r_alive_rel m s e R) as Ra. rewrite Al in Ra.
    pose proof (reg_has_rel idl m s e (fun _ => true) R) as Rh. rewrite E in Rh.
    exists (r_setreg (r_reg m ++ [(e, map_events f)]) None m). sproj. unfold rmon_run in *. cbn [mon_run]. rewrite A.
    cbn [rmon_step]. rewrite Ra, Rh, Mk. cbn [andb negb]. split; [reflexivity|].
    destruct R as (R1 & R2 & R3 & R4 & R5 & R6). unfold relRg. destruct m; cbn in *. repeat split; auto.
    rewrite R6, sview_app. reflexivity.
Qed.

(* the monitor after a removal remembers it as its last event *)
Lemma CplR_poll_remove_ld fc e g s :
  alookup ent_eqb e (socks s) = Some g -> CplRg fc s ->
  exists m, rmon_run (trace (poll_remove e s)) = Some m /\ relRg fc m (poll_remove e s) /\ r_lastdel m = Some (CDel, e, map_events g).
Proof.
  intros E [m [A R]]. unfold poll_remove. rewrite E.
  pose proof (reg_rel fc m s e R) as Rl. rewrite E in Rl. cbn [option_map] in Rl.
  exists (r_setreg (aremove ent_eqb e (r_reg m)) (Some (CDel, e, map_events g)) m). sproj. unfold rmon_run in *. cbn [mon_run]. rewrite A.
  cbn [rmon_step]. rewrite Rl. split; [reflexivity|].
  destruct R as (R1 & R2 & R3 & R4 & R5 & R6). unfold relRg. destruct m; cbn in *. repeat split; auto.
  rewrite R6. unfold sview. apply (aremove_map_snd ent_eqb map_events e).
Qed.

Lemma CplR_poll_remove fc e s : CplRg fc s -> CplRg fc (poll_remove e s).
Proof.
  intros H. destruct (alookup ent_eqb e (socks s)) as [g|] eqn:E.
  - destruct (CplR_poll_remove_ld fc e g s E H) as [m [A [R _]]]. exists m. auto.
  - unfold poll_remove. rewrite E. exact H.
Qed.
#[export] Hint Resolve CplR_poll_remove : cplR.

Lemma poll_set_reg e f s : alookup ent_eqb e (socks (poll_set e f s)) <> None.
Proof.
  unfold poll_set. destruct (alookup ent_eqb e (socks s)) as [old|] eqn:E.
  - destruct (fl_eqb old f); [congruence|]. cbn zeta.
    assert (alookup ent_eqb e (aset ent_eqb e f (socks s)) <> None) as K by (rewrite alookup_aset_eq by apply ent_eqb_eq; discriminate).
    destruct (alookup ent_eqb e (selected (log _ _))); [destruct (fl_is_none _)|]; sproj; exact K.
  - sproj. rewrite alookup_app, E. cbn [alookup]. rewrite ent_eqb_refl. discriminate.
Qed.

(* ---------- creation ------------------------------------------------------------------------------------------------------ *)
Lemma CplR_created e s :
  fresh e s = true -> CplR s ->
  exists m, rmon_run (trace (log (EvCreated e 0 0) s)) = Some (r_add e m) /\ relR m s.
Proof.
  intros F [m [A R]]. exists m. split; [|exact R]. sproj. unfold rmon_run in *. cbn [mon_run]. rewrite A. cbn [rmon_step].
  destruct R as (_ & _ & _ & _ & R5 & _). rewrite R5. unfold fresh in F. rewrite F. reflexivity.
Qed.

(* an update that keeps the "removed" flag of the client *)
Lemma CplR_upd_client fc i c c0 s :
  alookup Z.eqb i (clients s) = Some c0 -> c_rm c = c_rm c0 -> CplRg fc s -> CplRg fc (upd_client i c s).
Proof.
  intros L Hr [m [A R]]. exists m. unfold upd_client. sproj. split; [exact A|].
  unfold relRg in *. sproj. rewrite (live_keys_aset_same i c c0) by assumption. exact R.
Qed.

Lemma upd_client_alive i c c0 s e :
  alookup Z.eqb i (clients s) = Some c0 -> c_rm c = c_rm c0 -> alive_s (upd_client i c s) e = alive_s s e.
Proof.
  intros L Hr. destruct e; cbn [alive_s]; unfold upd_client; sproj; try reflexivity.
  rewrite (live_keys_aset_same i c c0) by assumption. reflexivity.
Qed.

Lemma new_client_lookup i s :
  ~ In i (map fst (clients s)) -> alookup Z.eqb i (clients (new_client i s)) = Some (mkCl false 0 false false).
Proof.
  intros Hn. apply (alookup_None Z.eqb zeq) in Hn. rewrite new_client_clients, alookup_app, Hn. cbn [alookup]. rewrite Z.eqb_refl. reflexivity.
Qed.

Lemma CplR_new_client i s : fresh (Cl i) s = true -> CplR s -> CplR (new_client i (log (EvCreated (Cl i) 0 0) s)).
Proof.
  intros F H. destruct (CplR_created (Cl i) s F H) as [m [A R]].
  unfold new_client. cbn zeta. apply CplR_poll_set.
  - cbn [alive_s]. sproj. apply zmem_In. rewrite live_keys_app. cbn [c_rm]. rewrite in_app_iff. right; left; reflexivity.
  - reflexivity.
  - exists (r_add (Cl i) m). sproj. split; [exact A|].
    destruct R as (R1 & R2 & R3 & R4 & R5 & R6). unfold relRg, idl in *. sproj. cbn [r_add r_tm r_cl r_li r_es r_seen r_reg].
    rewrite live_keys_app. cbn [c_rm]. rewrite R1, R2, R3, R4, R5, R6. repeat split; reflexivity.
Qed.

Lemma CplR_timer_create i iv s :
  fresh (Tm i) s = true -> CplR s ->
  CplR (set_queue (q_insert (clk s + iv) (Some i) (queue s))
          (set_used (Tm i :: used s) (set_timers (timers s ++ [(i, (clk s + iv, iv))]) (log (EvCreated (Tm i) (clk s) iv) s)))).
Proof.
  intros F [m [A R]]. exists (r_add (Tm i) m). sproj. split.
  - unfold rmon_run in *. cbn [mon_run]. rewrite A. cbn [rmon_step].
    destruct R as (_ & _ & _ & _ & R5 & _). rewrite R5. unfold fresh in F. rewrite F. reflexivity.
  - destruct R as (R1 & R2 & R3 & R4 & R5 & R6). unfold relRg, idl in *. sproj. cbn [r_add r_tm r_cl r_li r_es r_seen r_reg].
    rewrite map_app. cbn [map fst]. rewrite R1, R2, R3, R4, R5, R6. repeat split; reflexivity.
Qed.

Lemma CplR_listener_create i s :
  fresh (Li i) s = true -> CplR s ->
  CplR (poll_set (Li i) fl_A (set_used (Li i :: used s) (set_listeners (listeners s ++ [i]) (log (EvCreated (Li i) 0 0) s)))).
Proof.
  intros F H. destruct (CplR_created (Li i) s F H) as [m [A R]].
  apply CplR_poll_set.
  - cbn [alive_s]. sproj. apply zmem_In. rewrite in_app_iff. right; left; reflexivity.
  - reflexivity.
  - exists (r_add (Li i) m). sproj. split; [exact A|].
    destruct R as (R1 & R2 & R3 & R4 & R5 & R6). unfold relRg, idl in *. sproj. cbn [r_add r_tm r_cl r_li r_es r_seen r_reg].
    rewrite R1, R2, R3, R4, R5, R6. repeat split; reflexivity.
Qed.

Lemma CplR_estab_create i s :
  fresh (Es i) s = true -> CplR s ->
  CplR (poll_set (Es i) fl_C (set_used (Es i :: used s) (set_estabs (estabs s ++ [i]) (log (EvCreated (Es i) 0 0) s)))).
Proof.
  intros F H. destruct (CplR_created (Es i) s F H) as [m [A R]].
  apply CplR_poll_set.
  - cbn [alive_s]. sproj. apply zmem_In. rewrite in_app_iff. right; left; reflexivity.
  - reflexivity.
  - exists (r_add (Es i) m). sproj. split; [exact A|].
    destruct R as (R1 & R2 & R3 & R4 & R5 & R6). unfold relRg, idl in *. sproj. cbn [r_add r_tm r_cl r_li r_es r_seen r_reg].
    rewrite R1, R2, R3, R4, R5, R6. repeat split; reflexivity.
Qed.

(* ---------- removal ----------------------------------------------------------------------------------------------------------- *)
(* the object is alive and no longer registered: its removal is accepted and the pools agree again *)
Lemma CplR_removed e s s' :
  CplR s -> alive_s s e = true -> alookup ent_eqb e (socks s) = None ->
  trace s' = trace s -> used s' = used s -> socks s' = socks s ->
  map fst (timers s') = (match e with Tm i => zremove i (map fst (timers s)) | _ => map fst (timers s) end) ->
  live_keys (clients s') = (match e with Cl i => zremove i (live_keys (clients s)) | _ => live_keys (clients s) end) ->
  listeners s' = (match e with Li i => zremove i (listeners s) | _ => listeners s end) ->
  estabs s' = (match e with Es i => zremove i (estabs s) | _ => estabs s end) ->
  CplR (log (EvRemoved e) s').
Proof.
  intros [m [A R]] Al Un Et Eu Es Ht Hc Hl He.
  pose proof (r_alive_rel m s e R) as Ra. rewrite Al in Ra.
  pose proof (reg_has_rel idl m s e (fun _ => true) R) as Rh. rewrite Un in Rh.
  exists (r_del e m). sproj. rewrite Et. unfold rmon_run in *. cbn [mon_run]. rewrite A. cbn [rmon_step]. rewrite Ra, Rh. cbn [andb negb].
  split; [reflexivity|].
  destruct R as (R1 & R2 & R3 & R4 & R5 & R6). unfold relRg, idl in *. sproj. rewrite Ht, Hc, Hl, He, Eu, Es.
  destruct e; cbn [r_del r_tm r_cl r_li r_es r_seen r_reg]; rewrite R1, R2, R3, R4, R5, R6; repeat split; reflexivity.
Qed.

Lemma timer_unreg s i : SInv s -> alookup ent_eqb (Tm i) (socks s) = None.
Proof.
  intros HI. destruct (alookup ent_eqb (Tm i) (socks s)) eqn:E; [|reflexivity].
  exfalso. exact (si_socks _ HI _ _ E).
Qed.

Lemma CplR_timer_remove i et iv s :
  SInv s -> alookup Z.eqb i (timers s) = Some (et, iv) -> CplR s ->
  CplR (log (EvRemoved (Tm i)) (set_timers (aremove Z.eqb i (timers s)) (set_queue (q_remove et i (queue s)) s))).
Proof.
  intros HI El H. eapply (CplR_removed (Tm i) s); try reflexivity; try exact H.
  - cbn [alive_s]. apply zmem_In. eapply alookup_Some_key; [apply zeq | eauto].
  - apply timer_unreg; exact HI.
  - sproj. symmetry. apply zremove_keys.
Qed.

Lemma CplR_delete_client_removed i s :
  SInv s -> alive_s s (Cl i) = true -> CplR s -> CplR (log (EvRemoved (Cl i)) (delete_client i s)).
Proof.
  intros HI Al H. unfold delete_client. cbn zeta.
  set (s1 := poll_remove (Cl i) (set_closing (zremove i (closing s)) s)).
  assert (SInv (set_closing (zremove i (closing s)) s)) as HI0.
  { dinv HI. constructor; sproj; auto; [apply NoDup_zremove; assumption | intros j Hj; apply Hclosing; eapply In_zremove; eauto]. }
  assert (CplR s1) as H1 by (subst s1; auto with cplR).
  eapply (CplR_removed (Cl i) s1); try reflexivity; try exact H1.
  - subst s1. cbn [alive_s]. rewrite poll_remove_clients. exact Al.
  - subst s1. apply poll_remove_unreg. exact HI0.
  - sproj. apply live_keys_aremove. subst s1. rewrite poll_remove_clients. sproj. apply (si_cnd _ HI).
Qed.

(* the deletion of a client whose removal was deferred: the monitor has dropped it already *)
Lemma CplR_delete_zombie i c s :
  SInv s -> alookup Z.eqb i (clients s) = Some c -> c_rm c = true -> CplR s -> CplR (delete_client i s).
Proof.
  intros HI L Hr H. unfold delete_client. cbn zeta.
  set (s1 := poll_remove (Cl i) (set_closing (zremove i (closing s)) s)).
  assert (CplR s1) as H1 by (subst s1; auto with cplR).
  assert (clients s1 = clients s) as Ec by (subst s1; rewrite poll_remove_clients; reflexivity).
  destruct H1 as [m [A R]]. exists m. sproj. split; [exact A|].
  unfold relRg, idl in *. sproj. rewrite Ec in *. rewrite live_keys_aremove by apply (si_cnd _ HI).
  rewrite zremove_notin; [exact R|]. eapply live_keys_notin; eauto. apply (si_cnd _ HI).
Qed.

(* remove() of the client that is being announced: it counts as removed from now on *)
Lemma CplR_deferred i c c' s :
  SInv s -> alookup Z.eqb i (clients s) = Some c -> c_rm c = false -> c_rm c' = true ->
  CplR s -> CplR (log (EvDeferred (Cl i)) (upd_client i c' s)).
Proof.
  intros HI L R0 R1 [m [A R]]. pose proof (r_alive_rel m s (Cl i) R) as Ra. rewrite (alive_client s i c L R0) in Ra.
  exists (r_del (Cl i) m). unfold upd_client. sproj. unfold rmon_run in *. cbn [mon_run]. rewrite A. cbn [rmon_step]. rewrite Ra.
  split; [reflexivity|].
  destruct R as (Q1 & Q2 & Q3 & Q4 & Q5 & Q6). unfold relRg, idl in *. sproj. cbn [r_del r_tm r_cl r_li r_es r_seen r_reg].
  rewrite (live_keys_aset_kill i c' c) by (try assumption; apply (si_cnd _ HI)).
  rewrite Q1, Q2, Q3, Q4, Q5, Q6. repeat split; reflexivity.
Qed.

Lemma CplR_listener_remove i s :
  SInv s -> zmem i (listeners s) = true -> CplR s ->
  CplR (log (EvRemoved (Li i)) (set_listeners (zremove i (listeners (poll_remove (Li i) s))) (poll_remove (Li i) s))).
Proof.
  intros HI Al H. pose proof (poll_remove_frame (Li i) s) as F. cbn zeta in F. destruct F as (_ & _ & F3 & _).
  eapply (CplR_removed (Li i) (poll_remove (Li i) s)); try reflexivity.
  - auto with cplR.
  - cbn [alive_s]. rewrite F3. exact Al.
  - apply poll_remove_unreg; exact HI.
Qed.

Lemma CplR_estab_remove i s :
  SInv s -> zmem i (estabs s) = true -> CplR s ->
  CplR (log (EvRemoved (Es i)) (set_estabs (zremove i (estabs (poll_remove (Es i) s))) (poll_remove (Es i) s))).
Proof.
  intros HI Al H. pose proof (poll_remove_frame (Es i) s) as F. cbn zeta in F. destruct F as (_ & _ & _ & F4 & _).
  eapply (CplR_removed (Es i) (poll_remove (Es i) s)); try reflexivity.
  - auto with cplR.
  - cbn [alive_s]. rewrite F4. exact Al.
  - apply poll_remove_unreg; exact HI.
Qed.

(* ---------- actions --------------------------------------------------------------------------------------------------------------- *)
Lemma CplR_client_set i c c0 f s :
  alookup Z.eqb i (clients s) = Some c0 -> c_rm c = c_rm c0 -> alive_s s (Cl i) = true ->
  mask_ok (Cl i) (map_events f) = true -> CplR s -> CplR (poll_set (Cl i) f (upd_client i c s)).
Proof.
  intros L Hr Al Mk H. apply CplR_poll_set; [|exact Mk | eapply CplR_upd_client; eassumption].
  rewrite (upd_client_alive i c c0) by assumption. exact Al.
Qed.

Lemma CplR_closing_append i s : CplR s -> CplR (closing_append i s).
Proof. intros H. unfold closing_append. destruct (zmem i (closing s)); auto with cplR. Qed.
#[export] Hint Resolve CplR_closing_append : cplR.

Lemma CplR_do_interrupt b s : CplR s -> CplR (do_interrupt b s).
Proof. intros H. unfold do_interrupt. sproj. destruct (intr s); auto 6 with cplR. Qed.
#[export] Hint Resolve CplR_do_interrupt : cplR.

Lemma CplR_exec_action a s : SInv s -> CplR s -> CplR (exec_action a s).
Proof.
  intros HI H. destruct a; cbn [exec_action].
  - (* ATimer *) destruct (fresh (Tm i) s) eqn:F; [exact (CplR_timer_create i iv s F H) | auto with cplR].
  - (* ARmTimer *) destruct (alookup Z.eqb i (timers s)) as [[et iv]|] eqn:E; [|auto with cplR].
    exact (CplR_timer_remove i et iv s HI E H).
  - (* APair *) destruct (fresh (Cl i) s) eqn:F; [|auto with cplR].
    eapply (CplR_upd_client idl i _ (mkCl false 0 false false)); [|reflexivity | apply CplR_new_client; assumption].
    apply new_client_lookup. sproj. apply fresh_spec in F. destruct F as [_ F]. intros C. apply F. apply (si_used_c _ HI). exact C.
  - (* ARmClient *) destruct (live_client i s) as [c|] eqn:E0; [apply live_client_some in E0; destruct E0 as [E Er]|auto with cplR].
    pose proof (alive_client s i c E Er) as Al. destruct (c_cb c).
    + apply CplR_delete_client_removed; assumption.
    + apply (CplR_deferred i c); [exact HI | exact E | exact Er | reflexivity | exact H].
  - (* AListen *) destruct (fresh (Li i) s) eqn:F; [exact (CplR_listener_create i s F H) | auto with cplR].
  - (* ARmListener *) destruct (zmem i (listeners s)) eqn:E; [|auto with cplR]. apply CplR_listener_remove; assumption.
  - (* AConnect *) destruct (fresh (Es i) s) eqn:F; [exact (CplR_estab_create i s F H) | auto with cplR].
  - (* ARmEstab *) destruct (zmem i (estabs s)) eqn:E; [|auto with cplR]. apply CplR_estab_remove; assumption.
  - (* AWrite *) destruct (live_client i s) as [c|] eqn:E0; [apply live_client_some in E0; destruct E0 as [E Er]|auto with cplR].
    pose proof (alive_client s i c E Er) as Al.
    destruct (n <? 0); [auto with cplR|]. destruct (c_back c =? 0).
    + cbn zeta. set (r := send_result n (next_send n s)).
      assert (CplR (log (EvSend i n r false) (drop_send s))) as H1
        by (eapply CplR_log_alive; [reflexivity | exact Al | auto with cplR]).
      destruct (failed_io r); [auto with cplR|].
      destruct (n <=? Z.max 0 r); [auto with cplR|].
      apply CplR_log; [reflexivity|]. apply (CplR_client_set i _ c); [exact E | reflexivity | exact Al | destruct (c_susp c); reflexivity | exact H1].
    + apply CplR_log; [reflexivity|]. eapply CplR_upd_client; [exact E | reflexivity | exact H].
  - (* ARead *) destruct (live_client i s) as [c|] eqn:E0; [apply live_client_some in E0; destruct E0 as [E Er]|auto with cplR].
    pose proof (alive_client s i c E Er) as Al. cbn zeta. set (r := recv_result (next_recv s)).
    assert (CplR (log (EvRecv i r) (drop_recv s))) as H1
      by (eapply CplR_log_alive; [reflexivity | exact Al | auto with cplR]).
    destruct (failed_io r); auto with cplR.
  - (* ASuspend *) destruct (live_client i s) as [c|] eqn:E0; [apply live_client_some in E0; destruct E0 as [E Er]|auto with cplR].
    pose proof (alive_client s i c E Er) as Al.
    destruct (c_susp c); [exact H|]. apply (CplR_client_set i _ c); [exact E | reflexivity | exact Al | destruct (c_back c =? 0); reflexivity | exact H].
  - (* AResume *) destruct (live_client i s) as [c|] eqn:E0; [apply live_client_some in E0; destruct E0 as [E Er]|auto with cplR].
    pose proof (alive_client s i c E Er) as Al.
    destruct (negb (c_susp c)); [exact H|]. apply (CplR_client_set i _ c); [exact E | reflexivity | exact Al | destruct (c_back c =? 0); reflexivity | exact H].
  - auto with cplR.
  - auto with cplR.
Qed.

Lemma CplR_exec_actions l s : SInv s -> CplR s -> SInv (exec_actions l s) /\ CplR (exec_actions l s).
Proof.
  unfold exec_actions. revert s. induction l as [|a l IH]; cbn [fold_left]; intros s HI H; [auto|].
  apply IH; [apply SInv_exec_action; exact HI | apply CplR_exec_action; assumption].
Qed.

Lemma CplR_run_script e k s : SInv s -> CplR s -> CplR (run_script e k s).
Proof.
  intros HI H. unfold run_script. destruct (pop_script e k (scripts s)) as [[x|] rest].
  - apply CplR_exec_actions; [apply SInv_set_scripts; exact HI | auto with cplR].
  - auto with cplR.
Qed.

(* ---------- callbacks ------------------------------------------------------------------------------------------------------------------ *)
Lemma has_in_R g : fR g = true \/ fA g = true -> has_in (map_events g) = true.
Proof. intros H. unfold map_events. destruct (fR g), (fA g), (fW g), (fC g); cbn; try reflexivity; destruct H; discriminate. Qed.
Lemma has_out_W g : fW g = true \/ fC g = true -> has_out (map_events g) = true.
Proof. intros H. unfold map_events. destruct (fR g), (fA g), (fW g), (fC g); cbn; try reflexivity; destruct H; discriminate. Qed.

Lemma CplR_callback_closed i s : SInv s -> alive_s s (Cl i) = true -> CplR s -> CplR (callback (Cl i) KClosed s).
Proof.
  intros HI Al H. unfold callback. apply CplR_run_script; [apply SInv_log; exact HI|].
  eapply CplR_log_alive; [reflexivity | exact Al | exact H].
Qed.

Lemma CplR_callback_read i g s :
  SInv s -> alive_s s (Cl i) = true -> alookup ent_eqb (Cl i) (socks s) = Some g -> fR g = true -> CplR s ->
  CplR (callback (Cl i) KRead s).
Proof.
  intros HI Al Eg Hr H. unfold callback. apply CplR_run_script; [apply SInv_log; exact HI|].
  apply CplR_log_step; [|exact H]. intros m R. cbn [rmon_step].
  rewrite (r_alive_rel m s _ R), Al, (reg_has_rel idl m s _ _ R), Eg, has_in_R by (left; exact Hr). reflexivity.
Qed.

Lemma fl_eqb_fW a b : fW a = true -> fW b = false -> fl_eqb a b = false.
Proof. intros A B. unfold fl_eqb. rewrite A, B. destruct (fR a), (fR b); reflexivity. Qed.

(* the write interest is withdrawn and onWrite is called *)
Lemma CplR_set_write i g f' s :
  SInv (poll_set (Cl i) f' s) -> alive_s s (Cl i) = true -> alookup ent_eqb (Cl i) (socks s) = Some g -> fW g = true -> fW f' = false ->
  mask_ok (Cl i) (map_events f') = true -> CplR s -> CplR (callback (Cl i) KWrite (poll_set (Cl i) f' s)).
Proof.
  intros HI Al Eg Hw Hw' Mk H. unfold callback. apply CplR_run_script; [apply SInv_log; exact HI|].
  destruct (CplR_poll_set_ld (Cl i) f' g s Al Mk Eg (fl_eqb_fW g f' Hw Hw') H) as [m [A [R Ld]]].
  exists (r_plain m). sproj. unfold rmon_run in *. cbn [mon_run]. rewrite A. cbn [rmon_step].
  rewrite (r_alive_rel m _ _ R). cbn [alive_s]. rewrite poll_set_clients. cbn [alive_s] in Al. rewrite Al, Ld, Z.eqb_refl.
  rewrite has_out_W by (left; exact Hw). split; [reflexivity|]. apply relRg_plain. exact R.
Qed.

Lemma CplR_callback_abolished i s :
  SInv s -> alive_s s (Es i) = true -> alookup ent_eqb (Es i) (socks s) = None -> CplR s -> CplR (callback (Es i) KAbolished s).
Proof.
  intros HI Al Eg H. unfold callback. apply CplR_run_script; [apply SInv_log; exact HI|].
  apply CplR_log_step; [|exact H]. intros m R. cbn [rmon_step].
  rewrite (r_alive_rel m s _ R), Al, (reg_has_rel idl m s _ _ R), Eg. reflexivity.
Qed.

(* ---------- the phases ----------------------------------------------------------------------------------------------------------------------- *)
Lemma CplR_timer_phase fuel now s : SInv s -> CplR s -> CplR (timer_phase fuel now s).
Proof.
  revert s. induction fuel as [|f IH]; intros s HI H; cbn [timer_phase]; [auto with cplR|].
  destruct (queue s) as [|[k v] q'] eqn:Eq; [exact H|]. destruct (k - now <=? 0); [|exact H].
  destruct v as [t|].
  - destruct (alookup Z.eqb t (timers s)) as [[et iv]|] eqn:El.
    + assert (In t (map fst (timers s))) as Hk by (eapply alookup_Some_key; [apply zeq | eauto]).
      set (s1 := set_queue (q_insert (et + iv) (Some t) q') (set_timers (aset Z.eqb t (et + iv, iv) (timers s)) s)).
      assert (SInv s1) as HI1 by (eapply SInv_timer_fire; eauto).
      assert (CplR s1) as H1.
      { destruct H as [m [A R]]. exists m. subst s1. sproj. split; [exact A|]. unfold relRg in *. sproj.
        rewrite keys_aset_in by (try apply zeq; assumption). exact R. }
      apply IH; [apply SInv_run_script; apply SInv_log; exact HI1|].
      apply CplR_run_script; [apply SInv_log; exact HI1|].
      eapply CplR_log_alive; [reflexivity | | exact H1].
      subst s1. cbn [alive_s]. sproj. rewrite keys_aset_in by (try apply zeq; assumption). apply zmem_In; exact Hk.
    + exfalso. destruct (si_q2t _ HI k t) as [iv Hiv]; [rewrite Eq; left; reflexivity | congruence].
  - apply IH; [eapply SInv_timer_default; eauto | auto with cplR].
Qed.

Lemma CplR_closing_phase fuel s : SInv s -> CbEx None s -> CplR s -> CplR (closing_phase fuel s).
Proof.
  revert s. induction fuel as [|f IH]; intros s HI HB H; cbn [closing_phase]; [auto with cplR|].
  destruct (closing s) as [|i r] eqn:E; [exact H|].
  assert (SInv (set_closing r s)) as HI1 by (eapply SInv_closing_pop; eauto).
  assert (CbEx None (set_closing r s)) as HB1 by (eapply CbEx_frame; [|exact HB]; reflexivity).
  assert (CplR (set_closing r s)) as H1 by auto with cplR.
  sproj. destruct (alookup Z.eqb i (clients s)) as [c|] eqn:El.
  - destruct (HB i c) as [Ecb Erm]; [eapply alookup_In; [apply zeq | exact El] | discriminate|].
    pose proof (alive_client s i c El Erm) as Al. rewrite Ecb.
    apply IH; [apply SInv_callback; exact HI1 | apply CbEx_callback; assumption | apply CplR_callback_closed; assumption].
  - apply IH; assumption.
Qed.

(* ---------- the client being announced stays in the pool (without callback object) until the callback returns ----------- *)
Definition nocb (i : Z) (s : state) : Prop := exists c, alookup Z.eqb i (clients s) = Some c /\ c_cb c = false.

Lemma nocb_frame i s s' : clients s' = clients s -> nocb i s -> nocb i s'.
Proof. intros E [c H]. exists c. rewrite E. exact H. Qed.

Lemma closing_append_clients i s : clients (closing_append i s) = clients s.
Proof. unfold closing_append. destruct (zmem i (closing s)); reflexivity. Qed.
Lemma do_interrupt_clients b s : clients (do_interrupt b s) = clients s.
Proof. unfold do_interrupt. sproj. destruct (intr s); reflexivity. Qed.

Lemma nocb_upd i j c s : nocb i s -> (j = i -> c_cb c = false) -> nocb i (upd_client j c s).
Proof.
  intros [c0 [A B]] K. unfold upd_client, nocb. sproj. destruct (Z.eq_dec j i) as [->|N].
  - exists c. rewrite alookup_aset_eq by apply zeq. auto.
  - exists c0. rewrite alookup_aset_neq by (try apply zeq; congruence). auto.
Qed.

Lemma nocb_delete_other i j s : j <> i -> nocb i s -> nocb i (delete_client j s).
Proof.
  intros N [c [A B]]. exists c. unfold delete_client. cbn zeta. sproj. rewrite poll_remove_clients. sproj.
  rewrite alookup_aremove_neq by (try apply zeq; congruence). auto.
Qed.

Lemma nocb_exec_action i a s : SInv s -> nocb i s -> nocb i (exec_action a s).
Proof.
  intros HI H. pose proof H as [c0 [A0 B0]].
  destruct a; cbn [exec_action]; try (eapply nocb_frame; [|exact H]; reflexivity).
  - destruct (fresh (Tm i0) s); eapply nocb_frame; [|exact H| |exact H]; reflexivity.
  - destruct (alookup Z.eqb i0 (timers s)) as [[et iv]|]; eapply nocb_frame; [|exact H| |exact H]; reflexivity.
  - (* APair *) destruct (fresh (Cl i0) s) eqn:F; [|eapply nocb_frame; [|exact H]; reflexivity].
    apply fresh_spec in F. destruct F as [_ F].
    assert (i0 <> i) as N.
    { intros ->. apply F. apply (si_used_c _ HI). eapply alookup_Some_key; [apply zeq | eauto]. }
    apply nocb_upd; [|congruence].
    exists c0. unfold new_client. cbn zeta. rewrite poll_set_clients. sproj. rewrite alookup_app, A0. auto.
  - (* ARmClient *) destruct (live_client i0 s) as [c|] eqn:E0; [apply live_client_some in E0; destruct E0 as [E Er]|eapply nocb_frame; [|exact H]; reflexivity].
    destruct (c_cb c) eqn:Ecb.
    + assert (i0 <> i) as N by (intros ->; congruence).
      eapply nocb_frame; [|apply nocb_delete_other; [exact N | exact H]]. reflexivity.
    + eapply nocb_frame; [|apply (nocb_upd i i0 (mkCl false (c_back c) (c_susp c) true) s H); reflexivity]. reflexivity.
  - destruct (fresh (Li i0) s); [|eapply nocb_frame; [|exact H]; reflexivity].
    eapply nocb_frame; [|exact H]. rewrite poll_set_clients. reflexivity.
  - destruct (zmem i0 (listeners s)); [|eapply nocb_frame; [|exact H]; reflexivity].
    eapply nocb_frame; [|exact H]. sproj. rewrite poll_remove_clients. reflexivity.
  - destruct (fresh (Es i0) s); [|eapply nocb_frame; [|exact H]; reflexivity].
    eapply nocb_frame; [|exact H]. rewrite poll_set_clients. reflexivity.
  - destruct (zmem i0 (estabs s)); [|eapply nocb_frame; [|exact H]; reflexivity].
    eapply nocb_frame; [|exact H]. sproj. rewrite poll_remove_clients. reflexivity.
  - (* AWrite *) destruct (live_client i0 s) as [c|] eqn:E0; [apply live_client_some in E0; destruct E0 as [E Er]|eapply nocb_frame; [|exact H]; reflexivity].
    destruct (n <? 0); [eapply nocb_frame; [|exact H]; reflexivity|].
    assert (i0 = i -> c_cb c = false) as K by (intros ->; congruence).
    destruct (c_back c =? 0).
    + cbn zeta. destruct (failed_io _).
      * eapply nocb_frame; [|exact H]. sproj. rewrite closing_append_clients. reflexivity.
      * destruct (n <=? _); [eapply nocb_frame; [|exact H]; reflexivity|].
        eapply nocb_frame; [sproj; apply poll_set_clients|]. apply nocb_upd; [|cbn; exact K].
        eapply nocb_frame; [|exact H]. reflexivity.
    + eapply nocb_frame; [|apply (nocb_upd i i0 (mkCl (c_cb c) (c_back c + n) (c_susp c) (c_rm c)) s H); cbn; exact K]. reflexivity.
  - (* ARead *) destruct (live_client i0 s) as [c|] eqn:E0; [apply live_client_some in E0; destruct E0 as [E Er]|eapply nocb_frame; [|exact H]; reflexivity].
    cbn zeta. destruct (failed_io _); eapply nocb_frame; [|exact H| |exact H]; sproj; rewrite ?closing_append_clients; reflexivity.
  - (* ASuspend *) destruct (live_client i0 s) as [c|] eqn:E0; [apply live_client_some in E0; destruct E0 as [E Er]|eapply nocb_frame; [|exact H]; reflexivity].
    destruct (c_susp c); [exact H|].
    eapply nocb_frame; [apply poll_set_clients|]. apply nocb_upd; [exact H | intros ->; cbn; congruence].
  - (* AResume *) destruct (live_client i0 s) as [c|] eqn:E0; [apply live_client_some in E0; destruct E0 as [E Er]|eapply nocb_frame; [|exact H]; reflexivity].
    destruct (negb (c_susp c)); [exact H|].
    eapply nocb_frame; [apply poll_set_clients|]. apply nocb_upd; [exact H | intros ->; cbn; congruence].
  - eapply nocb_frame; [apply do_interrupt_clients | exact H].
Qed.

Lemma nocb_exec_actions i l s : SInv s -> nocb i s -> nocb i (exec_actions l s).
Proof.
  unfold exec_actions. revert s. induction l as [|a l IH]; cbn [fold_left]; intros s HI H; [exact H|].
  apply IH; [apply SInv_exec_action; exact HI | apply nocb_exec_action; assumption].
Qed.

Lemma nocb_run_script i e k s : SInv s -> nocb i s -> nocb i (run_script e k s).
Proof.
  intros HI H. unfold run_script. destruct (pop_script e k (scripts s)) as [[x|] rest].
  - apply nocb_exec_actions; [apply SInv_set_scripts; exact HI | eapply nocb_frame; [|exact H]; reflexivity].
  - eapply nocb_frame; [|exact H]; reflexivity.
Qed.

(* ---------- announcing a client --------------------------------------------------------------------------------------------------------- *)
Lemma peek_new_fresh e k s n acc : peek_new e k s = Some (n, acc) -> fresh (Cl n) s = true.
Proof.
  unfold peek_new. destruct (fst (pop_script e (SIn k) (scripts s))) as [x|]; [|discriminate].
  destruct (fresh (Cl (s_new x)) s) eqn:F; [|discriminate]. intros E; inversion E; subst. exact F.
Qed.

Definition intro_kind (e : ent) (k : ikind) : bool :=
  match e, k with Li _, KAccepted | Es _, KConnected => true | _, _ => false end.

Lemma new_client_frame i s :
  let s' := new_client i s in
  timers s' = timers s /\ listeners s' = listeners s /\ estabs s' = estabs s.
Proof.
  unfold new_client. cbn zeta.
  pose proof (poll_set_frame (Cl i) fl_R (set_used (Cl i :: used (set_clients (clients s ++ [(i, mkCl false 0 false false)]) s)) (set_clients (clients s ++ [(i, mkCl false 0 false false)]) s))) as F.
  cbn zeta in F. destruct F as (_ & F2 & F3 & F4 & _). rewrite F2, F3, F4. auto.
Qed.

Lemma CplR_introduce e k i acc s :
  SInv s -> fresh (Cl i) s = true -> alive_s s e = true -> intro_kind e k = true -> e <> Cl i -> CplR s ->
  CplR (introduce e k i acc s).
Proof.
  intros HI F Al Ik Ne H. unfold introduce. cbn zeta.
  pose proof (fresh_spec _ _ F) as [_ Fn].
  set (s1 := new_client i (log (EvCreated (Cl i) 0 0) s)).
  assert (SInv s1) as HI1 by (apply SInv_new_client; [apply SInv_log; exact HI | exact Fn]).
  assert (CplR s1) as H1 by (apply CplR_new_client; assumption).
  assert (~ In i (map fst (clients s))) as Hn by (intros C; apply Fn; apply (si_used_c _ HI); exact C).
  assert (alookup Z.eqb i (clients s1) = Some (mkCl false 0 false false)) as L1 by (subst s1; apply new_client_lookup; exact Hn).
  assert (alive_s s1 (Cl i) = true) as Ali by (apply (alive_client s1 i _ L1); reflexivity).
  assert (alive_s s1 e = true) as Al1.
  { pose proof (new_client_frame i (log (EvCreated (Cl i) 0 0) s)) as Fr. cbn zeta in Fr. destruct Fr as (F1 & F2 & F3).
    destruct e as [j|j|j|j]; cbn [alive_s] in *; fold s1 in F1, F2, F3; rewrite ?F1, ?F2, ?F3; sproj; try exact Al.
    destruct k; discriminate. }
  assert (nocb i s1) as Nc by (exists (mkCl false 0 false false); auto).
  set (s1' := log (EvIntro e k i (clk s1)) s1).
  assert (CplR s1') as H1'.
  { apply CplR_log_step; [|exact H1]. intros m R. cbn [rmon_step].
    rewrite !(r_alive_rel m s1 _ R), Al1, Ali. unfold intro_kind in Ik. destruct e, k; try discriminate; reflexivity. }
  set (s2 := run_script e (SIn k) s1').
  assert (SInv s2) as HI2 by (apply SInv_run_script; apply SInv_log; exact HI1).
  assert (CplR s2) as H2 by (apply CplR_run_script; [apply SInv_log; exact HI1 | exact H1']).
  assert (nocb i s2) as Nc2 by (apply nocb_run_script; [apply SInv_log; exact HI1 | eapply nocb_frame; [|exact Nc]; reflexivity]).
  destruct Nc2 as [c [Lc Cb]].
  assert (In i (map fst (clients s2))) as Hi2 by (eapply alookup_Some_key; [apply zeq | eauto]).
  set (s3 := log (EvIntroRet i acc) s2).
  assert (SInv s3) as HI3 by (apply SInv_log; exact HI2).
  assert (alookup Z.eqb i (clients s3) = Some c) as Lc3 by exact Lc.
  destruct (c_rm c) eqn:Erm.
  - (* removed by the callback that announced it: whatever that callback returned, the client is deleted *)
    assert (CplR s3) as H3.
    { subst s3. apply CplR_log_step; [|exact H2]. intros m R. cbn [rmon_step].
      rewrite (r_alive_rel m s2 _ R), (dead_client s2 i c HI2 Lc Erm).
      destruct R as (_ & _ & _ & _ & R5 & _). rewrite R5.
      replace (emem (Cl i) (used s2)) with true; [reflexivity|]. symmetry. apply emem_In. apply (si_used_c _ HI2). exact Hi2. }
    assert (CplR (delete_client i s3)) as H4 by (apply (CplR_delete_zombie i c); assumption).
    destruct acc; [|exact H4]. rewrite Lc3, Erm. exact H4.
  - pose proof (alive_client s2 i c Lc Erm) as Al2.
    destruct acc.
    + rewrite Lc3, Erm. eapply CplR_upd_client; [exact Lc3 | cbn; congruence|].
      eapply CplR_log_alive; [reflexivity | exact Al2 | exact H2].
    + (* null: the monitor drops the client now, the pool a moment later *)
      assert (CplRg (zremove i) s3) as H3.
      { subst s3. destruct H2 as [m [A R]]. exists (r_del (Cl i) m). sproj. unfold rmon_run in *. cbn [mon_run]. rewrite A. cbn [rmon_step].
        rewrite (r_alive_rel m s2 _ R), Al2. split; [reflexivity|].
        destruct R as (R1 & R2 & R3 & R4 & R5 & R6). unfold relRg, idl in *. sproj. cbn [r_del r_tm r_cl r_li r_es r_seen r_reg].
        rewrite R1, R2, R3, R4, R5, R6. repeat split; reflexivity. }
      unfold delete_client. cbn zeta.
      set (s4 := poll_remove (Cl i) (set_closing (zremove i (closing s3)) s3)).
      assert (CplRg (zremove i) s4) as H4 by (subst s4; apply CplR_poll_remove; apply CplR_set_closing; exact H3).
      assert (clients s4 = clients s2) as Ec by (subst s4; rewrite poll_remove_clients; reflexivity).
      destruct H4 as [m [A R]]. exists m. sproj. split; [exact A|].
      destruct R as (R1 & R2 & R3 & R4 & R5 & R6). unfold relRg, idl in *. sproj. rewrite Ec in *.
      rewrite live_keys_aremove by apply (si_cnd _ HI2). repeat split; assumption.
Qed.

(* ---------- dispatch ------------------------------------------------------------------------------------------------------------------------ *)
Lemma CplR_dispatch_write i ar g s :
  SInv s -> CbEx None s -> alookup ent_eqb (Cl i) (socks s) = Some g -> fW g = true -> (ar = true -> fR g = true) -> CplR s ->
  CplR (dispatch_write i ar s).
Proof.
  intros HI HB Eg Hw Hr H. unfold dispatch_write. destruct (alookup Z.eqb i (clients s)) as [c|] eqn:E; [|exact H].
  destruct (HB i c) as [_ Erm]; [eapply alookup_In; [apply zeq | exact E] | discriminate|].
  pose proof (alive_client s i c E Erm) as Al.
  assert (In i (map fst (clients s))) as Hi by (eapply alookup_Some_key; [apply zeq | eauto]).
  destruct (0 <? c_back c).
  - cbn zeta. set (r := send_result (c_back c) (next_send (c_back c) s)).
    set (s1 := log (EvSend i (c_back c) r true) (drop_send s)).
    assert (SInv s1) as HI1 by (apply SInv_log; apply SInv_drop_send; exact HI).
    assert (alookup Z.eqb i (clients s1) = Some c) as E1 by exact E.
    assert (CplR s1) as H1.
    { apply CplR_log_step; [|apply CplR_drop_send; exact H]. intros m R. cbn [rmon_step].
      rewrite (r_alive_rel m _ _ R), (reg_has_rel idl m _ _ _ R). cbn [alive_s] in *. unfold drop_send. sproj. rewrite Al.
      rewrite Eg, has_out_W by (left; exact Hw). reflexivity. }
    assert (forall b, let s2 := upd_client i (mkCl (c_cb c) b (c_susp c) (c_rm c)) s1 in
                      SInv s2 /\ CplR s2 /\ alive_s s2 (Cl i) = true) as K.
    { intros b s2. split; [apply SInv_upd_client; [exact HI1 | exact Hi]|].
      split; [eapply CplR_upd_client; [exact E1 | reflexivity | exact H1]|].
      subst s2. rewrite (upd_client_alive i _ c) by (try exact E1; reflexivity). exact Al. }
    destruct (failed_io r).
    + destruct (K 0) as (HI2 & H2 & Al2).
      apply CplR_callback_closed; [apply SInv_poll_remove; exact HI2 | | apply CplR_poll_remove; exact H2].
      cbn [alive_s]. rewrite poll_remove_clients. exact Al2.
    + destruct (K (c_back c - Z.max 0 r)) as (HI2 & H2 & Al2).
      set (s2 := upd_client i (mkCl (c_cb c) (c_back c - Z.max 0 r) (c_susp c) (c_rm c)) s1) in *.
      destruct (c_back c - Z.max 0 r =? 0).
      * set (f' := if c_susp c then fl_none else fl_R).
        apply (CplR_set_write i g).
        -- apply SInv_poll_set; [exact HI2|]. cbn [sock_ok]. split; [|subst f'; destruct (c_susp c); split; reflexivity].
           subst s2. unfold upd_client. sproj. rewrite keys_aset_in by (try apply zeq; exact Hi). exact Hi.
        -- exact Al2.
        -- exact Eg.
        -- exact Hw.
        -- subst f'; destruct (c_susp c); reflexivity.
        -- subst f'; destruct (c_susp c); reflexivity.
        -- exact H2.
      * destruct ar; [|exact H2]. apply (CplR_callback_read i g); [exact HI2 | exact Al2 | exact Eg | apply Hr; reflexivity | exact H2].
  - cbn zeta. set (f' := if c_susp c then fl_none else fl_R).
    apply (CplR_set_write i g).
    + apply SInv_poll_set; [exact HI|]. cbn [sock_ok]. split; [exact Hi | subst f'; destruct (c_susp c); split; reflexivity].
    + exact Al.
    + exact Eg.
    + exact Hw.
    + subst f'; destruct (c_susp c); reflexivity.
    + subst f'; destruct (c_susp c); reflexivity.
    + exact H.
Qed.

Lemma CplR_dispatch e f g s :
  SInv s -> CbEx None s -> alookup ent_eqb e (socks s) = Some g -> fl_sub f g = true -> CplR s -> CplR (dispatch e f s).
Proof.
  intros HI HB Eg Sub H. pose proof (si_socks _ HI _ _ Eg) as Ok. pose proof (alive_of_sock s e g HI HB Eg) as Al.
  apply fl_sub_spec in Sub. destruct Sub as (SR & SW & SA & SC).
  destruct e as [i|i|i|i]; cbn [dispatch]; [exact H | | |].
  - destruct (fW f) eqn:Fw.
    + apply (CplR_dispatch_write i (fR f) g); auto.
    + destruct (fR f) eqn:Fr; [|exact H]. apply (CplR_callback_read i g); auto.
  - destruct (fA f); [|exact H]. cbn [sock_ok] in Ok. destruct Ok as [Hi ->]. cbn zeta.
    assert (forall ok, CplR (log (EvAccept i ok) (drop_accept s))) as H1.
    { intros ok. apply CplR_log_step; [|apply CplR_drop_accept; exact H]. intros m R. cbn [rmon_step].
      rewrite (r_alive_rel m _ _ R), (reg_has_rel idl m _ _ _ R). unfold drop_accept. sproj. cbn [alive_s] in *. sproj. rewrite Al, Eg. reflexivity. }
    destruct (if next_accept s then peek_new (Li i) KAccepted (drop_accept s) else None) as [[n acc]|] eqn:Pk; [|apply H1].
    destruct (next_accept s); [|discriminate]. apply peek_new_fresh in Pk.
    apply CplR_introduce; [apply SInv_log; apply SInv_drop_accept; exact HI | exact Pk | exact Al | reflexivity | discriminate | apply H1].
  - destruct (fC f); [|exact H]. cbn [sock_ok] in Ok. destruct Ok as [Hi ->]. cbn zeta.
    set (s1 := drop_conn (poll_remove (Es i) s)).
    assert (SInv s1) as HI1 by (apply SInv_drop_conn; apply SInv_poll_remove; exact HI).
    assert (alive_s s1 (Es i) = true) as Al1.
    { pose proof (poll_remove_frame (Es i) s) as Fr. cbn zeta in Fr. destruct Fr as (_ & _ & _ & F4 & _).
      subst s1. unfold drop_conn. cbn [alive_s]. sproj. rewrite F4. exact Al. }
    assert (alookup ent_eqb (Es i) (socks s1) = None) as Un by (subst s1; unfold drop_conn; sproj; apply poll_remove_unreg; exact HI).
    assert (forall err, CplR (log (EvSoErr i err) s1)) as H1.
    { intros err. destruct (CplR_poll_remove_ld idl (Es i) fl_C s Eg H) as [m [A [R Ld]]].
      exists (r_plain m). subst s1. unfold drop_conn. sproj. unfold rmon_run in *. cbn [mon_run]. rewrite A. cbn [rmon_step]. rewrite Ld.
      rewrite Z.eqb_refl. rewrite (r_alive_rel m _ _ R).
      pose proof (poll_remove_frame (Es i) s) as Fr. cbn zeta in Fr. destruct Fr as (_ & _ & _ & F4 & _).
      cbn [alive_s]. rewrite F4. cbn [alive_s] in Al. rewrite Al. split; [reflexivity|].
      apply relRg_plain. exact R. }
    destruct (if next_conn (poll_remove (Es i) s) =? 0 then peek_new (Es i) KConnected s1 else None) as [[n acc]|] eqn:Pk.
    + destruct (next_conn (poll_remove (Es i) s) =? 0); [|discriminate]. apply peek_new_fresh in Pk.
      apply CplR_introduce; [apply SInv_log; exact HI1 | exact Pk | exact Al1 | reflexivity | discriminate | apply H1].
    + apply CplR_callback_abolished; [apply SInv_log; exact HI1 | exact Al1 | exact Un | apply H1].
Qed.

(* ---------- poll -------------------------------------------------------------------------------------------------------------------------------- *)
Lemma CplR_absorb ready s : CplR s -> CplR (absorb ready s).
Proof.
  revert s. induction ready as [|[e b] r IH]; intros s H; cbn [absorb]; [exact H|].
  destruct (alookup ent_eqb e (socks s)); apply IH; auto with cplR.
Qed.

Lemma CplR_epoll_wait t items s : CplR s -> CplR (fst (epoll_wait t items s)).
Proof.
  intros H. unfold epoll_wait. cbn zeta. destruct items; cbn [fst].
  - auto 6 with cplR.
  - apply CplR_absorb. auto 6 with cplR.
Qed.

Lemma CplR_pop_selected s : CplR s -> CplR (fst (pop_selected s)).
Proof. intros H. unfold pop_selected. destruct (selected s); cbn [fst]; auto with cplR. Qed.

Lemma pop_selected_event s s2 e f :
  SInv s -> pop_selected s = (s2, Some (e, f)) -> exists g, alookup ent_eqb e (socks s2) = Some g /\ fl_sub f g = true.
Proof.
  intros HI. unfold pop_selected. destruct (selected s) as [|[e' f'] r] eqn:E; [discriminate|].
  intros P. inversion P; subst. sproj. apply (si_sel _ HI). rewrite E. cbn [alookup]. rewrite ent_eqb_refl. reflexivity.
Qed.

Lemma CplR_poll t items s : CplR s -> CplR (fst (fst (poll t items s))).
Proof.
  intros H. unfold poll. destruct (selected s) eqn:E.
  - pose proof (CplR_epoll_wait t items s H) as H1. destruct (epoll_wait t items s) as [s1 items1]. cbn [fst] in H1.
    destruct (0 <? evcount s1); cbn [fst]; [auto with cplR|].
    pose proof (CplR_pop_selected s1 H1) as H2. destruct (pop_selected s1); exact H2.
  - pose proof (CplR_pop_selected s H) as H2. destruct (pop_selected s); exact H2.
Qed.

Lemma poll_event t items s s2 e f items2 :
  SInv s -> poll t items s = (s2, Some (e, f), items2) -> exists g, alookup ent_eqb e (socks s2) = Some g /\ fl_sub f g = true.
Proof.
  intros HI. unfold poll. destruct (selected s) eqn:E.
  - pose proof (SInv_epoll_wait t items s HI) as HI1. destruct (epoll_wait t items s) as [s1 items1]. cbn [fst] in HI1.
    destruct (0 <? evcount s1); [discriminate|].
    destruct (pop_selected s1) as [s2' o] eqn:P. intros Q; inversion Q; subst. eapply pop_selected_event; eauto.
  - destruct (pop_selected s) as [s2' o] eqn:P. intros Q; inversion Q; subst. eapply pop_selected_event; eauto.
Qed.

Lemma CplR_run_loop fuel items s : SInv s -> CbEx None s -> CplR s -> CplR (run_loop fuel items s).
Proof.
  revert items s. induction fuel as [|f IH]; intros items s HI HB H; cbn [run_loop]; [auto with cplR|].
  cbn zeta.
  set (s0 := timer_phase f (clk s) (log (EvSel (sel_view (selected s))) (log (EvNow (clk s)) s))).
  assert (SInv s0) as HI0 by (apply SInv_timer_phase; apply SInv_log; apply SInv_log; exact HI).
  assert (CbEx None s0) as HB0 by (apply CbEx_timer_phase; [apply SInv_log; apply SInv_log; exact HI | eapply CbEx_frame; [|exact HB]; reflexivity]).
  assert (CplR s0) as H0 by (apply CplR_timer_phase; [apply SInv_log; apply SInv_log; exact HI | auto with cplR]).
  set (s1 := closing_phase f s0).
  assert (SInv s1) as HI1 by (apply SInv_closing_phase; exact HI0).
  assert (CbEx None s1) as HB1 by (apply CbEx_closing_phase; assumption).
  assert (CplR s1) as H1 by (apply CplR_closing_phase; assumption).
  destruct (stuck s1); [exact H1|].
  match goal with |- context [poll ?t items s1] => set (tmo := t) end.
  pose proof (SInv_poll tmo items s1 HI1) as HI2. pose proof (CplR_poll tmo items s1 H1) as H2.
  pose proof (poll_clients tmo items s1) as Pc.
  destruct (poll tmo items s1) as [[s2 evt] items2] eqn:P. cbn [fst] in HI2, H2, Pc.
  assert (CbEx None s2) as HB2 by (eapply CbEx_frame; [exact Pc | exact HB1]).
  destruct evt as [[e fl]|].
  - destruct (fl_is_none fl).
    + destruct (intr s2); [auto with cplR | apply IH; assumption].
    + destruct (poll_event tmo items s1 s2 e fl items2 HI1 P) as [g [Eg Sub]].
      apply IH; [apply SInv_dispatch; exact HI2 | apply CbEx_dispatch; assumption | eapply CplR_dispatch; eauto].
  - destruct (intr s2); [auto with cplR | apply IH; assumption].
Qed.

Lemma CplR_init : CplR init.
Proof. exists rmon0. cbn. repeat split; reflexivity. Qed.

Lemma CplR_step fuel s o : SInv s -> CbEx None s -> CplR s -> CplR (step fuel s o).
Proof.
  intros HI HB H. unfold step. destruct (stuck s); [exact H|].
  destruct o; try (auto with cplR; fail).
  - apply CplR_exec_action; assumption.
  - unfold run. apply CplR_run_loop; [apply SInv_log; exact HI | eapply CbEx_frame; [|exact HB]; reflexivity | auto with cplR].
Qed.

Lemma CplR_steps fuel l s : SInv s -> CbEx None s -> CplR s -> CplR (steps fuel s l).
Proof.
  unfold steps. revert s. induction l as [|o l IH]; cbn [fold_left]; intros s HI HB H; [exact H|].
  apply IH; [apply SInv_step; exact HI | apply CbEx_step; assumption | apply CplR_step; assumption].
Qed.

Theorem rmon_accepts_model fuel l : rmon_run (trace (steps fuel init l)) <> None.
Proof. destruct (CplR_steps fuel l init SInv_init CbEx_init CplR_init) as [m [A _]]. congruence. Qed.
