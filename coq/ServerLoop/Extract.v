From Coq Require Extraction ExtrOcamlBasic.
From Common Require Import Words.
From ServerLoop Require Import ServerLoopModel.
Extraction Language OCaml.
Extraction "model.ml" anchor init step steps.
