From Coq Require Extraction ExtrOcamlBasic.
From Common Require Import Words.
From ServerLoop Require Import ServerLoopSpec ServerLoopSpecMore ServerLoopModel.
Extraction Language OCaml.
Extraction "model.ml" anchor init step steps map_events sel_view
  tmon0 rmon0 cmon0 imon0 tmon_step rmon_step cmon_step imon_step accepts verdict
  wmon0 kmon0 cmt0 wmon_step kmon_step cmt_step accepts_text.
