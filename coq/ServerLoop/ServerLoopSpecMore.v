(* Reference object for property C14, second part (round 5): three more monitors over the observation log of
   ServerLoopSpec.  Nothing here looks at the code; no proofs in this file.

     wmon  "a timer is activated once per interval" needs a loop that comes back: while a timer is live the loop never
           waits with a NEGATIVE time-out (for epoll_wait a negative time-out means "block without limit").  tmon's clause
           at a wait (now + t <= due of every live timer) is one-sided and is satisfied by a negative t.
     kmon  "every registered socket that is readable ... acceptable or connected is eventually dispatched" needs the socket
           to STAY in the poll set: a listener, establisher or client is taken out of the poll set (epoll_ctl DEL) only
           as part of its removal (the next event is its `removed`), of its connect dispatch (the next event is the
           SO_ERROR query) or of its closing after a failed send of the loop (the next event is its onClosed) - or when
           the application has already given it up (removed from inside the onAccepted/onConnected that announces it,
           or declined by a null return of that callback).
     cmt   the TEXT-level reading of "a failed read or write is followed by onClosed": the onClosed (or the removal of
           the client) comes before the loop has waited TWICE.  The text does not say "before the loop waits again" -
           that stronger clause is [cmon] of ServerLoopSpec, which the model satisfies (model_log_accepted) and which is
           compared through the model/implementation correspondence only; every log accepted by cmon is accepted by cmt
           (ServerLoopMore.cmon_implies_cmt).  The check judges the implementation's log with cmt. *)
From Coq Require Import ZArith List Bool.
From ServerLoop Require Import ServerLoopSpec.
Import ListNotations.
Local Open Scope Z_scope.

(* ============ wmon: no wait without limit while a timer is live ============================== *)
Record wmon := mkWm { w_live : list Z }.
Definition wmon0 := mkWm [].
Definition wmon_step (m : wmon) (e : ev) : option wmon :=
  match e with
  | EvCreated (Tm i) _ _ => Some (mkWm (i :: w_live m))
  | EvRemoved (Tm i) => Some (mkWm (zremove i (w_live m)))
  | EvWait t => if (0 <=? t) || is_nil (w_live m) then Some m else None
  | _ => Some m
  end.

(* ============ kmon: a socket stays in the poll set ============================================ *)
Record kmon := mkKm { k_gone : list ent; k_pend : option ent }.
Definition kmon0 := mkKm [] None.

(* the event that may follow the unregistration of x *)
Definition justifies (x : ent) (e : ev) : bool :=
  match e with
  | EvRemoved y => ent_eqb y x
  | EvSoErr i _ => ent_eqb (Es i) x
  | EvCb y KClosed _ => ent_eqb y x
  | _ => false
  end.

Definition kmon_step (m : kmon) (e : ev) : option kmon :=
  match k_pend m with
  | Some x => if justifies x e then Some (mkKm (k_gone m) None) else None
  | None =>
      match e with
      | EvCtl CDel x _ => if emem x (k_gone m) then Some m else Some (mkKm (k_gone m) (Some x))
      | EvDeferred x => Some (mkKm (x :: k_gone m) None)
      | EvIntroRet i false => Some (mkKm (Cl i :: k_gone m) None)
      | _ => Some m
      end
  end.

(* ============ cmt: a failed read or write is followed by onClosed (text level) ================ *)
(* per client that is owed an onClosed: has the loop waited since the failure? *)
Record cmt := mkCt { ct_owed : list (Z * bool) }.
Definition cmt0 := mkCt [].
Definition ct_drop (i : Z) (l : list (Z * bool)) : list (Z * bool) := filter (fun x => negb (fst x =? i)) l.

Definition cmt_step (m : cmt) (e : ev) : option cmt :=
  match e with
  | EvRecv i r => Some (if failed_io r then mkCt ((i, false) :: ct_owed m) else m)
  | EvSend i _ r _ => Some (if failed_io r then mkCt ((i, false) :: ct_owed m) else m)
  | EvCb (Cl i) KClosed _ => Some (mkCt (ct_drop i (ct_owed m)))
  | EvRemoved (Cl i) | EvDeferred (Cl i) => Some (mkCt (ct_drop i (ct_owed m)))
  | EvIntroRet i false => Some (mkCt (ct_drop i (ct_owed m)))
  | EvWait _ => if existsb (fun x => snd x) (ct_owed m) then None
                else Some (mkCt (map (fun x => (fst x, true)) (ct_owed m)))
  | _ => Some m
  end.

Definition wmon_run := mon_run wmon_step wmon0.
Definition kmon_run := mon_run kmon_step kmon0.
Definition cmt_run := mon_run cmt_step cmt0.

(* the log is accepted by the monitors the check applies to the implementation's log *)
Definition accepts_text (tr : list ev) : bool :=
  is_some (tmon_run tr) && is_some (rmon_run tr) && is_some (cmt_run tr) && is_some (imon_run tr)
  && is_some (wmon_run tr) && is_some (kmon_run tr).
