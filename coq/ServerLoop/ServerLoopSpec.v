(* Reference object for property C14: what an observer of a Server sees (the event vocabulary
   of the observation log) and four monitors that read such a log and reject it as soon as the
   property text is contradicted.  Nothing here looks at the code:

     tmon  a timer is activated once per interval (the (n+1)-th activation is the one due at
           creation + (n+1) * interval), never before it is due (due <= the time the loop
           sampled) and in order of due time (no live timer has an earlier due time); the
           loop never sleeps past a due time: when it waits with time-out t after having
           sampled the clock at now, no live timer is due before now + t;
     rmon  object life times and registrations: a callback is only given to a live object, a
           removed object is unregistered and its identity is never seen again (so it never
           receives another callback) - also a client removed from inside the very
           onAccepted/onConnected that announces it (its registration is withdrawn when that
           callback returns, whatever it returns); every dispatched event kind is one the object is
           registered for at that moment (onRead: read interest; a send from the loop: write
           interest; onWrite: the write interest that was withdrawn just before; accept:
           accept interest; the SO_ERROR query: the connect interest that was withdrawn just
           before);
     cmon  a failed read or write of a client is answered by onClosed (or the client's
           removal) before the loop waits for or dispatches another socket event;
     imon  run() returns only when interrupt() was called and not yet consumed; once that is
           the case the next wait of the loop is its last one; callbacks only happen inside
           run().

   A log is a list of events, NEWEST FIRST (as the model accumulates it). *)
From Coq Require Import ZArith List Bool.
Import ListNotations.
Local Open Scope Z_scope.

(* ---------- identities ------------------------------------------------------------------ *)
Inductive ent := Tm (i : Z) | Cl (i : Z) | Li (i : Z) | Es (i : Z).

Definition ent_eqb (a b : ent) : bool :=
  match a, b with
  | Tm i, Tm j | Cl i, Cl j | Li i, Li j | Es i, Es j => i =? j
  | _, _ => false
  end.

Definition ent_id (e : ent) : Z := match e with Tm i | Cl i | Li i | Es i => i end.

Inductive cbkind := KRead | KWrite | KClosed | KAbolished.
Inductive ikind := KAccepted | KConnected.

Definition cbkind_eqb (a b : cbkind) : bool :=
  match a, b with
  | KRead, KRead | KWrite, KWrite | KClosed, KClosed | KAbolished, KAbolished => true
  | _, _ => false
  end.
Definition ikind_eqb (a b : ikind) : bool :=
  match a, b with KAccepted, KAccepted | KConnected, KConnected => true | _, _ => false end.

(* ---------- observable events (one observation line each) -------------------------------- *)
Inductive ctlop := CAdd | CMod | CDel.
Inductive ev :=
| EvNow (now : Z)                         (* the loop sampled the clock *)
| EvAct (t : Z) (due now : Z)             (* onActivated of timer t, its due time, the sampled now *)
| EvCb (e : ent) (k : cbkind) (clk : Z)   (* onRead / onWrite / onClosed / onAbolished entered, clock *)
| EvIntro (e : ent) (k : ikind) (i : Z) (clk : Z)   (* onAccepted / onConnected entered, announcing client i *)
| EvIntroRet (i : Z) (acc : bool)         (* … returned (acc: a callback object was handed back) *)
| EvWait (timeout : Z)                    (* epoll_wait called *)
| EvItem (foreign : bool)                 (* what epoll_wait consumed: a scripted item / the script ran out *)
| EvCtl (o : ctlop) (e : ent) (mask : Z)  (* epoll_ctl *)
| EvSend (i n r : Z) (disp : bool)        (* ::send on client i, n offered, result (-1 would block, -2 error); disp: from the loop *)
| EvRecv (i r : Z)                        (* ::recv (-1 would block, -2 error, 0 end of stream) *)
| EvAccept (i : Z) (ok : bool)
| EvSoErr (i err : Z)
| EvCreated (e : ent) (t iv : Z)          (* an object is created (timers: clock value, interval) *)
| EvRemoved (e : ent)                     (* remove() returned and the object is gone *)
| EvDeferred (e : ent)                    (* remove() returned for the client that is being announced right now (from inside its onAccepted/onConnected) *)
| EvSel (l : list (ent * Z))              (* internal structure: the selected-but-undelivered events of the Poll object, in order (no monitor looks at it) *)
| EvWrote (i : Z) (ok : bool) (postponed : Z)
| EvRead (i : Z) (ok : bool)
| EvSkip                                  (* action not applicable (dead or duplicate id) *)
| EvInterrupt (foreign : bool)
| EvRunEnter
| EvRunRet.

(* ---------- small list helpers ------------------------------------------------------------- *)
Fixpoint zmem (i : Z) (l : list Z) : bool :=
  match l with [] => false | x :: r => (x =? i) || zmem i r end.
Fixpoint zremove (i : Z) (l : list Z) : list Z :=
  match l with [] => [] | x :: r => if x =? i then r else x :: zremove i r end.
Fixpoint emem (e : ent) (l : list ent) : bool :=
  match l with [] => false | x :: r => ent_eqb x e || emem e r end.

Section Assoc.
  Context {K V : Type} (eqb : K -> K -> bool).
  Fixpoint alookup (k : K) (l : list (K * V)) : option V :=
    match l with [] => None | (k', v) :: r => if eqb k' k then Some v else alookup k r end.
  Fixpoint aremove (k : K) (l : list (K * V)) : list (K * V) :=
    match l with [] => [] | (k', v) :: r => if eqb k' k then r else (k', v) :: aremove k r end.
  (* overwrite in place when present, else at the end *)
  Fixpoint aset (k : K) (v : V) (l : list (K * V)) : list (K * V) :=
    match l with [] => [(k, v)] | (k', v') :: r => if eqb k' k then (k', v) :: r else (k', v') :: aset k v r end.
End Assoc.

(* native epoll masks of the four registrations a Server makes *)
Definition M_R : Z := 8209.    (* EPOLLIN|EPOLLRDHUP|EPOLLHUP: read or accept interest *)
Definition M_W : Z := 8212.    (* EPOLLOUT|EPOLLRDHUP|EPOLLHUP: write or connect interest *)
Definition M_RW : Z := 8213.
Definition has_in (m : Z) : bool := (m =? M_R) || (m =? M_RW).
Definition has_out (m : Z) : bool := (m =? M_W) || (m =? M_RW).

(* ============ tmon: timers ================================================================= *)
(* per live timer: clock at creation, interval, activations so far *)
Record tmon := mkTm { tm_tab : list (Z * (Z * Z * Z)); tm_now : Z }.
Definition tm_due (x : Z * Z * Z) : Z := let '(c, iv, n) := x in c + (n + 1) * iv.
Definition tmon0 := mkTm [] 0.

Definition tmon_step (m : tmon) (e : ev) : option tmon :=
  match e with
  | EvCreated (Tm i) t iv => Some (mkTm (tm_tab m ++ [(i, (t, iv, 0))]) (tm_now m))
  | EvRemoved (Tm i) => Some (mkTm (aremove Z.eqb i (tm_tab m)) (tm_now m))
  | EvNow n => Some (mkTm (tm_tab m) n)
  | EvAct t due now =>
      match alookup Z.eqb t (tm_tab m) with
      | Some (c, iv, n) =>
          if (due =? c + (n + 1) * iv) && (due <=? now) && (now =? tm_now m)
             && forallb (fun x => due <=? tm_due (snd x)) (tm_tab m)
          then Some (mkTm (aset Z.eqb t (c, iv, n + 1) (tm_tab m)) (tm_now m))
          else None
      | None => None
      end
  | EvWait t =>
      if forallb (fun x => tm_now m + t <=? tm_due (snd x)) (tm_tab m) then Some m else None
  | _ => Some m
  end.

(* ============ rmon: life times, registrations, event kinds ================================== *)
Record rmon := mkRm {
  r_tm : list Z; r_cl : list Z; r_li : list Z; r_es : list Z;   (* live objects *)
  r_seen : list ent;                                            (* identities ever used *)
  r_reg : list (ent * Z);                                       (* registered sockets and their native mask *)
  r_lastdel : option (ctlop * ent * Z)                          (* the previous event was this epoll_ctl(MOD/DEL); the mask before it *)
}.
Definition rmon0 := mkRm [] [] [] [] [] [] None.

Definition r_alive (m : rmon) (e : ent) : bool :=
  match e with Tm i => zmem i (r_tm m) | Cl i => zmem i (r_cl m) | Li i => zmem i (r_li m) | Es i => zmem i (r_es m) end.
Definition r_add (e : ent) (m : rmon) : rmon :=
  match e with
  | Tm i => mkRm (r_tm m ++ [i]) (r_cl m) (r_li m) (r_es m) (e :: r_seen m) (r_reg m) None
  | Cl i => mkRm (r_tm m) (r_cl m ++ [i]) (r_li m) (r_es m) (e :: r_seen m) (r_reg m) None
  | Li i => mkRm (r_tm m) (r_cl m) (r_li m ++ [i]) (r_es m) (e :: r_seen m) (r_reg m) None
  | Es i => mkRm (r_tm m) (r_cl m) (r_li m) (r_es m ++ [i]) (e :: r_seen m) (r_reg m) None
  end.
Definition r_del (e : ent) (m : rmon) : rmon :=
  match e with
  | Tm i => mkRm (zremove i (r_tm m)) (r_cl m) (r_li m) (r_es m) (r_seen m) (r_reg m) None
  | Cl i => mkRm (r_tm m) (zremove i (r_cl m)) (r_li m) (r_es m) (r_seen m) (r_reg m) None
  | Li i => mkRm (r_tm m) (r_cl m) (zremove i (r_li m)) (r_es m) (r_seen m) (r_reg m) None
  | Es i => mkRm (r_tm m) (r_cl m) (r_li m) (zremove i (r_es m)) (r_seen m) (r_reg m) None
  end.
Definition r_setreg (v : list (ent * Z)) (ld : option (ctlop * ent * Z)) (m : rmon) : rmon :=
  mkRm (r_tm m) (r_cl m) (r_li m) (r_es m) (r_seen m) v ld.
Definition r_plain (m : rmon) : rmon := r_setreg (r_reg m) None m.

(* the masks a Server may register an object with *)
Definition mask_ok (e : ent) (mask : Z) : bool :=
  match e with
  | Cl _ => (mask =? 0) || (mask =? M_R) || (mask =? M_W) || (mask =? M_RW)
  | Li _ => mask =? M_R
  | Es _ => mask =? M_W
  | Tm _ => false
  end.

Definition reg_has (m : rmon) (e : ent) (p : Z -> bool) : bool :=
  match alookup ent_eqb e (r_reg m) with Some mask => p mask | None => false end.

Definition rmon_step (m : rmon) (e : ev) : option rmon :=
  match e with
  | EvCreated x _ _ =>
      if (0 <=? ent_id x) && negb (emem x (r_seen m)) then Some (r_add x m) else None
  | EvIntro x k i _ =>
      if r_alive m x && (match x, k with Li _, KAccepted | Es _, KConnected => true | _, _ => false end)
         && r_alive m (Cl i)
      then Some (r_plain m) else None
  | EvIntroRet i acc =>
      if r_alive m (Cl i) then
        (if acc then Some (r_plain m) else Some (r_del (Cl i) m))
      else if emem (Cl i) (r_seen m) then Some (r_plain m)     (* it was removed by the callback that announced it *)
      else None
  | EvRemoved x =>
      if r_alive m x && negb (reg_has m x (fun _ => true)) then Some (r_del x m) else None
  | EvDeferred (Cl i) => if r_alive m (Cl i) then Some (r_del (Cl i) m) else None     (* gone like any removed object *)
  | EvDeferred _ => None
  | EvAct t _ _ => if r_alive m (Tm t) then Some (r_plain m) else None
  | EvCb x k _ =>
      if r_alive m x &&
         (match x, k with
          | Cl _, KRead => reg_has m x has_in
          | Cl i, KWrite => match r_lastdel m with
                            | Some (CMod, Cl j, old) => (j =? i) && has_out old
                            | _ => false
                            end
          | Cl _, KClosed => true
          | Es _, KAbolished => negb (reg_has m x (fun _ => true))
          | _, _ => false
          end)
      then Some (r_plain m) else None
  | EvCtl CAdd x mask =>
      if r_alive m x && negb (reg_has m x (fun _ => true)) && mask_ok x mask
      then Some (r_setreg (r_reg m ++ [(x, mask)]) None m) else None
  | EvCtl CMod x mask =>
      match alookup ent_eqb x (r_reg m) with
      | Some old => if r_alive m x && mask_ok x mask
                    then Some (r_setreg (aset ent_eqb x mask (r_reg m)) (Some (CMod, x, old)) m) else None
      | None => None
      end
  | EvCtl CDel x _ =>
      match alookup ent_eqb x (r_reg m) with
      | Some old => Some (r_setreg (aremove ent_eqb x (r_reg m)) (Some (CDel, x, old)) m)
      | None => None
      end
  | EvSend i _ _ true => if r_alive m (Cl i) && reg_has m (Cl i) has_out then Some (r_plain m) else None
  | EvSend i _ _ false => if r_alive m (Cl i) then Some (r_plain m) else None
  | EvRecv i _ => if r_alive m (Cl i) then Some (r_plain m) else None
  | EvAccept i _ => if r_alive m (Li i) && reg_has m (Li i) has_in then Some (r_plain m) else None
  | EvSoErr i _ =>
      match r_lastdel m with
      | Some (CDel, Es j, old) => if (j =? i) && r_alive m (Es i) && has_out old then Some (r_plain m) else None
      | _ => None
      end
  | _ => Some (r_plain m)
  end.

(* ============ cmon: a failed read or write is followed by onClosed ========================== *)
Record cmon := mkCm { c_owed : list Z; c_must : option Z }.
Definition cmon0 := mkCm [] None.
Definition failed_io (r : Z) : bool := (r =? 0) || (r =? -2).
Definition zremove_all (i : Z) (l : list Z) : list Z := filter (fun x => negb (x =? i)) l.
Definition is_nil {A} (l : list A) : bool := match l with [] => true | _ => false end.

Definition cmon_step (m : cmon) (e : ev) : option cmon :=
  match c_must m with
  | Some i =>                                   (* a send from the loop failed: onClosed comes now *)
      match e with
      | EvCtl _ _ _ => Some m
      | EvCb (Cl j) KClosed _ => if j =? i then Some (mkCm (zremove_all i (c_owed m)) None) else None
      | _ => None
      end
  | None =>
      match e with
      | EvRecv i r => Some (if failed_io r then mkCm (i :: c_owed m) None else m)
      | EvSend i _ r false => Some (if failed_io r then mkCm (i :: c_owed m) None else m)
      | EvSend i _ r true => if is_nil (c_owed m) then Some (if failed_io r then mkCm (c_owed m) (Some i) else m) else None
      | EvCb (Cl i) KClosed _ => Some (mkCm (zremove_all i (c_owed m)) None)
      | EvRemoved (Cl i) | EvDeferred (Cl i) => Some (mkCm (zremove_all i (c_owed m)) None)
      | EvIntroRet i false => Some (mkCm (zremove_all i (c_owed m)) None)
      | EvWait _ | EvRunRet | EvAccept _ _ | EvSoErr _ _ | EvCb _ KRead _ =>
          if is_nil (c_owed m) then Some m else None
      | _ => Some m
      end
  end.

(* ============ imon: interrupt and run ======================================================= *)
Record imon := mkIm { i_pending : bool; i_inrun : bool; i_wait : bool }.
Definition imon0 := mkIm false false false.

Definition imon_step (m : imon) (e : ev) : option imon :=
  match e with
  | EvInterrupt _ => Some (mkIm true (i_inrun m) (i_wait m))
  | EvItem foreign =>          (* the wait is over; unless an interrupt is pending (or comes now), the loop goes on *)
      Some (mkIm (i_pending m) (i_inrun m) (i_wait m && (foreign || i_pending m)))
  | EvRunEnter => if i_inrun m || i_wait m then None else Some (mkIm (i_pending m) true false)
  | EvRunRet => if i_inrun m && i_pending m then Some (mkIm false false false) else None
  | _ =>
      if i_wait m then None          (* the wait saw the interrupt: run() must return now *)
      else
        match e with
        | EvWait _ => if i_inrun m then Some (mkIm (i_pending m) true true) else None
        | EvNow _ | EvAct _ _ _ | EvCb _ _ _ | EvIntro _ _ _ _ | EvIntroRet _ _ | EvAccept _ _ | EvSoErr _ _ =>
            if i_inrun m then Some m else None
        | _ => Some m
        end
  end.

(* ---------- running a monitor over a log (newest first) -------------------------------------- *)
Section Run.
  Context {M : Type} (step : M -> ev -> option M) (m0 : M).
  Fixpoint mon_run (tr : list ev) : option M :=
    match tr with
    | [] => Some m0
    | e :: r => match mon_run r with Some m => step m e | None => None end
    end.
End Run.

Definition tmon_run := mon_run tmon_step tmon0.
Definition rmon_run := mon_run rmon_step rmon0.
Definition cmon_run := mon_run cmon_step cmon0.
Definition imon_run := mon_run imon_step imon0.

Definition is_some {A} (o : option A) : bool := match o with Some _ => true | None => false end.

(* the log is accepted by all four monitors *)
Definition accepts (tr : list ev) : bool :=
  is_some (tmon_run tr) && is_some (rmon_run tr) && is_some (cmon_run tr) && is_some (imon_run tr).

(* which monitor rejects first (for the check's report): 0 = none, 1..4 = t r c i *)
Definition verdict (tr : list ev) : Z :=
  if negb (is_some (tmon_run tr)) then 1
  else if negb (is_some (rmon_run tr)) then 2
  else if negb (is_some (cmon_run tr)) then 3
  else if negb (is_some (imon_run tr)) then 4
  else 0.
