(* The interrupt/run monitor accepts every log the model can produce. *)
From Coq Require Import ZArith List Bool Lia.
From ServerLoop Require Import ServerLoopSpec ServerLoopModel ServerLoopBase ServerLoopInv.
Import ListNotations.
Local Open Scope Z_scope.

Ltac dmatch :=
  repeat match goal with
         | |- context [match ?x with _ => _ end] => destruct x eqn:?
         end.

(* R: are we inside run() *)
Definition CplI (R : bool) (s : state) : Prop :=
  exists m, imon_run (trace s) = Some m /\ i_pending m = intr s /\ i_inrun m = R /\ i_wait m = false /\
            (intr s = true -> 0 < evcount s) /\ 0 <= evcount s.

(* events that are accepted in any state with wait = false and leave the monitor state alone *)
Definition iirr (R : bool) (e : ev) : bool :=
  match e with
  | EvInterrupt _ | EvItem _ | EvRunEnter | EvRunRet | EvWait _ => false
  | EvNow _ | EvAct _ _ _ | EvCb _ _ _ | EvIntro _ _ _ _ | EvIntroRet _ _ | EvAccept _ _ | EvSoErr _ _ => R
  | _ => true
  end.

Lemma imon_step_irr m e : i_wait m = false -> iirr (i_inrun m) e = true -> imon_step m e = Some m.
Proof.
  intros W I. destruct m as [p r w]. cbn [i_wait i_inrun] in *. subst w.
  destruct e; cbn in *; try discriminate; try reflexivity; rewrite I; reflexivity.
Qed.

Lemma CplI_frame R s s' : trace s' = trace s -> intr s' = intr s -> evcount s' = evcount s -> CplI R s -> CplI R s'.
Proof. intros E1 E2 E3 [m H]. exists m. rewrite E1, E2, E3. exact H. Qed.

Lemma CplI_log R e s : iirr R e = true -> CplI R s -> CplI R (log e s).
Proof.
  intros I [m [A [B [C [D E]]]]]. exists m. sproj. unfold imon_run in *. cbn [mon_run]. rewrite A.
  split; [apply imon_step_irr; [exact D | rewrite C; exact I] | auto].
Qed.

Ltac iframe := (eapply CplI_frame; [| | |eassumption]; reflexivity).
Lemma CplI_set_clk n v s : CplI n s -> CplI n (set_clk v s). Proof. intros; iframe. Qed.
Lemma CplI_set_queue n v s : CplI n s -> CplI n (set_queue v s). Proof. intros; iframe. Qed.
Lemma CplI_set_timers n v s : CplI n s -> CplI n (set_timers v s). Proof. intros; iframe. Qed.
Lemma CplI_set_listeners n v s : CplI n s -> CplI n (set_listeners v s). Proof. intros; iframe. Qed.
Lemma CplI_set_estabs n v s : CplI n s -> CplI n (set_estabs v s). Proof. intros; iframe. Qed.
Lemma CplI_set_clients n v s : CplI n s -> CplI n (set_clients v s). Proof. intros; iframe. Qed.
Lemma CplI_set_closing n v s : CplI n s -> CplI n (set_closing v s). Proof. intros; iframe. Qed.
Lemma CplI_set_socks n v s : CplI n s -> CplI n (set_socks v s). Proof. intros; iframe. Qed.
Lemma CplI_set_selected n v s : CplI n s -> CplI n (set_selected v s). Proof. intros; iframe. Qed.
Lemma CplI_set_used n v s : CplI n s -> CplI n (set_used v s). Proof. intros; iframe. Qed.
Lemma CplI_set_scripts n v s : CplI n s -> CplI n (set_scripts v s). Proof. intros; iframe. Qed.
Lemma CplI_set_sendq n v s : CplI n s -> CplI n (set_sendq v s). Proof. intros; iframe. Qed.
Lemma CplI_set_recvq n v s : CplI n s -> CplI n (set_recvq v s). Proof. intros; iframe. Qed.
Lemma CplI_set_acceptq n v s : CplI n s -> CplI n (set_acceptq v s). Proof. intros; iframe. Qed.
Lemma CplI_set_connq n v s : CplI n s -> CplI n (set_connq v s). Proof. intros; iframe. Qed.
Lemma CplI_set_stuck n v s : CplI n s -> CplI n (set_stuck v s). Proof. intros; iframe. Qed.
Lemma CplI_drop_send n s : CplI n s -> CplI n (drop_send s). Proof. intros; iframe. Qed.
Lemma CplI_drop_recv n s : CplI n s -> CplI n (drop_recv s). Proof. intros; iframe. Qed.
Lemma CplI_drop_accept n s : CplI n s -> CplI n (drop_accept s). Proof. intros; iframe. Qed.
Lemma CplI_drop_conn n s : CplI n s -> CplI n (drop_conn s). Proof. intros; iframe. Qed.

Create HintDb cplI.
#[export] Hint Resolve CplI_log CplI_set_clk CplI_set_queue CplI_set_timers CplI_set_listeners CplI_set_estabs CplI_set_clients CplI_set_closing
  CplI_set_socks CplI_set_selected CplI_set_used CplI_set_scripts CplI_set_sendq CplI_set_recvq
  CplI_set_acceptq CplI_set_connq CplI_set_stuck CplI_drop_send CplI_drop_recv CplI_drop_accept CplI_drop_conn : cplI.
#[export] Hint Extern 1 (iirr _ _ = true) => reflexivity : cplI.

Ltac iauto_cpl := cbn zeta; dmatch; sproj; eauto 14 with cplI.

Lemma CplI_do_interrupt R b s : CplI R s -> CplI R (do_interrupt b s).
Proof.
  intros [m [A [B [C [D [E F]]]]]]. unfold do_interrupt. sproj.
  destruct (intr s) eqn:Ei.
  - eexists. sproj. unfold imon_run in *. cbn [mon_run]. rewrite A. cbn [imon_step].
    split; [reflexivity|]. cbn [i_pending i_inrun i_wait]. rewrite Ei. auto.
  - eexists. sproj. unfold imon_run in *. cbn [mon_run]. rewrite A. cbn [imon_step].
    split; [reflexivity|]. cbn [i_pending i_inrun i_wait]. repeat split; auto; lia.
Qed.
#[export] Hint Resolve CplI_do_interrupt : cplI.

Lemma CplI_poll_set n e f s : CplI n s -> CplI n (poll_set e f s).
Proof. intros H. unfold poll_set. iauto_cpl. Qed.
Lemma CplI_poll_remove n e s : CplI n s -> CplI n (poll_remove e s).
Proof. intros H. unfold poll_remove. iauto_cpl. Qed.
#[export] Hint Resolve CplI_poll_set CplI_poll_remove : cplI.
Lemma CplI_closing_append n i s : CplI n s -> CplI n (closing_append i s).
Proof. intros H. unfold closing_append. iauto_cpl. Qed.
Lemma CplI_delete_client n i s : CplI n s -> CplI n (delete_client i s).
Proof. intros H. unfold delete_client. iauto_cpl. Qed.
Lemma CplI_new_client n i s : CplI n s -> CplI n (new_client i s).
Proof. intros H. unfold new_client. iauto_cpl. Qed.
Lemma CplI_upd_client n i c s : CplI n s -> CplI n (upd_client i c s).
Proof. intros H. unfold upd_client. iauto_cpl. Qed.
#[export] Hint Resolve CplI_closing_append CplI_delete_client CplI_new_client CplI_upd_client : cplI.

Lemma CplI_exec_action R a s : CplI R s -> CplI R (exec_action a s).
Proof. intros H. destruct a; cbn [exec_action]; iauto_cpl. Qed.

Lemma CplI_exec_actions R l s : CplI R s -> CplI R (exec_actions l s).
Proof.
  unfold exec_actions. revert s. induction l as [|a l IH]; cbn [fold_left]; intros s H; [exact H|].
  apply IH. apply CplI_exec_action; exact H.
Qed.

Lemma CplI_run_script R e k s : CplI R s -> CplI R (run_script e k s).
Proof.
  intros H. unfold run_script. destruct (pop_script e k (scripts s)) as [[x|] rest].
  - apply CplI_exec_actions. auto with cplI.
  - auto with cplI.
Qed.
#[export] Hint Resolve CplI_run_script : cplI.

Lemma CplI_callback e k s : CplI true s -> CplI true (callback e k s).
Proof. intros H. unfold callback. auto with cplI. Qed.
#[export] Hint Resolve CplI_callback : cplI.

Lemma CplI_timer_phase fuel now s : CplI true s -> CplI true (timer_phase fuel now s).
Proof.
  revert s. induction fuel as [|f IH]; intros s H; cbn [timer_phase]; [auto with cplI|].
  destruct (queue s) as [|[k v] q']; [exact H|]. destruct (k - now <=? 0); [|exact H].
  destruct v as [t|]; [destruct (alookup Z.eqb t (timers s)) as [[et iv]|]|]; apply IH; sproj; auto 10 with cplI.
Qed.

Lemma CplI_closing_phase fuel s : CplI true s -> CplI true (closing_phase fuel s).
Proof.
  revert s. induction fuel as [|f IH]; intros s H; cbn [closing_phase]; [auto with cplI|].
  destruct (closing s) as [|i r]; [exact H|]. sproj.
  destruct (alookup Z.eqb i (clients s)) as [c|]; [destruct (c_cb c); [|destruct (c_rm c)]|]; apply IH; auto 8 with cplI.
Qed.

Lemma CplI_introduce e k i acc s : CplI true s -> CplI true (introduce e k i acc s).
Proof. intros H. unfold introduce. iauto_cpl. Qed.
#[export] Hint Resolve CplI_introduce : cplI.

Lemma CplI_dispatch_write i ar s : CplI true s -> CplI true (dispatch_write i ar s).
Proof. intros H. unfold dispatch_write. iauto_cpl. Qed.
#[export] Hint Resolve CplI_dispatch_write : cplI.

Lemma CplI_dispatch e f s : CplI true s -> CplI true (dispatch e f s).
Proof. intros H. destruct e; cbn [dispatch]; iauto_cpl. Qed.

(* ---------- the wait ------------------------------------------------------------------------------------- *)
Lemma absorb_frame ready s :
  trace (absorb ready s) = trace s /\ intr (absorb ready s) = intr s /\ evcount (absorb ready s) = evcount s /\
  closing (absorb ready s) = closing s.
Proof.
  revert s. induction ready as [|[e b] r IH]; intros s; cbn [absorb]; [auto|].
  destruct (alookup ent_eqb e (socks s)); [|apply IH].
  destruct (IH (set_selected (aset ent_eqb e (unmap_events b f) (selected s)) s)) as (A & B & C & D).
  rewrite A, B, C, D. auto.
Qed.

(* after the wait: either the loop goes on (no interrupt pending), or run() must return *)
Definition CplIret (s : state) : Prop :=
  exists m, imon_run (trace s) = Some m /\ i_pending m = true /\ i_inrun m = true /\ intr s = true.

Lemma CplI_epoll_wait t items s :
  CplI true s ->
  let s1 := fst (epoll_wait t items s) in
  (intr s1 = false /\ CplI true s1) \/ (CplIret s1 /\ 0 < evcount s1).
Proof.
  intros [m [A [B [C [D [E F]]]]]]. unfold epoll_wait. cbn zeta. destruct items as [|it rest]; cbn [fst].
  - (* the script ran out: a foreign interrupt *)
    right. unfold do_interrupt. sproj. unfold CplIret.
    destruct (intr s) eqn:Ei; sproj.
    + split; [|auto]. eexists. unfold imon_run in *. cbn [mon_run]. rewrite A. cbn [imon_step].
      rewrite D, C. cbn. split; [reflexivity|]. cbn. auto.
    + split; [|lia]. eexists. unfold imon_run in *. cbn [mon_run]. rewrite A. cbn [imon_step].
      rewrite D, C. cbn. split; [reflexivity|]. cbn. auto.
  - destruct (absorb_frame (ep_ready it) (set_clk (clk (log (EvWait t) s) + ep_dt it) (log (EvItem false) (log (EvWait t) s)))) as (Ft & Fi & Fe & _).
    sproj.
    assert (imon_run (EvItem false :: EvWait t :: trace s) = Some (mkIm (intr s) true (intr s))) as A1.
    { unfold imon_run in *. cbn [mon_run]. rewrite A. destruct m as [p r w]. cbn in *. subst. cbn. destruct (intr s); reflexivity. }
    destruct (intr s) eqn:Ei.
    + right. split; [|rewrite Fe; auto]. unfold CplIret. eexists. rewrite Ft, Fi. split; [exact A1|]. cbn. auto.
    + left. split; [rewrite Fi; reflexivity|]. eexists. rewrite Ft, Fi, Fe. split; [exact A1|]. cbn. repeat split; auto; discriminate.
Qed.

Lemma CplI_pop_selected R s : CplI R s -> CplI R (fst (pop_selected s)).
Proof. intros H. unfold pop_selected. destruct (selected s); cbn [fst]; auto with cplI. Qed.

Lemma CplI_poll t items s :
  CplI true s ->
  let r := poll t items s in
  CplI true (fst (fst r)) \/ (snd (fst r) = None /\ CplIret (fst (fst r))).
Proof.
  intros H. unfold poll. cbn zeta. destruct (selected s) eqn:E.
  - pose proof (CplI_epoll_wait t items s H) as H1. cbn zeta in H1. destruct (epoll_wait t items s) as [s1 items1]. cbn [fst] in H1.
    destruct H1 as [[Hi H1]|[H1 He]].
    + destruct (0 <? evcount s1) eqn:Ev; cbn [fst snd].
      * left. destruct H1 as [m [A [B [C [D [E' F]]]]]]. exists m. sproj. rewrite Hi in *. repeat split; auto; try discriminate; lia.
      * left. pose proof (CplI_pop_selected true s1 H1) as H2. destruct (pop_selected s1); exact H2.
    + replace (0 <? evcount s1) with true by (symmetry; apply Z.ltb_lt; exact He). cbn [fst snd].
      right. split; [reflexivity|]. destruct H1 as [m [A [B [C D]]]]. exists m. sproj. auto.
  - left. pose proof (CplI_pop_selected true s H) as H2. destruct (pop_selected s); exact H2.
Qed.

Lemma CplI_ret s : CplI true s -> intr s = true -> CplI false (log EvRunRet (set_intr false s)).
Proof.
  intros [m [A [B [C [D [E F]]]]]] Hi. eexists. sproj. unfold imon_run in *. cbn [mon_run]. rewrite A. cbn [imon_step].
  rewrite C, B, Hi. cbn. split; [reflexivity|]. cbn. repeat split; auto; discriminate.
Qed.

Lemma CplIret_ret s : CplIret s -> 0 <= evcount s -> CplI false (log EvRunRet (set_intr false s)).
Proof.
  intros [m [A [B [C D]]]] F. eexists. sproj. unfold imon_run in *. cbn [mon_run]. rewrite A. cbn [imon_step].
  rewrite C, B. cbn. split; [reflexivity|]. cbn. repeat split; auto; discriminate.
Qed.

Lemma CplI_run_loop fuel items s : SInv s -> CplI true s ->
  exists R, CplI R (run_loop fuel items s) /\ (stuck (run_loop fuel items s) = false -> R = false).
Proof.
  revert items s. induction fuel as [|f IH]; intros items s HI H; cbn [run_loop];
    [exists true; split; [auto with cplI | sproj; discriminate]|].
  cbn zeta.
  set (s1 := closing_phase f (timer_phase f (clk s) (log (EvSel (sel_view (selected s))) (log (EvNow (clk s)) s)))).
  assert (SInv s1) as HI1 by (apply SInv_closing_phase; apply SInv_timer_phase; apply SInv_log; apply SInv_log; exact HI).
  assert (CplI true s1) as H1 by (apply CplI_closing_phase; apply CplI_timer_phase; auto with cplI).
  destruct (stuck s1) eqn:Est; [exists true; split; [exact H1 | congruence]|].
  match goal with |- context [poll ?t items s1] => set (tmo := t) end.
  pose proof (SInv_poll tmo items s1 HI1) as HI2. pose proof (CplI_poll tmo items s1 H1) as H2. cbn zeta in H2.
  destruct (poll tmo items s1) as [[s2 evt] items2]. cbn [fst snd] in HI2, H2.
  destruct H2 as [H2|[En H2]].
  - destruct evt as [[e fl]|].
    + destruct (fl_is_none fl).
      * destruct (intr s2) eqn:Ei; [exists false; split; [apply CplI_ret; assumption | reflexivity] | apply IH; assumption].
      * apply IH; [apply SInv_dispatch; exact HI2 | apply CplI_dispatch; exact H2].
    + destruct (intr s2) eqn:Ei; [exists false; split; [apply CplI_ret; assumption | reflexivity] | apply IH; assumption].
  - subst evt. destruct H2 as [m [A [B [C D]]]]. rewrite D.
    exists false. split; [|reflexivity]. apply CplIret_ret; [exists m; auto | apply (si_evnn _ HI2)].
Qed.

Lemma CplI_init : CplI false init.
Proof. exists imon0. cbn. repeat split; auto; try discriminate; lia. Qed.

(* between operations run() has returned (or never ran); when the model ran out of fuel inside
   run() it stays there and ignores all further operations *)
Definition CplItop (s : state) : Prop := exists R, CplI R s /\ (stuck s = false -> R = false).

Lemma CplI_step fuel s o : SInv s -> CplItop s -> CplItop (step fuel s o).
Proof.
  intros HI [R [H HS]]. unfold step. destruct (stuck s) eqn:Est; [exists R; rewrite Est; auto|].
  specialize (HS eq_refl). subst R.
  destruct o; try (exists false; split; [auto with cplI | reflexivity]; fail).
  - exists false. split; [apply CplI_exec_action; exact H | reflexivity].
  - unfold run. apply CplI_run_loop; [apply SInv_log; exact HI|].
    destruct H as [m [A [B [C [D [E F]]]]]]. eexists. sproj. unfold imon_run in *. cbn [mon_run]. rewrite A. cbn [imon_step].
    rewrite C, D. cbn. split; [reflexivity|]. cbn. auto.
Qed.

Lemma CplI_steps fuel l s : SInv s -> CplItop s -> CplItop (steps fuel s l).
Proof.
  unfold steps. revert s. induction l as [|o l IH]; cbn [fold_left]; intros s HI H; [exact H|].
  apply IH; [apply SInv_step; exact HI | apply CplI_step; assumption].
Qed.

Theorem imon_accepts_model fuel l : imon_run (trace (steps fuel init l)) <> None.
Proof.
  destruct (CplI_steps fuel l init SInv_init) as [R [[m [A _]] _]]; [exists false; split; [apply CplI_init | reflexivity]|]. congruence.
Qed.
