(* Property C14 - "The event loop honours timers, removals, readiness and interrupts".

   All theorems are about the executable model ServerLoopModel (Server::run, Socket::Poll (epoll variant), the
   timer MultiMap, the pools, the closing set, interrupt), for ALL fuel values, ALL histories [ops] of top-level
   operations, callback behaviours, scripted clocks, epoll results and send/recv/accept/SO_ERROR outcomes.  The
   model is tied to the code by checks/C14.py (same histories through the extracted model and the real Server on
   a simulated kernel; the extracted monitors of ServerLoopSpec judge the implementation's own log).
   [trace s] is the log, newest event first:  trace = later ++ x :: earlier  means x happened after [earlier].

   clause of the property statement                                   theorem
   -----------------------------------------------------------------  ------------------------------------------------
   (whole statement, as the four monitors of ServerLoopSpec)           model_log_accepted
   a timer is activated once per interval, never before it is due,     timer_activation (the (n+1)-th activation since
   in order of due time                                                creation at clock c is the one due at c+(n+1)*iv;
                                                                       due <= sampled now; no live timer is due earlier)
                                                                       + timer_wait_not_past_due (the loop never waits
                                                                       beyond the due time of a live timer: no lateness
                                                                       of its own making, so no catch-up bursts)
   after remove() returned the removed timer/client/listener/          no_callback_after_remove (also for the client
   establisher never receives another callback (also from inside a     dropped by a null return of onAccepted/onConnected
   callback / with an event pending)                                   and for the client removed from inside the very
                                                                       onAccepted/onConnected that announces it: EvDeferred)
                                                                       + buffered_events_within_interest, registered_objects_alive,
                                                                       pooled_clients_have_callback_objects
                                                                       (Poll::set/remove prune the buffered events)
   every dispatched event kind is one the socket is registered for     dispatch_kind_registered (onRead, the send of the backlog, accept),
                                                                       write_dispatch_registered (onWrite), connect_dispatch_registered
   a failed read or write is followed by onClosed                      failed_io_followed_by_onClosed, loop_send_failure_closes_at_once
   interrupt() makes the current or next run() return ...              interrupted_wait_is_last
   ... which never returns otherwise                                   run_returns_only_after_interrupt
   every ready registered socket is eventually dispatched              eventual_dispatch_partial_buffered, eventual_dispatch_partial_progress
                                                                       (PARTIAL: see below)

   PARTIAL / not proved here:
   * eventual dispatch (liveness) is proved only up to the kernel: a reported registered socket enters the buffer
     (eventual_dispatch_partial_buffered); in every iteration of the loop the timer and closing phases and the dispatched
     callbacks only delete entries from the buffer or shrink them in place (order kept), and Poll::poll serves the head of
     what is left without asking the kernel (eventual_dispatch_partial_progress): a buffered entry that is not deleted (socket
     removed / interest withdrawn) strictly moves towards the head and is served.  Assumed: the (level-triggered) epoll keeps
     reporting a ready socket and the event descriptor; at most 63 sockets per epoll_wait.  Not proved: termination of the
     timer and closing phases (needs intervals > 0 and finite callback scripts) - in the model a non-terminating run ends as
     [stuck]; that run_loop ends only by EvRunRet or by running out of fuel is the supporting lemma run_returns_or_stuck.
   * "interrupt() makes the current or next run() return" is the safety half: once an interrupt is pending the next wait
     of the loop is its last action before run() returns.  That the loop reaches that wait is the termination question above.
   * equal due times: activations are in order of due time; that timers with EQUAL due times fire in insertion order is
     validated by the correspondence check only.
   * the model mirrors the code after the repairs fixes/C14/01 (a client removed from inside the onAccepted/onConnected that
     announces it is deleted when that callback returns, whatever it returns) and fixes/C14/02 (the poll time-out is computed
     after the closing pass).  Without them no_callback_after_remove and timer_wait_not_past_due are false (witnesses in
     corpus/C14/removed-inside-its-announcement.ops and timer-created-in-onclosed.ops).
   * timer_wait_not_past_due is relative to the clock value the loop sampled at the start of the iteration: time spent inside
     callbacks of that iteration is not accounted for (neither by the code nor by the clause).  *)
From Coq Require Import ZArith List Bool.
From ServerLoop Require Import ServerLoopSpec ServerLoopModel ServerLoopInv ServerLoopCb ServerLoopBuf ServerLoopCplC ServerLoopDerived.
Import ListNotations.
Local Open Scope Z_scope.

Theorem model_log_accepted : forall fuel ops, accepts (trace (steps fuel init ops)) = true.
Proof. exact model_accepted. Qed.
Print Assumptions model_log_accepted.

Theorem timer_activation : forall fuel ops later t due now earlier,
  trace (steps fuel init ops) = later ++ EvAct t due now :: earlier ->
  exists c iv n, tinfo t earlier = Some (c, iv, n) /\ due = c + (n + 1) * iv /\ due <= now /\
    forall t' c' iv' n', tinfo t' earlier = Some (c', iv', n') -> due <= c' + (n' + 1) * iv'.
Proof. exact model_timer_activation. Qed.
Print Assumptions timer_activation.

Theorem timer_wait_not_past_due : forall fuel ops later t earlier,
  trace (steps fuel init ops) = later ++ EvWait t :: earlier ->
  forall t' c iv n, tinfo t' earlier = Some (c, iv, n) -> now_of earlier + t <= c + (n + 1) * iv.
Proof. exact model_wait_not_past_due. Qed.
Print Assumptions timer_wait_not_past_due.

Theorem no_callback_after_remove : forall fuel ops later x earlier e,
  trace (steps fuel init ops) = later ++ x :: earlier -> gone e x = true ->
  forallb (fun y => negb (callback_for e y)) later = true.
Proof. exact model_no_callback_after_remove. Qed.
Print Assumptions no_callback_after_remove.

Theorem buffered_events_within_interest : forall fuel ops e f,
  alookup ent_eqb e (selected (steps fuel init ops)) = Some f ->
  exists g, alookup ent_eqb e (socks (steps fuel init ops)) = Some g /\ fl_sub f g = true.
Proof. exact model_buffered_within_interest. Qed.
Print Assumptions buffered_events_within_interest.

Theorem registered_objects_alive : forall fuel ops e g,
  alookup ent_eqb e (socks (steps fuel init ops)) = Some g -> sock_ok (steps fuel init ops) e g.
Proof. exact model_registered_alive. Qed.
Print Assumptions registered_objects_alive.

Theorem dispatch_kind_registered : forall fuel ops later x earlier e p,
  trace (steps fuel init ops) = later ++ x :: earlier -> needs_reg x = Some (e, p) ->
  exists mask, reg_of e earlier = Some mask /\ p mask = true.
Proof. exact model_dispatch_registered. Qed.
Print Assumptions dispatch_kind_registered.

Theorem write_dispatch_registered : forall fuel ops later i c earlier,
  trace (steps fuel init ops) = later ++ EvCb (Cl i) KWrite c :: earlier ->
  exists mask rest, earlier = EvCtl CMod (Cl i) mask :: rest /\ exists old, reg_of (Cl i) rest = Some old /\ has_out old = true.
Proof. exact model_write_dispatch. Qed.
Print Assumptions write_dispatch_registered.

Theorem connect_dispatch_registered : forall fuel ops later i err earlier,
  trace (steps fuel init ops) = later ++ EvSoErr i err :: earlier ->
  exists mask rest, earlier = EvCtl CDel (Es i) mask :: rest /\ exists old, reg_of (Es i) rest = Some old /\ has_out old = true.
Proof. exact model_connect_dispatch. Qed.
Print Assumptions connect_dispatch_registered.

Theorem failed_io_followed_by_onClosed : forall fuel ops l3 w l2 f l1 i,
  trace (steps fuel init ops) = l3 ++ w :: l2 ++ f :: l1 -> fails i f = true -> ccheck w = true ->
  existsb (settles i) l2 = true.
Proof. exact model_failed_io_answered. Qed.
Print Assumptions failed_io_followed_by_onClosed.

Theorem loop_send_failure_closes_at_once : forall fuel ops later y i n r earlier,
  trace (steps fuel init ops) = later ++ y :: EvSend i n r true :: earlier -> failed_io r = true ->
  (exists o e mask, y = EvCtl o e mask) \/ (exists c, y = EvCb (Cl i) KClosed c).
Proof. exact model_loop_send_failed. Qed.
Print Assumptions loop_send_failure_closes_at_once.

Theorem run_returns_only_after_interrupt : forall fuel ops later earlier,
  trace (steps fuel init ops) = later ++ EvRunRet :: earlier -> pending_of earlier = true.
Proof. exact model_ret_needs_interrupt. Qed.
Print Assumptions run_returns_only_after_interrupt.

Theorem interrupted_wait_is_last : forall fuel ops rest y q t earlier,
  trace (steps fuel init ops) = rest ++ y :: q ++ EvWait t :: earlier -> pending_of earlier = true ->
  forallb quiet q = true -> quiet y = false -> y = EvRunRet.
Proof. exact model_interrupted_wait_is_last. Qed.
Print Assumptions interrupted_wait_is_last.

Theorem eventual_dispatch_partial_buffered : forall e g r s,
  alookup ent_eqb e (socks s) = Some g -> In e (map fst r) ->
  exists n, In (e, n) r /\ alookup ent_eqb e (selected (absorb r s)) = Some (unmap_events n g).
Proof. exact reported_socket_is_buffered_partial. Qed.
Print Assumptions eventual_dispatch_partial_buffered.

Theorem eventual_dispatch_partial_progress : forall fuel now t items s,
  let s1 := closing_phase fuel (timer_phase fuel now s) in
  sublist (skeys s1) (skeys s) /\
  forall e f r, selected s1 = (e, f) :: r ->
    poll t items s1 = (set_selected r s1, Some (e, f), items) /\
    sublist (skeys (dispatch e f (set_selected r s1))) (map fst r).
Proof. exact buffer_progress. Qed.
Print Assumptions eventual_dispatch_partial_progress.

Theorem structural_invariant_reachable : forall fuel ops, SInv (steps fuel init ops).
Proof. exact SInv_reachable. Qed.
Print Assumptions structural_invariant_reachable.

Theorem pooled_clients_have_callback_objects : forall fuel ops j c,
  In (j, c) (clients (steps fuel init ops)) -> c_cb c = true /\ c_rm c = false.
Proof. exact pooled_clients_ready. Qed.
Print Assumptions pooled_clients_have_callback_objects.

(* ---------- non-vacuity: a concrete history whose log contains every kind of event the theorems speak about ---------- *)
Definition nb (i o r h e : bool) := mkNb i o r h e.
Definition demo : list op :=
  [ OAct (ATimer 1 5); OAct (ATimer 2 5); OAct (ATimer 3 5); OAct (APair 1); OAct (APair 2); OAct (AListen 0); OAct (AConnect 0);
    OOn (mkSe (Tm 1) SAct 0 false [ARmTimer 2; AWrite 1 5; AWrite 2 4]); OSendq [SSent 2; SWould; SErr];
    OOn (mkSe (Cl 1) (SCb KRead) 0 false [ARead 1]); ORecvq [REof];
    OOn (mkSe (Cl 1) (SCb KClosed) 0 false [ARmClient 1]);
    OOn (mkSe (Cl 2) (SCb KClosed) 0 false [ARmClient 2]);
    OOn (mkSe (Li 0) (SIn KAccepted) 5 true [AInterrupt]);
    OOn (mkSe (Li 0) (SIn KAccepted) 7 true [ARead 7; ARmClient 7; AWrite 7 1]);
    OOn (mkSe (Es 0) (SIn KConnected) 6 false [ARmEstab 0]);
    ORun [ mkEp 5 [];
           mkEp 0 [(Cl 2, nb false true false false false); (Cl 1, nb true true false false false);
                   (Li 0, nb true false false false false); (Es 0, nb false true false false false)];
           mkEp 0 [(Cl 1, nb true false false false false); (Li 0, nb true false false false false)]; mkEp 1 [] ];
    OAct AInterrupt; ORun [mkEp 7 []] ].
Definition demo_log := trace (steps 200 init demo).
Definition has (p : ev -> bool) := existsb p demo_log.

Example demo_not_stuck : stuck (steps 200 init demo) = false. Proof. vm_compute. reflexivity. Qed.
Example demo_accepted : accepts demo_log = true. Proof. vm_compute. reflexivity. Qed.
Example demo_has_activations : length (filter (fun x => match x with EvAct _ _ _ => true | _ => false end) demo_log) = 2%nat.
Proof. vm_compute. reflexivity. Qed.
Example demo_has_timer_removal : has (fun x => gone (Tm 2) x) = true. Proof. vm_compute. reflexivity. Qed.
Example demo_has_deferred_removal : has (fun x => gone (Cl 7) x) = true /\ has (fun x => match x with EvIntroRet 7 true => true | _ => false end) = true.
Proof. vm_compute. auto. Qed.
Example demo_has_waits_with_live_timers :
  has (fun x => match x with EvWait t => t <? 300000 | _ => false end) = true.
Proof. vm_compute. reflexivity. Qed.
Example demo_has_onWrite : has (fun x => match x with EvCb (Cl _) KWrite _ => true | _ => false end) = true.
Proof. vm_compute. reflexivity. Qed.
Example demo_pooled_clients : length (clients (steps 200 init demo)) = 1%nat.
Proof. vm_compute. reflexivity. Qed.
Example demo_buffer_pruned_by_dispatch :
  let s := fst (epoll_wait 0 [mkEp 0 [(Cl 1, nb true false false false false); (Cl 2, nb true false false false false); (Cl 3, nb true false false false false)]]
                  (steps 10 init [OAct (APair 1); OAct (APair 2); OAct (APair 3); OOn (mkSe (Cl 1) (SCb KRead) 0 false [ARmClient 2])])) in
  skeys s = [Cl 1; Cl 2; Cl 3] /\ skeys (dispatch (Cl 1) fl_R (set_selected (tl (selected s)) s)) = [Cl 3].
Proof. vm_compute. auto. Qed.
Example demo_has_client_removal : has (fun x => gone (Cl 1) x) = true /\ has (fun x => gone (Cl 6) x) = true /\ has (fun x => gone (Es 0) x) = true.
Proof. vm_compute. auto. Qed.
Example demo_has_dispatches :
  has (fun x => match needs_reg x with Some (Cl _, _) => true | _ => false end) = true /\
  has (fun x => match needs_reg x with Some (Li _, _) => true | _ => false end) = true /\
  has (fun x => match x with EvSoErr _ _ => true | _ => false end) = true /\
  has (fun x => match x with EvSend _ _ _ true => true | _ => false end) = true.
Proof. vm_compute. auto. Qed.
Example demo_has_failed_io : has (fails 1) = true /\ has (settles 1) = true /\ has ccheck = true.
Proof. vm_compute. auto. Qed.
Example demo_has_failed_loop_send : has (fun x => match x with EvSend 2 _ r true => failed_io r | _ => false end) = true.
Proof. vm_compute. reflexivity. Qed.
Example demo_has_returns : length (filter (fun x => match x with EvRunRet => true | _ => false end) demo_log) = 2%nat /\
  has (fun x => match x with EvInterrupt _ => true | _ => false end) = true /\
  has (fun x => match x with EvWait _ => true | _ => false end) = true.
Proof. vm_compute. auto. Qed.
Example demo_buffer_nonempty_midway :
  selected (fst (epoll_wait 0 [mkEp 0 [(Cl 1, nb true false false false false); (Cl 2, nb true false false false false)]]
                  (steps 10 init [OAct (APair 1); OAct (APair 2)]))) =
  [(Cl 1, mkFl true false false false); (Cl 2, mkFl true false false false)].
Proof. vm_compute. reflexivity. Qed.
