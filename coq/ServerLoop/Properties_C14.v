(* Property C14 - "The event loop honours timers, removals, readiness and interrupts".

   All theorems are about the executable model ServerLoopModel (Server::run, Socket::Poll (epoll variant), the
   timer MultiMap, the pools, the closing set, interrupt), for ALL fuel values, ALL histories [ops] of top-level
   operations, callback behaviours, scripted clocks, epoll results and send/recv/accept/SO_ERROR outcomes.  The
   model is tied to the code by checks/C14.py (same histories through the extracted model and the real Server on
   a simulated kernel; the extracted monitors of ServerLoopSpec judge the implementation's own log).
   [trace s] is the log, newest event first:  trace = later ++ x :: earlier  means x happened after [earlier].

   clause of the property statement                                   theorem
   -----------------------------------------------------------------  ------------------------------------------------
   (whole statement, as the four monitors of ServerLoopSpec)           model_log_accepted
   a timer is activated once per interval, never before it is due,     timer_activation (the (n+1)-th activation since
   in order of due time                                                creation at clock c is the one due at c+(n+1)*iv;
                                                                       due <= sampled now; no live timer is due earlier)
                                                                       + timer_wait_not_past_due (the loop never waits
                                                                       beyond the due time of a live timer: no lateness
                                                                       of its own making, so no catch-up bursts)
   after remove() returned the removed timer/client/listener/          no_callback_after_remove (also for the client
   establisher never receives another callback (also from inside a     dropped by a null return of onAccepted/onConnected
   callback / with an event pending)                                   and for the client removed from inside the very
                                                                       onAccepted/onConnected that announces it: EvDeferred)
                                                                       + buffered_events_within_interest, registered_objects_alive,
                                                                       pooled_clients_have_callback_objects
                                                                       (Poll::set/remove prune the buffered events)
   every dispatched event kind is one the socket is registered for     dispatch_kind_registered (onRead, the send of the backlog, accept),
                                                                       write_dispatch_registered (onWrite), connect_dispatch_registered
   a failed read or write is followed by onClosed                      failed_io_followed_by_onClosed, loop_send_failure_closes_at_once
   interrupt() makes the current or next run() return ...              interrupted_wait_is_last (safety half: the next wait is the last action),
                                                                       interrupt_makes_run_return, interrupt_reaches_wait (liveness half, round 4:
                                                                       with an interrupt pending at the head of an iteration run() returns after the
                                                                       buffered events have been served, one per iteration; with an empty buffer the
                                                                       loop reaches its wait in the current iteration and returns), interrupt_makes_run_return_total
   ... which never returns otherwise                                   run_returns_only_after_interrupt
   every ready registered socket is eventually dispatched              eventual_dispatch (round 4; FULL UNDER THE STATED HYPOTHESES: fairness of the simulated
                                                                       level-triggered epoll, written out as [reports it e g] on the epoll script; callbacks
                                                                       that do not remove e or narrow its interest, [keeps_scripts]; a client e not suspended),
                                                                       eventual_dispatch_from_wait (the tighter bound from an empty buffer), buffered_event_is_served
                                                                       (an event already buffered at position p: within p+1 iterations), eventual_dispatch_total
                                                                       (for every sufficiently large fuel, environment hypothesis Env);
                                                                       supporting: eventual_dispatch_partial_buffered, eventual_dispatch_partial_progress
   (round 5) a timer is activated once per interval: the loop comes     wait_timeout_nonnegative (under Env every wait of the model has a time-out >= 0 - a negative
   back from its wait                                                  one means "block without limit" for epoll_wait; tmon's one-sided clause and
                                                                       timer_wait_not_past_due are satisfied by a negative time-out), wait_monitor_accepts (wmon)
   (round 5) a failed read or write is followed by onClosed, TEXT      closed_clause_text_level (every log that cmon accepts - answered before the next wait or
   level: before the loop has waited twice                             dispatch - is accepted by cmt), closed_clause_text_level_accepted (the model's log)
   (round 5) every registered socket ... is eventually dispatched:     socket_stays_registered (kmon: epoll_ctl DEL only as part of a removal, a connect dispatch or a
   it stays in the poll set                                            closing, or for a client the application gave up); model_log_accepted_text_level (all six)
   (termination of one iteration - needed by the two liveness clauses) timer_phase_terminates (explicit fuel bound tlag+1), closing_phase_terminates (explicit
                                                                       fuel bound cmeas+1), more_fuel_same_run, enough_fuel_exists, run_always_returns,
                                                                       environment_hypothesis_reachable

   Round 4 - what the liveness theorems say and assume (definitions in ServerLoopTerm / ServerLoopKeep / ServerLoopLive / ServerLoopFuel):
   * [Env s] (boolean [envb]): every pooled timer and every timer a callback script may still create has an interval > 0, and no
     callback sets the clock back (AAdv d with d >= 0).  Callback scripts are finite by construction (lists, an entry is consumed by
     the invocation that runs it, none is created inside run()).  Env holds in every state reached by operations that respect it
     (environment_hypothesis_reachable).
   * timer phase: measure [tlag now s] = over the queue entries due at now: 1 + (now - due) / interval (the default entry counts 1).
     Each pass of the loop lowers it; what onActivated does (create timers - due after now -, remove timers, anything else) does not
     raise it.  fuel > tlag: the phase is not cut off and leaves nothing due (timer_phase_terminates; the bound is attained:
     ex_timer_phase_bound_tight).  NOTE the measure is not "number of timers due": a timer that is several intervals late fires
     once per missed interval in the same phase (catch-up), exactly as the code does.
   * closing phase: measure [cmeas s] = |closing set| + number of write/read actions left in the callback scripts (only a failing
     write or read inside a callback adds a client to the set).  fuel > cmeas: not cut off, the set is empty afterwards
     (closing_phase_terminates; no hypothesis at all).
   * fuel: a run that ends with stuck = false was never cut off, more fuel gives the same run (more_fuel_same_run); under Env enough
     fuel exists for every state and every finite epoll script (enough_fuel_exists: every iteration consumes an epoll item or
     serves a buffered event; when the script has run out the model's foreign interrupt ends the run), so run() always comes back
     in the model (run_always_returns).  The fuel bound of a whole run is existential, not explicit (an explicit one would have
     to bound the catch-up work of all later iterations); the bounds of the two phases are explicit.
   * eventual_dispatch: [KS e g None s] = e is registered with an interest containing g, a client e is not suspended, and no
     callback script entry removes e or suspends it (writes, reads, resumes on e are allowed: they only widen its interest);
     [reports it e g] = the next epoll item reports e, with native bits that mean readiness for every interest containing g
     ([ready_for], decided over the 16 interests).  Conclusion [Reach e n final s]: the log of the run continues the log of s
     with an event of e's dispatch (onRead/onWrite/onClosed entered, the send of its backlog, accept, the SO_ERROR query) - or
     with EvRunRet (an interrupt ended the run first) - after at most n iterations (EvNow events), n = events already buffered +
     1 + length of the reported list (from an empty buffer: 1 + length of the reported list - the "+1" is the wake-up that is
     consumed without serving anything when the event-descriptor count is positive but no interrupt is pending).
     Only the first epoll item is constrained: once reported and buffered, e stays buffered until it is served.
   * interrupt: [IP s] = the interrupted flag is set and the event-descriptor count is positive (what Server::interrupt establishes:
     interrupt_sets_pending in ServerLoopLive).  A buffered event is served before the loop looks at the event descriptor, so run()
     returns after at most |buffer| + 1 iterations, not necessarily in the current one; with an empty buffer it is the current one.
   Still not proved: nothing about real time (the clock is scripted) and nothing about the real kernel keeping its side of [reports]
   (level-triggered epoll is the ASSUMPTION the theorem makes explicit; the 64-event array of epoll_wait is outside the model).
   Other notes (unchanged from round 2):
   * equal due times: activations are in order of due time; that timers with EQUAL due times fire in insertion order is
     validated by the correspondence check only.
   * the model mirrors the code after the repairs fixes/C14/01 (a client removed from inside the onAccepted/onConnected that
     announces it is deleted when that callback returns, whatever it returns) and fixes/C14/02 (the poll time-out is computed
     after the closing pass).  Without them no_callback_after_remove and timer_wait_not_past_due are false (witnesses in
     corpus/C14/removed-inside-its-announcement.ops and timer-created-in-onclosed.ops).
   * timer_wait_not_past_due is relative to the clock value the loop sampled at the start of the iteration: time spent inside
     callbacks of that iteration is not accounted for (neither by the code nor by the clause).  *)
From Coq Require Import ZArith List Bool.
From ServerLoop Require Import ServerLoopSpec ServerLoopSpecMore ServerLoopModel ServerLoopInv ServerLoopCb ServerLoopBuf ServerLoopCplC ServerLoopDerived
  ServerLoopTerm ServerLoopLiveBase ServerLoopKeep ServerLoopLive ServerLoopFuel ServerLoopMore.
Import ListNotations.
Local Open Scope Z_scope.

Theorem model_log_accepted : forall fuel ops, accepts (trace (steps fuel init ops)) = true.
Proof. exact model_accepted. Qed.
Print Assumptions model_log_accepted.

Theorem timer_activation : forall fuel ops later t due now earlier,
  trace (steps fuel init ops) = later ++ EvAct t due now :: earlier ->
  exists c iv n, tinfo t earlier = Some (c, iv, n) /\ due = c + (n + 1) * iv /\ due <= now /\
    forall t' c' iv' n', tinfo t' earlier = Some (c', iv', n') -> due <= c' + (n' + 1) * iv'.
Proof. exact model_timer_activation. Qed.
Print Assumptions timer_activation.

Theorem timer_wait_not_past_due : forall fuel ops later t earlier,
  trace (steps fuel init ops) = later ++ EvWait t :: earlier ->
  forall t' c iv n, tinfo t' earlier = Some (c, iv, n) -> now_of earlier + t <= c + (n + 1) * iv.
Proof. exact model_wait_not_past_due. Qed.
Print Assumptions timer_wait_not_past_due.

Theorem no_callback_after_remove : forall fuel ops later x earlier e,
  trace (steps fuel init ops) = later ++ x :: earlier -> gone e x = true ->
  forallb (fun y => negb (callback_for e y)) later = true.
Proof. exact model_no_callback_after_remove. Qed.
Print Assumptions no_callback_after_remove.

Theorem buffered_events_within_interest : forall fuel ops e f,
  alookup ent_eqb e (selected (steps fuel init ops)) = Some f ->
  exists g, alookup ent_eqb e (socks (steps fuel init ops)) = Some g /\ fl_sub f g = true.
Proof. exact model_buffered_within_interest. Qed.
Print Assumptions buffered_events_within_interest.

Theorem registered_objects_alive : forall fuel ops e g,
  alookup ent_eqb e (socks (steps fuel init ops)) = Some g -> sock_ok (steps fuel init ops) e g.
Proof. exact model_registered_alive. Qed.
Print Assumptions registered_objects_alive.

Theorem dispatch_kind_registered : forall fuel ops later x earlier e p,
  trace (steps fuel init ops) = later ++ x :: earlier -> needs_reg x = Some (e, p) ->
  exists mask, reg_of e earlier = Some mask /\ p mask = true.
Proof. exact model_dispatch_registered. Qed.
Print Assumptions dispatch_kind_registered.

Theorem write_dispatch_registered : forall fuel ops later i c earlier,
  trace (steps fuel init ops) = later ++ EvCb (Cl i) KWrite c :: earlier ->
  exists mask rest, earlier = EvCtl CMod (Cl i) mask :: rest /\ exists old, reg_of (Cl i) rest = Some old /\ has_out old = true.
Proof. exact model_write_dispatch. Qed.
Print Assumptions write_dispatch_registered.

Theorem connect_dispatch_registered : forall fuel ops later i err earlier,
  trace (steps fuel init ops) = later ++ EvSoErr i err :: earlier ->
  exists mask rest, earlier = EvCtl CDel (Es i) mask :: rest /\ exists old, reg_of (Es i) rest = Some old /\ has_out old = true.
Proof. exact model_connect_dispatch. Qed.
Print Assumptions connect_dispatch_registered.

Theorem failed_io_followed_by_onClosed : forall fuel ops l3 w l2 f l1 i,
  trace (steps fuel init ops) = l3 ++ w :: l2 ++ f :: l1 -> fails i f = true -> ccheck w = true ->
  existsb (settles i) l2 = true.
Proof. exact model_failed_io_answered. Qed.
Print Assumptions failed_io_followed_by_onClosed.

Theorem loop_send_failure_closes_at_once : forall fuel ops later y i n r earlier,
  trace (steps fuel init ops) = later ++ y :: EvSend i n r true :: earlier -> failed_io r = true ->
  (exists o e mask, y = EvCtl o e mask) \/ (exists c, y = EvCb (Cl i) KClosed c).
Proof. exact model_loop_send_failed. Qed.
Print Assumptions loop_send_failure_closes_at_once.

Theorem run_returns_only_after_interrupt : forall fuel ops later earlier,
  trace (steps fuel init ops) = later ++ EvRunRet :: earlier -> pending_of earlier = true.
Proof. exact model_ret_needs_interrupt. Qed.
Print Assumptions run_returns_only_after_interrupt.

Theorem interrupted_wait_is_last : forall fuel ops rest y q t earlier,
  trace (steps fuel init ops) = rest ++ y :: q ++ EvWait t :: earlier -> pending_of earlier = true ->
  forallb quiet q = true -> quiet y = false -> y = EvRunRet.
Proof. exact model_interrupted_wait_is_last. Qed.
Print Assumptions interrupted_wait_is_last.

Theorem eventual_dispatch_partial_buffered : forall e g r s,
  alookup ent_eqb e (socks s) = Some g -> In e (map fst r) ->
  exists n, In (e, n) r /\ alookup ent_eqb e (selected (absorb r s)) = Some (unmap_events n g).
Proof. exact reported_socket_is_buffered_partial. Qed.
Print Assumptions eventual_dispatch_partial_buffered.

Theorem eventual_dispatch_partial_progress : forall fuel now t items s,
  let s1 := closing_phase fuel (timer_phase fuel now s) in
  sublist (skeys s1) (skeys s) /\
  forall e f r, selected s1 = (e, f) :: r ->
    poll t items s1 = (set_selected r s1, Some (e, f), items) /\
    sublist (skeys (dispatch e f (set_selected r s1))) (map fst r).
Proof. exact buffer_progress. Qed.
Print Assumptions eventual_dispatch_partial_progress.

Theorem structural_invariant_reachable : forall fuel ops, SInv (steps fuel init ops).
Proof. exact SInv_reachable. Qed.
Print Assumptions structural_invariant_reachable.

Theorem pooled_clients_have_callback_objects : forall fuel ops j c,
  In (j, c) (clients (steps fuel init ops)) -> c_cb c = true /\ c_rm c = false.
Proof. exact pooled_clients_ready. Qed.
Print Assumptions pooled_clients_have_callback_objects.

(* ---------- round 4: termination of an iteration, eventual dispatch, interrupt liveness ---------- *)
Theorem timer_phase_terminates : forall fuel now s,
  SInv s -> Env s -> now <= clk s -> (tlag now s < fuel)%nat ->
  stuck (timer_phase fuel now s) = stuck s /\ tlag now (timer_phase fuel now s) = 0%nat.
Proof. exact timer_phase_terminates_short. Qed.
Print Assumptions timer_phase_terminates.

Theorem closing_phase_terminates : forall fuel s,
  (cmeas s < fuel)%nat -> stuck (closing_phase fuel s) = stuck s /\ closing (closing_phase fuel s) = [].
Proof. exact closing_phase_terminates_l. Qed.
Print Assumptions closing_phase_terminates.

Theorem environment_hypothesis_reachable : forall fuel ops, forallb op_okb ops = true -> Env (steps fuel init ops).
Proof. exact Env_reachable_l. Qed.
Print Assumptions environment_hypothesis_reachable.

Theorem more_fuel_same_run : forall f f' items s,
  (f <= f')%nat -> stuck (run_loop f items s) = false -> run_loop f' items s = run_loop f items s.
Proof. exact run_loop_mono_l. Qed.
Print Assumptions more_fuel_same_run.

Theorem enough_fuel_exists : forall items s, SInv s -> Env s -> stuck s = false ->
  exists F, forall fuel, (F <= fuel)%nat -> stuck (run_loop fuel items s) = false.
Proof. exact enough_fuel_l. Qed.
Print Assumptions enough_fuel_exists.

(* NOTE (round 5): enough_fuel_exists and run_always_returns are statements about the MODEL'S ENVIRONMENT, not about Server::run: the
   epoll script [items] is a finite list and when it has run out the model's epoll_wait lets "another thread" call interrupt()
   (ServerLoopModel.epoll_wait, items = []).  That injected interrupt is what makes every run() of the model come back; the property
   text says run() "never returns otherwise", and run_returns_only_after_interrupt is the theorem for that.  What these two theorems
   give is: a run is never cut off by fuel (stuck = false) once the fuel is large enough - fuel is only a proof device. *)
Theorem run_always_returns : forall items s, SInv s -> Env s -> stuck s = false ->
  exists F, forall fuel, (F <= fuel)%nat -> exists tr', trace (run_loop fuel items s) = EvRunRet :: tr'.
Proof. exact run_returns_total_l. Qed.
Print Assumptions run_always_returns.

Theorem eventual_dispatch : forall e g it rest fuel s,
  SInv s -> CbEx None s -> KS e g None s -> reports it e g ->
  stuck (run_loop fuel (it :: rest) s) = false ->
  Reach e (length (selected s) + S (length (ep_ready it))) (run_loop fuel (it :: rest) s) s.
Proof. exact eventual_dispatch_any_l. Qed.
Print Assumptions eventual_dispatch.

Theorem eventual_dispatch_from_wait : forall e g fuel it rest s,
  SInv s -> CbEx None s -> KS e g None s -> selected s = [] -> reports it e g ->
  stuck (run_loop fuel (it :: rest) s) = false ->
  Reach e (S (length (ep_ready it))) (run_loop fuel (it :: rest) s) s.
Proof. exact eventual_dispatch_l. Qed.
Print Assumptions eventual_dispatch_from_wait.

Theorem eventual_dispatch_total : forall e g it rest s,
  SInv s -> CbEx None s -> Env s -> stuck s = false -> KS e g None s -> reports it e g ->
  exists F, forall fuel, (F <= fuel)%nat ->
    stuck (run_loop fuel (it :: rest) s) = false /\
    Reach e (length (selected s) + S (length (ep_ready it))) (run_loop fuel (it :: rest) s) s.
Proof. exact eventual_dispatch_total_l. Qed.
Print Assumptions eventual_dispatch_total.

(* an event that is already buffered (flags f, not empty) is served at the latest when the events in front of it have been served *)
Theorem buffered_event_is_served : forall e g f, fl_is_none f = false -> forall fuel items s,
  SInv s -> CbEx None s -> KS e g (Some f) s -> stuck (run_loop fuel items s) = false ->
  Reach e (S (pos e (skeys s))) (run_loop fuel items s) s.
Proof. exact drain. Qed.
Print Assumptions buffered_event_is_served.

Theorem interrupt_makes_run_return : forall fuel items s,
  SInv s -> IP s -> stuck (run_loop fuel items s) = false ->
  exists mid, trace (run_loop fuel items s) = EvRunRet :: mid ++ trace s /\ (count_now mid <= S (length (selected s)))%nat.
Proof. exact interrupt_returns_l. Qed.
Print Assumptions interrupt_makes_run_return.

Theorem interrupt_reaches_wait : forall fuel items s,
  SInv s -> IP s -> selected s = [] -> stuck (run_loop fuel items s) = false ->
  exists t q l0, trace (run_loop fuel items s) = EvRunRet :: q ++ EvWait t :: l0 ++ trace s /\
                 forallb quiet q = true /\ count_now l0 = 1%nat.
Proof. exact interrupt_reaches_wait_l. Qed.
Print Assumptions interrupt_reaches_wait.

Theorem interrupt_makes_run_return_total : forall items s,
  SInv s -> Env s -> stuck s = false -> IP s ->
  exists F, forall fuel, (F <= fuel)%nat ->
    exists mid, trace (run_loop fuel items s) = EvRunRet :: mid ++ trace s /\ (count_now mid <= S (length (selected s)))%nat.
Proof. exact interrupt_returns_total_l. Qed.
Print Assumptions interrupt_makes_run_return_total.

(* ---------- round 5: the monitors of ServerLoopSpecMore ---------- *)
(* under the environment hypothesis (every timer interval > 0, no callback sets the clock back: op_okb, the boolean the reachability
   theorem environment_hypothesis_reachable uses) the time-out of every wait is >= 0.  Without the hypothesis the statement is false
   in the model AND in the code: a timer with a negative interval created in onClosed is due before the sampled now. *)
Theorem wait_timeout_nonnegative : forall fuel ops, forallb op_okb ops = true ->
  forall later t earlier, trace (steps fuel init ops) = later ++ EvWait t :: earlier -> 0 <= t.
Proof. exact wait_nonneg_l. Qed.
Print Assumptions wait_timeout_nonnegative.

(* the combined timer liveness statement of one iteration: when the head of an iteration (timer phase + closing pass) is not cut off by fuel,
   NO queue entry is due at the sampled now any more (tlag counts, over the entries due at now, 1 + the missed intervals) - every live timer
   that was due at the sampled now has been activated in this iteration, as often as it was due; with wait_timeout_nonnegative and
   timer_wait_not_past_due: the loop then waits no longer than until the next due time, and not without limit *)
Theorem iteration_leaves_nothing_due : forall f s, SInv s -> Env s -> stuck s = false -> stuck (head_state f s) = false ->
  tlag (clk s) (head_state f s) = 0%nat.
Proof. exact head_state_nothing_due. Qed.
Print Assumptions iteration_leaves_nothing_due.

Theorem wait_monitor_accepts : forall fuel ops, forallb op_okb ops = true -> is_some (wmon_run (trace (steps fuel init ops))) = true.
Proof. exact wmon_accepts_l. Qed.
Print Assumptions wait_monitor_accepts.

(* the clause the check judges the implementation with (cmt: answered before the loop has waited twice) is implied by the clause
   the model satisfies (cmon: answered before the next wait or dispatch) *)
Theorem closed_clause_text_level : forall tr, is_some (cmon_run tr) = true -> is_some (cmt_run tr) = true.
Proof. exact cmon_implies_cmt. Qed.
Print Assumptions closed_clause_text_level.

Theorem closed_clause_text_level_accepted : forall fuel ops, is_some (cmt_run (trace (steps fuel init ops))) = true.
Proof. exact cmt_accepts_l. Qed.
Print Assumptions closed_clause_text_level_accepted.

(* a listener, establisher or client stays in the poll set: the model unregisters a socket (epoll_ctl DEL) only as part of its removal
   (next event: removed), of its connect dispatch (next event: the SO_ERROR query), of its closing after a failed send of the loop (next
   event: its onClosed), or after the application gave it up inside its announcement (deferred / declined) - kmon of ServerLoopSpecMore *)
Theorem socket_stays_registered : forall fuel ops, is_some (kmon_run (trace (steps fuel init ops))) = true.
Proof. exact kmon_accepts_l. Qed.
Print Assumptions socket_stays_registered.

(* the six monitors the check applies to the implementation's own log (tmon rmon cmt imon wmon kmon) accept the model's log *)
Theorem model_log_accepted_text_level : forall fuel ops, forallb op_okb ops = true -> accepts_text (trace (steps fuel init ops)) = true.
Proof. exact model_accepted_text. Qed.
Print Assumptions model_log_accepted_text_level.

(* ---------- non-vacuity: a concrete history whose log contains every kind of event the theorems speak about ---------- *)
Definition nb (i o r h e : bool) := mkNb i o r h e.
Definition demo : list op :=
  [ OAct (ATimer 1 5); OAct (ATimer 2 5); OAct (ATimer 3 5); OAct (APair 1); OAct (APair 2); OAct (AListen 0); OAct (AConnect 0);
    OOn (mkSe (Tm 1) SAct 0 false [ARmTimer 2; AWrite 1 5; AWrite 2 4]); OSendq [SSent 2; SWould; SErr];
    OOn (mkSe (Cl 1) (SCb KRead) 0 false [ARead 1]); ORecvq [REof];
    OOn (mkSe (Cl 1) (SCb KClosed) 0 false [ARmClient 1]);
    OOn (mkSe (Cl 2) (SCb KClosed) 0 false [ARmClient 2]);
    OOn (mkSe (Li 0) (SIn KAccepted) 5 true [AInterrupt]);
    OOn (mkSe (Li 0) (SIn KAccepted) 7 true [ARead 7; ARmClient 7; AWrite 7 1]);
    OOn (mkSe (Es 0) (SIn KConnected) 6 false [ARmEstab 0]);
    ORun [ mkEp 5 [];
           mkEp 0 [(Cl 2, nb false true false false false); (Cl 1, nb true true false false false);
                   (Li 0, nb true false false false false); (Es 0, nb false true false false false)];
           mkEp 0 [(Cl 1, nb true false false false false); (Li 0, nb true false false false false)]; mkEp 1 [] ];
    OAct AInterrupt; ORun [mkEp 7 []] ].
Definition demo_log := trace (steps 200 init demo).
Definition has (p : ev -> bool) := existsb p demo_log.

Example demo_not_stuck : stuck (steps 200 init demo) = false. Proof. vm_compute. reflexivity. Qed.
Example demo_accepted : accepts demo_log = true. Proof. vm_compute. reflexivity. Qed.
Example demo_has_activations : length (filter (fun x => match x with EvAct _ _ _ => true | _ => false end) demo_log) = 2%nat.
Proof. vm_compute. reflexivity. Qed.
Example demo_has_timer_removal : has (fun x => gone (Tm 2) x) = true. Proof. vm_compute. reflexivity. Qed.
Example demo_has_deferred_removal : has (fun x => gone (Cl 7) x) = true /\ has (fun x => match x with EvIntroRet 7 true => true | _ => false end) = true.
Proof. vm_compute. auto. Qed.
Example demo_has_waits_with_live_timers :
  has (fun x => match x with EvWait t => t <? 300000 | _ => false end) = true.
Proof. vm_compute. reflexivity. Qed.
Example demo_has_onWrite : has (fun x => match x with EvCb (Cl _) KWrite _ => true | _ => false end) = true.
Proof. vm_compute. reflexivity. Qed.
Example demo_pooled_clients : length (clients (steps 200 init demo)) = 1%nat.
Proof. vm_compute. reflexivity. Qed.
Example demo_buffer_pruned_by_dispatch :
  let s := fst (epoll_wait 0 [mkEp 0 [(Cl 1, nb true false false false false); (Cl 2, nb true false false false false); (Cl 3, nb true false false false false)]]
                  (steps 10 init [OAct (APair 1); OAct (APair 2); OAct (APair 3); OOn (mkSe (Cl 1) (SCb KRead) 0 false [ARmClient 2])])) in
  skeys s = [Cl 1; Cl 2; Cl 3] /\ skeys (dispatch (Cl 1) fl_R (set_selected (tl (selected s)) s)) = [Cl 3].
Proof. vm_compute. auto. Qed.
Example demo_has_client_removal : has (fun x => gone (Cl 1) x) = true /\ has (fun x => gone (Cl 6) x) = true /\ has (fun x => gone (Es 0) x) = true.
Proof. vm_compute. auto. Qed.
Example demo_has_dispatches :
  has (fun x => match needs_reg x with Some (Cl _, _) => true | _ => false end) = true /\
  has (fun x => match needs_reg x with Some (Li _, _) => true | _ => false end) = true /\
  has (fun x => match x with EvSoErr _ _ => true | _ => false end) = true /\
  has (fun x => match x with EvSend _ _ _ true => true | _ => false end) = true.
Proof. vm_compute. auto. Qed.
Example demo_has_failed_io : has (fails 1) = true /\ has (settles 1) = true /\ has ccheck = true.
Proof. vm_compute. auto. Qed.
Example demo_has_failed_loop_send : has (fun x => match x with EvSend 2 _ r true => failed_io r | _ => false end) = true.
Proof. vm_compute. reflexivity. Qed.
Example demo_has_returns : length (filter (fun x => match x with EvRunRet => true | _ => false end) demo_log) = 2%nat /\
  has (fun x => match x with EvInterrupt _ => true | _ => false end) = true /\
  has (fun x => match x with EvWait _ => true | _ => false end) = true.
Proof. vm_compute. auto. Qed.
Example demo_buffer_nonempty_midway :
  selected (fst (epoll_wait 0 [mkEp 0 [(Cl 1, nb true false false false false); (Cl 2, nb true false false false false)]]
                  (steps 10 init [OAct (APair 1); OAct (APair 2)]))) =
  [(Cl 1, mkFl true false false false); (Cl 2, mkFl true false false false)].
Proof. vm_compute. reflexivity. Qed.

(* ---------- round 4, non-vacuity ---------- *)
(* the fuel of the example runs is a named constant: tactics normalise fixpoints applied to a literal successor *)
Definition ex_fuel : nat := 10.
(* timer phase: timer 1 (interval 2) is 5 activations behind at now = 10, timer 2 (interval 3) is 3 behind, the default entry 1:
   tlag = 9, fuel 10 suffices and fuel 9 does not (the bound of timer_phase_terminates is attained); afterwards nothing is due *)
Definition lag_ops := [OAct (ATimer 1 2); OAct (ATimer 2 3); OAct (AAdv 10)].
Definition lag_s := steps 5 init lag_ops.
Example ex_timer_phase_premises : (envb lag_s, clk lag_s, tlag 10 lag_s, stuck lag_s) = (true, 10, 9%nat, false).
Proof. vm_compute. reflexivity. Qed.
Example ex_timer_phase_bound_tight :
  (stuck (timer_phase 10 10 lag_s), stuck (timer_phase 9 10 lag_s), queue (timer_phase 10 10 lag_s)) =
  (false, true, [(12, Some 2); (12, Some 1); (300010, None)]).
Proof. vm_compute. reflexivity. Qed.
Example ex_timer_phase_terminates : stuck (timer_phase 10 10 lag_s) = stuck lag_s /\ tlag 10 (timer_phase 10 10 lag_s) = 0%nat.
Proof.
  apply timer_phase_terminates; [apply structural_invariant_reachable | vm_compute; reflexivity | vm_compute; discriminate | vm_compute; apply le_n].
Qed.
(* the onActivated callback of timer 2 creates a timer, removes timer 1 and lets time pass: the measure only goes down *)
Definition lag_ops2 := [OAct (ATimer 1 2); OAct (ATimer 2 3); OOn (mkSe (Tm 2) SAct 0 false [ATimer 3 1; ARmTimer 1; AAdv 4]); OAct (AAdv 10)].
Example ex_timer_phase_with_callbacks :
  let s := steps 5 init lag_ops2 in
  (envb s, tlag 10 s, stuck (timer_phase 10 10 s), queue (timer_phase 10 10 s)) = (true, 9%nat, false, [(11, Some 3); (12, Some 2); (300010, None)]).
Proof. vm_compute. reflexivity. Qed.

(* closing phase: client 1 is in the closing set; its onClosed reads from client 2 (fails: client 2 joins the set) and from client 1
   again (fails: client 1 joins again); cmeas = 1 + 2 = 3: fuel 4 suffices and fuel 3 does not *)
Definition cl_ops := [OAct (APair 1); OAct (APair 2); ORecvq [REof; RErr; REof]; OAct (ARead 1);
   OOn (mkSe (Cl 1) (SCb KClosed) 0 false [ARead 2; ARead 1]); OOn (mkSe (Cl 2) (SCb KClosed) 0 false [ARmClient 2])].
Definition cl_s := steps 5 init cl_ops.
Example ex_closing_phase_bound_tight :
  (cmeas cl_s, closing cl_s, stuck (closing_phase 4 cl_s), stuck (closing_phase 3 cl_s), closing (closing_phase 4 cl_s)) = (3%nat, [1], false, true, []).
Proof. vm_compute. reflexivity. Qed.

(* eventual dispatch: three clients are reported readable in one epoll_wait; the onRead of client 1 writes to client 3 (backlog: its
   interest is widened to read+write while its event is buffered) and removes client 2 (whose buffered event is pruned); client 3 is
   served in the second iteration; the theorem's bound is 0 + 1 + 3 *)
Definition rd := nb true false false false false.
Definition ed_ops := [OAct (ATimer 1 5); OAct (APair 1); OAct (APair 2); OAct (APair 3);
   OOn (mkSe (Cl 1) (SCb KRead) 0 false [ARead 1; AWrite 3 5; ARmClient 2]); OSendq [SSent 2];
   OOn (mkSe (Cl 3) (SCb KRead) 0 false [ARead 3])].
Definition ed_s := log EvRunEnter (steps 5 init ed_ops).
Definition ed_it := mkEp 5 [(Cl 1, rd); (Cl 2, rd); (Cl 3, rd)].
Example ed_KS : KS (Cl 3) fl_R None ed_s.
Proof.
  split; [split; [split|exact I]|vm_compute; reflexivity].
  - exists fl_R. split; vm_compute; reflexivity.
  - exists (mkCl true 0 false false). split; vm_compute; reflexivity.
Qed.
Example ed_reports : reports ed_it (Cl 3) fl_R.
Proof.
  split; [vm_compute; tauto|]. intros n [H|[H|[H|[]]]]; inversion H; subst; vm_compute; reflexivity.
Qed.
Example ex_eventual_dispatch : Reach (Cl 3) 4 (run_loop ex_fuel [ed_it; mkEp 0 []] ed_s) ed_s.
Proof.
  eapply Reach_mono;
    [apply (eventual_dispatch (Cl 3) fl_R ed_it [mkEp 0 []] ex_fuel ed_s);
      [apply SInv_log; apply structural_invariant_reachable
      | apply CbEx_log; apply (CbEx_reachable 5 ed_ops)
      | exact ed_KS | exact ed_reports | vm_compute; reflexivity]
    | vm_compute; apply le_n].
Qed.
Example ex_eventual_dispatch_log :
  firstn 17 (skipn 8 (rev (trace (run_loop ex_fuel [ed_it; mkEp 0 []] ed_s)))) =
  [EvNow 0; EvSel []; EvWait 5; EvItem false; EvCb (Cl 1) KRead 5; EvRecv 1 (-1); EvRead 1 false; EvSend 3 5 2 false;
   EvCtl CMod (Cl 3) 8213; EvWrote 3 true 3; EvCtl CDel (Cl 2) 0; EvRemoved (Cl 2);
   EvNow 5; EvSel [(Cl 3, 1)]; EvAct 1 5 5; EvCb (Cl 3) KRead 5; EvRecv 3 (-1)].
Proof. vm_compute. reflexivity. Qed.
Example ex_eventual_dispatch_total :
  exists F, forall fuel, (F <= fuel)%nat ->
    stuck (run_loop fuel [ed_it; mkEp 0 []] ed_s) = false /\
    Reach (Cl 3) (length (selected ed_s) + S (length (ep_ready ed_it))) (run_loop fuel [ed_it; mkEp 0 []] ed_s) ed_s.
Proof.
  apply (eventual_dispatch_total (Cl 3) fl_R ed_it [mkEp 0 []] ed_s);
    [apply SInv_log; apply structural_invariant_reachable
    | apply CbEx_log; apply (CbEx_reachable 5 ed_ops)
    | vm_compute; reflexivity | vm_compute; reflexivity | exact ed_KS | exact ed_reports].
Qed.

(* interrupt: a first run() is interrupted while client 1's event is absorbed (it stays buffered), interrupt() is called again: the
   second run() serves the buffered event, reaches its wait in the next iteration and returns - 2 iterations = |buffer| + 1 *)
Definition in_ops := [OAct (APair 1); OAct AInterrupt; ORun [mkEp 0 [(Cl 1, rd)]]; OAct AInterrupt].
Definition in_s := log EvRunEnter (steps 5 init in_ops).
Example ex_interrupt_premises : (intr in_s, evcount in_s, sel_view (selected in_s), stuck (run_loop ex_fuel [mkEp 7 []] in_s)) = (true, 1, [(Cl 1, 1)], false).
Proof. vm_compute. reflexivity. Qed.
Example ex_interrupt_makes_run_return :
  exists mid, trace (run_loop ex_fuel [mkEp 7 []] in_s) = EvRunRet :: mid ++ trace in_s /\ (count_now mid <= S (length (selected in_s)))%nat.
Proof.
  apply (interrupt_makes_run_return ex_fuel [mkEp 7 []] in_s);
    [apply SInv_log; apply structural_invariant_reachable | split; vm_compute; reflexivity | vm_compute; reflexivity].
Qed.
Example ex_interrupt_log :
  firstn 9 (trace (run_loop ex_fuel [mkEp 7 []] in_s)) =
  [EvRunRet; EvItem false; EvWait 300000; EvSel []; EvNow 0; EvCb (Cl 1) KRead 0; EvSel [(Cl 1, 1)]; EvNow 0; EvRunEnter].
Proof. vm_compute. reflexivity. Qed.
(* interrupt() before run() with nothing buffered: the loop reaches its wait in the first iteration and returns *)
Example ex_interrupt_reaches_wait :
  let s := log EvRunEnter (steps 5 init [OAct (ATimer 1 5); OAct AInterrupt]) in
  exists t q l0, trace (run_loop ex_fuel [mkEp 7 []] s) = EvRunRet :: q ++ EvWait t :: l0 ++ trace s /\ forallb quiet q = true /\ count_now l0 = 1%nat.
Proof.
  cbn zeta. apply interrupt_reaches_wait;
    [apply SInv_log; apply structural_invariant_reachable | split; vm_compute; reflexivity | vm_compute; reflexivity | vm_compute; reflexivity].
Qed.
Example ex_environment_reachable : Env (steps 7 init (ed_ops ++ [ORun [ed_it]])).
Proof. apply environment_hypothesis_reachable. vm_compute. reflexivity. Qed.
Example ex_run_always_returns :
  exists F, forall fuel, (F <= fuel)%nat -> exists tr', trace (run_loop fuel [ed_it; mkEp 0 []] ed_s) = EvRunRet :: tr'.
Proof.
  apply run_always_returns; [apply SInv_log; apply structural_invariant_reachable | vm_compute; reflexivity | vm_compute; reflexivity].
Qed.

(* ---------- round 5, non-vacuity ---------- *)
(* a timer created in onClosed (closing pass, after the time-out was first computed): the wait of that iteration ends when it is due *)
Definition w_ops := [OAct (APair 1); OOn (mkSe (Cl 1) (SCb KRead) 0 false [ARead 1]); ORecvq [REof];
   OOn (mkSe (Cl 1) (SCb KClosed) 0 false [ATimer 0 1; AAdv 1; ARmClient 1]); ORun [mkEp 0 [(Cl 1, rd)]; mkEp 7 []]].
Example ex_wait_premise : forallb op_okb w_ops = true. Proof. vm_compute. reflexivity. Qed.
Example ex_wait_timeouts :
  map (fun x => match x with EvWait t => t | _ => 0 end) (filter (fun x => match x with EvWait _ => true | _ => false end) (rev (trace (steps 50 init w_ops))))
  = [300000; 1; 1].
Proof. vm_compute. reflexivity. Qed.
(* wmon rejects a wait without limit while a timer is live, cmt a failure that is not answered by the second wait, and accepts one
   that is answered after the first (where cmon rejects) *)
Example ex_wmon_rejects : wmon_run [EvWait (-5); EvCreated (Tm 1) 0 5] = None /\ is_some (wmon_run [EvWait (-1)]) = true.
Proof. vm_compute. auto. Qed.
Example ex_cmt_vs_cmon :
  let late := [EvCb (Cl 1) KClosed 0; EvItem false; EvWait 5; EvRecv 1 0] in
  is_some (cmt_run late) = true /\ cmon_run late = None /\ cmt_run (EvWait 5 :: EvItem false :: EvWait 5 :: [EvRecv 1 0]) = None.
Proof. vm_compute. auto. Qed.
(* kmon: unregistering a live listener without removing it is rejected at the next event; the three legitimate shapes are accepted *)
Example ex_kmon :
  kmon_run [EvNow 0; EvCtl CDel (Li 1) 0; EvAccept 1 false] = None /\
  is_some (kmon_run [EvNow 0; EvRemoved (Li 1); EvCtl CDel (Li 1) 0]) = true /\
  is_some (kmon_run [EvNow 0; EvSoErr 2 0; EvCtl CDel (Es 2) 0]) = true /\
  is_some (kmon_run [EvNow 0; EvCb (Cl 3) KClosed 0; EvCtl CDel (Cl 3) 0; EvSend 3 5 (-2) true]) = true /\
  is_some (kmon_run [EvNow 0; EvCtl CDel (Cl 4) 0; EvIntroRet 4 true; EvDeferred (Cl 4)]) = true.
Proof. vm_compute. auto. Qed.
Example ex_demo_accepted_text : accepts_text demo_log = true. Proof. vm_compute. reflexivity. Qed.

(* ---------- round 6, non-vacuity: MANY clients in the closing set in one round ---------- *)
(* The closing set of the model is a list without a bound (ServerLoopModel.closing), so every theorem above already speaks about any
   number of clients whose read/write failed in the same round.  Twelve clients (more than the 8 buckets of Server's set) fail their
   read one after the other; the closing set holds all twelve, oldest first; the onClosed of the oldest removes clients 1..9 (oldest
   first) while they wait in the set; onClosed is delivered to 0, 10 and 11 only, nothing is left in the set, the log is accepted. *)
Definition mc_ids : list Z := [0; 1; 2; 3; 4; 5; 6; 7; 8; 9; 10; 11].
Definition mc_ops1 := map (fun i => OAct (APair i)) mc_ids ++ [ORecvq (map (fun _ => REof) mc_ids)] ++ map (fun i => OAct (ARead i)) mc_ids.
Definition mc_ops := mc_ops1 ++
  [OOn (mkSe (Cl 0) (SCb KClosed) 0 false (map ARmClient [1; 2; 3; 4; 5; 6; 7; 8; 9]));
   OOn (mkSe (Cl 11) (SCb KClosed) 0 false [ARmClient 11]); ORun [mkEp 0 []]].
Example ex_many_closing_clients_in_one_round :
  closing (steps 50 init mc_ops1) = mc_ids /\
  (let s := steps 50 init mc_ops in
   (stuck s, closing s, map fst (clients s),
    flat_map (fun x => match x with EvCb (Cl i) KClosed _ => [i] | _ => [] end) (rev (trace s)),
    length (filter (fun x => match x with EvRemoved (Cl _) => true | _ => false end) (trace s)),
    accepts_text (trace s)) = (false, [], [0; 10], [0; 10; 11], 10%nat, true)).
Proof. split; vm_compute; reflexivity. Qed.
