(* placeholder while the proofs are being written *)
From Coq Require Import ZArith List.
From ServerLoop Require Import ServerLoopSpec ServerLoopModel.
Import ListNotations.
Example init_trace_accepted : accepts (trace init) = true.
Proof. reflexivity. Qed.
