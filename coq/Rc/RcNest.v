(* Handles stored INSIDE payloads: RefCount::Ptr handles to a pointee type that has a Ptr member
   (`struct Node : RefCount::Object { Ptr<Node> next; }`), so that objects form chains and the
   release of the last outer handle cascades (include/nstd/RefCount.hpp).  NO proofs here.

   A handle location (an lvalue of type Ptr) is a variable, or the `next` member of the object
   reached from a variable through k-1 `->next` steps: (v, 0) = v, (v, 1) = v->next,
   (v, 2) = v->next->next ...  Copy construction, assignment (same-type operator=, converting
   operator=, operator=(C* ) from `src.operator->()`), reset (`= (T* )0`) and destruction take such
   locations, so the source of an assignment may be a handle stored inside the very object the
   target is the last handle of (`cur = cur->next`), and the target may be a member handle
   (`a->next = a->next->next`).

   [nstep] mirrors the code after repair fixes/C09/02 (operator= copies other.refObj / other.obj
   into locals before it releases the old object); [nstep_as_written] is the code before it, which
   reads `other` again after the release.

   The second half of the file is the reference object (no counters): a pointer graph in which an
   object is destroyed when no handle - in a live variable or inside a live object - refers to it. *)
From Coq Require Import ZArith List Bool Arith.
From Common Require Import ListAux.
From Rc Require Import RcModel.
Import ListNotations.
Local Open Scope Z_scope.

Record nblock := { nrc : Z; nfreed : bool; nval : Z; nnext : handle; ndtors : nat }.
Inductive nvar := NDead | NLive (h : handle).
Inductive nfault := NUaf (b : nat) | NDouble (b : nat) | NUnderflow (b : nat) | NFuel.
Record nstate := { nheap : list nblock; nvars : list nvar; nflt : option nfault }.

Definition nnv : nat := 4.
Definition ninit : nstate := {| nheap := []; nvars := repeat NDead nnv; nflt := None |}.

Definition ndead_block : nblock := {| nrc := 0; nfreed := true; nval := 0; nnext := HNone; ndtors := 0 |}.
Definition ngetb (s : nstate) (b : nat) : nblock := nth b (nheap s) ndead_block.
Definition nsetb (s : nstate) (b : nat) (k : nblock) : nstate :=
  {| nheap := upd b k (nheap s); nvars := nvars s; nflt := nflt s |}.
Definition nraise (s : nstate) (f : nfault) : nstate :=
  match nflt s with
  | None => {| nheap := nheap s; nvars := nvars s; nflt := Some f |}
  | Some _ => s
  end.
Definition ngetv (s : nstate) (v : nat) : nvar := nth v (nvars s) NDead.
Definition nsetv (s : nstate) (v : nat) (x : nvar) : nstate :=
  {| nheap := nheap s; nvars := upd v x (nvars s); nflt := nflt s |}.

(* any read or write of the memory of an object *)
Definition ntouch (s : nstate) (b : nat) : nstate :=
  if nfreed (ngetb s b) then nraise s (NUaf b) else s.

Definition with_nrc (k : nblock) (r : Z) : nblock :=
  {| nrc := r; nfreed := nfreed k; nval := nval k; nnext := nnext k; ndtors := ndtors k |}.
Definition with_nnext (k : nblock) (h : handle) : nblock :=
  {| nrc := nrc k; nfreed := nfreed k; nval := nval k; nnext := h; ndtors := ndtors k |}.

(* Atomic::increment(refObj->ref) *)
Definition ninc (s : nstate) (b : nat) : nstate :=
  let s := ntouch s b in nsetb s b (with_nrc (ngetb s b) (nrc (ngetb s b) + 1)).
(* Atomic::decrement(refObj->ref); the value it returns is the counter afterwards *)
Definition ndec (s : nstate) (b : nat) : nstate :=
  let s := ntouch s b in
  let r := nrc (ngetb s b) - 1 in
  let s := if r <? 0 then nraise s (NUnderflow b) else s in
  nsetb s b (with_nrc (ngetb s b) r).
(* operator delete *)
Definition nfree (s : nstate) (b : nat) : nstate :=
  let k := ngetb s b in
  if nfreed k then nraise s (NDouble b)
  else nsetb s b {| nrc := nrc k; nfreed := true; nval := nval k; nnext := nnext k; ndtors := S (ndtors k) |}.
Definition nalloc (s : nstate) (n : Z) : nstate :=        (* new Node(n): Object() : ref(0), next() *)
  {| nheap := nheap s ++ [{| nrc := 0; nfreed := false; nval := n; nnext := HNone; ndtors := 0 |}];
     nvars := nvars s; nflt := nflt s |}.

(* `if(refObj && Atomic::decrement(refObj->ref) == 0) delete refObj;`
   delete runs ~Node: the member `next` is destroyed (its own release, recursively), then the memory
   is returned.  The recursion ends because every level takes one more counter to 0; the fuel given
   by the callers (number of blocks + 1) is never used up (RcNestProofs.nrelease_ok). *)
Fixpoint nrelease (fuel : nat) (s : nstate) (h : handle) : nstate :=
  match h with
  | HNone => s
  | HBlock b =>
      match fuel with
      | O => nraise s NFuel
      | S fuel' =>
          let s1 := ndec s b in
          if nrc (ngetb s1 b) =? 0 then
            let s2 := ntouch s1 b in                               (* ~Node reads its member *)
            let s3 := nrelease fuel' s2 (nnext (ngetb s2 b)) in    (* next.~Ptr() *)
            nfree s3 b
          else s1
      end
  end.
Definition nfuel (s : nstate) : nat := S (length (nheap s)).

(* ---- handle locations ------------------------------------------------------------------------ *)
Inductive slot := SNo | SVar (v : nat) | SNext (k : nat).

(* follow k `->next` steps from object b: every object on the way is read *)
Fixpoint walk_touch (s : nstate) (b : nat) (k : nat) : nstate :=
  match k with
  | O => s
  | S k' => let s := ntouch s b in
            match nnext (ngetb s b) with
            | HNone => s
            | HBlock c => walk_touch s c k'
            end
  end.
Fixpoint walk_to (s : nstate) (b : nat) (k : nat) : option nat :=
  match k with
  | O => Some b
  | S k' => match nnext (ngetb s b) with
            | HNone => None
            | HBlock c => walk_to s c k'
            end
  end.
(* the location (v, k); None: v is not constructed or a null handle would be dereferenced *)
Definition resolve_touch (s : nstate) (v k : nat) : nstate :=
  match k, ngetv s v with
  | S k', NLive (HBlock b) => walk_touch s b k'
  | _, _ => s
  end.
Definition resolve (s : nstate) (v k : nat) : option slot :=
  match k, ngetv s v with
  | O, NLive _ => Some (SVar v)
  | S k', NLive (HBlock b) => match walk_to s b k' with Some c => Some (SNext c) | None => None end
  | _, _ => None
  end.

Definition slot_touch (s : nstate) (x : slot) : nstate :=
  match x with SNext c => ntouch s c | _ => s end.
Definition slot_get (s : nstate) (x : slot) : handle :=
  match x with
  | SVar v => match ngetv s v with NLive h => h | NDead => HNone end
  | SNext c => nnext (ngetb s c)
  | SNo => HNone
  end.
Definition slot_set (s : nstate) (x : slot) (h : handle) : nstate :=
  match x with
  | SVar v => nsetv s v (NLive h)
  | SNext c => let s := ntouch s c in nsetb s c (with_nnext (ngetb s c) h)
  | SNo => s
  end.

Inductive akind := ASame | AConv | ARaw.
Inductive nop :=
| NCreate (v : nat) (n : Z)                 (* new (&v) Ptr<Node>(new Node(n)) *)
| NNull (v : nat)                           (* new (&v) Ptr<Node>() *)
| NCopy (d sv sk : nat)                     (* new (&d) Ptr<Node>(<sv,sk>)     copy / converting constructor *)
| NAssign (how : akind) (dv dk sv sk : nat) (* <dv,dk> = <sv,sk>   operator=(const Ptr&) | operator=(const Ptr<D>&) |
                                               <dv,dk> = <sv,sk>.operator->()   operator=(C* ) *)
| NReset (dv dk : nat)                      (* <dv,dk> = (Node* )0 *)
| NDestroy (v : nat).                       (* v.~Ptr() *)

Definition nop_vars (o : nop) : list nat :=
  match o with
  | NCreate v _ | NNull v | NDestroy v => [v]
  | NCopy d sv _ => [d; sv]
  | NAssign _ dv _ sv _ => [dv; sv]
  | NReset dv _ => [dv]
  end.

(* operator= : [reread] = the code as written before fixes/C09/02: `refObj = other.refObj; obj = other.obj;`
   read the source handle again after the old object has been released *)
Definition nassign (reread : bool) (s : nstate) (Dst Src : slot) : nstate :=
  let s := slot_touch s Src in
  let h := slot_get s Src in                                   (* otherRefObj = other.refObj *)
  let s := match h with HBlock b => ninc s b | HNone => s end in
  let s := slot_touch s Dst in
  let s := nrelease (nfuel s) s (slot_get s Dst) in            (* if(refObj && decrement == 0) delete refObj *)
  let s := if reread then slot_touch s Src else s in
  let h' := if reread then slot_get s Src else h in
  slot_set s Dst h'.

Definition nstep_gen (as_written : bool) (s : nstate) (o : nop) : nstate :=
  match nflt s with Some _ => s | None =>
  if negb (forallb (fun v => Nat.ltb v (length (nvars s))) (nop_vars o)) then s else
  match o with
  | NCreate v n =>
      match ngetv s v with
      | NDead => let b := length (nheap s) in ninc (nsetv (nalloc s n) v (NLive (HBlock b))) b
      | _ => s
      end
  | NNull v => match ngetv s v with NDead => nsetv s v (NLive HNone) | _ => s end
  | NCopy d sv sk =>
      match ngetv s d, resolve s sv sk with
      | NDead, Some Src =>
          let s := slot_touch (resolve_touch s sv sk) Src in
          let h := slot_get s Src in
          let s := nsetv s d (NLive h) in                    (* refObj(other.refObj), obj(other.obj) *)
          match h with HBlock b => ninc s b | HNone => s end
      | _, _ => s
      end
  | NAssign how dv dk sv sk =>
      match resolve s dv dk, resolve s sv sk with
      | Some Dst, Some Src =>
          let s := resolve_touch (resolve_touch s dv dk) sv sk in
          nassign (as_written && match how with ARaw => false | _ => true end) s Dst Src
      | _, _ => s
      end
  | NReset dv dk =>
      match resolve s dv dk with
      | Some Dst =>
          let s := slot_touch (resolve_touch s dv dk) Dst in
          let s := nrelease (nfuel s) s (slot_get s Dst) in
          slot_set s Dst HNone
      | None => s
      end
  | NDestroy v =>
      match ngetv s v with
      | NLive h => nsetv (nrelease (nfuel s) s h) v NDead
      | NDead => s
      end
  end end.

Definition nstep : nstate -> nop -> nstate := nstep_gen false.
Definition nstep_as_written : nstate -> nop -> nstate := nstep_gen true.
Definition nrun (ops : list nop) : nstate := fold_left nstep ops ninit.
Definition nrun_as_written (ops : list nop) : nstate := fold_left nstep_as_written ops ninit.

(* ---- observations: the harness follows every variable's chain (at most 4 objects) ------------------- *)
Fixpoint chain_touch (s : nstate) (fuel : nat) (h : handle) : nstate :=
  match fuel, h with
  | S f, HBlock b => let s := ntouch s b in chain_touch s f (nnext (ngetb s b))
  | _, _ => s
  end.
Fixpoint chain_of (s : nstate) (fuel : nat) (h : handle) : list (nat * Z * Z) :=
  match fuel, h with
  | S f, HBlock b => (b, nval (ngetb s b), nrc (ngetb s b)) :: chain_of s f (nnext (ngetb s b))
  | _, _ => []
  end.
Definition chain_depth : nat := 4.
Definition nobs_touch (s : nstate) : nstate :=
  fold_left (fun s x => match x with NLive h => chain_touch s chain_depth h | NDead => s end) (nvars s) s.
Inductive ncobs := NODead | NOChain (c : list (nat * Z * Z)).
Definition nobs (s : nstate) : list ncobs :=
  map (fun x => match x with NLive h => NOChain (chain_of s chain_depth h) | NDead => NODead end) (nvars s).
Definition nlive_blocks (s : nstate) : nat := length (filter (fun k => negb (nfreed k)) (nheap s)).
Definition ntotal_dtors (s : nstate) : nat := fold_right (fun k a => (ndtors k + a)%nat) 0%nat (nheap s).
Definition ndestroy_all (s : nstate) : nstate := fold_left (fun s v => nstep s (NDestroy v)) (seq 0 nnv) s.

(* ================================ reference object ================================================= *)
(* No counters.  Variables and `next` members hold object identities; after every operation an object
   that no handle refers to - no live variable and no `next` member of an object that still exists -
   is destroyed, and its own handle disappears with it (which may leave further objects without a
   handle). *)
Inductive pval := PDead | PNull | PObj (i : nat).
Record pobj := { palive : bool; pn : Z; pnext : option nat }.
Record pstate := { pvars : list pval; pobjs : list pobj }.

Definition pinit : pstate := {| pvars := repeat PDead nnv; pobjs := [] |}.
Definition pdead_obj : pobj := {| palive := false; pn := 0; pnext := None |}.
Definition pgeto (st : pstate) (i : nat) : pobj := nth i (pobjs st) pdead_obj.
Definition pgetv (st : pstate) (v : nat) : pval := nth v (pvars st) PDead.

Fixpoint pwalk (st : pstate) (i : nat) (k : nat) : option nat :=
  match k with
  | O => Some i
  | S k' => match pnext (pgeto st i) with None => None | Some j => pwalk st j k' end
  end.
Definition presolve (st : pstate) (v k : nat) : option slot :=
  match k, pgetv st v with
  | O, (PNull | PObj _) => Some (SVar v)
  | S k', PObj i => match pwalk st i k' with Some c => Some (SNext c) | None => None end
  | _, _ => None
  end.
Definition pget (st : pstate) (x : slot) : option nat :=
  match x with
  | SVar v => match pgetv st v with PObj i => Some i | _ => None end
  | SNext c => pnext (pgeto st c)
  | SNo => None
  end.
Definition pval_of (h : option nat) : pval := match h with Some i => PObj i | None => PNull end.
Definition pset (st : pstate) (x : slot) (h : option nat) : pstate :=
  match x with
  | SVar v => {| pvars := upd v (pval_of h) (pvars st); pobjs := pobjs st |}
  | SNext c => {| pvars := pvars st;
                  pobjs := upd c {| palive := palive (pgeto st c); pn := pn (pgeto st c); pnext := h |} (pobjs st) |}
  | SNo => st
  end.

Definition opt_is (h : option nat) (i : nat) : bool := match h with Some j => Nat.eqb j i | None => false end.
Definition referenced (st : pstate) (i : nat) : bool :=
  existsb (fun x => match x with PObj j => Nat.eqb j i | _ => false end) (pvars st) ||
  existsb (fun o => palive o && opt_is (pnext o) i) (pobjs st).
Definition unreferenced_alive (st : pstate) : option nat :=
  find (fun i => palive (pgeto st i) && negb (referenced st i)) (seq 0 (length (pobjs st))).
Definition pkill (st : pstate) (i : nat) : pstate :=
  {| pvars := pvars st;
     pobjs := upd i {| palive := false; pn := pn (pgeto st i); pnext := pnext (pgeto st i) |} (pobjs st) |}.
Fixpoint psweep (fuel : nat) (st : pstate) : pstate :=
  match fuel with
  | O => st
  | S f => match unreferenced_alive st with Some i => psweep f (pkill st i) | None => st end
  end.
Definition sweep (st : pstate) : pstate := psweep (length (pobjs st)) st.

Definition pstep (st : pstate) (o : nop) : pstate :=
  if negb (forallb (fun v => Nat.ltb v (length (pvars st))) (nop_vars o)) then st else
  match o with
  | NCreate v n =>
      match pgetv st v with
      | PDead => {| pvars := upd v (PObj (length (pobjs st))) (pvars st);
                    pobjs := pobjs st ++ [{| palive := true; pn := n; pnext := None |}] |}
      | _ => st
      end
  | NNull v => match pgetv st v with PDead => {| pvars := upd v PNull (pvars st); pobjs := pobjs st |} | _ => st end
  | NCopy d sv sk =>
      match pgetv st d, presolve st sv sk with
      | PDead, Some Src => {| pvars := upd d (pval_of (pget st Src)) (pvars st); pobjs := pobjs st |}
      | _, _ => st
      end
  | NAssign _ dv dk sv sk =>
      match presolve st dv dk, presolve st sv sk with
      | Some Dst, Some Src => sweep (pset st Dst (pget st Src))
      | _, _ => st
      end
  | NReset dv dk =>
      match presolve st dv dk with Some Dst => sweep (pset st Dst None) | None => st end
  | NDestroy v =>
      match pgetv st v with
      | PDead => st
      | _ => sweep {| pvars := upd v PDead (pvars st); pobjs := pobjs st |}
      end
  end.
Definition prun (ops : list nop) : pstate := fold_left pstep ops pinit.

Fixpoint pchain_of (st : pstate) (fuel : nat) (h : option nat) : list (nat * Z) :=
  match fuel, h with
  | S f, Some i => (i, pn (pgeto st i)) :: pchain_of st f (pnext (pgeto st i))
  | _, _ => []
  end.
Inductive pcobs := PODead | POChain (c : list (nat * Z)).
Definition pobs (st : pstate) : list pcobs :=
  map (fun x => match x with PDead => PODead | PNull => POChain [] | PObj i => POChain (pchain_of st chain_depth (Some i)) end) (pvars st).
Definition palive_count (st : pstate) : nat := length (filter palive (pobjs st)).
Definition pdead_count (st : pstate) : nat := length (filter (fun o => negb (palive o)) (pobjs st)).
Definition pdestroy_all (st : pstate) : pstate := fold_left (fun st v => pstep st (NDestroy v)) (seq 0 nnv) st.
