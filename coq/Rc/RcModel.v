(* Sequential handle/block machine mirroring the release paths of String, Variant,
   RefCount::Ptr and Xml::Variant (include/nstd/String.hpp, Variant.hpp, RefCount.hpp,
   Document/Xml.hpp).  NO proofs here.

   A block is a heap payload with its reference counter (String::Data::ref, Variant::Data::ref,
   RefCount::Object::ref).  A variable is a C++ object of the handle type: dead storage, or a
   live handle with the two pointer fields RefCount::Ptr has (refObj / obj); String and Variant
   have one field (`data`) and keep both equal.  HNone is the static, never counted data
   (String::emptyData, Variant::nullData, the null Ptr): its ref field is 0.

   Every access to a block goes through [touch], which raises a fault when the block has been
   released (what ASan reports as heap-use-after-free on the real code). *)
From Coq Require Import ZArith List Bool Arith.
From Common Require Import ListAux.
Import ListNotations.
Local Open Scope Z_scope.

Inductive flavour := FStr | FVar | FPtr | FXml.

(* The value of a payload is its CONTENTS, not only its length: a sequence of markers 1..7 (the
   characters '1'..'7' of a String, the integers 1..7 held by the elements of a Variant container,
   the one-character texts of the children of an Xml element), most significant first, written as a
   number in base 8.  [push c m] appends marker m (m = 0: nothing is appended: a write access that
   does not grow the payload); [slen c] is the number of markers, i.e. String::length(). *)
Definition push (c m : Z) : Z := if m =? 0 then c else 8 * c + m.
Definition slen (c : Z) : Z := if c <=? 0 then 0 else Z.log2 c / 3 + 1.
(* the first n markers of c (String::resize(n) with n <= length) *)
Definition trunc (c n : Z) : Z := if slen c <=? n then c else if n <=? 0 then 0 else c / 8 ^ (slen c - n).
(* the write accesses of String, all through detach(copyLength, minCapacity):
   SPush m    append(char m): detach(len, len + 1), then the marker is stored (m = 0: detach() = detach(len, len));
   STrunc n   resize(min(n, len)) = detach(k, k): the first k markers stay;
   SReserve n reserve(n) = detach(len, max(len, n)): the contents stay;
   SMap, SCat: below. *)
(* the markers of a contents value, first marker first, and back (a marker 0 is dropped) *)
Fixpoint markers_fuel (n : nat) (c : Z) (acc : list Z) : list Z :=
  match n with O => acc | S k => if c <=? 0 then acc else markers_fuel k (c / 8) (c mod 8 :: acc) end.
Definition markers (c : Z) : list Z := markers_fuel (Z.to_nat (slen c)) c [].
Definition unmarkers (l : list Z) : Z := fold_left push l 0.
Definition cat (a b : Z) : Z := unmarkers (markers a ++ markers b).
(* the character-wise modifiers of String.  The harness writes marker 1,2,3 as 'a','b','c', 4,5,6 as 'A','B','C'
   and 7 as ' ': toLowerCase maps 4,5,6 to 1,2,3, toUpperCase the other way, replace(a, b) one marker to another *)
Inductive mapk := MLower | MUpper | MRepl (a b : Z).
Definition mapm (k : mapk) (m : Z) : Z :=
  match k with
  | MLower => if (4 <=? m) && (m <=? 6) then m - 3 else m
  | MUpper => if (1 <=? m) && (m <=? 3) then m + 3 else m
  | MRepl a b => if m =? a then b else m
  end.
(* trim(chars): the markers of [set] are dropped at both ends; substr / a pointer into the own text *)
Fixpoint drop_in (set l : list Z) : list Z :=
  match l with m :: t => if existsb (Z.eqb m) set then drop_in set t else l | [] => [] end.
Definition trimv (set c : Z) : Z :=
  let st := markers set in unmarkers (rev (drop_in st (rev (drop_in st (markers c))))).
Definition subv (c off len : Z) : Z := unmarkers (firstn (Z.to_nat len) (skipn (Z.to_nat off) (markers c))).
(* the write accesses of String, all through detach(copyLength, minCapacity):
   SMap k     toLowerCase / toUpperCase / replace(char, char) / a store through operator char*: detach(len, len), then
              the characters are rewritten where they are;
   SCat f c2  append(const String&) / append(const char*, n) / operator+= (f = false) and prepend (f = true):
              detach(len | 0, len + n), then the characters c2 are copied behind (in front of) the own ones. *)
Inductive smode := SPush (m : Z) | STrunc (n : Z) | SReserve (n : Z) | SMap (k : mapk) | SCat (front : bool) (c2 : Z).
Definition str_newval (md : smode) (c : Z) : Z :=
  match md with
  | SPush m => push c m | STrunc n => trunc c n | SReserve _ => c
  | SMap k => unmarkers (map (mapm k) (markers c))
  | SCat front c2 => if front then cat c2 c else cat c c2
  end.
Definition str_need (md : smode) (c : Z) : Z :=
  match md with
  | SPush m => slen (push c m) | STrunc n => Z.max 0 (Z.min n (slen c)) | SReserve n => Z.max (slen c) n
  | SMap _ => slen c
  | SCat _ c2 => slen c + slen c2
  end.
Inductive handle := HNone | HBlock (b : nat).
Inductive var := VDead | VLive (refh objh : handle).
Inductive fault := FUaf (b : nat) | FDouble (b : nat) | FUnderflow (b : nat) | FSharedWrite (b : nat).

Record block := { rc : Z; freed : bool; val : Z; cap : Z; dtors : nat }.
Record state := { heap : list block; vars : list var; flt : option fault }.

(* six variables of the case, plus one (index 6) for the handle the library itself constructs inside a call:
   `String copy( *this)` of prepend, `Variant tmp = other` of Variant::swap, the String returned by substr in trim *)
Definition nvars : nat := 7.
Definition init : state := {| heap := []; vars := repeat VDead nvars; flt := None |}.

Definition dead_block : block := {| rc := 0; freed := true; val := 0; cap := 0; dtors := 0 |}.
Definition getb (s : state) (b : nat) : block := nth b (heap s) dead_block.
Definition setb (s : state) (b : nat) (k : block) : state :=
  {| heap := upd b k (heap s); vars := vars s; flt := flt s |}.
Definition raise (s : state) (f : fault) : state :=
  match flt s with
  | None => {| heap := heap s; vars := vars s; flt := Some f |}
  | Some _ => s
  end.
Definition getv (s : state) (v : nat) : var := nth v (vars s) VDead.
Definition setv (s : state) (v : nat) (x : var) : state :=
  {| heap := heap s; vars := upd v x (vars s); flt := flt s |}.

(* any read or write of a block's memory *)
Definition touch (s : state) (b : nat) : state :=
  if freed (getb s b) then raise s (FUaf b) else s.

Definition with_rc (k : block) (r : Z) : block :=
  {| rc := r; freed := freed k; val := val k; cap := cap k; dtors := dtors k |}.
Definition with_val (k : block) (l : Z) : block :=
  {| rc := rc k; freed := freed k; val := l; cap := cap k; dtors := dtors k |}.

(* Atomic::increment(ref) *)
Definition inc (s : state) (b : nat) : state :=
  let s := touch s b in setb s b (with_rc (getb s b) (rc (getb s b) + 1)).
(* Atomic::decrement(ref): the new value; usize would wrap below 0, which is a fault here *)
Definition dec (s : state) (b : nat) : state * Z :=
  let s := touch s b in
  let r := rc (getb s b) - 1 in
  let s := if r <? 0 then raise s (FUnderflow b) else s in
  (setb s b (with_rc (getb s b) r), r).
(* delete / delete[]: runs the payload destructor, returns the memory *)
Definition free_blk (s : state) (b : nat) : state :=
  let k := getb s b in
  if freed k then raise s (FDouble b)
  else setb s b {| rc := rc k; freed := true; val := val k; cap := cap k; dtors := S (dtors k) |}.
Definition alloc (s : state) (r l c : Z) : state * nat :=
  ({| heap := heap s ++ [{| rc := r; freed := false; val := l; cap := c; dtors := 0 |}];
      vars := vars s; flt := flt s |}, length (heap s)).

Definition is_ptr (f : flavour) : bool := match f with FPtr => true | _ => false end.
Definition is_var (f : flavour) : bool := match f with FVar => true | _ => false end.

(* `if(data->ref && Atomic::decrement(data->ref) == 0) delete[] data;`      (String, Variant)
   `if(refObj && Atomic::decrement(refObj->ref) == 0) delete refObj;`       (Ptr: no read of ref) *)
Definition release (f : flavour) (s : state) (h : handle) : state :=
  match h with
  | HNone => s
  | HBlock b =>
      let s1 := touch s b in
      if is_ptr f || negb (rc (getb s1 b) =? 0) then
        let '(s2, r) := dec s1 b in
        if r =? 0 then free_blk s2 b else s2
      else s1
  end.

(* ghost: number of live variables whose counted field refers to b (independent of rc) *)
Definition refers (b : nat) (x : var) : bool :=
  match x with VLive (HBlock c) _ => Nat.eqb c b | _ => false end.
Definition count_refs (b : nat) (l : list var) : nat := length (filter (refers b) l).

(* in-place modification of the payload of b through variable v; the monitor faults when
   another handle still refers to b *)
Definition write_inplace (s : state) (b : nat) (newlen : Z) : state :=
  let s := touch s b in
  let s := if Nat.eqb (count_refs b (vars s)) 1 then s else raise s (FSharedWrite b) in
  setb s b (with_val (getb s b) newlen).

Definition both (h : handle) : var := VLive h h.

Inductive op :=
| OCreate (v : nat) (n : Z)      (* new (&v) String(contents n) | Variant(container with contents n) | Ptr<T>(new T(n)) *)
| ONull (v : nat)                (* new (&v) H() *)
| OCopy (d s : nat)              (* new (&d) H(s) *)
| OFromRaw (d s : nat)           (* Ptr only: new (&d) Ptr<T>(s.operator->())   (intrusive counter) *)
| OAssign (d s : nat)            (* d = s *)
| OReset (v : nat)               (* String::clear() | Variant::clear() | p = (T* )0 *)
| OSwap (a b : nat)              (* Ptr only: a.swap(b) *)
| OAssignRaw (d s : nat)         (* Ptr only: d = s.operator->()   (Ptr::operator=(C* ), also with d = s) *)
| OAssignVal (v : nat) (c : Z)   (* Variant: v = <container with contents c> | Xml::Variant: v = <text c> *)
| OWrite (v : nat) (m : Z)       (* s.append(char m) | v.toList().append(m) : write access, then append marker m *)
| ODetach (v : nat)              (* s.detach() | v.toList() : write access only *)
| ODestroy (v : nat)             (* v.~H() *)
| OResize (v : nat) (n : Z)      (* String only: s.resize(min(n, s.length())) *)
| OReserve (v : nat) (n : Z)     (* String only: s.reserve(n) *)
| OStrMod (v : nat) (md : smode) (* String only: any modifier that is `detach(..); write into the own block`: toLowerCase, toUpperCase,
                                    replace(char, char), operator char*, append(const char*, n), prepend(const char*, n) *)
| OStrCatV (front : bool) (d sv : nat)  (* String only: d.append(sv) | d += sv | d.prepend(sv): the argument is a handle, possibly d itself
                                           or another handle to d's payload *)
| ORetype (v : nat) (c : Z).     (* Variant / Xml::Variant: write accessor or value assignment of ANOTHER type than the one stored
                                    (`type != T` branch): always a new payload with contents c, the old one is released unread *)

(* write access of String: detach(copyLength, minCapacity) in mode md: in place iff `ref == 1 && minCapacity <=
   capacity`, else a new block of capacity minCapacity | 3 that receives the (first copyLength) characters *)
Definition str_detach (s : state) (v : nat) (h : handle) (md : smode) : state :=
  match h with
  | HBlock b =>
      let s := touch s b in
      let k := getb s b in
      if (rc k =? 1) && (str_need md (val k) <=? cap k) then
        write_inplace s b (str_newval md (val k))
      else
        let '(s, nb) := alloc s 1 (str_newval md (val k)) (Z.lor (str_need md (val k)) 3) in
        let s := touch s b in                       (* Memory::copy from the old payload *)
        let s := release FStr s h in
        setv s v (both (HBlock nb))
  | HNone =>                                        (* emptyData: ref = 0, clone path, no release *)
      let '(s, nb) := alloc s 1 (str_newval md 0) (Z.lor (str_need md 0) 3) in
      setv s v (both (HBlock nb))
  end.

(* write access of Variant (toList / toMap / toArray / toString, non-const) and of Xml::Variant
   (toElement): `if(type != T || ref > 1)` clone, clear(), adopt; else in place *)
Definition var_detach (s : state) (v : nat) (h : handle) (m : Z) : state :=
  match h with
  | HBlock b =>
      let s := touch s b in
      let k := getb s b in
      if rc k >? 1 then
        let '(s, nb) := alloc s 1 (push (val k) m) 0 in
        let s := touch s b in                       (* copy-constructs the container from the old payload *)
        let s := release FVar s h in
        setv s v (both (HBlock nb))
      else write_inplace s b (push (val k) m)
  | HNone =>
      let '(s, nb) := alloc s 1 (push 0 m) 0 in
      setv s v (both (HBlock nb))
  end.

(* Variant::operator=(const List&|HashMap&|Array&|String&): `if(type != T || ref > 1)` new block holding a
   copy of the argument, clear(), adopt; else `T copy(other); swap` in place.
   Xml::Variant::operator=(const String&): the same test, but clear() comes before the allocation.
   The old payload is not read. *)
Definition assign_val (f : flavour) (s : state) (v : nat) (h : handle) (c : Z) : state :=
  match h with
  | HBlock b =>
      let s := touch s b in
      if rc (getb s b) >? 1 then
        match f with
        | FXml => let s := release FVar s h in
                  let '(s, nb) := alloc s 1 c 0 in setv s v (both (HBlock nb))
        | _ => let '(s, nb) := alloc s 1 c 0 in
               let s := release FVar s h in setv s v (both (HBlock nb))
        end
      else write_inplace s b c
  | HNone =>
      let '(s, nb) := alloc s 1 c 0 in
      setv s v (both (HBlock nb))
  end.

(* the `type != T` half of the write accessors and value assignments: Variant allocates, then clear(); Xml::Variant
   clear()s first.  The old payload is not read (the new one is copy-constructed from a static empty object or from the
   argument). *)
Definition retype (f : flavour) (s : state) (v : nat) (h : handle) (c : Z) : state :=
  match f with
  | FXml => let s := release FVar s h in
            let '(s, nb) := alloc s 1 c 0 in setv s v (both (HBlock nb))
  | _ => let '(s, nb) := alloc s 1 c 0 in
         let s := release FVar s h in setv s v (both (HBlock nb))
  end.

(* reading the text through a String handle (str.data->str, str.data->len) *)
Definition touch_var (s : state) (v : nat) : state :=
  match nth v (vars s) VDead with VLive (HBlock b) _ => touch s b | _ => s end.

(* the repaired swap exchanges both fields; [swap_obj_only] is the code as written *)
Definition ptr_swap (obj_only : bool) (s : state) (a b : nat) (ra oa rb ob : handle) : state :=
  if obj_only then setv (setv s b (VLive rb oa)) a (VLive ra ob)
  else setv (setv s b (VLive ra oa)) a (VLive rb ob).

Definition op_vars (o : op) : list nat :=
  match o with
  | OCreate v _ | ONull v | OReset v | OWrite v _ | ODetach v | ODestroy v | OAssignVal v _ | OResize v _ | OReserve v _
  | OStrMod v _ | ORetype v _ => [v]
  | OCopy a b | OFromRaw a b | OAssign a b | OSwap a b | OAssignRaw a b | OStrCatV _ a b => [a; b]
  end.

Definition step_gen (obj_only : bool) (f : flavour) (s : state) (o : op) : state :=
  match flt s with Some _ => s | None =>
  if negb (forallb (fun v => Nat.ltb v (length (vars s))) (op_vars o)) then s else
  match o with
  | OCreate v n =>
      match getv s v with
      | VDead =>
          match f with
          | FStr => let '(s, b) := alloc s 1 n (Z.lor (slen n) 3) in setv s v (both (HBlock b))
          | FVar | FXml => let '(s, b) := alloc s 1 n 0 in setv s v (both (HBlock b))
          | FPtr => let '(s, b) := alloc s 0 n 0 in        (* Object() : ref(0) *)
                    let s := setv s v (both (HBlock b)) in inc s b
          end
      | _ => s
      end
  | ONull v => match getv s v with VDead => setv s v (both HNone) | _ => s end
  | OCopy d sv =>
      match getv s d, getv s sv with
      | VDead, VLive r o =>
          match r with
          | HNone => setv s d (VLive HNone (if is_ptr f then o else HNone))
          | HBlock b =>
              if is_ptr f then inc (setv s d (VLive r o)) b
              else
                let s := touch s b in                 (* if(other.data->ref) *)
                if negb (rc (getb s b) =? 0) then inc (setv s d (both r)) b
                else s                                (* not reached for a counted block *)
          end
      | _, _ => s
      end
  | OFromRaw d sv =>
      match f, getv s d, getv s sv with
      | FPtr, VDead, VLive _ o =>
          match o with
          | HNone => setv s d (both HNone)
          | HBlock b => inc (setv s d (both o)) b
          end
      | _, _, _ => s
      end
  | OAssign d sv =>
      match getv s d, getv s sv with
      | VLive rd od, VLive r o =>
          match f with
          | FPtr =>
              let s := match r with HBlock b => inc s b | HNone => s end in
              let s := release FPtr s rd in
              setv s d (VLive r o)
          | FStr =>
              match r with
              | HBlock b =>
                  let s := touch s b in
                  if negb (rc (getb s b) =? 0) then
                    let s := inc s b in
                    let s := release FStr s rd in
                    setv s d (both r)
                  else s
              | HNone =>                              (* other is emptyData: ref 0 -> fresh empty block *)
                  let s := release FStr s rd in
                  let '(s, nb) := alloc s 1 0 3 in
                  setv s d (both (HBlock nb))
              end
          | FVar | FXml =>
              (* Variant: `if(&other != this)`; Xml::Variant has no such test *)
              if is_var f && Nat.eqb d sv then s else
              match r with
              | HBlock b =>
                  let s := touch s b in
                  if negb (rc (getb s b) =? 0) then
                    let s := inc s b in
                    let s := release FVar s rd in
                    setv s d (both r)
                  else s
              | HNone => setv (release FVar s rd) d (both HNone)
              end
          end
      | _, _ => s
      end
  | OReset v =>
      match getv s v with
      | VLive r o =>
          match f with
          | FStr =>
              match r with
              | HBlock b =>
                  let s := touch s b in
                  if rc (getb s b) =? 1 then write_inplace s b 0
                  else setv (release FStr s r) v (both HNone)
              | HNone => s
              end
          | _ => setv (release f s r) v (both HNone)
          end
      | VDead => s
      end
  | OSwap a b =>
      match f, getv s a, getv s b with
      | FPtr, VLive ra oa, VLive rb ob => if Nat.eqb a b then s else ptr_swap obj_only s a b ra oa rb ob
      | _, _, _ => s
      end
  | OAssignRaw d sv =>
      (* Object* refObj = obj; if(refObj) increment; if(this->refObj && decrement == 0) delete; store *)
      match f, getv s d, getv s sv with
      | FPtr, VLive rd _, VLive _ o =>
          let s := match o with HBlock b => inc s b | HNone => s end in
          let s := release FPtr s rd in
          setv s d (both o)
      | _, _, _ => s
      end
  | OAssignVal v c =>
      match f, getv s v with
      | FVar, VLive r _ => assign_val FVar s v r c
      | FXml, VLive r _ => assign_val FXml s v r c
      | _, _ => s
      end
  | OWrite v m =>
      match f, getv s v with
      | FStr, VLive r _ => str_detach s v r (SPush m)
      | FVar, VLive r _ => var_detach s v r m
      | FXml, VLive r _ => var_detach s v r m
      | _, _ => s
      end
  | ODetach v =>
      match f, getv s v with
      | FStr, VLive r _ => str_detach s v r (SPush 0)
      | FVar, VLive r _ => var_detach s v r 0
      | FXml, VLive r _ => var_detach s v r 0
      | _, _ => s
      end
  | ODestroy v =>
      match getv s v with
      | VLive r _ => setv (release f s r) v VDead
      | VDead => s
      end
  | OResize v n =>
      match f, getv s v with
      | FStr, VLive r _ => str_detach s v r (STrunc n)
      | _, _ => s
      end
  | OReserve v n =>
      match f, getv s v with
      | FStr, VLive r _ => str_detach s v r (SReserve n)
      | _, _ => s
      end
  | OStrMod v md =>
      match f, getv s v with
      | FStr, VLive r _ => str_detach s v r md
      | _, _ => s
      end
  | OStrCatV front d sv =>
      (* newLen = len + str.data->len; detach(.., newLen); Memory::copy(.., str.data->str, ..): the argument's text is
         read AFTER the detach (for d.append(d) that is d's new block; prepend keeps the old block alive through a
         local copy of the handle: the driver issues `copy tmp d` before and `destroy tmp` after this op) *)
      match f, getv s d, getv s sv with
      | FStr, VLive rd _, VLive rs _ =>
          let c2 := match rs with HBlock b => val (getb s b) | HNone => 0 end in
          let s := match rs with HBlock b => touch s b | HNone => s end in
          let s := str_detach s d rd (SCat front c2) in
          touch_var s sv
      | _, _, _ => s
      end
  | ORetype v c =>
      match f, getv s v with
      | FVar, VLive r _ => retype FVar s v r c
      | FXml, VLive r _ => retype FXml s v r c
      | _, _ => s
      end
  end end.

Definition step : flavour -> state -> op -> state := step_gen false.
Definition step_as_written : flavour -> state -> op -> state := step_gen true.
Definition run (f : flavour) (ops : list op) : state := fold_left (step f) ops init.
Definition run_as_written (f : flavour) (ops : list op) : state := fold_left (step_as_written f) ops init.

(* ---- observations ---------------------------------------------------------------------- *)
(* reading the value through the variable (obj for Ptr, data for the others) touches the block *)
Inductive vobs := VODead | VONull | VOVal (blk : nat) (value : Z) (refcount : Z) (refblk : option nat).

Definition observe_var (s : state) (x : var) : state * vobs :=
  match x with
  | VDead => (s, VODead)
  | VLive r o =>
      match o with
      | HNone => (s, VONull)
      | HBlock b =>
          let s := touch s b in
          let rb := match r with HBlock c => Some c | HNone => None end in
          let s := match r with HBlock c => touch s c | HNone => s end in
          (s, VOVal b (val (getb s b)) (match r with HBlock c => rc (getb s c) | HNone => 0 end) rb)
      end
  end.

Fixpoint observe_vars (s : state) (l : list var) : state * list vobs :=
  match l with
  | [] => (s, [])
  | x :: t => let '(s, o) := observe_var s x in
              let '(s, os) := observe_vars s t in (s, o :: os)
  end.

Definition live_blocks (s : state) : nat := length (filter (fun k => negb (freed k)) (heap s)).
Definition total_dtors (s : state) : nat := fold_right (fun k a => (dtors k + a)%nat) 0%nat (heap s).

(* one op, then the harness reads every variable *)
Definition step_obs (obj_only : bool) (f : flavour) (s : state) (o : op) : state * list vobs :=
  let s := step_gen obj_only f s o in
  match flt s with
  | Some _ => (s, [])
  | None => observe_vars s (vars s)
  end.

(* the contents a variable reads (no access check): the driver computes state-dependent arguments with it
   (trim assigns substr(..) of the own text, append(p, n) with p pointing into the own text) *)
Definition peek (s : state) (v : nat) : Z :=
  match getv s v with VLive _ (HBlock b) => val (getb s b) | _ => 0 end.

(* end of a case: destroy every live variable *)
Definition destroy_all (f : flavour) (s : state) : state :=
  fold_left (fun s v => step f s (ODestroy v)) (seq 0 nvars) s.
