From Coq Require Extraction ExtrOcamlBasic.
From Common Require Import Words.
From Rc Require Import RcModel RcSpec RcConc RcNest.
Extraction Language OCaml.
Extraction "model.ml" anchor init step step_as_written step_obs destroy_all live_blocks total_dtors
  sinit spec_step reachable must_be_destroyed
  cinit cstep run_sched finishedb final_values live_cblocks total_cfrees handles_total steps_bound
  next_action accept replay finish push slen peek speek trimv subv cat
  ninit nstep nstep_as_written nobs_touch nobs nlive_blocks ntotal_dtors ndestroy_all
  pinit pstep pobs palive_count pdead_count pdestroy_all.
