From Coq Require Extraction ExtrOcamlBasic.
From Common Require Import Words.
From Rc Require Import RcModel RcSpec RcConc.
Extraction Language OCaml.
Extraction "model.ml" anchor init step step_as_written step_obs destroy_all live_blocks total_dtors
  sinit spec_step reachable must_be_destroyed
  cinit cstep run_sched finishedb final_values live_cblocks total_cfrees handles_total steps_bound
  next_action accept replay finish push slen.
