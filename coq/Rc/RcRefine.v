(* Sequential part of C09, value semantics: the handle/block machine refines the reference object
   of RcSpec, in which every live variable holds its own value.  Hence a modification through one
   handle never changes what another handle reads ("never modified in place while another handle
   still refers to it", seen from outside). *)
From Coq Require Import ZArith List Bool Arith Lia.
From Common Require Import ListAux.
From Rc Require Import RcModel RcSpec RcProofs RcSeq.
Import ListNotations.
Local Open Scope Z_scope.

Definition abs_var (f : flavour) (s : state) (x : var) : sval :=
  match x with
  | VDead => SDead
  | VLive _ HNone => snull f
  | VLive _ (HBlock b) => SVal (if is_ptr f then b else 0%nat) (val (getb s b))
  end.
Definition abs (f : flavour) (s : state) : list sval := map (abs_var f s) (vars s).
Definition abs_state (f : flavour) (s : state) : sstate := {| svars := abs f s; screated := length (heap s) |}.

(* ---- lists --------------------------------------------------------------------------------------------- *)
Lemma upd_overflow {A} v (x : A) l : (length l <= v)%nat -> upd v x l = l.
Proof. revert v. induction l as [|h t IH]; intros [|v] H; simpl in *; try lia; auto. f_equal. apply IH. lia. Qed.
Lemma map_upd {A B} (g : A -> B) v x l : map g (upd v x l) = upd v (g x) (map g l).
Proof. revert v. induction l as [|h t IH]; intros [|v]; simpl; auto. f_equal. apply IH. Qed.
Lemma upd_nth_same {A} v (l : list A) d : upd v (nth v l d) l = l.
Proof.
  revert v. induction l as [|h t IH]; intros [|v]; simpl; auto. f_equal. apply IH.
Qed.
Lemma list_eq_nth {A} (l1 l2 : list A) d : length l1 = length l2 ->
  (forall i, (i < length l1)%nat -> nth i l1 d = nth i l2 d) -> l1 = l2.
Proof.
  revert l2. induction l1 as [|h t IH]; intros [|h2 t2] L H; simpl in *; try lia; auto.
  f_equal.
  - apply (H 0%nat). lia.
  - apply IH; [lia|]. intros i Li. apply (H (S i)). lia.
Qed.

(* ---- the abstraction and the primitives ------------------------------------------------------------------ *)
Definition same_len (s s' : state) : Prop :=
  (length (heap s) <= length (heap s'))%nat /\ forall c, (c < length (heap s))%nat -> val (getb s' c) = val (getb s c).

Lemma same_len_refl s : same_len s s.
Proof. split; [lia|auto]. Qed.
Lemma same_len_trans s1 s2 s3 : same_len s1 s2 -> same_len s2 s3 -> same_len s1 s3.
Proof. intros [L1 H1] [L2 H2]. split; [lia|]. intros c L. rewrite H2 by lia. apply H1. exact L. Qed.
Lemma same_len_heap s s' : heap s' = heap s -> same_len s s'.
Proof. intros E. unfold same_len, getb. rewrite E. split; [lia|auto]. Qed.
Lemma sl_raise s x : same_len s (raise s x).
Proof. apply same_len_heap. unfold raise. destruct (flt s); reflexivity. Qed.
Lemma sl_touch s b : same_len s (touch s b).
Proof. unfold touch. destruct (freed (getb s b)); [apply sl_raise|apply same_len_refl]. Qed.
Lemma sl_setb s b k : val k = val (getb s b) -> same_len s (setb s b k).
Proof.
  intros E. split; [rewrite len_setb; lia|]. intros c L. destruct (Nat.eq_dec b c) as [->|N].
  - rewrite getb_setb_same by exact L. exact E.
  - rewrite getb_setb_other by exact N. reflexivity.
Qed.
Lemma sl_inc s b : same_len s (inc s b).
Proof. unfold inc. eapply same_len_trans; [apply (sl_touch s b)|]. apply sl_setb. reflexivity. Qed.
Lemma sl_dec s b : same_len s (fst (dec s b)).
Proof.
  unfold dec. cbn [fst]. eapply same_len_trans; [apply (sl_touch s b)|]. set (s1 := touch s b).
  destruct (rc (getb s1 b) - 1 <? 0).
  - eapply same_len_trans; [apply (sl_raise s1 (FUnderflow b))|]. apply sl_setb. reflexivity.
  - apply sl_setb. reflexivity.
Qed.
Lemma sl_free s b : same_len s (free_blk s b).
Proof. unfold free_blk. destruct (freed (getb s b)); [apply sl_raise|]. apply sl_setb. reflexivity. Qed.
Lemma sl_release f s h : same_len s (release f s h).
Proof.
  destruct h as [|b]; [apply same_len_refl|]. unfold release.
  eapply same_len_trans; [apply (sl_touch s b)|]. set (s1 := touch s b).
  destruct (is_ptr f || negb (rc (getb s1 b) =? 0)); [|apply same_len_refl].
  pose proof (sl_dec s1 b) as D. destruct (dec s1 b) as [s2 r]. cbn [fst] in D.
  destruct (r =? 0); [|exact D]. eapply same_len_trans; [exact D|apply sl_free].
Qed.
Lemma sl_alloc s r l c : same_len s (fst (alloc s r l c)).
Proof.
  split; [unfold alloc; simpl; rewrite app_length; lia|]. intros b L. unfold alloc; cbn [fst].
  rewrite getb_app_old by exact L. reflexivity.
Qed.

Lemma in_vars_range s r o : Inv s -> In (VLive r o) (vars s) ->
  r = o /\ forall b, o = HBlock b -> (b < length (heap s))%nat.
Proof.
  intros I X. destruct (In_nth _ _ VDead X) as [v [Lv E]].
  destruct (Inv_no_dangling s v r o I E) as [RO R]. split; [exact RO|]. intros b Hb. apply (R b Hb).
Qed.

Lemma abs_var_same f s s' r o : same_len s s' -> (forall b, o = HBlock b -> (b < length (heap s))%nat) ->
  abs_var f s' (VLive r o) = abs_var f s (VLive r o).
Proof. intros [_ H] R. destruct o as [|b]; [reflexivity|]. simpl. rewrite H by (apply R; reflexivity). reflexivity. Qed.

Lemma abs_same f s s' : Inv s -> vars s' = vars s -> same_len s s' -> abs f s' = abs f s.
Proof.
  intros I V SL. unfold abs. rewrite V. apply map_ext_in. intros x X. destruct x as [|r o]; [reflexivity|].
  apply abs_var_same; [exact SL|]. apply (in_vars_range s r o I X).
Qed.

Lemma abs_setv f s v x : abs f (setv s v x) = upd v (abs_var f s x) (abs f s).
Proof.
  unfold abs. cbn [vars setv]. rewrite map_upd. reflexivity.
Qed.

(* store x into v after a prefix that preserved the variables and the payload lengths *)
Lemma abs_store f s sk v x : Inv s -> vars sk = vars s -> same_len s sk ->
  abs f (setv sk v x) = upd v (abs_var f sk x) (abs f s).
Proof. intros I V SL. rewrite abs_setv. rewrite (abs_same f s sk I V SL). reflexivity. Qed.

Lemma sget_abs f s v : sget (abs_state f s) v = abs_var f s (getv s v).
Proof.
  unfold sget, abs_state, abs, getv. cbn [svars].
  change SDead with (abs_var f s VDead). apply map_nth.
Qed.
Lemma is_dead_abs f s x : is_dead (abs_var f s x) = match x with VDead => true | _ => false end.
Proof. destruct x as [|r [|b]]; try reflexivity. destruct f; reflexivity. Qed.
Lemma abs_length f s : length (abs f s) = length (vars s).
Proof. unfold abs. apply map_length. Qed.

(* ---- in-place modification: exactly one variable sees it ---------------------------------------------------- *)
Lemma unique_ref s b v i o o' : cnt b (vars s) = 1 -> (v < length (vars s))%nat ->
  getv s v = VLive (HBlock b) o -> i <> v -> getv s i = VLive (HBlock b) o' -> False.
Proof.
  intros C Lv Gv N Gi.
  pose proof (cnt_upd b v VDead (vars s) Lv) as U. fold (getv s v) in U. rewrite Gv in U.
  simpl refers in U. rewrite Nat.eqb_refl in U. simpl bz in U.
  assert (P : 0 < cnt b (upd v VDead (vars s))).
  { apply (in_cnt_pos b o'). unfold getv in Gi. rewrite <- Gi.
    rewrite <- (nth_upd_other v i VDead VDead (vars s)) by congruence.
    apply nth_In. rewrite upd_length.
    destruct (Nat.lt_ge_cases i (length (vars s))) as [L|L]; [exact L|].
    rewrite nth_overflow in Gi by exact L. discriminate. }
  lia.
Qed.

Lemma write_inplace_eq s b n : live s b -> count_refs b (vars s) = 1%nat ->
  write_inplace s b n = setb s b (with_val (getb s b) n).
Proof.
  intros [L F] C. unfold write_inplace. rewrite (touch_live _ _ F). rewrite C. reflexivity.
Qed.

Lemma abs_write_inplace f s v b o n : Inv s -> (v < length (vars s))%nat ->
  getv s v = VLive (HBlock b) o -> rc (getb s b) = 1 ->
  abs f (write_inplace s b n) = upd v (SVal (if is_ptr f then b else 0%nat) n) (abs f s).
Proof.
  intros I Lv G R. pose proof I as [W C].
  destruct (Inv_live s v b o I G) as [LV _]. pose proof LV as [L F].
  destruct (Inv_rc_counts s b I L F) as (RC & _).
  assert (CN : count_refs b (vars s) = 1%nat) by lia.
  assert (CZ : cnt b (vars s) = 1) by (unfold cnt; lia).
  rewrite (write_inplace_eq s b n LV CN).
  pose proof (C _ _ _ G) as RO.
  apply (list_eq_nth _ _ SDead).
  - rewrite upd_length. unfold abs. rewrite !map_length. reflexivity.
  - intros i Li. unfold abs in Li. rewrite map_length in Li. cbn [vars setb] in Li.
    unfold abs at 1. cbn [vars setb].
    change SDead with (abs_var f (setb s b (with_val (getb s b) n)) VDead) at 1. rewrite map_nth.
    fold (getv s i).
    destruct (Nat.eq_dec i v) as [->|N].
    + rewrite nth_upd_same by (rewrite abs_length; exact Lv). rewrite G. subst o. simpl.
      rewrite getb_setb_same by exact L. reflexivity.
    + rewrite nth_upd_other by congruence. unfold abs.
      change SDead with (abs_var f s VDead) at 1. rewrite map_nth. fold (getv s i).
      destruct (getv s i) as [|r' [|c]] eqn:Gi; try reflexivity. simpl.
      destruct (Nat.eq_dec c b) as [->|NE].
      * exfalso. pose proof (C _ _ _ Gi) as E. subst r'. apply (unique_ref s b v i o (HBlock b) CZ Lv G N Gi).
      * rewrite getb_setb_other by congruence. reflexivity.
Qed.

(* ---- operations whose variables are out of range change nothing on either side ------------------------------ *)
Lemma sget_overflow f s v : (length (vars s) <= v)%nat -> sget (abs_state f s) v = SDead.
Proof. intros L. unfold sget, abs_state; cbn [svars]. apply nth_overflow. rewrite abs_length. exact L. Qed.

Lemma spec_out_of_range f s o :
  forallb (fun v => Nat.ltb v (length (vars s))) (op_vars o) = false ->
  svars (spec_step f (abs_state f s) o) = abs f s.
Proof.
  intros B. assert (UO : forall v x, (length (vars s) <= v)%nat -> upd v x (abs f s) = abs f s)
    by (intros v x L; apply upd_overflow; rewrite abs_length; exact L).
  destruct o as [v n|v|d sv|d sv|d sv|v|a b|d sv|v c|v m|v|v|v n|v n|v md|front d sv|v c]; cbn [op_vars forallb] in B;
  rewrite ?andb_true_r in B; try (apply andb_false_iff in B); unfold spec_step, sset.
  - cbn [svars abs_state]. rewrite abs_length, B, andb_false_r. reflexivity.
  - apply Nat.ltb_ge in B. rewrite (sget_overflow f s v B). cbn. apply UO. exact B.
  - destruct B as [B|B]; apply Nat.ltb_ge in B.
    + rewrite (sget_overflow f s d B). cbn [is_dead andb].
      destruct (negb (is_dead (sget (abs_state f s) sv))); cbn; [apply UO; exact B|reflexivity].
    + rewrite (sget_overflow f s sv B). cbn [is_dead negb]. rewrite andb_false_r. reflexivity.
  - destruct f; try reflexivity. destruct B as [B|B]; apply Nat.ltb_ge in B.
    + rewrite (sget_overflow FPtr s d B). cbn [is_dead andb].
      destruct (negb (is_dead (sget (abs_state FPtr s) sv))); cbn; [apply UO; exact B|reflexivity].
    + rewrite (sget_overflow FPtr s sv B). cbn [is_dead negb]. rewrite andb_false_r. reflexivity.
  - destruct B as [B|B]; apply Nat.ltb_ge in B.
    + rewrite (sget_overflow f s d B). reflexivity.
    + rewrite (sget_overflow f s sv B). cbn [is_dead negb]. rewrite andb_false_r. reflexivity.
  - apply Nat.ltb_ge in B. rewrite (sget_overflow f s v B). reflexivity.
  - destruct f; try reflexivity. destruct B as [B|B]; apply Nat.ltb_ge in B.
    + rewrite (sget_overflow FPtr s a B). reflexivity.
    + rewrite (sget_overflow FPtr s b B). cbn [is_dead negb]. rewrite andb_false_r. reflexivity.
  - destruct f; try reflexivity. destruct B as [B|B]; apply Nat.ltb_ge in B.
    + rewrite (sget_overflow FPtr s d B). reflexivity.
    + rewrite (sget_overflow FPtr s sv B). cbn [is_dead negb]. rewrite andb_false_r. reflexivity.
  - apply Nat.ltb_ge in B. rewrite (sget_overflow f s v B). destruct f; reflexivity.
  - apply Nat.ltb_ge in B. rewrite (sget_overflow f s v B). destruct f; reflexivity.
  - apply Nat.ltb_ge in B. rewrite (sget_overflow f s v B). destruct f; reflexivity.
  - apply Nat.ltb_ge in B. cbn. apply UO. exact B.
  - apply Nat.ltb_ge in B. rewrite (sget_overflow f s v B). destruct f; reflexivity.
  - apply Nat.ltb_ge in B. rewrite (sget_overflow f s v B). destruct f; reflexivity.
  - apply Nat.ltb_ge in B. rewrite (sget_overflow f s v B). destruct f; reflexivity.
  - destruct f; try reflexivity. destruct B as [B|B]; apply Nat.ltb_ge in B.
    + rewrite (sget_overflow FStr s d B). reflexivity.
    + rewrite (sget_overflow FStr s sv B). cbn [is_dead negb]. rewrite andb_false_r. reflexivity.
  - apply Nat.ltb_ge in B. rewrite (sget_overflow f s v B). destruct f; reflexivity.
Qed.

(* ---- the refinement ------------------------------------------------------------------------------------------------ *)
Lemma upd_same_abs f s v x : abs_var f s (getv s v) = x -> upd v x (abs f s) = abs f s.
Proof.
  intros E. rewrite <- E. rewrite <- sget_abs. unfold sget, abs_state; cbn [svars]. apply upd_nth_same.
Qed.

Lemma inc_setv_comm s v x b : inc (setv s v x) b = setv (inc s b) v x.
Proof.
  destruct s as [h vs fl]. unfold inc, touch, raise, setv, setb, getb; cbn [heap vars flt].
  destruct (freed (nth b h dead_block)); [destruct fl|]; reflexivity.
Qed.

Lemma getb_alloc_new s r l c : getb (fst (alloc s r l c)) (length (heap s)) = {| rc := r; freed := false; val := l; cap := c; dtors := 0 |}.
Proof. unfold getb, alloc; cbn [fst heap]. rewrite app_nth2 by lia. rewrite Nat.sub_diag. reflexivity. Qed.

Lemma abs_alloc_store f s v r l c : Inv s ->
  abs f (setv (fst (alloc s r l c)) v (both (HBlock (length (heap s))))) =
  upd v (SVal (if is_ptr f then length (heap s) else 0%nat) l) (abs f s).
Proof.
  intros I. rewrite (abs_store f s (fst (alloc s r l c)) v _ I eq_refl (sl_alloc s r l c)).
  cbn [abs_var both]. rewrite getb_alloc_new. reflexivity.
Qed.

(* release the old value of v, store a value that denotes no block *)
Lemma abs_drop f f0 s v r x : Inv s -> (forall sk, abs_var f sk x = abs_var f s x) ->
  abs f (setv (release f0 s r) v x) = upd v (abs_var f s x) (abs f s).
Proof.
  intros I X. rewrite (abs_store f s _ v x I (vars_release f0 s r) (sl_release f0 s r)). rewrite X. reflexivity.
Qed.

(* share r (held by some variable), release rd, store *)
Lemma abs_share_store f f0 s d rd sv r o x : Inv s -> getv s sv = VLive r o ->
  (forall sk, abs_var f sk x = abs_var f sk (VLive r o)) ->
  abs f (setv (release f0 (match r with HBlock b => inc s b | HNone => s end) rd) d x) =
  upd d (abs_var f s (VLive r o)) (abs f s).
Proof.
  intros I G X.
  assert (V1 : vars (match r with HBlock b => inc s b | HNone => s end) = vars s)
    by (destruct r; [reflexivity|apply vars_inc]).
  assert (S1 : same_len s (match r with HBlock b => inc s b | HNone => s end))
    by (destruct r; [apply same_len_refl|apply sl_inc]).
  rewrite (abs_store f s _ d x I).
  - rewrite X. f_equal. apply abs_var_same.
    + eapply same_len_trans; [exact S1|apply sl_release].
    + apply (in_vars_range s r o I). eapply getv_in. exact G.
  - rewrite vars_release. exact V1.
  - eapply same_len_trans; [exact S1|apply sl_release].
Qed.

Lemma abs_clone f f0 s v b o l c : Inv s -> getv s v = VLive (HBlock b) o ->
  abs f (setv (release f0 (touch (fst (alloc s 1 l c)) b) (HBlock b)) v (both (HBlock (length (heap s))))) =
  upd v (SVal (if is_ptr f then length (heap s) else 0%nat) l) (abs f s).
Proof.
  intros I G.
  set (s1 := fst (alloc s 1 l c)).
  assert (SL1 : same_len s1 (release f0 (touch s1 b) (HBlock b)))
    by (eapply same_len_trans; [apply sl_touch|apply sl_release]).
  rewrite (abs_store f s _ v _ I).
  - cbn [abs_var both]. destruct SL1 as [_ H1]. rewrite H1.
    + unfold s1. rewrite getb_alloc_new. reflexivity.
    + unfold s1, alloc; cbn [fst heap]. rewrite app_length. simpl. lia.
  - rewrite vars_release, vars_touch. reflexivity.
  - eapply same_len_trans; [apply (sl_alloc s 1 l c)|exact SL1].
Qed.

Lemma abs_str_detach f s v r o g : Inv s -> is_ptr f = false -> (v < length (vars s))%nat -> getv s v = VLive r o ->
  abs f (str_detach s v r g) = upd v (smod (abs_var f s (VLive r o)) g) (abs f s).
Proof.
  intros I NP Lv G. pose proof I as [W C]. pose proof (C _ _ _ G) as RO. subst o.
  unfold str_detach. destruct r as [|b].
  - change (abs f (setv (fst (alloc s 1 (str_newval g 0) (Z.lor (str_need g 0) 3))) v (both (HBlock (length (heap s))))) = upd v (smod (snull f) g) (abs f s)).
    rewrite (abs_alloc_store f s v 1 _ _ I). rewrite NP. destruct f; try discriminate; reflexivity.
  - destruct (Inv_live s v b _ I G) as [[L F] R]. rewrite (touch_live _ _ F).
    destruct ((rc (getb s b) =? 1) && (str_need g (val (getb s b)) <=? cap (getb s b))) eqn:E.
    + apply andb_true_iff in E. destruct E as [E _]. apply Z.eqb_eq in E.
      rewrite (abs_write_inplace f s v b _ _ I Lv G E). reflexivity.
    + change (abs f (setv (release FStr (touch (fst (alloc s 1 (str_newval g (val (getb s b))) (Z.lor (str_need g (val (getb s b))) 3))) b) (HBlock b)) v
                          (both (HBlock (length (heap s))))) = upd v (smod (abs_var f s (VLive (HBlock b) (HBlock b))) g) (abs f s)).
      rewrite (abs_clone f FStr s v b _ _ _ I G). cbn [abs_var smod]. rewrite NP. reflexivity.
Qed.

Lemma abs_var_detach f s v r o g : Inv s -> is_ptr f = false -> f <> FStr -> (v < length (vars s))%nat -> getv s v = VLive r o ->
  abs f (var_detach s v r g) = upd v (grow f (abs_var f s (VLive r o)) g) (abs f s).
Proof.
  intros I NP NS Lv G. pose proof I as [W C]. pose proof (C _ _ _ G) as RO. subst o.
  unfold var_detach. destruct r as [|b].
  - change (abs f (setv (fst (alloc s 1 (push 0 g) 0)) v (both (HBlock (length (heap s))))) = upd v (grow f (snull f) g) (abs f s)).
    rewrite (abs_alloc_store f s v 1 _ _ I). rewrite NP. destruct f; try discriminate; try contradiction; reflexivity.
  - destruct (Inv_live s v b _ I G) as [[L F] R]. rewrite (touch_live _ _ F).
    destruct (rc (getb s b) >? 1) eqn:E.
    + change (abs f (setv (release FVar (touch (fst (alloc s 1 (push (val (getb s b)) g) 0)) b) (HBlock b)) v
                          (both (HBlock (length (heap s))))) = upd v (grow f (abs_var f s (VLive (HBlock b) (HBlock b))) g) (abs f s)).
      rewrite (abs_clone f FVar s v b _ _ _ I G). cbn [abs_var grow]. rewrite NP. reflexivity.
    + rewrite Z.gtb_ltb in E. apply Z.ltb_ge in E.
      rewrite (abs_write_inplace f s v b _ _ I Lv G ltac:(lia)). reflexivity.
Qed.

Lemma abs_replace f f0 s v b o l c : Inv s -> getv s v = VLive (HBlock b) o ->
  abs f (setv (release f0 (fst (alloc s 1 l c)) (HBlock b)) v (both (HBlock (length (heap s))))) =
  upd v (SVal (if is_ptr f then length (heap s) else 0%nat) l) (abs f s).
Proof.
  intros I G. pose proof (abs_clone f f0 s v b o l c I G) as X.
  destruct (Inv_live s v b o I G) as [LV _]. pose proof (live_alloc s 1 l c b LV) as [_ F1].
  rewrite (touch_live _ _ F1) in X. exact X.
Qed.

Lemma abs_release_alloc f f0 s v r l c : Inv s ->
  abs f (setv (fst (alloc (release f0 s r) 1 l c)) v (both (HBlock (length (heap (release f0 s r)))))) =
  upd v (SVal (if is_ptr f then length (heap (release f0 s r)) else 0%nat) l) (abs f s).
Proof.
  intros I. set (s1 := release f0 s r).
  rewrite (abs_store f s _ v _ I).
  - cbn [abs_var both]. rewrite getb_alloc_new. reflexivity.
  - unfold s1. change (vars (fst (alloc (release f0 s r) 1 l c))) with (vars (release f0 s r)). apply vars_release.
  - eapply same_len_trans; [apply (sl_release f0 s r)|apply sl_alloc].
Qed.

Lemma abs_assign_val f s v r o c : Inv s -> is_ptr f = false -> (v < length (vars s))%nat -> getv s v = VLive r o ->
  abs f (assign_val f s v r c) = upd v (SVal 0 c) (abs f s).
Proof.
  intros I NP Lv G. pose proof I as [W C]. pose proof (C _ _ _ G) as RO. subst o.
  unfold assign_val. destruct r as [|b].
  - etransitivity; [exact (abs_alloc_store f s v 1 c 0 I)|]. rewrite NP. reflexivity.
  - destruct (Inv_live s v b _ I G) as [[L F] R]. rewrite (touch_live _ _ F).
    destruct (rc (getb s b) >? 1) eqn:E.
    + destruct f; try discriminate.
      * exact (abs_replace FStr FVar s v b _ c 0 I G).
      * exact (abs_replace FVar FVar s v b _ c 0 I G).
      * exact (abs_release_alloc FXml FVar s v (HBlock b) c 0 I).
    + rewrite Z.gtb_ltb in E. apply Z.ltb_ge in E.
      rewrite (abs_write_inplace f s v b _ _ I Lv G ltac:(lia)). rewrite NP. reflexivity.
Qed.

Lemma abs_retype f s v r o c : Inv s -> is_ptr f = false -> (v < length (vars s))%nat -> getv s v = VLive r o ->
  abs f (retype f s v r c) = upd v (SVal 0 c) (abs f s).
Proof.
  intros I NP Lv G. unfold retype.
  assert (X : abs f (setv (release FVar (fst (alloc s 1 c 0)) r) v (both (HBlock (length (heap s))))) = upd v (SVal 0 c) (abs f s)).
  { destruct r as [|b].
    - etransitivity; [exact (abs_alloc_store f s v 1 c 0 I)|]. rewrite NP. reflexivity.
    - etransitivity; [exact (abs_replace f FVar s v b o c 0 I G)|]. rewrite NP. reflexivity. }
  destruct f; try exact X; try discriminate.
  etransitivity; [exact (abs_release_alloc FXml FVar s v r c 0 I)|]. reflexivity.
Qed.

Theorem step_refines f s o : Inv s -> abs f (step f s o) = svars (spec_step f (abs_state f s) o).
Proof.
  intros I. pose proof I as [W C]. unfold step, step_gen. rewrite (wf_flt _ _ W).
  destruct (forallb (fun v => Nat.ltb v (length (vars s))) (op_vars o)) eqn:B; cbn [negb];
    [|symmetry; apply spec_out_of_range; exact B].
  destruct o as [v n|v|d sv|d sv|d sv|v|a b|d sv|v c|v m|v|v|v n|v n|v md|front d sv|v c]; cbn [op_vars forallb] in B;
  rewrite ?andb_true_r, ?andb_true_iff, ?Nat.ltb_lt in B; unfold spec_step, sset; rewrite ?sget_abs, ?is_dead_abs; cbn [svars screated abs_state].
  - (* OCreate *)
    rewrite abs_length. apply Nat.ltb_lt in B. rewrite B, andb_true_r. apply Nat.ltb_lt in B.
    destruct (getv s v) eqn:G; [|reflexivity].
    destruct f; cbn [svars].
    + exact (abs_alloc_store FStr s v 1 n _ I).
    + exact (abs_alloc_store FVar s v 1 n _ I).
    + change (abs FPtr (inc (setv (fst (alloc s 0 n 0)) v (both (HBlock (length (heap s))))) (length (heap s))) =
              upd v (SVal (length (heap s)) n) (abs FPtr s)).
      rewrite ptr_create_eq. exact (abs_alloc_store FPtr s v 1 n _ I).
    + exact (abs_alloc_store FXml s v 1 n _ I).
  - (* ONull *)
    destruct (getv s v) eqn:G; [|reflexivity].
    cbn [svars]. rewrite abs_setv. reflexivity.
  - (* OCopy *)
    destruct B as [Bd Bs].
    destruct (getv s d) eqn:Gd; cbn [andb]; [|reflexivity].
    destruct (getv s sv) as [|r o] eqn:Gs; [reflexivity|]. cbn [negb andb svars].
    pose proof (C _ _ _ Gs) as RO. subst o.
    destruct r as [|b].
    + rewrite abs_setv. destruct (is_ptr f); reflexivity.
    + destruct (Inv_live s sv b _ I Gs) as [[L F] R].
      destruct (is_ptr f) eqn:P.
      * rewrite inc_setv_comm. rewrite (abs_store f s _ d _ I (vars_inc s b) (sl_inc s b)).
        f_equal. apply abs_var_same; [apply sl_inc|]. intros b' E; inversion E; subst; exact L.
      * rewrite (touch_live _ _ F). destruct (rc (getb s b) =? 0) eqn:E; [apply Z.eqb_eq in E; lia|]. cbn [negb].
        rewrite inc_setv_comm. rewrite (abs_store f s _ d _ I (vars_inc s b) (sl_inc s b)).
        f_equal. apply abs_var_same; [apply sl_inc|]. intros b' E'; inversion E'; subst; exact L.
  - (* OFromRaw *)
    destruct B as [Bd Bs].
    destruct f; try reflexivity.
    destruct (getv s d) eqn:Gd; cbn [andb]; [|reflexivity].
    destruct (getv s sv) as [|r o] eqn:Gs; [reflexivity|]. cbn [negb andb svars].
    pose proof (C _ _ _ Gs) as RO. subst o.
    destruct r as [|b].
    + rewrite abs_setv. reflexivity.
    + destruct (Inv_live s sv b _ I Gs) as [[L F] R].
      rewrite inc_setv_comm. rewrite (abs_store FPtr s _ d _ I (vars_inc s b) (sl_inc s b)).
      f_equal. apply abs_var_same; [apply sl_inc|]. intros b' E; inversion E; subst; exact L.
  - (* OAssign *)
    destruct B as [Bd Bs].
    destruct (getv s d) as [|rd od] eqn:Gd; [reflexivity|]. cbn [negb andb].
    destruct (getv s sv) as [|r o] eqn:Gs; [reflexivity|]. cbn [negb andb svars].
    pose proof (C _ _ _ Gs) as RO. subst o.
    assert (SH : forall f0, abs f (setv (release f0 (match r with HBlock b => inc s b | HNone => s end) rd) d (both r)) =
                            upd d (abs_var f s (VLive r r)) (abs f s)).
    { intros f0. apply (abs_share_store f f0 s d rd sv r r (both r) I Gs). intros sk. reflexivity. }
    destruct f.
    + destruct r as [|b].
      * change (abs FStr (setv (fst (alloc (release FStr s rd) 1 0 3)) d (both (HBlock (length (heap (release FStr s rd)))))) =
                upd d (snull FStr) (abs FStr s)).
        set (s1 := release FStr s rd).
        rewrite (abs_store FStr s _ d _ I).
        -- cbn [abs_var both]. rewrite getb_alloc_new. reflexivity.
        -- unfold s1. change (vars (fst (alloc (release FStr s rd) 1 0 3))) with (vars (release FStr s rd)). apply vars_release.
        -- eapply same_len_trans; [apply (sl_release FStr s rd)|apply sl_alloc].
      * destruct (Inv_live s sv b _ I Gs) as [[L F] R]. rewrite (touch_live _ _ F).
        destruct (rc (getb s b) =? 0) eqn:E; [apply Z.eqb_eq in E; lia|]. cbn [negb]. exact (SH FStr).
    + destruct (Nat.eqb d sv) eqn:E; cbn [is_var andb].
      * apply Nat.eqb_eq in E. subst sv. symmetry. apply upd_same_abs. rewrite Gs. reflexivity.
      * destruct r as [|b].
        -- apply (abs_drop FVar FVar s d rd (both HNone) I). intros sk. reflexivity.
        -- destruct (Inv_live s sv b _ I Gs) as [[L F] R]. rewrite (touch_live _ _ F).
           destruct (rc (getb s b) =? 0) eqn:E2; [apply Z.eqb_eq in E2; lia|]. cbn [negb]. exact (SH FVar).
    + apply (abs_share_store FPtr FPtr s d rd sv r r _ I Gs). intros sk. reflexivity.
    + cbn [is_var andb]. destruct r as [|b].
      * apply (abs_drop FXml FVar s d rd (both HNone) I). intros sk. reflexivity.
      * destruct (Inv_live s sv b _ I Gs) as [[L F] R]. rewrite (touch_live _ _ F).
        destruct (rc (getb s b) =? 0) eqn:E2; [apply Z.eqb_eq in E2; lia|]. cbn [negb]. exact (SH FVar).
  - (* OReset *)
    destruct (getv s v) as [|r o] eqn:G; [reflexivity|]. cbn [svars].
    pose proof (C _ _ _ G) as RO. subst o.
    assert (D : forall f0, abs f (setv (release f0 s r) v (both HNone)) = upd v (snull f) (abs f s)).
    { intros f0. apply (abs_drop f f0 s v r (both HNone) I). intros sk. reflexivity. }
    destruct f; try exact (D _).
    destruct r as [|b].
    + symmetry. apply upd_same_abs. rewrite G. reflexivity.
    + destruct (Inv_live s v b _ I G) as [[L F] R]. rewrite (touch_live _ _ F).
      destruct (rc (getb s b) =? 1) eqn:E.
      * apply Z.eqb_eq in E. rewrite (abs_write_inplace FStr s v b _ 0 I B G E). reflexivity.
      * exact (D FStr).
  - (* OSwap *)
    destruct B as [Ba Bb].
    destruct f; try reflexivity.
    destruct (getv s a) as [|ra oa] eqn:Ga; [reflexivity|]. cbn [negb andb].
    destruct (getv s b) as [|rb ob] eqn:Gb; [reflexivity|]. cbn [negb svars].
    destruct (Nat.eqb a b) eqn:E.
    + apply Nat.eqb_eq in E. subst b. rewrite Gb in Ga. inversion Ga; subst.
      rewrite (upd_same_abs FPtr s a _ ltac:(rewrite Gb; reflexivity)).
      rewrite (upd_same_abs FPtr s a _ ltac:(rewrite Gb; reflexivity)). reflexivity.
    + unfold ptr_swap. rewrite !abs_setv. reflexivity.
  - (* OAssignRaw *)
    destruct B as [Bd Bs].
    destruct f; try reflexivity.
    destruct (getv s d) as [|rd od] eqn:Gd; [reflexivity|]. cbn [negb andb].
    destruct (getv s sv) as [|r o] eqn:Gs; [reflexivity|]. cbn [negb andb svars].
    pose proof (C _ _ _ Gs) as RO. subst o.
    apply (abs_share_store FPtr FPtr s d rd sv r r _ I Gs). intros sk. reflexivity.
  - (* OAssignVal *)
    destruct f; try reflexivity; destruct (getv s v) as [|r o] eqn:G; try reflexivity; cbn [svars].
    + apply (abs_assign_val FVar s v r o c I eq_refl B G).
    + apply (abs_assign_val FXml s v r o c I eq_refl B G).
  - (* OWrite *)
    destruct f; try reflexivity; destruct (getv s v) as [|r o] eqn:G; try reflexivity; cbn [svars].
    + apply (abs_str_detach FStr s v r o (SPush m) I eq_refl B G).
    + apply (abs_var_detach FVar s v r o m I eq_refl ltac:(discriminate) B G).
    + apply (abs_var_detach FXml s v r o m I eq_refl ltac:(discriminate) B G).
  - (* ODetach *)
    destruct f; try reflexivity; destruct (getv s v) as [|r o] eqn:G; try reflexivity; cbn [svars].
    + apply (abs_str_detach FStr s v r o (SPush 0) I eq_refl B G).
    + apply (abs_var_detach FVar s v r o 0 I eq_refl ltac:(discriminate) B G).
    + apply (abs_var_detach FXml s v r o 0 I eq_refl ltac:(discriminate) B G).
  - (* ODestroy *)
    cbn [svars]. destruct (getv s v) as [|r o] eqn:G.
    + symmetry. apply upd_same_abs. rewrite G. reflexivity.
    + apply (abs_drop f f s v r VDead I). intros sk. reflexivity.
  - (* OResize *)
    destruct f; try reflexivity; destruct (getv s v) as [|r o] eqn:G; try reflexivity; cbn [svars].
    apply (abs_str_detach FStr s v r o (STrunc n) I eq_refl B G).
  - (* OReserve *)
    destruct f; try reflexivity; destruct (getv s v) as [|r o] eqn:G; try reflexivity; cbn [svars].
    apply (abs_str_detach FStr s v r o (SReserve n) I eq_refl B G).
  - (* OStrMod *)
    destruct f; try reflexivity; destruct (getv s v) as [|r o] eqn:G; try reflexivity; cbn [svars].
    apply (abs_str_detach FStr s v r o md I eq_refl B G).
  - (* OStrCatV *)
    destruct B as [Bd Bs].
    destruct f; try reflexivity.
    destruct (getv s d) as [|rd od] eqn:Gd; [reflexivity|]. cbn [negb andb].
    destruct (getv s sv) as [|rs os] eqn:Gs; [reflexivity|]. cbn [negb andb svars].
    pose proof (C _ _ _ Gs) as RO. subst os.
    assert (T : (match rs with HBlock b => touch s b | HNone => s end) = s).
    { destruct rs as [|b]; [reflexivity|]. destruct (Inv_live s sv b _ I Gs) as [[L F] R]. apply touch_live; exact F. }
    rewrite T.
    rewrite (touch_var_id _ sv (Inv_str_detach s d rd od _ I Bd Gd)).
    rewrite (abs_str_detach FStr s d rd od _ I eq_refl Bd Gd).
    destruct rs as [|b]; reflexivity.
  - (* ORetype *)
    destruct f; try reflexivity; destruct (getv s v) as [|r o] eqn:G; try reflexivity; cbn [svars].
    + apply (abs_retype FVar s v r o c I eq_refl B G).
    + apply (abs_retype FXml s v r o c I eq_refl B G).
Qed.

(* ---- whole histories (String, Variant, Xml::Variant: the value does not mention identities) ------------------- *)
Lemma spec_step_svars_ext f ss ss' o : is_ptr f = false -> svars ss = svars ss' ->
  svars (spec_step f ss o) = svars (spec_step f ss' o).
Proof.
  intros NP E. destruct ss as [l c], ss' as [l' c']. cbn [svars] in E. subst l'.
  destruct f; try discriminate; destruct o; unfold spec_step, sset, sget; cbn [svars screated];
  repeat match goal with |- context [if ?c then _ else _] => destruct c end; reflexivity.
Qed.

Theorem run_refines f ops : is_ptr f = false -> abs f (run f ops) = svars (spec_run f ops).
Proof.
  intros NP. unfold run, spec_run.
  assert (H : forall s ss, Inv s -> abs f s = svars ss ->
                           abs f (fold_left (step f) ops s) = svars (fold_left (spec_step f) ops ss)).
  { induction ops as [|o t IH]; intros s ss I E; [exact E|]. simpl. apply IH; [apply step_Inv; exact I|].
    rewrite (step_refines f s o I). apply spec_step_svars_ext; [exact NP|]. exact E. }
  apply H; [exact Inv_init|]. reflexivity.
Qed.

(* every step of every history, all four flavours *)
Theorem hist_step_refines f ops o :
  abs f (run f (ops ++ [o])) = svars (spec_step f (abs_state f (run f ops)) o).
Proof. rewrite run_app. simpl. apply step_refines. apply run_Inv. Qed.

(* what it means for the other variables: an operation changes the value read through the variables it
   names, and through no other *)
Theorem others_keep_their_value f ops o w :
  ~ In w (op_vars o) -> nth w (abs f (run f (ops ++ [o]))) SDead = nth w (abs f (run f ops)) SDead.
Proof.
  intros NI. rewrite hist_step_refines. set (s := run f ops).
  assert (U : forall v x l, v <> w -> nth w (upd v x l) SDead = nth w l SDead)
    by (intros v x l N; apply nth_upd_other; exact N).
  destruct o; cbn [op_vars In] in NI; unfold spec_step, sset; cbn [svars abs_state];
  repeat match goal with
         | |- context [match ?c with _ => _ end] => destruct c
         end; cbn [svars abs_state]; rewrite ?U by tauto; reflexivity.
Qed.

(* ---- RefCount::Ptr over whole histories: the identity of an object is the index of its block, and
        blocks are allocated by create only, so the Spec's object counter is the size of the heap ---------- *)
Lemma hl_raise s x : length (heap (raise s x)) = length (heap s).
Proof. unfold raise. destruct (flt s); reflexivity. Qed.
Lemma hl_touch s b : length (heap (touch s b)) = length (heap s).
Proof. unfold touch. destruct (freed (getb s b)); [apply hl_raise|reflexivity]. Qed.
Lemma hl_inc s b : length (heap (inc s b)) = length (heap s).
Proof. unfold inc. rewrite len_setb. apply hl_touch. Qed.
Lemma hl_free s b : length (heap (free_blk s b)) = length (heap s).
Proof. unfold free_blk. destruct (freed (getb s b)); [apply hl_raise|apply len_setb]. Qed.
Lemma hl_dec s b : length (heap (fst (dec s b))) = length (heap s).
Proof.
  unfold dec. cbn [fst]. rewrite len_setb.
  destruct (rc (getb (touch s b) b) - 1 <? 0); rewrite ?hl_raise; apply hl_touch.
Qed.
Lemma hl_release f s h : length (heap (release f s h)) = length (heap s).
Proof.
  destruct h as [|b]; [reflexivity|]. unfold release.
  destruct (is_ptr f || negb (rc (getb (touch s b) b) =? 0)); [|apply hl_touch].
  pose proof (hl_dec (touch s b) b) as D. destruct (dec (touch s b) b) as [s2 r]. cbn [fst] in D.
  destruct (r =? 0); [rewrite hl_free|]; rewrite D; apply hl_touch.
Qed.

Lemma hl_step_ptr s o : (forall v n, o <> OCreate v n) -> length (heap (step FPtr s o)) = length (heap s).
Proof.
  intros N. unfold step, step_gen. destruct (flt s); [reflexivity|].
  destruct (negb (forallb (fun v => Nat.ltb v (length (vars s))) (op_vars o))); [reflexivity|].
  destruct o; try (exfalso; eapply N; reflexivity); cbv zeta; unfold ptr_swap;
  repeat match goal with |- context [match ?x with _ => _ end] => destruct x end;
  cbn [heap setv]; rewrite ?hl_release, ?hl_inc; cbn [heap setv]; rewrite ?hl_release, ?hl_inc, ?hl_touch; cbn [heap setv]; reflexivity.
Qed.

Lemma created_step_other f ss o : (forall v n, o <> OCreate v n) -> screated (spec_step f ss o) = screated ss.
Proof.
  intros N. destruct o; try (exfalso; eapply N; reflexivity); unfold spec_step, sset;
  repeat match goal with |- context [match ?x with _ => _ end] => destruct x end; reflexivity.
Qed.

Lemma ptr_step_created s o : Inv s ->
  screated (spec_step FPtr (abs_state FPtr s) o) = length (heap (step FPtr s o)).
Proof.
  intros I. pose proof I as [W C].
  destruct o as [v n| | | | | | | | | | | | | | | | ];
    try (rewrite hl_step_ptr by discriminate; rewrite created_step_other by discriminate; reflexivity).
  unfold step, step_gen. rewrite (wf_flt _ _ W). cbn [op_vars forallb]. rewrite andb_true_r.
  unfold spec_step. rewrite sget_abs, is_dead_abs. cbn [svars abs_state]. rewrite abs_length.
  destruct (Nat.ltb v (length (vars s))) eqn:B; cbn [negb].
  - destruct (getv s v) eqn:G; cbn [andb screated]; [|reflexivity].
    unfold alloc. cbv beta iota zeta. rewrite hl_inc. cbn [heap setv]. rewrite app_length. simpl. lia.
  - rewrite andb_false_r. reflexivity.
Qed.

(* all four flavours, whole histories: the values (for Ptr: the identities) the Model's variables hold
   are those of the Spec *)
Theorem run_refines_all f ops :
  abs f (run f ops) = svars (spec_run f ops) /\
  (is_ptr f = true -> screated (spec_run f ops) = length (heap (run f ops))).
Proof.
  unfold run, spec_run.
  assert (H : forall s ss, Inv s -> abs f s = svars ss -> (is_ptr f = true -> screated ss = length (heap s)) ->
                           abs f (fold_left (step f) ops s) = svars (fold_left (spec_step f) ops ss) /\
                           (is_ptr f = true -> screated (fold_left (spec_step f) ops ss) = length (heap (fold_left (step f) ops s)))).
  { induction ops as [|o t IH]; intros s ss I E P; [split; assumption|]. simpl.
    destruct (is_ptr f) eqn:NP.
    - assert (ES : ss = abs_state f s).
      { destruct ss as [l c]. cbn [svars screated] in *. unfold abs_state. rewrite E, (P eq_refl). reflexivity. }
      subst ss. apply IH; [apply step_Inv; exact I|apply step_refines; exact I|].
      intros _. destruct f; try discriminate. apply ptr_step_created. exact I.
    - apply IH; [apply step_Inv; exact I| |intros X; discriminate].
      rewrite (step_refines f s o I). apply spec_step_svars_ext; [exact NP|]. exact E. }
  apply H; [exact Inv_init|reflexivity|reflexivity].
Qed.
