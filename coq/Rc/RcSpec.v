(* Reference object for C09.  It does not look at the code: no counters, no blocks, no sharing.

   String / Variant: every live variable holds its OWN value (pure value semantics).  A copy is
   a copy of the value, a modification changes that one variable only.  "Never modified in
   place while another handle still refers to it" is exactly: the implementation's values equal
   these values after every operation.

   RefCount::Ptr: a live variable holds the identity of an object (or null).  The set of objects
   that must exist after an operation is the set of identities held by some live variable
   (reachability, as a garbage collector would compute it); every other object ever created
   must have been destroyed, once: destroyed = created - |reachable|.

   "Released exactly once, after the last handle has gone" for String/Variant payloads is
   checked on the observations by the same reachability rule: live payload blocks = number of
   distinct payloads the live variables refer to (checks/C09.py, relational part). *)
From Coq Require Import ZArith List Bool Arith.
From Common Require Import ListAux.
From Rc Require Import RcModel.
Import ListNotations.
Local Open Scope Z_scope.

Inductive sval := SDead | SNull | SVal (id : nat) (n : Z).   (* id is only meaningful for Ptr; n = the contents (RcModel.push) *)
Record sstate := { svars : list sval; screated : nat }.

Definition sinit : sstate := {| svars := repeat SDead nvars; screated := 0 |}.
Definition sget (s : sstate) (v : nat) : sval := nth v (svars s) SDead.
Definition sset (s : sstate) (v : nat) (x : sval) : sstate := {| svars := upd v x (svars s); screated := screated s |}.
Definition is_dead (x : sval) : bool := match x with SDead => true | _ => false end.

(* String's null is the empty string (value 0); Variant's null is the null type *)
Definition snull (f : flavour) : sval := match f with FStr => SVal 0 0 | _ => SNull end.
Definition grow (f : flavour) (x : sval) (m : Z) : sval :=
  match x with
  | SVal i n => SVal i (push n m)
  | SNull => SVal 0 (push 0 m)   (* Variant: toList() of a non-list is a fresh empty list *)
  | SDead => SDead
  end.

(* a String modified through its own variable: append a marker, keep the first n markers, or (reserve) nothing *)
Definition smod (x : sval) (md : smode) : sval :=
  match x with
  | SVal i n => SVal i (str_newval md n)
  | SNull => SVal 0 (str_newval md 0)
  | SDead => SDead
  end.

Definition spec_step (f : flavour) (s : sstate) (o : op) : sstate :=
  match o with
  | OCreate v n =>
      (* a variable that does not exist holds nothing: no object is created for it *)
      if is_dead (sget s v) && Nat.ltb v (length (svars s)) then
        let id := match f with FPtr => screated s | _ => 0%nat end in
        {| svars := upd v (SVal id n) (svars s); screated := S (screated s) |}
      else s
  | ONull v => if is_dead (sget s v) then sset s v (snull f) else s
  | OCopy d sv =>
      if is_dead (sget s d) && negb (is_dead (sget s sv)) then sset s d (sget s sv) else s
  | OFromRaw d sv =>
      match f with
      | FPtr => if is_dead (sget s d) && negb (is_dead (sget s sv)) then sset s d (sget s sv) else s
      | _ => s
      end
  | OAssign d sv =>
      if negb (is_dead (sget s d)) && negb (is_dead (sget s sv)) then sset s d (sget s sv) else s
  | OReset v => if is_dead (sget s v) then s else sset s v (snull f)
  | OSwap a b =>
      match f with
      | FPtr => if negb (is_dead (sget s a)) && negb (is_dead (sget s b))
                then sset (sset s b (sget s a)) a (sget s b) else s
      | _ => s
      end
  | OAssignRaw d sv =>            (* a raw pointer to the object sv refers to: the same value as sv *)
      match f with
      | FPtr => if negb (is_dead (sget s d)) && negb (is_dead (sget s sv)) then sset s d (sget s sv) else s
      | _ => s
      end
  | OAssignVal v c =>
      match f with
      | FVar | FXml => if is_dead (sget s v) then s else sset s v (SVal 0 c)
      | _ => s
      end
  | OWrite v m => match f with FPtr => s | _ => if is_dead (sget s v) then s else sset s v (grow f (sget s v) m) end
  | ODetach v => match f with FPtr => s | _ => if is_dead (sget s v) then s else sset s v (grow f (sget s v) 0) end
  | ODestroy v => sset s v SDead
  | OResize v n => match f with FStr => if is_dead (sget s v) then s else sset s v (smod (sget s v) (STrunc n)) | _ => s end
  | OReserve v n => match f with FStr => if is_dead (sget s v) then s else sset s v (smod (sget s v) (SReserve n)) | _ => s end
  | OStrMod v md => match f with FStr => if is_dead (sget s v) then s else sset s v (smod (sget s v) md) | _ => s end
  | OStrCatV front d sv =>        (* the text of sv behind (in front of) the text of d; sv keeps its own *)
      match f with
      | FStr => if negb (is_dead (sget s d)) && negb (is_dead (sget s sv))
                then sset s d (smod (sget s d) (SCat front (match sget s sv with SVal _ n => n | _ => 0 end))) else s
      | _ => s
      end
  | ORetype v c =>
      match f with
      | FVar | FXml => if is_dead (sget s v) then s else sset s v (SVal 0 c)
      | _ => s
      end
  end.

Definition speek (s : sstate) (v : nat) : Z := match sget s v with SVal _ n => n | _ => 0 end.

Definition spec_run (f : flavour) (ops : list op) : sstate := fold_left (spec_step f) ops sinit.

(* reachability for Ptr: distinct identities held by live variables *)
Fixpoint ids_of (l : list sval) : list nat :=
  match l with
  | [] => []
  | SVal i _ :: t => i :: ids_of t
  | _ :: t => ids_of t
  end.
Definition reachable (s : sstate) : nat := length (nodup Nat.eq_dec (ids_of (svars s))).
Definition must_be_destroyed (s : sstate) : nat := (screated s - reachable s)%nat.
