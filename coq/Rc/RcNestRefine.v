(* Handles stored inside payloads: the counting machine RcNest.nstep computes what the counter-free reference
   object RcNest.pstep computes (same variables, same chains, same objects destroyed), for every history. *)
From Coq Require Import ZArith List Bool Arith Lia.
From Common Require Import ListAux.
From Rc Require Import RcModel RcProofs RcRefine RcNest RcNestProofs.
Import ListNotations.
Local Open Scope Z_scope.

(* ================= the reference object: destroying objects no handle refers to ====================== *)
Definition valid_kill (t : pstate) (i : nat) : Prop :=
  (i < length (pobjs t))%nat /\ palive (pgeto t i) = true /\ referenced t i = false.
Inductive kills : pstate -> pstate -> Prop :=
| kills_refl t : kills t t
| kills_step t i t' : valid_kill t i -> kills (pkill t i) t' -> kills t t'.
Definition settled (t : pstate) : Prop :=
  forall i, (i < length (pobjs t))%nat -> palive (pgeto t i) = true -> referenced t i = true.

Lemma kills_trans t1 t2 t3 : kills t1 t2 -> kills t2 t3 -> kills t1 t3.
Proof. intros H. induction H as [t|t i t' V K IH]; intros H3; [exact H3|]. apply (kills_step t i t3 V). apply IH, H3. Qed.
Lemma kills_one t i : valid_kill t i -> kills t (pkill t i).
Proof. intros V. apply (kills_step t i _ V). apply kills_refl. Qed.

Lemma pgeto_pkill_same t i : (i < length (pobjs t))%nat ->
  pgeto (pkill t i) i = {| palive := false; pn := pn (pgeto t i); pnext := pnext (pgeto t i) |}.
Proof. intros L. unfold pgeto, pkill; cbn [pobjs]. apply nth_upd_same. exact L. Qed.
Lemma pgeto_pkill_other t i j : i <> j -> pgeto (pkill t i) j = pgeto t j.
Proof. intros N. unfold pgeto, pkill; cbn [pobjs]. apply nth_upd_other. exact N. Qed.
Lemma len_pkill t i : length (pobjs (pkill t i)) = length (pobjs t).
Proof. unfold pkill; cbn [pobjs]. apply upd_length. Qed.

Lemma referenced_spec t i : referenced t i = true <->
  (exists v, pgetv t v = PObj i) \/
  (exists j, (j < length (pobjs t))%nat /\ palive (pgeto t j) = true /\ pnext (pgeto t j) = Some i).
Proof.
  unfold referenced. rewrite orb_true_iff, !existsb_exists. split.
  - intros [[x [X E]]|[o [X E]]].
    + left. destruct x as [| |j]; try discriminate. apply Nat.eqb_eq in E. subst j.
      destruct (In_nth _ _ PDead X) as (v & _ & G). exists v. exact G.
    + right. destruct (In_nth _ _ pdead_obj X) as (j & Lj & G). exists j. split; [exact Lj|].
      unfold pgeto. rewrite G. apply andb_true_iff in E. destruct E as [E1 E2]. split; [exact E1|].
      unfold opt_is in E2. destruct (pnext o) as [k|]; [|discriminate]. apply Nat.eqb_eq in E2. subst k. reflexivity.
  - intros [[v G]|[j (Lj & A & N)]].
    + left. exists (PObj i). split; [|apply Nat.eqb_refl].
      unfold pgetv in G. destruct (Nat.lt_ge_cases v (length (pvars t))) as [L|L].
      * rewrite <- G. apply nth_In. exact L.
      * rewrite nth_overflow in G by exact L. discriminate.
    + right. exists (pgeto t j). split; [unfold pgeto; apply nth_In; exact Lj|].
      rewrite A, N. cbn [andb opt_is]. apply Nat.eqb_refl.
Qed.

(* t2 is t with some more objects destroyed *)
Definition below (t t2 : pstate) : Prop :=
  pvars t2 = pvars t /\ length (pobjs t2) = length (pobjs t) /\
  forall j, pn (pgeto t2 j) = pn (pgeto t j) /\ pnext (pgeto t2 j) = pnext (pgeto t j) /\
            (palive (pgeto t2 j) = true -> palive (pgeto t j) = true).
Lemma below_refl t : below t t.
Proof. split; [reflexivity|]. split; [reflexivity|]. intros j. repeat split; auto. Qed.
Lemma below_trans t1 t2 t3 : below t1 t2 -> below t2 t3 -> below t1 t3.
Proof.
  intros (A1 & A2 & A3) (B1 & B2 & B3). split; [congruence|]. split; [congruence|]. intros j.
  destruct (A3 j) as (X1 & X2 & X3), (B3 j) as (Y1 & Y2 & Y3). repeat split; try congruence. auto.
Qed.
Lemma below_pkill t i : below t (pkill t i).
Proof.
  split; [reflexivity|]. split; [apply len_pkill|]. intros j.
  destruct (Nat.eq_dec i j) as [->|N].
  - destruct (Nat.lt_ge_cases j (length (pobjs t))) as [L|L].
    + rewrite pgeto_pkill_same by exact L. cbn [pn pnext palive]. repeat split; try reflexivity. discriminate.
    + unfold pgeto, pkill; cbn [pobjs]. rewrite !nth_overflow by (rewrite ?upd_length; exact L). repeat split; auto.
  - rewrite pgeto_pkill_other by exact N. repeat split; auto.
Qed.
Lemma kills_below t t' : kills t t' -> below t t'.
Proof. intros H. induction H as [t|t i t' V K IH]; [apply below_refl|]. eapply below_trans; [apply below_pkill|exact IH]. Qed.

Lemma referenced_mono t t2 i : below t t2 -> referenced t2 i = true -> referenced t i = true.
Proof.
  intros (A1 & A2 & A3) H. apply referenced_spec in H. apply referenced_spec. destruct H as [[v G]|[j (Lj & A & N)]].
  - left. exists v. unfold pgetv in *. rewrite <- A1. exact G.
  - right. exists j. destruct (A3 j) as (_ & X2 & X3). split; [rewrite <- A2; exact Lj|]. split; [auto|congruence].
Qed.

Lemma below_kill t t2 i : below t t2 -> settled t2 -> valid_kill t i -> below (pkill t i) t2.
Proof.
  intros B S (Li & Ai & Ri). pose proof B as (A1 & A2 & A3).
  assert (D : palive (pgeto t2 i) = false).
  { destruct (palive (pgeto t2 i)) eqn:E; [|reflexivity].
    pose proof (S i ltac:(rewrite A2; exact Li) E) as R2. rewrite (referenced_mono t t2 i B R2) in Ri. discriminate. }
  split; [exact A1|]. split; [rewrite len_pkill; exact A2|]. intros j.
  destruct (A3 j) as (X1 & X2 & X3). destruct (Nat.eq_dec i j) as [->|N].
  - rewrite pgeto_pkill_same by exact Li. cbn [pn pnext palive]. repeat split; try assumption. rewrite D. discriminate.
  - rewrite pgeto_pkill_other by exact N. repeat split; assumption.
Qed.

Lemma kills_confluent t t1 t2 : kills t t1 -> below t t2 -> settled t2 -> below t1 t2.
Proof.
  intros K. revert t2. induction K as [t|t i t' V K IH]; intros t2 B S; [exact B|].
  apply IH; [|exact S]. apply below_kill; assumption.
Qed.

Lemma pobj_eq (a b : pobj) : palive a = palive b -> pn a = pn b -> pnext a = pnext b -> a = b.
Proof. destruct a, b; simpl; intros; subst; reflexivity. Qed.

Theorem kills_unique t t1 t2 : kills t t1 -> settled t1 -> kills t t2 -> settled t2 -> t1 = t2.
Proof.
  intros K1 S1 K2 S2.
  pose proof (kills_confluent t t1 t2 K1 (kills_below t t2 K2) S2) as (A1 & A2 & A3).
  pose proof (kills_confluent t t2 t1 K2 (kills_below t t1 K1) S1) as (B1 & B2 & B3).
  destruct t1 as [v1 o1], t2 as [v2 o2]. cbn [pvars pobjs] in *. f_equal; [congruence|].
  apply (list_eq_nth _ _ pdead_obj); [congruence|]. intros j Lj.
  destruct (A3 j) as (X1 & X2 & X3), (B3 j) as (Y1 & Y2 & Y3). unfold pgeto in *; cbn [pobjs] in *.
  apply pobj_eq; try congruence.
  destruct (palive (nth j o1 pdead_obj)) eqn:E1, (palive (nth j o2 pdead_obj)) eqn:E2; try reflexivity.
  - discriminate (Y3 eq_refl).
  - discriminate (X3 eq_refl).
Qed.

(* the sweep is such a sequence, and it ends settled *)
Lemma unreferenced_alive_some t i : unreferenced_alive t = Some i -> valid_kill t i.
Proof.
  unfold unreferenced_alive. intros H. apply find_some in H. destruct H as [I E].
  apply in_seq in I. apply andb_true_iff in E. destruct E as [E1 E2]. apply negb_true_iff in E2.
  split; [lia|]. split; assumption.
Qed.
Lemma unreferenced_alive_none t : unreferenced_alive t = None -> settled t.
Proof.
  unfold unreferenced_alive. intros H i L A.
  pose proof (find_none _ _ H i ltac:(apply in_seq; lia)) as E. cbn beta in E. rewrite A in E. cbn [andb] in E.
  apply negb_false_iff in E. exact E.
Qed.
Lemma psweep_kills fuel : forall t, kills t (psweep fuel t).
Proof.
  induction fuel as [|fuel IH]; intros t; cbn [psweep]; [apply kills_refl|].
  destruct (unreferenced_alive t) as [i|] eqn:E; [|apply kills_refl].
  apply (kills_step t i _ (unreferenced_alive_some t i E)). apply IH.
Qed.
Definition ac (t : pstate) : Z := sumf (fun j => bz (palive (pgeto t j))) (length (pobjs t)).
Lemma ac_pkill t i : valid_kill t i -> ac (pkill t i) = ac t - 1.
Proof.
  intros (L & A & _). unfold ac. rewrite len_pkill.
  rewrite (sumf_upd1 (fun j => bz (palive (pgeto t j))) (fun j => bz (palive (pgeto (pkill t i) j))) _ i L).
  - rewrite pgeto_pkill_same by exact L. rewrite A. cbn. lia.
  - intros j _ N. rewrite pgeto_pkill_other by congruence. reflexivity.
Qed.
Lemma psweep_settled fuel : forall t, ac t <= Z.of_nat fuel -> settled (psweep fuel t).
Proof.
  induction fuel as [|fuel IH]; intros t H; cbn [psweep].
  - intros i L A. exfalso. assert (1 <= ac t); [|lia]. unfold ac.
    pose proof (sumf_ge (fun j => bz (palive (pgeto t j))) _ i L (fun j _ => bz_nonneg _)) as G. cbn beta in G. rewrite A in G. exact G.
  - destruct (unreferenced_alive t) as [i|] eqn:E; [|apply unreferenced_alive_none; exact E].
    apply IH. rewrite (ac_pkill t i (unreferenced_alive_some t i E)). lia.
Qed.
Lemma sweep_spec t : kills t (sweep t) /\ settled (sweep t).
Proof.
  split; [apply psweep_kills|]. apply psweep_settled. unfold ac. apply sumf_le_n. intros j _. apply bz_le1.
Qed.

(* whoever destroys objects without a handle, one at a time, until none is left, ends where the sweep ends *)
Theorem kills_is_sweep t t' : kills t t' -> settled t' -> t' = sweep t.
Proof. intros K S. destruct (sweep_spec t) as [K2 S2]. apply (kills_unique t t' (sweep t) K S K2 S2). Qed.

(* ================= the abstraction ================================================================== *)
Definition hopt (h : handle) : option nat := match h with HBlock b => Some b | HNone => None end.
Definition abs_var (x : nvar) : pval := match x with NDead => PDead | NLive h => pval_of (hopt h) end.
Definition abs_blk (al : nblock -> bool) (k : nblock) : pobj := {| palive := al k; pn := nval k; pnext := hopt (nnext k) |}.
Definition unfreedb (k : nblock) : bool := negb (nfreed k).
Definition gabs (al : nblock -> bool) (s : nstate) : pstate :=
  {| pvars := map abs_var (nvars s); pobjs := map (abs_blk al) (nheap s) |}.
(* what the property speaks of: an object exists until it is released *)
Definition nabs : nstate -> pstate := gabs unfreedb.
(* inside an operation: an object whose counter has reached 0 is already gone *)
Definition cabs : nstate -> pstate := gabs counted.

Definition okal (al : nblock -> bool) : Prop := al ndead_block = false /\ forall k h, al (with_nnext k h) = al k.
Lemma okal_unfreedb : okal unfreedb. Proof. split; reflexivity. Qed.
Lemma okal_counted : okal counted. Proof. split; reflexivity. Qed.

Lemma pgetv_gabs al s v : pgetv (gabs al s) v = abs_var (ngetv s v).
Proof. unfold pgetv, gabs, ngetv; cbn [pvars]. change PDead with (abs_var NDead). apply map_nth. Qed.
Lemma pgeto_gabs al s k : okal al -> pgeto (gabs al s) k = abs_blk al (ngetb s k).
Proof.
  intros [D _]. unfold pgeto, gabs, ngetb; cbn [pobjs].
  replace pdead_obj with (abs_blk al ndead_block) by (unfold abs_blk; rewrite D; reflexivity). apply map_nth.
Qed.
Lemma len_gabs al s : length (pobjs (gabs al s)) = length (nheap s).
Proof. unfold gabs; cbn [pobjs]. apply map_length. Qed.
Lemma lenv_gabs al s : length (pvars (gabs al s)) = length (nvars s).
Proof. unfold gabs; cbn [pvars]. apply map_length. Qed.

Lemma pstate_ext (t1 t2 : pstate) : pvars t1 = pvars t2 -> length (pobjs t1) = length (pobjs t2) ->
  (forall j, (j < length (pobjs t1))%nat -> pgeto t1 j = pgeto t2 j) -> t1 = t2.
Proof.
  destruct t1 as [v1 o1], t2 as [v2 o2]; cbn [pvars pobjs]. intros -> L H. f_equal.
  apply (list_eq_nth _ _ pdead_obj); [exact L|]. exact H.
Qed.

(* two states of the machine with the same variables and, block by block, the same abstraction *)
Lemma gabs_ext al s s' : okal al -> nvars s' = nvars s -> length (nheap s') = length (nheap s) ->
  (forall j, (j < length (nheap s))%nat -> abs_blk al (ngetb s' j) = abs_blk al (ngetb s j)) -> gabs al s' = gabs al s.
Proof.
  intros OK EV EL H. apply pstate_ext.
  - unfold gabs; cbn [pvars]. rewrite EV. reflexivity.
  - rewrite !len_gabs. exact EL.
  - intros j Lj. rewrite len_gabs, EL in Lj. rewrite !pgeto_gabs by exact OK. apply H. exact Lj.
Qed.

(* writing a location without the access check; a variable may also be given the value "not constructed" *)
Definition hv (x : nvar) : handle := match x with NLive h => h | NDead => HNone end.
Definition slot_putv (s : nstate) (X : slot) (x : nvar) : nstate :=
  match X with
  | SVar v => nsetv s v x
  | SNext k => nsetb s k (with_nnext (ngetb s k) (hv x))
  | SNo => s
  end.
Definition slot_put (s : nstate) (X : slot) (h : handle) : nstate := slot_putv s X (NLive h).
Lemma slot_set_put s X h : slot_touch s X = s -> slot_set s X h = slot_put s X h.
Proof. destruct X as [|v|k]; cbn [slot_set slot_put slot_putv slot_touch hv]; try reflexivity. intros ->. reflexivity. Qed.

Lemma pset_gabs al s X h : okal al -> pset (gabs al s) X (hopt h) = gabs al (slot_put s X h).
Proof.
  intros OK. destruct X as [|v|k]; cbn [pset slot_put slot_putv hv]; [reflexivity| |].
  - unfold gabs; cbn [pvars pobjs nsetv nvars nheap]. rewrite map_upd. reflexivity.
  - rewrite (pgeto_gabs al s k OK). unfold gabs; cbn [pvars pobjs nsetb nvars nheap]. rewrite map_upd.
    f_equal. f_equal. destruct OK as [_ E]. unfold abs_blk. rewrite E. reflexivity.
Qed.
Lemma pget_gabs al s X : okal al -> pget (gabs al s) X = hopt (slot_get s X).
Proof.
  intros OK. destruct X as [|v|k]; cbn [pget slot_get]; [reflexivity| |].
  - rewrite pgetv_gabs. destruct (ngetv s v) as [|[|b]]; reflexivity.
  - rewrite (pgeto_gabs al s k OK). reflexivity.
Qed.

Lemma ngetb_slot_putv s X x j : ngetb (slot_putv s X x) j =
  match X with
  | SNext k => if Nat.eqb k j && Nat.ltb j (length (nheap s)) then with_nnext (ngetb s k) (hv x) else ngetb s j
  | _ => ngetb s j
  end.
Proof.
  destruct X as [|v|k]; cbn [slot_putv]; try reflexivity.
  destruct (Nat.eqb_spec k j) as [->|N]; cbn [andb].
  - destruct (Nat.ltb_spec j (length (nheap s))) as [L|L].
    + apply ngetb_nsetb_same. exact L.
    + unfold ngetb, nsetb; cbn [nheap]. rewrite !nth_overflow by (rewrite ?upd_length; exact L). reflexivity.
  - apply ngetb_nsetb_other. exact N.
Qed.
Lemma len_slot_putv s X x : length (nheap (slot_putv s X x)) = length (nheap s).
Proof. destruct X; cbn [slot_putv]; try reflexivity. apply len_nsetb. Qed.

(* what a handle means for the reference object: X holds x, every other location counts as in hc *)
Lemma referenced_hc s X x b : X <> SNo -> referenced (cabs (slot_putv s X x)) b = true -> 1 <= hc X s b + bz (hb (hv x) b).
Proof.
  intros NS R. pose proof (hc_nonneg X s b) as HN. pose proof (bz_nonneg (hb (hv x) b)) as BN.
  apply referenced_spec in R. destruct R as [[v G]|[j (Lj & A & N)]].
  - unfold cabs in G. rewrite pgetv_gabs in G.
    destruct X as [|y|k]; [contradiction| |].
    + cbn [slot_putv] in G. destruct (Nat.eq_dec y v) as [->|NE].
      * destruct (Nat.lt_ge_cases v (length (nvars s))) as [Lv|Lv].
        -- rewrite ngetv_nsetv_same in G by exact Lv. destruct x as [|[|c]]; try discriminate. cbn in G. inversion G; subst c.
           cbn [hv hb]. rewrite Nat.eqb_refl. cbn [bz]. lia.
        -- unfold ngetv, nsetv in G; cbn [nvars] in G. rewrite nth_overflow in G by (rewrite upd_length; exact Lv). discriminate.
      * rewrite ngetv_nsetv_other in G by exact NE.
        destruct (ngetv s v) as [|[|c]] eqn:GV; try discriminate. cbn in G. inversion G; subst c.
        assert (1 <= hc (SVar y) s b); [|lia]. apply (vterm_hit (SVar y) s v b GV). cbn [is_svar]. destruct (Nat.eqb_spec y v); [contradiction|reflexivity].
    + cbn [slot_putv] in G. change (ngetv (nsetb s k (with_nnext (ngetb s k) (hv x))) v) with (ngetv s v) in G.
      destruct (ngetv s v) as [|[|c]] eqn:GV; try discriminate. cbn in G. inversion G; subst c.
      assert (1 <= hc (SNext k) s b); [|lia]. apply (vterm_hit (SNext k) s v b GV). reflexivity.
  - unfold cabs in Lj, A, N. rewrite len_gabs, len_slot_putv in Lj. rewrite (pgeto_gabs _ _ _ okal_counted) in A, N.
    cbn [abs_blk palive pnext] in A, N. rewrite ngetb_slot_putv in A, N.
    destruct X as [|y|k]; [contradiction| |].
    + assert (1 <= hc (SVar y) s b); [|lia]. apply (kterm_hit (SVar y) s j b Lj A); [|reflexivity].
      destruct (nnext (ngetb s j)) as [|c]; [discriminate|]. cbn in N. inversion N; reflexivity.
    + destruct (Nat.eqb_spec k j) as [->|NE]; cbn [andb] in A, N.
      * apply Nat.ltb_lt in Lj. rewrite Lj in A, N. cbn [with_nnext nnext] in N.
        destruct (hv x) as [|c]; [discriminate|]. cbn in N. inversion N; subst c. cbn [hb]. rewrite Nat.eqb_refl. cbn [bz]. lia.
      * assert (1 <= hc (SNext k) s b); [|lia]. apply (kterm_hit (SNext k) s j b Lj A).
        -- destruct (nnext (ngetb s j)) as [|c]; [discriminate|]. cbn in N. inversion N; reflexivity.
        -- cbn [is_snext]. destruct (Nat.eqb_spec k j); [contradiction|reflexivity].
Qed.

(* states that agree block by block (as the reference object sees them) still agree after the same write *)
Lemma cabs_putv_ext s s' X x : nvars s' = nvars s -> length (nheap s') = length (nheap s) ->
  (forall j, (j < length (nheap s))%nat -> counted (ngetb s' j) = counted (ngetb s j) /\ nval (ngetb s' j) = nval (ngetb s j) /\
                                            nnext (ngetb s' j) = nnext (ngetb s j)) ->
  cabs (slot_putv s' X x) = cabs (slot_putv s X x).
Proof.
  intros EV EL H. apply pstate_ext.
  - unfold cabs, gabs; cbn [pvars]. destruct X as [|v|k]; cbn [slot_putv nsetv nsetb nvars]; rewrite EV; reflexivity.
  - unfold cabs. rewrite !len_gabs, !len_slot_putv. exact EL.
  - intros j Lj. unfold cabs in *. rewrite len_gabs, len_slot_putv, EL in Lj.
    rewrite !(pgeto_gabs _ _ _ okal_counted). rewrite !ngetb_slot_putv. rewrite EL.
    destruct X as [|v|k]; try (destruct (H j Lj) as (A & B & C); unfold abs_blk; rewrite A, B, C; reflexivity).
    destruct (Nat.eqb k j && Nat.ltb j (length (nheap s))) eqn:E.
    + apply andb_true_iff in E. destruct E as [E1 E2]. apply Nat.eqb_eq in E1. subst k.
      destruct (H j Lj) as (A & B & C). unfold abs_blk, counted in *. cbn [with_nnext nfreed nrc nval nnext]. rewrite A, B. reflexivity.
    + destruct (H j Lj) as (A & B & C); unfold abs_blk; rewrite A, B, C; reflexivity.
Qed.

(* ================= the cascade is a sequence of such destructions ===================================== *)
Lemma nrelease_kills fuel : forall s X x b,
  X <> SNo -> wfn s X (fun c => bz (hb (hv x) c) + bz (Nat.eqb c b)) ->
  (forall K, X = SNext K -> prot s X K) -> mz s < Z.of_nat fuel ->
  kills (cabs (slot_putv s X x)) (cabs (slot_putv (nrelease fuel s (HBlock b)) X x)).
Proof.
  induction fuel as [|fuel IH]; intros s X x b NS W PX FU; [pose proof (mz_nonneg s); lia|].
  set (adj := fun c => bz (hb (hv x) c) + bz (Nat.eqb c b)) in *.
  assert (HA : 1 <= adj b) by (unfold adj; rewrite Nat.eqb_refl; pose proof (bz_nonneg (hb (hv x) b)); cbn [bz]; lia).
  pose proof (hc_nonneg X s b) as HN.
  destruct (held_unfreed s X adj b W ltac:(lia)) as [L F].
  destruct (wn_blk _ _ _ W b L) as [_ A]. destruct (A F) as [A1 A2].
  cbn [nrelease].
  assert (D : ndec s b = nsetb s b (with_nrc (ngetb s b) (nrc (ngetb s b) - 1))).
  { unfold ndec. rewrite (ntouch_unfreed _ _ F). destruct (nrc (ngetb s b) - 1 <? 0) eqn:EU; [apply Z.ltb_lt in EU; lia|reflexivity]. }
  assert (G1 : ngetb (ndec s b) b = with_nrc (ngetb s b) (nrc (ngetb s b) - 1)) by (rewrite D; apply ngetb_nsetb_same; exact L).
  assert (GO : forall j, j <> b -> ngetb (ndec s b) j = ngetb s j) by (intros j N; rewrite D; apply ngetb_nsetb_other; congruence).
  assert (ST1 : same_static s (ndec s b)) by (rewrite D; apply same_static_nsetb; reflexivity).
  rewrite G1. cbn [with_nrc nrc].
  destruct (nrc (ngetb s b) - 1 =? 0) eqn:EZ.
  - apply Z.eqb_eq in EZ. assert (R1 : nrc (ngetb s b) = 1) by lia.
    assert (HB : hb (hv x) b = false).
    { destruct (hb (hv x) b) eqn:E; [|reflexivity]. unfold adj in A1. rewrite E, Nat.eqb_refl in A1. cbn [bz] in A1. lia. }
    assert (HC0 : hc X s b = 0) by (unfold adj in A1; rewrite HB, Nat.eqb_refl in A1; cbn [bz] in A1; lia).
    assert (NX : is_snext X b = false).
    { destruct X as [|y|y]; try reflexivity. cbn [is_snext]. destruct (Nat.eqb_spec y b) as [->|]; [|reflexivity].
      destruct (prot_held s (SNext b) adj b W (PX b eq_refl)) as (_ & _ & P1 & _). lia. }
    assert (NK : forall K, X = SNext K -> K <> b).
    { intros K -> ->. cbn [is_snext] in NX. rewrite Nat.eqb_refl in NX. discriminate. }
    pose proof (wfn_ndec_zero s X adj b W L F HA R1 NX) as W1.
    set (s1 := ndec s b) in *.
    assert (F1 : nfreed (ngetb s1 b) = false) by (rewrite G1; exact F).
    rewrite (ntouch_unfreed _ _ F1). rewrite G1. cbn [with_nrc nnext].
    assert (L1 : (b < length (nheap s1))%nat) by (destruct ST1 as (_ & E & _); rewrite E; exact L).
    assert (M1 : mz s1 = mz s - 1).
    { rewrite D, mz_nsetb by exact L. unfold counted. cbn [with_nrc nfreed nrc]. rewrite F, R1. cbn. lia. }
    assert (R0 : nrc (ngetb s1 b) = 0) by (rewrite G1; cbn [with_nrc nrc]; lia).
    (* the object b goes *)
    assert (GB : ngetb (slot_putv s X x) b = ngetb s b).
    { rewrite ngetb_slot_putv. destruct X as [|y|y]; try reflexivity.
      destruct (Nat.eqb_spec y b) as [->|]; [exfalso; apply (NK b eq_refl); reflexivity|reflexivity]. }
    assert (V : valid_kill (cabs (slot_putv s X x)) b).
    { split; [unfold cabs; rewrite len_gabs, len_slot_putv; exact L|]. split.
      - unfold cabs. rewrite (pgeto_gabs _ _ _ okal_counted). cbn [abs_blk palive]. rewrite GB.
        unfold counted. rewrite F, R1. reflexivity.
      - destruct (referenced (cabs (slot_putv s X x)) b) eqn:E; [|reflexivity].
        pose proof (referenced_hc s X x b NS E). rewrite HB in H. cbn [bz] in H. lia. }
    assert (EK : pkill (cabs (slot_putv s X x)) b = cabs (slot_putv s1 X x)).
    { apply pstate_ext.
      - unfold pkill, cabs, gabs; cbn [pvars]. destruct ST1 as (EV & _).
        destruct X as [|y|y]; cbn [slot_putv nsetv nsetb nvars]; rewrite ?EV; reflexivity.
      - rewrite len_pkill. unfold cabs. rewrite !len_gabs, !len_slot_putv. destruct ST1 as (_ & E & _). symmetry. exact E.
      - intros j Lj. rewrite len_pkill in Lj. unfold cabs in Lj. rewrite len_gabs, len_slot_putv in Lj.
        destruct (Nat.eq_dec b j) as [<-|N].
        + rewrite pgeto_pkill_same by (unfold cabs; rewrite len_gabs, len_slot_putv; exact L).
          unfold cabs. rewrite !(pgeto_gabs _ _ _ okal_counted). rewrite GB.
          assert (GB1 : ngetb (slot_putv s1 X x) b = ngetb s1 b).
          { rewrite ngetb_slot_putv. destruct X as [|y|y]; try reflexivity.
            destruct (Nat.eqb_spec y b) as [->|]; [exfalso; apply (NK b eq_refl); reflexivity|reflexivity]. }
          rewrite GB1, G1. unfold abs_blk, counted. cbn [with_nrc nfreed nrc nval nnext palive pn pnext].
          rewrite F, EZ. reflexivity.
        + rewrite pgeto_pkill_other by exact N. unfold cabs. rewrite !(pgeto_gabs _ _ _ okal_counted).
          rewrite !ngetb_slot_putv. destruct ST1 as (_ & EL & _). rewrite EL.
          destruct X as [|y|y]; try (rewrite GO by congruence; reflexivity).
          rewrite (GO y) by (apply NK; reflexivity). rewrite (GO j) by congruence. reflexivity. }
    assert (FREE : forall s3, ngetb s3 b = ngetb s1 b -> length (nheap s3) = length (nheap s1) ->
                   cabs (slot_putv (nfree s3 b) X x) = cabs (slot_putv s3 X x)).
    { intros s3 G3 EL3. unfold nfree. rewrite G3, F1. apply cabs_putv_ext; [reflexivity|apply len_nsetb|].
      intros j Lj. destruct (Nat.eq_dec b j) as [<-|N].
      - rewrite ngetb_nsetb_same by (rewrite EL3; exact L1). rewrite G3. unfold counted. cbn [nfreed nrc nval nnext].
        rewrite F1, R0. repeat split; reflexivity.
      - rewrite ngetb_nsetb_other by exact N. repeat split; reflexivity. }
    destruct (nnext (ngetb s b)) as [|c] eqn:NB.
    + rewrite nrelease_none. rewrite (FREE s1 eq_refl eq_refl). rewrite <- EK. apply kills_one. exact V.
    + assert (W1' : wfn s1 X (fun c0 => bz (hb (hv x) c0) + bz (Nat.eqb c0 c))).
      { eapply wfn_ext; [exact W1|]. intros y. unfold adj. cbn [hb]. rewrite (Nat.eqb_sym c y). lia. }
      assert (PX1 : forall K, X = SNext K -> prot s1 X K) by (intros K E; apply (prot_static s s1 X K ST1), PX, E).
      pose proof (IH s1 X x c NS W1' PX1 ltac:(lia)) as K3.
      assert (HA1 : 1 <= (fun c0 => bz (hb (hv x) c0) + bz (Nat.eqb c0 c)) c)
        by (cbn beta; rewrite Nat.eqb_refl; pose proof (bz_nonneg (hb (hv x) c)); cbn [bz]; lia).
      destruct (nrelease_ok fuel s1 X _ c W1' HA1 PX1 ltac:(lia)) as (_ & ST3 & FR3 & _).
      set (s3 := nrelease fuel s1 (HBlock c)) in *.
      assert (G3 : ngetb s3 b = ngetb s1 b) by (apply FR3; assumption).
      assert (EL3 : length (nheap s3) = length (nheap s1)) by (destruct ST3 as (_ & E & _); exact E).
      rewrite (FREE s3 G3 EL3). apply (kills_step _ b _ V). rewrite EK. exact K3.
  - (* other references remain: nothing changes for the reference object *)
    apply Z.eqb_neq in EZ.
    rewrite (cabs_putv_ext s (ndec s b) X x); [apply kills_refl|destruct ST1 as (E & _); exact E|destruct ST1 as (_ & E & _); exact E|].
    intros j Lj. destruct (Nat.eq_dec b j) as [<-|N].
    + rewrite G1. unfold counted. cbn [with_nrc nfreed nrc nval nnext]. rewrite F. cbn [negb andb].
      split; [|split; reflexivity].
      destruct (0 <? nrc (ngetb s b) - 1) eqn:E1; destruct (0 <? nrc (ngetb s b)) eqn:E2; try reflexivity;
        [apply Z.ltb_lt in E1; apply Z.ltb_ge in E2; lia|apply Z.ltb_ge in E1; apply Z.ltb_lt in E2; lia].
    + rewrite GO by congruence. repeat split; reflexivity.
Qed.

(* ================= between operations ===================================================================== *)
Lemma nabs_cabs s : nozero s -> nabs s = cabs s.
Proof.
  intros NZ. unfold nabs, cabs. apply pstate_ext; [reflexivity|rewrite !len_gabs; reflexivity|].
  intros j Lj. rewrite len_gabs in Lj. rewrite (pgeto_gabs _ _ _ okal_unfreedb), (pgeto_gabs _ _ _ okal_counted).
  unfold abs_blk, unfreedb, counted. destruct (nfreed (ngetb s j)) eqn:F; [reflexivity|]. cbn [negb andb].
  pose proof (NZ j Lj F). destruct (0 <? nrc (ngetb s j)) eqn:E; [reflexivity|apply Z.ltb_ge in E; lia].
Qed.

Lemma sumf_pos_ex f n : 1 <= sumf f n -> (forall i, (i < n)%nat -> 0 <= f i) -> exists i, (i < n)%nat /\ 1 <= f i.
Proof.
  induction n as [|n IH]; intros H P; [cbn in H; lia|]. cbn [sumf] in H.
  destruct (Z_lt_le_dec (f n) 1) as [S0|S1].
  - pose proof (P n ltac:(lia)). destruct IH as (i & Li & Hi); [lia|intros i Hi; apply P; lia|]. exists i. split; [lia|exact Hi].
  - exists n. split; [lia|exact S1].
Qed.

(* every object that exists has a handle: the reference object has nothing left to destroy *)
Lemma NInv_settled s : NInv s -> settled (nabs s).
Proof.
  intros [W NZ] i Li A. unfold nabs in *. rewrite len_gabs in Li. rewrite (pgeto_gabs _ _ _ okal_unfreedb) in A.
  cbn [abs_blk palive] in A. unfold unfreedb in A. apply negb_true_iff in A.
  destruct (wn_blk _ _ _ W i Li) as [_ B]. destruct (B A) as [B1 _]. pose proof (NZ i Li A) as R. unfold zero in B1.
  assert (H : 1 <= hc SNo s i) by lia. unfold hc in H.
  apply referenced_spec.
  destruct (Z_lt_le_dec (sumf (vterm SNo s i) (length (nvars s))) 1) as [S0|S1].
  - right. destruct (sumf_pos_ex (kterm SNo s i) (length (nheap s))) as (k & Lk & Hk); [lia|intros; apply kterm_nonneg|].
    unfold kterm in Hk. cbn [is_snext] in Hk. destruct (counted (ngetb s k)) eqn:C; [|lia].
    exists k. rewrite len_gabs, (pgeto_gabs _ _ _ okal_unfreedb). cbn [abs_blk palive pnext]. split; [exact Lk|].
    unfold counted in C. unfold unfreedb. apply andb_true_iff in C. destruct C as [C _]. split; [exact C|].
    destruct (nnext (ngetb s k)) as [|c]; [cbn in Hk; lia|]. cbn [hb] in Hk. destruct (Nat.eqb_spec c i); [subst; reflexivity|cbn in Hk; lia].
  - left. destruct (sumf_pos_ex (vterm SNo s i) (length (nvars s))) as (v & Lv & Hv); [exact S1|intros; apply vterm_nonneg|].
    unfold vterm in Hv. cbn [is_svar] in Hv. exists v. rewrite pgetv_gabs.
    destruct (ngetv s v) as [|[|c]]; try (cbn in Hv; lia). cbn [hb] in Hv. destruct (Nat.eqb_spec c i); [subst; reflexivity|cbn in Hv; lia].
Qed.

Lemma nozero_putv s X x : nozero s -> nozero (slot_putv s X x).
Proof.
  intros NZ c Lc Fc. rewrite len_slot_putv in Lc. rewrite ngetb_slot_putv in Fc |- *.
  destruct X as [|v|k]; try (apply NZ; assumption).
  destruct (Nat.eqb k c && Nat.ltb c (length (nheap s))) eqn:E; [|apply NZ; assumption].
  apply andb_true_iff in E. destruct E as [E _]. apply Nat.eqb_eq in E. subst k.
  cbn [with_nnext nfreed nrc] in Fc |- *. apply NZ; assumption.
Qed.

(* release the old value rd of X and store x there: what is left is the sweep of the state in which X holds x *)
Lemma release_store_refines s X x rd : X <> SNo ->
  wfn s X (fun c => bz (hb (hv x) c) + bz (hb rd c)) -> (forall K, X = SNext K -> prot s X K) ->
  let s3 := slot_putv (nrelease (nfuel s) s rd) X x in
  NInv s3 -> nabs s3 = sweep (cabs (slot_putv s X x)).
Proof.
  intros NS W PX s3 I3. apply kills_is_sweep; [|apply NInv_settled; exact I3].
  rewrite (nabs_cabs s3 (proj2 I3)). unfold s3. destruct rd as [|r].
  - rewrite nrelease_none. apply kills_refl.
  - apply nrelease_kills; [exact NS| |exact PX|unfold nfuel; pose proof (mz_le_len s); lia].
    eapply wfn_ext; [exact W|]. intros c. cbn [hb]. rewrite (Nat.eqb_sym c r). reflexivity.
Qed.

(* ================= every operation ==================================================================================== *)
Lemma pwalk_gabs al s : okal al -> forall k i, pwalk (gabs al s) i k = walk_to s i k.
Proof.
  intros OK. induction k as [|k IH]; intros i; cbn [pwalk walk_to]; [reflexivity|].
  rewrite (pgeto_gabs al s i OK). cbn [abs_blk pnext]. destruct (nnext (ngetb s i)) as [|c]; cbn [hopt]; [reflexivity|apply IH].
Qed.
Lemma presolve_gabs al s v k : okal al -> presolve (gabs al s) v k = resolve s v k.
Proof.
  intros OK. unfold presolve, resolve. rewrite pgetv_gabs.
  destruct k as [|k]; destruct (ngetv s v) as [|[|b]]; cbn [abs_var hopt pval_of]; try reflexivity.
  rewrite (pwalk_gabs al s OK). reflexivity.
Qed.
Lemma abs_var_dead x : abs_var x = PDead <-> x = NDead.
Proof. destruct x as [|[|b]]; cbn; split; intros H; try reflexivity; discriminate. Qed.

Lemma nabs_same_blocks s s' : nvars s' = nvars s -> length (nheap s') = length (nheap s) ->
  (forall j, (j < length (nheap s))%nat -> nfreed (ngetb s' j) = nfreed (ngetb s j) /\ nval (ngetb s' j) = nval (ngetb s j) /\
                                            nnext (ngetb s' j) = nnext (ngetb s j)) -> nabs s' = nabs s.
Proof.
  intros EV EL H. apply (gabs_ext unfreedb s s' okal_unfreedb EV EL). intros j Lj.
  destruct (H j Lj) as (A & B & C). unfold abs_blk, unfreedb. rewrite A, B, C. reflexivity.
Qed.
Lemma nabs_ninc s b : nfreed (ngetb s b) = false -> nabs (ninc s b) = nabs s.
Proof.
  intros F. rewrite (ninc_eq s b F). apply nabs_same_blocks; [reflexivity|apply len_nsetb|].
  intros j Lj. destruct (Nat.eq_dec b j) as [<-|N].
  - rewrite ngetb_nsetb_same by exact Lj. repeat split; reflexivity.
  - rewrite ngetb_nsetb_other by exact N. repeat split; reflexivity.
Qed.
Lemma nabs_nsetv s v x : nabs (nsetv s v x) = {| pvars := upd v (abs_var x) (pvars (nabs s)); pobjs := pobjs (nabs s) |}.
Proof. unfold nabs, gabs; cbn [pvars pobjs nsetv nvars nheap]. rewrite map_upd. reflexivity. Qed.

Lemma assign_refines s Dst Src : NInv s -> slot_ok s Dst -> Dst <> SNo -> slot_ok s Src ->
  (forall K, Dst = SNext K -> prot s SNo K) ->
  nabs (nassign false s Dst Src) = sweep (pset (nabs s) Dst (pget (nabs s) Src)).
Proof.
  intros I OKD ND OKS PD.
  pose proof (NInv_assign s Dst Src I OKD ND OKS PD) as I3. revert I3.
  unfold nassign. cbv zeta. rewrite (slot_touch_ok s Src OKS).
  set (h := slot_get s Src).
  assert (HL : forall b, h = HBlock b -> (b < length (nheap s))%nat /\ nfreed (ngetb s b) = false /\ 1 <= nrc (ngetb s b))
    by (intros b E; apply (slot_handle_live s Src b I OKS E)).
  destruct (share_phase s h I HL) as (W1 & ST1 & NZ1 & CM1).
  set (s1 := match h with HBlock b => ninc s b | HNone => s end) in *.
  pose proof (slot_ok_static s s1 Dst ST1 CM1 OKD) as OKD1.
  rewrite (slot_touch_ok s1 Dst OKD1).
  pose proof (wfn_exclude s1 Dst _ W1 OKD1) as W1x.
  assert (PX1 : forall K, Dst = SNext K -> prot s1 Dst K).
  { intros K E. subst Dst. apply (prot_static s s1 _ K ST1). apply prot_holder. apply (PD K eq_refl). }
  destruct (release_phase s1 Dst _ (slot_get s1 Dst) W1x NZ1 PX1) as (W2 & ST2 & NZ2).
  { intros c. pose proof (bz_nonneg (hb h c)). lia. }
  set (s2 := nrelease (nfuel s1) s1 (slot_get s1 Dst)) in *.
  assert (T2 : slot_touch s2 Dst = s2).
  { destruct Dst as [|v|K]; try reflexivity. cbn [slot_touch]. apply ntouch_unfreed.
    destruct (prot_held s2 (SNext K) _ K W2 (prot_static s1 s2 _ K ST2 (PX1 K eq_refl))) as (_ & F & _). exact F. }
  rewrite (slot_set_put s2 Dst h T2). intros I3.
  unfold slot_put. unfold s2.
  rewrite (release_store_refines s1 Dst (NLive h) (slot_get s1 Dst) ND W1x PX1 I3).
  f_equal.
  (* the state the sweep starts from *)
  unfold nabs at 1 2. rewrite (pget_gabs _ s Src okal_unfreedb). fold h. rewrite (pset_gabs _ s Dst h okal_unfreedb).
  change (gabs unfreedb (slot_put s Dst h)) with (nabs (slot_putv s Dst (NLive h))).
  rewrite (nabs_cabs _ (nozero_putv s Dst (NLive h) (proj2 I))).
  apply cabs_putv_ext; [destruct ST1 as (E & _); exact E|destruct ST1 as (_ & E & _); exact E|].
  intros j Lj. unfold s1. destruct h as [|b]; [repeat split; reflexivity|].
  destruct (HL b eq_refl) as (Lb & Fb & Rb). rewrite (ninc_eq s b Fb).
  destruct (Nat.eq_dec b j) as [<-|N].
  - rewrite ngetb_nsetb_same by exact Lb. unfold counted. cbn [with_nrc nfreed nrc nval nnext]. rewrite Fb. cbn [negb andb].
    split; [|split; reflexivity].
    destruct (0 <? nrc (ngetb s b) + 1) eqn:E1; destruct (0 <? nrc (ngetb s b)) eqn:E2; try reflexivity;
      [apply Z.ltb_ge in E2; lia|apply Z.ltb_ge in E1; lia].
  - rewrite ngetb_nsetb_other by exact N. repeat split; reflexivity.
Qed.

Lemma reset_refines s Dst : NInv s -> slot_ok s Dst -> Dst <> SNo -> (forall K, Dst = SNext K -> prot s SNo K) ->
  nabs (slot_set (nrelease (nfuel s) s (slot_get s Dst)) Dst HNone) = sweep (pset (nabs s) Dst None).
Proof.
  intros I OKD ND PD. pose proof (NInv_reset s Dst I OKD ND PD) as I3. revert I3.
  destruct I as [W NZ].
  pose proof (wfn_exclude s Dst _ W OKD) as Wx.
  assert (PX : forall K, Dst = SNext K -> prot s Dst K) by (intros K E; subst Dst; apply prot_holder, (PD K eq_refl)).
  destruct (release_phase s Dst _ (slot_get s Dst) Wx NZ PX) as (W2 & ST2 & NZ2).
  { intros c. unfold zero. lia. }
  set (s2 := nrelease (nfuel s) s (slot_get s Dst)) in *.
  assert (T2 : slot_touch s2 Dst = s2).
  { destruct Dst as [|v|K]; try reflexivity. cbn [slot_touch]. apply ntouch_unfreed.
    destruct (prot_held s2 (SNext K) _ K W2 (prot_static s s2 _ K ST2 (PX K eq_refl))) as (_ & F & _). exact F. }
  rewrite (slot_set_put s2 Dst HNone T2). intros I3. unfold slot_put, s2.
  rewrite (release_store_refines s Dst (NLive HNone) (slot_get s Dst) ND).
  - f_equal. change None with (hopt HNone). unfold nabs. rewrite (pset_gabs _ s Dst HNone okal_unfreedb).
    change (gabs unfreedb (slot_put s Dst HNone)) with (nabs (slot_putv s Dst (NLive HNone))).
    rewrite (nabs_cabs _ (nozero_putv s Dst (NLive HNone) NZ)). reflexivity.
  - eapply wfn_ext; [exact Wx|]. intros c. cbn [hv hb bz]. unfold zero. lia.
  - exact PX.
  - exact I3.
Qed.

Lemma destroy_refines s v h : NInv s -> ngetv s v = NLive h ->
  nabs (nsetv (nrelease (nfuel s) s h) v NDead) = sweep {| pvars := upd v PDead (pvars (nabs s)); pobjs := pobjs (nabs s) |}.
Proof.
  intros I G. pose proof (NInv_destroy s v h I G) as I3. destruct I as [W NZ].
  pose proof (ngetv_live_range _ _ _ G) as Lv.
  pose proof (wfn_exclude s (SVar v) _ W Lv) as Wx. cbn [slot_get] in Wx. rewrite G in Wx.
  change (nsetv (nrelease (nfuel s) s h) v NDead) with (slot_putv (nrelease (nfuel s) s h) (SVar v) NDead) in I3 |- *.
  rewrite (release_store_refines s (SVar v) NDead h); [|discriminate| |discriminate|exact I3].
  - f_equal. rewrite <- (nabs_cabs _ (nozero_putv s (SVar v) NDead NZ)). cbn [slot_putv]. apply nabs_nsetv.
  - eapply wfn_ext; [exact Wx|]. intros c. cbn [hv hb bz]. unfold zero. lia.
Qed.

Lemma nabs_nalloc s n : nabs (nalloc s n) =
  {| pvars := pvars (nabs s); pobjs := pobjs (nabs s) ++ [{| palive := true; pn := n; pnext := None |}] |}.
Proof. unfold nabs, gabs, nalloc; cbn [pvars pobjs nvars nheap]. rewrite map_app. reflexivity. Qed.

Lemma pgetv_nabs s v : pgetv (nabs s) v = abs_var (ngetv s v).
Proof. apply pgetv_gabs. Qed.
Lemma presolve_nabs s v k : presolve (nabs s) v k = resolve s v k.
Proof. apply presolve_gabs, okal_unfreedb. Qed.
Lemma pget_nabs s X : pget (nabs s) X = hopt (slot_get s X).
Proof. apply pget_gabs, okal_unfreedb. Qed.
Lemma len_nabs s : length (pobjs (nabs s)) = length (nheap s).
Proof. apply len_gabs. Qed.
Lemma pgeto_nabs s k : pgeto (nabs s) k = abs_blk unfreedb (ngetb s k).
Proof. apply pgeto_gabs, okal_unfreedb. Qed.

Theorem nstep_refines s o : NInv s -> nabs (nstep s o) = pstep (nabs s) o.
Proof.
  intros I. pose proof I as [W NZ]. unfold nstep, nstep_gen, pstep. rewrite (wn_flt _ _ _ W).
  replace (length (pvars (nabs s))) with (length (nvars s)) by (symmetry; apply lenv_gabs).
  destruct (negb (forallb (fun v => Nat.ltb v (length (nvars s))) (nop_vars o))) eqn:B; [reflexivity|].
  apply negb_false_iff in B.
  destruct o as [v n|v|d sv sk|how dv dk sv sk|dv dk|v]; cbn [nop_vars forallb] in B;
  rewrite ?andb_true_r, ?andb_true_iff, ?Nat.ltb_lt in B.
  - (* NCreate *)
    rewrite pgetv_nabs. destruct (ngetv s v) as [|h] eqn:G; cbn [abs_var].
    + rewrite nabs_ninc.
      * rewrite nabs_nsetv, nabs_nalloc. cbn [pvars pobjs abs_var hopt pval_of]. rewrite len_nabs. reflexivity.
      * change (ngetb (nsetv (nalloc s n) v (NLive (HBlock (length (nheap s))))) (length (nheap s))) with (ngetb (nalloc s n) (length (nheap s))).
        rewrite ngetb_nalloc_new. reflexivity.
    + destruct h; reflexivity.
  - (* NNull *)
    rewrite pgetv_nabs. destruct (ngetv s v) as [|h] eqn:G; cbn [abs_var].
    + apply nabs_nsetv.
    + destruct h; reflexivity.
  - (* NCopy *)
    destruct B as [Bd Bs]. rewrite pgetv_nabs, presolve_nabs.
    destruct (ngetv s d) as [|hd] eqn:Gd; cbn [abs_var].
    + destruct (resolve s sv sk) as [Src|] eqn:R; [|reflexivity].
      destruct (resolve_ok s sv sk Src I R) as (T1 & T2 & OKS & _).
      cbv zeta. rewrite T1, T2. rewrite pget_nabs.
      destruct (slot_get s Src) as [|b] eqn:GS.
      * apply nabs_nsetv.
      * destruct (slot_handle_live s Src b I OKS GS) as (Lb & Fb & _).
        rewrite nabs_ninc by exact Fb. apply nabs_nsetv.
    + destruct hd; destruct (resolve s sv sk); reflexivity.
  - (* NAssign *)
    rewrite !presolve_nabs.
    destruct (resolve s dv dk) as [Dst|] eqn:RD; [|reflexivity].
    destruct (resolve s sv sk) as [Src|] eqn:RS; [|reflexivity].
    destruct (resolve_ok s dv dk Dst I RD) as (T1 & _ & OKD & PD).
    destruct (resolve_ok s sv sk Src I RS) as (T2 & _ & OKS & _).
    cbv zeta. rewrite T1, T2. cbn [andb].
    apply (assign_refines s Dst Src I OKD (resolve_not_SNo _ _ _ _ RD) OKS PD).
  - (* NReset *)
    rewrite presolve_nabs.
    destruct (resolve s dv dk) as [Dst|] eqn:RD; [|reflexivity].
    destruct (resolve_ok s dv dk Dst I RD) as (T1 & T2 & OKD & PD).
    cbv zeta. rewrite T1, T2.
    apply (reset_refines s Dst I OKD (resolve_not_SNo _ _ _ _ RD) PD).
  - (* NDestroy *)
    rewrite pgetv_nabs. destruct (ngetv s v) as [|h] eqn:G; cbn [abs_var]; [reflexivity|].
    rewrite (destroy_refines s v h I G). destruct h; reflexivity.
Qed.

Theorem nrun_refines ops : nabs (nrun ops) = prun ops.
Proof.
  unfold nrun, prun.
  assert (H : forall s, NInv s -> nabs (fold_left nstep ops s) = fold_left pstep ops (nabs s)).
  { induction ops as [|o t IH]; intros s I; [reflexivity|]. cbn [fold_left].
    rewrite (IH _ (nstep_NInv s o I)), (nstep_refines s o I). reflexivity. }
  rewrite (H ninit NInv_ninit). reflexivity.
Qed.

(* what the harness prints is a function of the abstract state: chains, objects alive, objects destroyed *)
Lemma pchain_nabs s : forall fuel h, map (fun x => (fst (fst x), snd (fst x))) (chain_of s fuel h) = pchain_of (nabs s) fuel (hopt h).
Proof.
  induction fuel as [|fuel IH]; intros h; [destruct h; reflexivity|]. destruct h as [|b]; [reflexivity|].
  cbn [chain_of pchain_of hopt map fst snd]. rewrite !pgeto_nabs. cbn [abs_blk pn pnext].
  f_equal. apply IH.
Qed.

(* the observation compared with the implementation after every operation: chains, objects alive, objects destroyed *)
Theorem nobs_refines s : NInv s ->
  map (fun o => match o with NODead => PODead | NOChain c => POChain (map (fun x => (fst (fst x), snd (fst x))) c) end) (nobs s) = pobs (nabs s).
Proof.
  intros _. unfold nobs, pobs. change (pvars (nabs s)) with (map abs_var (nvars s)). rewrite !map_map. apply map_ext. intros x.
  destruct x as [|[|b]]; cbn [abs_var hopt pval_of]; try reflexivity.
  rewrite (pchain_nabs s chain_depth (HBlock b)). reflexivity.
Qed.

Lemma nlive_refines s : nlive_blocks s = palive_count (nabs s).
Proof.
  unfold nlive_blocks, palive_count, nabs, gabs; cbn [pobjs]. induction (nheap s) as [|k t IH]; [reflexivity|].
  cbn [filter map abs_blk palive]. unfold unfreedb at 1. destruct (negb (nfreed k)); cbn [length]; rewrite IH; reflexivity.
Qed.
Lemma dtors_count (l : list nblock) :
  (forall j, (j < length l)%nat -> ndtors (nth j l ndead_block) = if nfreed (nth j l ndead_block) then 1%nat else 0%nat) ->
  fold_right (fun k a => (ndtors k + a)%nat) 0%nat l = length (filter (fun o => negb (palive o)) (map (abs_blk unfreedb) l)).
Proof.
  induction l as [|k t IH]; intros H; [reflexivity|]. cbn [fold_right map filter abs_blk palive].
  pose proof (H 0%nat ltac:(cbn; lia)) as H0. cbn [nth] in H0.
  rewrite IH by (intros j Lj; apply (H (S j)); cbn; lia).
  unfold unfreedb in *. rewrite H0. destruct (nfreed k); cbn [negb length]; rewrite ?Nat.add_0_l; reflexivity.
Qed.
Lemma ndtors_refines s : NInv s -> ntotal_dtors s = pdead_count (nabs s).
Proof.
  intros I. unfold ntotal_dtors, pdead_count, nabs, gabs; cbn [pobjs]. apply dtors_count.
  intros j Lj. apply (NInv_released_once s j I Lj).
Qed.

(* everything the check compares after an operation: the chains read through the variables, the number of objects
   that exist, the number of objects destroyed *)
Theorem nhist_observation_refines ops :
  nabs (nrun ops) = prun ops /\
  map (fun o => match o with NODead => PODead | NOChain c => POChain (map (fun x => (fst (fst x), snd (fst x))) c) end) (nobs (nrun ops)) = pobs (prun ops) /\
  nlive_blocks (nrun ops) = palive_count (prun ops) /\ ntotal_dtors (nrun ops) = pdead_count (prun ops).
Proof.
  pose proof (nrun_NInv ops) as I. rewrite <- (nrun_refines ops). split; [reflexivity|]. split; [apply nobs_refines; exact I|].
  split; [apply nlive_refines|apply ndtors_refines; exact I].
Qed.
