(* Sequential part of C09: the counting invariant of the handle/block machine and what follows. *)
From Coq Require Import ZArith List Bool Arith Lia.
From Common Require Import ListAux.
From Rc Require Import RcModel.
Import ListNotations.
Local Open Scope Z_scope.

Definition bz (b : bool) : Z := if b then 1 else 0.
Definition cnt (b : nat) (l : list var) : Z := Z.of_nat (count_refs b l).
Definition bump (adj : nat -> Z) (b : nat) (d : Z) : nat -> Z := fun c => if Nat.eqb c b then adj c + d else adj c.
Definition zero : nat -> Z := fun _ => 0.

Lemma cnt_nonneg b l : 0 <= cnt b l.
Proof. unfold cnt. lia. Qed.

Lemma cnt_cons b x l : cnt b (x :: l) = bz (refers b x) + cnt b l.
Proof. unfold cnt, count_refs. cbn [filter]. destruct (refers b x); cbn [length bz]; lia. Qed.

Lemma cnt_upd b v x l : (v < length l)%nat ->
  cnt b (upd v x l) = cnt b l - bz (refers b (nth v l VDead)) + bz (refers b x).
Proof.
  revert v. induction l as [|h t IH]; intros v Hv; simpl in Hv; [lia|].
  destruct v as [|v]; simpl upd; simpl nth; rewrite !cnt_cons.
  - lia.
  - rewrite IH by lia. lia.
Qed.

Lemma cnt_pos_in b l : 0 < cnt b l -> exists o, In (VLive (HBlock b) o) l.
Proof.
  induction l as [|h t IH]; intros H.
  - unfold cnt in H; simpl in H; lia.
  - rewrite cnt_cons in H. destruct (refers b h) eqn:E.
    + destruct h as [|[|c] o]; simpl in E; try discriminate.
      apply Nat.eqb_eq in E; subst. exists o. left; reflexivity.
    + unfold bz in H. destruct IH as [o Ho]; [lia|]. exists o. right; exact Ho.
Qed.

Lemma in_cnt_pos b o l : In (VLive (HBlock b) o) l -> 0 < cnt b l.
Proof.
  induction l as [|h t IH]; intros H; [destruct H|].
  rewrite cnt_cons. pose proof (cnt_nonneg b t). destruct H as [H|H].
  - subst. simpl. rewrite Nat.eqb_refl. unfold bz. lia.
  - specialize (IH H). destruct (refers b h); unfold bz; lia.
Qed.

Lemma cnt_zero_notin b l : cnt b l = 0 -> forall o, ~ In (VLive (HBlock b) o) l.
Proof. intros H o I. apply in_cnt_pos in I. lia. Qed.

(* ---- the invariant ----------------------------------------------------------------------- *)
(* [adj b] = counted references to b held by the operation in progress and not stored in a
   variable (positive), or stored in a variable whose count was already given back (negative).
   Between operations adj = zero. *)
Record wf (s : state) (adj : nat -> Z) : Prop := {
  wf_flt : flt s = None;
  wf_blk : forall b, (b < length (heap s))%nat ->
      (freed (getb s b) = true -> cnt b (vars s) + adj b = 0 /\ dtors (getb s b) = 1%nat) /\
      (freed (getb s b) = false -> rc (getb s b) = cnt b (vars s) + adj b /\ 1 <= rc (getb s b) /\ dtors (getb s b) = 0%nat);
  wf_out : forall b, (length (heap s) <= b)%nat -> cnt b (vars s) + adj b = 0 }.

Definition live (s : state) (b : nat) : Prop := (b < length (heap s))%nat /\ freed (getb s b) = false.

(* both pointer fields of a handle denote the same object (String/Variant have one field) *)
Definition coh (s : state) : Prop := forall v r o, getv s v = VLive r o -> r = o.

Lemma held_live s adj b : wf s adj -> 0 < cnt b (vars s) + adj b -> live s b.
Proof.
  intros W H. destruct (Nat.lt_ge_cases b (length (heap s))) as [L|L].
  - split; [exact L|]. destruct (freed (getb s b)) eqn:E; [|reflexivity].
    destruct (wf_blk _ _ W b L) as [A _]. specialize (A E). lia.
  - pose proof (wf_out _ _ W b L). lia.
Qed.

Lemma live_rc s adj b : wf s adj -> live s b -> rc (getb s b) = cnt b (vars s) + adj b /\ 1 <= rc (getb s b).
Proof. intros W [L F]. destruct (wf_blk _ _ W b L) as [_ A]. destruct (A F) as (A1 & A2 & _). split; assumption. Qed.

Lemma getv_in s v r o : getv s v = VLive r o -> In (VLive r o) (vars s).
Proof.
  unfold getv. intros H. destruct (Nat.lt_ge_cases v (length (vars s))) as [L|L].
  - rewrite <- H. apply nth_In. exact L.
  - rewrite nth_overflow in H by exact L. discriminate.
Qed.

Lemma getv_cnt s v b o : getv s v = VLive (HBlock b) o -> 0 < cnt b (vars s).
Proof. intros H. eapply in_cnt_pos. eapply getv_in. exact H. Qed.

(* ---- basic facts about the primitives -------------------------------------------------------- *)
Lemma getb_setb_same s b k : (b < length (heap s))%nat -> getb (setb s b k) b = k.
Proof. intros H. unfold getb, setb; simpl. apply nth_upd_same; exact H. Qed.
Lemma getb_setb_other s b c k : b <> c -> getb (setb s b k) c = getb s c.
Proof. intros H. unfold getb, setb; simpl. apply nth_upd_other; exact H. Qed.
Lemma len_setb s b k : length (heap (setb s b k)) = length (heap s).
Proof. unfold setb; simpl. apply upd_length. Qed.

Lemma touch_live s b : freed (getb s b) = false -> touch s b = s.
Proof. intros H. unfold touch. rewrite H. reflexivity. Qed.

Lemma bump_same adj b d : bump adj b d b = adj b + d.
Proof. unfold bump. rewrite Nat.eqb_refl. reflexivity. Qed.
Lemma bump_other adj b d c : c <> b -> bump adj b d c = adj c.
Proof. intros H. unfold bump. destruct (Nat.eqb c b) eqn:E; [apply Nat.eqb_eq in E; contradiction|reflexivity]. Qed.

Lemma vars_raise s x : vars (raise s x) = vars s.
Proof. unfold raise. destruct (flt s); reflexivity. Qed.
Lemma vars_touch s b : vars (touch s b) = vars s.
Proof. unfold touch. destruct (freed (getb s b)); [apply vars_raise|reflexivity]. Qed.
Lemma vars_inc s b : vars (inc s b) = vars s.
Proof. unfold inc. cbn [vars setb]. apply vars_touch. Qed.
Lemma vars_free s b : vars (free_blk s b) = vars s.
Proof. unfold free_blk. destruct (freed (getb s b)); [apply vars_raise|reflexivity]. Qed.
Lemma vars_release f s h : vars (release f s h) = vars s.
Proof.
  destruct h as [|b]; [reflexivity|]. unfold release.
  destruct (is_ptr f || negb (rc (getb (touch s b) b) =? 0)); [|apply vars_touch].
  unfold dec. cbn zeta.
  match goal with |- context [if ?c =? 0 then _ else _] => destruct (c =? 0) end;
  [rewrite vars_free|]; cbn [vars setb];
  match goal with |- context [if ?c then _ else _] => destruct c end;
  rewrite ?vars_raise, !vars_touch; reflexivity.
Qed.

Lemma wf_inc s adj b : wf s adj -> live s b -> wf (inc s b) (bump adj b 1).
Proof.
  intros W [L F]. unfold inc. rewrite (touch_live _ _ F).
  destruct (wf_blk _ _ W b L) as [_ A]. specialize (A F). destruct A as (A1 & A2 & A3).
  constructor.
  - simpl. apply (wf_flt _ _ W).
  - intros c Lc. rewrite len_setb in Lc. simpl vars.
    destruct (Nat.eq_dec c b) as [->|N].
    + rewrite getb_setb_same by exact L. rewrite bump_same. simpl. split; [intros E; congruence|].
      intros _. lia.
    + rewrite getb_setb_other by congruence. rewrite bump_other by exact N. apply (wf_blk _ _ W c Lc).
  - intros c Lc. rewrite len_setb in Lc. simpl vars. rewrite bump_other by lia. apply (wf_out _ _ W c Lc).
Qed.

Lemma wf_release f s adj b : wf s adj -> 1 <= cnt b (vars s) + adj b -> wf (release f s (HBlock b)) (bump adj b (-1)).
Proof.
  intros W H.
  assert (LV : live s b) by (apply (held_live s adj b W); lia).
  destruct LV as [L F].
  destruct (wf_blk _ _ W b L) as [_ A]. specialize (A F). destruct A as (A1 & A2 & A3).
  unfold release. rewrite (touch_live _ _ F).
  assert (NZ : (is_ptr f || negb (rc (getb s b) =? 0)) = true).
  { destruct (rc (getb s b) =? 0) eqn:E; [apply Z.eqb_eq in E; lia|]. apply orb_true_r. }
  rewrite NZ. unfold dec. rewrite (touch_live _ _ F).
  destruct (rc (getb s b) - 1 <? 0) eqn:EU; [apply Z.ltb_lt in EU; lia|].
  set (s2 := setb s b (with_rc (getb s b) (rc (getb s b) - 1))).
  assert (G2 : getb s2 b = with_rc (getb s b) (rc (getb s b) - 1)) by (apply getb_setb_same; exact L).
  destruct (rc (getb s b) - 1 =? 0) eqn:EZ.
  - apply Z.eqb_eq in EZ. unfold free_blk. rewrite G2. simpl freed. rewrite F.
    constructor.
    + simpl. apply (wf_flt _ _ W).
    + intros c Lc. rewrite len_setb in Lc. unfold s2 in Lc. rewrite len_setb in Lc. simpl vars.
      destruct (Nat.eq_dec c b) as [->|N].
      * rewrite getb_setb_same by (unfold s2; rewrite len_setb; exact L). rewrite bump_same. simpl.
        split; [intros _; split; [lia|]|intros E; discriminate]. rewrite A3. reflexivity.
      * rewrite getb_setb_other by congruence. unfold s2. rewrite getb_setb_other by congruence.
        rewrite bump_other by exact N. apply (wf_blk _ _ W c Lc).
    + intros c Lc. rewrite len_setb in Lc. unfold s2 in Lc. rewrite len_setb in Lc. simpl vars.
      rewrite bump_other by lia. apply (wf_out _ _ W c Lc).
  - apply Z.eqb_neq in EZ.
    constructor.
    + simpl. apply (wf_flt _ _ W).
    + intros c Lc. unfold s2 in Lc. rewrite len_setb in Lc. simpl vars.
      destruct (Nat.eq_dec c b) as [->|N].
      * rewrite G2. rewrite bump_same. simpl. split; [intros E; congruence|]. intros _. lia.
      * unfold s2. rewrite getb_setb_other by congruence. rewrite bump_other by exact N. apply (wf_blk _ _ W c Lc).
    + intros c Lc. unfold s2 in Lc. rewrite len_setb in Lc. simpl vars.
      rewrite bump_other by lia. apply (wf_out _ _ W c Lc).
Qed.

Lemma getb_app_old h k b fl vs : (b < length h)%nat ->
  getb {| heap := h ++ [k]; vars := vs; flt := fl |} b = nth b h dead_block.
Proof. intros H. unfold getb; simpl. apply app_nth1. exact H. Qed.

Lemma wf_alloc s adj l c : wf s adj ->
  wf (fst (alloc s 1 l c)) (bump adj (length (heap s)) 1).
Proof.
  intros W. unfold alloc; simpl fst.
  pose proof (wf_out _ _ W (length (heap s)) (Nat.le_refl _)) as O.
  constructor.
  - simpl. apply (wf_flt _ _ W).
  - intros b Lb. simpl heap in Lb. rewrite app_length in Lb. simpl in Lb. simpl vars.
    destruct (Nat.eq_dec b (length (heap s))) as [->|N].
    + unfold getb; simpl heap. rewrite app_nth2 by lia. rewrite Nat.sub_diag. simpl.
      rewrite bump_same. split; [intros E; discriminate|]. intros _. lia.
    + rewrite getb_app_old by lia. rewrite bump_other by exact N. apply (wf_blk _ _ W b). lia.
  - intros b Lb. simpl heap in Lb. rewrite app_length in Lb. simpl in Lb. simpl vars.
    rewrite bump_other by lia. apply (wf_out _ _ W b). lia.
Qed.

Lemma wf_setv s adj adj' v x : wf s adj -> (v < length (vars s))%nat ->
  (forall b, adj' b = adj b + bz (refers b (getv s v)) - bz (refers b x)) ->
  wf (setv s v x) adj'.
Proof.
  intros W Lv HA.
  assert (E : forall b, cnt b (vars (setv s v x)) + adj' b = cnt b (vars s) + adj b).
  { intros b. simpl. rewrite cnt_upd by exact Lv. rewrite (HA b). unfold getv. lia. }
  constructor.
  - simpl. apply (wf_flt _ _ W).
  - intros b Lb. rewrite E. exact (wf_blk _ _ W b Lb).
  - intros b Lb. rewrite E. exact (wf_out _ _ W b Lb).
Qed.

Lemma wf_ext s adj adj' : wf s adj -> (forall b, adj' b = adj b) -> wf s adj'.
Proof.
  intros W H. constructor.
  - apply (wf_flt _ _ W).
  - intros b Lb. rewrite H. apply (wf_blk _ _ W b Lb).
  - intros b Lb. rewrite H. apply (wf_out _ _ W b Lb).
Qed.

Lemma wf_write_inplace s b n : wf s zero -> live s b -> rc (getb s b) = 1 ->
  wf (write_inplace s b n) zero.
Proof.
  intros W [L F] R. unfold write_inplace. rewrite (touch_live _ _ F).
  destruct (wf_blk _ _ W b L) as [_ A]. specialize (A F). destruct A as (A1 & A2 & A3).
  assert (C : count_refs b (vars s) = 1%nat) by (unfold cnt, zero in A1; lia).
  rewrite C. simpl Nat.eqb. cbv iota.
  constructor.
  - simpl. apply (wf_flt _ _ W).
  - intros c Lc. rewrite len_setb in Lc. simpl vars.
    destruct (Nat.eq_dec c b) as [->|N].
    + rewrite getb_setb_same by exact L. simpl. rewrite F. split; [intros E; discriminate|]. intros _. lia.
    + rewrite getb_setb_other by congruence. apply (wf_blk _ _ W c Lc).
  - intros c Lc. rewrite len_setb in Lc. simpl vars. apply (wf_out _ _ W c Lc).
Qed.

Lemma vars_write_inplace s b n : vars (write_inplace s b n) = vars s.
Proof.
  unfold write_inplace. cbn [vars setb].
  match goal with |- context [if ?c then _ else _] => destruct c end; rewrite ?vars_raise, !vars_touch; reflexivity.
Qed.
