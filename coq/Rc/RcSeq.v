(* Sequential part of C09: every operation of the handle/block machine preserves the counting
   invariant and raises no fault. *)
From Coq Require Import ZArith List Bool Arith Lia.
From Common Require Import ListAux.
From Rc Require Import RcModel RcProofs.
Import ListNotations.
Local Open Scope Z_scope.

Definition href (c : nat) (h : handle) : bool := match h with HBlock b => Nat.eqb b c | HNone => false end.

Lemma refers_href c h o : refers c (VLive h o) = href c h.
Proof. destruct h; reflexivity. Qed.
Lemma refers_both c h : refers c (both h) = href c h.
Proof. destruct h; reflexivity. Qed.
Lemma href_same b : href b (HBlock b) = true.
Proof. simpl. apply Nat.eqb_refl. Qed.

Lemma getv_href s v h o : getv s v = VLive h o -> forall b, h = HBlock b -> 0 < cnt b (vars s).
Proof. intros H b ->. eapply getv_cnt; exact H. Qed.

Lemma wf_inc_h s adj h : wf s adj -> (forall b, h = HBlock b -> live s b) ->
  wf (match h with HBlock b => inc s b | HNone => s end) (fun c => adj c + bz (href c h)).
Proof.
  intros W H. destruct h as [|b].
  - eapply wf_ext; [exact W|]. intros c. simpl. lia.
  - eapply wf_ext; [apply (wf_inc s adj b W (H b eq_refl))|].
    intros c. unfold bump. simpl. rewrite Nat.eqb_sym. destruct (Nat.eqb c b); unfold bz; lia.
Qed.

Lemma wf_release_h f s adj h : wf s adj -> (forall b, h = HBlock b -> 1 <= cnt b (vars s) + adj b) ->
  wf (release f s h) (fun c => adj c - bz (href c h)).
Proof.
  intros W H. destruct h as [|b].
  - eapply wf_ext; [exact W|]. intros c. simpl. lia.
  - eapply wf_ext; [apply (wf_release f s adj b W (H b eq_refl))|].
    intros c. unfold bump. simpl. rewrite Nat.eqb_sym. destruct (Nat.eqb c b); unfold bz; lia.
Qed.

Lemma wf_alloc_h s adj l c : wf s adj ->
  wf (fst (alloc s 1 l c)) (fun x => adj x + bz (Nat.eqb (length (heap s)) x)).
Proof.
  intros W. eapply wf_ext; [apply (wf_alloc s adj l c W)|].
  intros x. unfold bump. rewrite Nat.eqb_sym. destruct (Nat.eqb x (length (heap s))); unfold bz; lia.
Qed.

Lemma live_alloc s r l c b : live s b -> live (fst (alloc s r l c)) b.
Proof.
  intros [L F]. split.
  - unfold alloc; simpl. rewrite app_length. simpl. lia.
  - unfold alloc; simpl fst. rewrite getb_app_old by exact L. exact F.
Qed.

Lemma live_vars_only s s' b : heap s' = heap s -> live s b -> live s' b.
Proof. intros E [L F]. unfold live, getb in *. rewrite E. split; assumption. Qed.

Lemma live_fresh s b : live s b -> b <> length (heap s).
Proof. intros [L _]. lia. Qed.

(* ---- coherence of the two pointer fields ----------------------------------------------------- *)
Lemma coh_setv s v x : coh s -> (forall r o, x = VLive r o -> r = o) -> coh (setv s v x).
Proof.
  intros C HX w r o. unfold getv, setv; simpl. intros H.
  destruct (Nat.eq_dec v w) as [->|N].
  - destruct (Nat.lt_ge_cases w (length (vars s))) as [L|L].
    + rewrite nth_upd_same in H by exact L. apply (HX _ _ H).
    + rewrite nth_overflow in H by (rewrite upd_length; exact L). discriminate.
  - rewrite nth_upd_other in H by exact N. apply (C w r o H).
Qed.
Lemma coh_vars s s' : vars s' = vars s -> coh s -> coh s'.
Proof. intros E C v r o. unfold getv. rewrite E. apply C. Qed.
Lemma coh_both h r o : both h = VLive r o -> r = o.
Proof. unfold both. intros H; inversion H; subst; reflexivity. Qed.

Lemma getv_setv_other s v w x : v <> w -> getv (setv s v x) w = getv s w.
Proof. intros N. unfold getv, setv; simpl. apply nth_upd_other. exact N. Qed.
Lemma getv_vars s s' v : vars s' = vars s -> getv s' v = getv s v.
Proof. intros E. unfold getv. rewrite E. reflexivity. Qed.

(* the invariant between operations *)
Definition Inv (s : state) : Prop := wf s zero /\ coh s.

Lemma Inv_init : Inv init.
Proof.
  split.
  - constructor.
    + reflexivity.
    + intros b L. simpl in L. lia.
    + intros b _. reflexivity.
  - intros v r o H. unfold getv, init in H; simpl in H.
    do 8 (destruct v as [|v]; simpl in H; try discriminate).
Qed.

Ltac adj_arith :=
  intros; unfold zero, bz; rewrite ?refers_href, ?refers_both;
  repeat match goal with
         | |- context [href ?c ?h] => let e := fresh "e" in generalize (href c h); intros e; destruct e
         | |- context [Nat.eqb ?a ?b] => destruct (Nat.eqb_spec a b)
         end; subst; simpl; try lia.

(* release the reference held by variable v, then store a value that holds no reference *)
Lemma Inv_drop f s v r o x : Inv s -> (v < length (vars s))%nat -> getv s v = VLive r o ->
  (forall b, refers b x = false) -> (forall r o, x = VLive r o -> r = o) ->
  Inv (setv (release f s r) v x).
Proof.
  intros [W C] Lv G X CX. split.
  - eapply wf_setv.
    + apply (wf_release_h f s zero r W). intros b ->. pose proof (getv_cnt _ _ _ _ G). unfold zero. lia.
    + rewrite vars_release. exact Lv.
    + intros b. rewrite (getv_vars s _ v (vars_release f s r)), G, X, refers_href.
      unfold zero, bz. destruct (href b r); lia.
  - apply coh_setv; [|exact CX]. eapply coh_vars; [apply vars_release|exact C].
Qed.

(* share the payload of r (a handle stored in some variable), release the old value of d, store *)
Lemma Inv_share_release_store f s d rd od sv r o x : Inv s -> (d < length (vars s))%nat ->
  getv s d = VLive rd od -> getv s sv = VLive r o ->
  (forall c, refers c x = href c r) -> (forall r o, x = VLive r o -> r = o) ->
  Inv (setv (release f (match r with HBlock b => inc s b | HNone => s end) rd) d x).
Proof.
  intros [W C] Ld Gd Gs X CX.
  assert (W1 := wf_inc_h s zero r W).
  assert (V1 : vars (match r with HBlock b => inc s b | HNone => s end) = vars s)
    by (destruct r; [reflexivity|apply vars_inc]).
  split.
  - eapply wf_setv.
    + apply (wf_release_h f _ (fun c => zero c + bz (href c r)) rd).
      * apply W1. intros b ->. apply (held_live s zero b W). pose proof (getv_cnt _ _ _ _ Gs). unfold zero; lia.
      * intros b ->. rewrite V1. pose proof (getv_cnt _ _ _ _ Gd). unfold zero, bz. destruct (href b r); lia.
    + rewrite vars_release, V1. exact Ld.
    + intros c. rewrite (getv_vars s _ d) by (rewrite vars_release; exact V1).
      rewrite Gd, X, refers_href. unfold zero, bz. destruct (href c r), (href c rd); lia.
  - apply coh_setv; [|exact CX]. eapply coh_vars; [|exact C]. rewrite vars_release. exact V1.
Qed.

(* copy construction: store, then increment *)
Lemma Inv_store_inc s d b x : Inv s -> (d < length (vars s))%nat -> getv s d = VDead ->
  0 < cnt b (vars s) -> (forall c, refers c x = Nat.eqb b c) -> (forall r o, x = VLive r o -> r = o) ->
  Inv (inc (setv s d x) b).
Proof.
  intros [W C] Ld Gd P X CX.
  assert (LV : live s b) by (apply (held_live s zero b W); unfold zero; lia).
  split.
  - eapply wf_ext.
    + apply wf_inc; [|eapply live_vars_only; [|exact LV]; reflexivity].
      eapply (wf_setv s zero (fun c => - bz (Nat.eqb b c))); [exact W|exact Ld|].
      intros c. rewrite Gd, X. unfold zero. simpl. lia.
    + intros c. unfold bump, zero. rewrite (Nat.eqb_sym c b). destruct (Nat.eqb b c); unfold bz; lia.
  - eapply coh_vars; [apply vars_inc|]. apply coh_setv; assumption.
Qed.

(* a fresh block with count one, stored over a variable that holds no reference *)
Lemma Inv_alloc_store s v l c : Inv s -> (v < length (vars s))%nat ->
  (forall b, refers b (getv s v) = false) ->
  Inv (setv (fst (alloc s 1 l c)) v (both (HBlock (length (heap s))))).
Proof.
  intros [W C] Lv G. split.
  - eapply wf_setv; [apply (wf_alloc_h s zero l c W)|exact Lv|].
    intros b. change (getv (fst (alloc s 1 l c)) v) with (getv s v). rewrite G, refers_both. simpl.
    unfold zero. lia.
  - apply coh_setv; [exact C|apply coh_both].
Qed.

(* clone: fresh block, read the old payload, release the old reference, store *)
Lemma Inv_clone f s v b o l c : Inv s -> (v < length (vars s))%nat -> getv s v = VLive (HBlock b) o ->
  Inv (setv (release f (touch (fst (alloc s 1 l c)) b) (HBlock b)) v (both (HBlock (length (heap s))))).
Proof.
  intros [W C] Lv G.
  pose proof (getv_cnt _ _ _ _ G) as P.
  assert (LV : live s b) by (apply (held_live s zero b W); unfold zero; lia).
  assert (LV1 := live_alloc s 1 l c b LV).
  rewrite (touch_live _ _ (proj2 LV1)).
  split.
  - eapply wf_setv.
    + apply (wf_release_h f _ _ (HBlock b) (wf_alloc_h s zero l c W)).
      intros b' E; inversion E; subst b'. change (vars (fst (alloc s 1 l c))) with (vars s).
      unfold zero, bz. destruct (Nat.eqb (length (heap s)) b); lia.
    + rewrite vars_release. exact Lv.
    + intros x. rewrite (getv_vars (fst (alloc s 1 l c)) _ v (vars_release f _ _)).
      change (getv (fst (alloc s 1 l c)) v) with (getv s v). rewrite G, refers_href, refers_both.
      unfold zero, bz. simpl. destruct (Nat.eqb b x), (Nat.eqb (length (heap s)) x); lia.
  - apply coh_setv; [|apply coh_both]. eapply coh_vars; [|exact C]. rewrite vars_release. reflexivity.
Qed.

(* a fresh block replaces the payload of v without reading it: allocate then release (Variant), or
   release then allocate (Xml::Variant) *)
Lemma Inv_replace f s v b o l c : Inv s -> (v < length (vars s))%nat -> getv s v = VLive (HBlock b) o ->
  Inv (setv (release f (fst (alloc s 1 l c)) (HBlock b)) v (both (HBlock (length (heap s))))).
Proof.
  intros I Lv G. destruct I as [W C].
  pose proof (getv_cnt _ _ _ _ G) as P.
  assert (LV : live s b) by (apply (held_live s zero b W); unfold zero; lia).
  assert (LV1 := live_alloc s 1 l c b LV).
  pose proof (Inv_clone f s v b o l c (conj W C) Lv G) as X.
  rewrite (touch_live _ _ (proj2 LV1)) in X. exact X.
Qed.

Lemma Inv_release_alloc f s v r o l c : Inv s -> (v < length (vars s))%nat -> getv s v = VLive r o ->
  Inv (setv (fst (alloc (release f s r) 1 l c)) v (both (HBlock (length (heap (release f s r)))))).
Proof.
  intros [W C] Lv G. split.
  - eapply wf_setv.
    + apply (wf_alloc_h (release f s r) (fun x => zero x - bz (href x r)) l c). apply (wf_release_h f s zero r W).
      intros b ->. pose proof (getv_cnt _ _ _ _ G). unfold zero; lia.
    + change (vars (fst (alloc (release f s r) 1 l c))) with (vars (release f s r)).
      rewrite vars_release. exact Lv.
    + intros x. change (getv (fst (alloc (release f s r) 1 l c)) v) with (getv (release f s r) v).
      rewrite (getv_vars s _ v (vars_release f s r)), G, refers_href, refers_both. simpl.
      unfold zero, bz. destruct (href x r), (Nat.eqb (length (heap (release f s r))) x); lia.
  - apply coh_setv; [|apply coh_both]. eapply coh_vars; [|exact C].
    change (vars (fst (alloc (release f s r) 1 l c))) with (vars (release f s r)). apply vars_release.
Qed.

Lemma Inv_write_inplace s b n : Inv s -> live s b -> rc (getb s b) = 1 -> Inv (write_inplace s b n).
Proof.
  intros [W C] L R. split; [apply wf_write_inplace; assumption|].
  eapply coh_vars; [apply vars_write_inplace|exact C].
Qed.

Lemma Inv_live s v b o : Inv s -> getv s v = VLive (HBlock b) o -> live s b /\ 1 <= rc (getb s b).
Proof.
  intros [W C] G. pose proof (getv_cnt _ _ _ _ G) as P.
  assert (LV : live s b) by (apply (held_live s zero b W); unfold zero; lia).
  split; [exact LV|]. apply (live_rc s zero b W LV).
Qed.

Lemma ptr_create_eq s v n x :
  inc (setv (fst (alloc s 0 n 0)) v x) (length (heap s)) = setv (fst (alloc s 1 n 0)) v x.
Proof.
  unfold inc, touch, getb, setv, setb, alloc. cbn [fst heap vars flt].
  rewrite app_nth2 by lia. rewrite Nat.sub_diag. cbn [nth freed heap vars flt].
  f_equal. rewrite app_nth2 by lia. rewrite Nat.sub_diag. cbn [nth].
  change (heap s ++ [?k]) with (heap s ++ k :: []).
  rewrite (upd_app_at (heap s) []). reflexivity.
Qed.

Lemma no_ref_dead b : refers b VDead = false.
Proof. reflexivity. Qed.
Lemma no_ref_null b : refers b (both HNone) = false.
Proof. reflexivity. Qed.
Lemma coh_dead r o : VDead = VLive r o -> r = o.
Proof. discriminate. Qed.

Lemma Inv_str_detach s v r o g : Inv s -> (v < length (vars s))%nat -> getv s v = VLive r o ->
  Inv (str_detach s v r g).
Proof.
  intros I Lv G. unfold str_detach. destruct r as [|b].
  - exact (Inv_alloc_store s v _ _ I Lv ltac:(intros; rewrite G; reflexivity)).
  - destruct (Inv_live s v b o I G) as [[L F] R]. rewrite (touch_live _ _ F).
    destruct ((rc (getb s b) =? 1) && (str_need g (val (getb s b)) <=? cap (getb s b))) eqn:E.
    + apply andb_true_iff in E. destruct E as [E _]. apply Z.eqb_eq in E.
      apply Inv_write_inplace; [exact I|split; assumption|exact E].
    + exact (Inv_clone FStr s v b o _ _ I Lv G).
Qed.

Lemma Inv_var_detach s v r o g : Inv s -> (v < length (vars s))%nat -> getv s v = VLive r o ->
  Inv (var_detach s v r g).
Proof.
  intros I Lv G. unfold var_detach. destruct r as [|b].
  - exact (Inv_alloc_store s v _ 0 I Lv ltac:(intros; rewrite G; reflexivity)).
  - destruct (Inv_live s v b o I G) as [[L F] R]. rewrite (touch_live _ _ F).
    destruct (rc (getb s b) >? 1) eqn:E.
    + exact (Inv_clone FVar s v b o _ 0 I Lv G).
    + apply Inv_write_inplace; [exact I|split; assumption|]. rewrite Z.gtb_ltb in E. apply Z.ltb_ge in E. lia.
Qed.

Lemma Inv_assign_val f s v r o c : Inv s -> (v < length (vars s))%nat -> getv s v = VLive r o ->
  Inv (assign_val f s v r c).
Proof.
  intros I Lv G. unfold assign_val. destruct r as [|b].
  - exact (Inv_alloc_store s v c 0 I Lv ltac:(intros; rewrite G; reflexivity)).
  - destruct (Inv_live s v b o I G) as [[L F] R]. rewrite (touch_live _ _ F).
    destruct (rc (getb s b) >? 1) eqn:E.
    + destruct f; try exact (Inv_replace FVar s v b o c 0 I Lv G).
      exact (Inv_release_alloc FVar s v (HBlock b) o c 0 I Lv G).
    + apply Inv_write_inplace; [exact I|split; assumption|]. rewrite Z.gtb_ltb in E. apply Z.ltb_ge in E. lia.
Qed.

(* the `type != T` branch: a new payload in every case *)
Lemma Inv_retype f s v r o c : Inv s -> (v < length (vars s))%nat -> getv s v = VLive r o ->
  Inv (retype f s v r c).
Proof.
  intros I Lv G. unfold retype.
  assert (X : Inv (setv (release FVar (fst (alloc s 1 c 0)) r) v (both (HBlock (length (heap s)))))).
  { destruct r as [|b].
    - exact (Inv_alloc_store s v c 0 I Lv ltac:(intros; rewrite G; reflexivity)).
    - exact (Inv_replace FVar s v b o c 0 I Lv G). }
  destruct f; try exact X. exact (Inv_release_alloc FVar s v r o c 0 I Lv G).
Qed.

(* reading the text through a handle changes nothing (the block it refers to has not been released) *)
Lemma touch_var_id s v : Inv s -> touch_var s v = s.
Proof.
  intros I. unfold touch_var. change (nth v (vars s) VDead) with (getv s v).
  destruct (getv s v) as [|r o] eqn:G; [reflexivity|]. destruct r as [|b]; [reflexivity|].
  destruct (Inv_live s v b o I G) as [[L F] R]. apply touch_live. exact F.
Qed.

Theorem step_Inv f s o : Inv s -> Inv (step f s o).
Proof.
  intros I. pose proof I as [W C]. unfold step, step_gen. rewrite (wf_flt _ _ W).
  destruct (negb (forallb (fun v => Nat.ltb v (length (vars s))) (op_vars o))) eqn:B; [exact I|].
  apply negb_false_iff in B.
  destruct o as [v n|v|d sv|d sv|d sv|v|a b|d sv|v c|v m|v|v|v n|v n|v md|front d sv|v c]; cbn [op_vars forallb] in B;
  rewrite ?andb_true_r, ?andb_true_iff, ?Nat.ltb_lt in B.
  - (* OCreate *)
    destruct (getv s v) eqn:G; [|exact I].
    assert (N : forall b, refers b (getv s v) = false) by (intros; rewrite G; reflexivity).
    destruct f.
    + exact (Inv_alloc_store s v n _ I B N).
    + exact (Inv_alloc_store s v n 0 I B N).
    + change (Inv (inc (setv (fst (alloc s 0 n 0)) v (both (HBlock (length (heap s))))) (length (heap s)))).
      rewrite ptr_create_eq. exact (Inv_alloc_store s v n 0 I B N).
    + exact (Inv_alloc_store s v n 0 I B N).
  - (* ONull *)
    destruct (getv s v) eqn:G; [|exact I].
    split.
    + eapply wf_setv; [exact W|exact B|]. intros b. rewrite G. reflexivity.
    + apply coh_setv; [exact C|apply coh_both].
  - (* OCopy *)
    destruct B as [Bd Bs].
    destruct (getv s d) eqn:Gd; [|exact I].
    destruct (getv s sv) as [|r o] eqn:Gs; [exact I|].
    pose proof (C _ _ _ Gs) as RO. subst o.
    destruct r as [|b].
    + split.
      * eapply wf_setv; [exact W|exact Bd|]. intros b. rewrite Gd. destruct (is_ptr f); reflexivity.
      * apply coh_setv; [exact C|]. intros r o H. destruct (is_ptr f); inversion H; reflexivity.
    + destruct (Inv_live s sv b _ I Gs) as [[L F] R].
      pose proof (getv_cnt _ _ _ _ Gs) as P.
      destruct (is_ptr f).
      * apply (Inv_store_inc s d b _ I Bd Gd P); [intros c; reflexivity|].
        intros r o H; inversion H; reflexivity.
      * rewrite (touch_live _ _ F).
        destruct (rc (getb s b) =? 0) eqn:E; [apply Z.eqb_eq in E; lia|]. cbn [negb].
        apply (Inv_store_inc s d b _ I Bd Gd P); [intros c; reflexivity|apply coh_both].
  - (* OFromRaw *)
    destruct B as [Bd Bs].
    destruct f; try exact I.
    destruct (getv s d) eqn:Gd; [|exact I].
    destruct (getv s sv) as [|r o] eqn:Gs; [exact I|].
    pose proof (C _ _ _ Gs) as RO. subst o.
    destruct r as [|b].
    + split.
      * eapply wf_setv; [exact W|exact Bd|]. intros b. rewrite Gd. reflexivity.
      * apply coh_setv; [exact C|apply coh_both].
    + pose proof (getv_cnt _ _ _ _ Gs) as P.
      apply (Inv_store_inc s d b _ I Bd Gd P); [intros c; reflexivity|apply coh_both].
  - (* OAssign *)
    destruct B as [Bd Bs].
    destruct (getv s d) as [|rd od] eqn:Gd; [exact I|].
    destruct (getv s sv) as [|r o] eqn:Gs; [exact I|].
    pose proof (C _ _ _ Gs) as RO. subst o.
    assert (SH : forall f0, Inv (setv (release f0 (match r with HBlock b => inc s b | HNone => s end) rd) d (both r))).
    { intros f0. apply (Inv_share_release_store f0 s d rd od sv r r (both r) I Bd Gd Gs).
      - intros c. apply refers_both.
      - apply coh_both. }
    destruct f.
    + (* String *)
      destruct r as [|b].
      * change (Inv (setv (fst (alloc (release FStr s rd) 1 0 3)) d (both (HBlock (length (heap (release FStr s rd))))))).
        split.
        -- eapply wf_setv.
           ++ apply (wf_alloc_h (release FStr s rd) (fun c => zero c - bz (href c rd)) 0 3). apply (wf_release_h FStr s zero rd W).
              intros b ->. pose proof (getv_cnt _ _ _ _ Gd). unfold zero; lia.
           ++ change (vars (fst (alloc (release FStr s rd) 1 0 3))) with (vars (release FStr s rd)).
              rewrite vars_release. exact Bd.
           ++ intros c. change (getv (fst (alloc (release FStr s rd) 1 0 3)) d) with (getv (release FStr s rd) d).
              rewrite (getv_vars s _ d (vars_release FStr s rd)), Gd, refers_href, refers_both. simpl.
              unfold zero, bz. destruct (href c rd), (Nat.eqb (length (heap (release FStr s rd))) c); lia.
        -- apply coh_setv; [|apply coh_both]. eapply coh_vars; [|exact C].
           change (vars (fst (alloc (release FStr s rd) 1 0 3))) with (vars (release FStr s rd)). apply vars_release.
      * destruct (Inv_live s sv b _ I Gs) as [[L F] R]. rewrite (touch_live _ _ F).
        destruct (rc (getb s b) =? 0) eqn:E; [apply Z.eqb_eq in E; lia|]. cbn [negb]. exact (SH FStr).
    + (* Variant *)
      destruct (is_var FVar && Nat.eqb d sv); [exact I|].
      destruct r as [|b].
      * apply (Inv_drop FVar s d rd od _ I Bd Gd); [intros; reflexivity|apply coh_both].
      * destruct (Inv_live s sv b _ I Gs) as [[L F] R]. rewrite (touch_live _ _ F).
        destruct (rc (getb s b) =? 0) eqn:E; [apply Z.eqb_eq in E; lia|]. cbn [negb]. exact (SH FVar).
    + (* Ptr *)
      apply (Inv_share_release_store FPtr s d rd od sv r r _ I Bd Gd Gs).
      * intros c. apply refers_href.
      * intros r0 o0 H; inversion H; reflexivity.
    + (* Xml::Variant *)
      destruct (is_var FXml && Nat.eqb d sv); [exact I|].
      destruct r as [|b].
      * apply (Inv_drop FVar s d rd od _ I Bd Gd); [intros; reflexivity|apply coh_both].
      * destruct (Inv_live s sv b _ I Gs) as [[L F] R]. rewrite (touch_live _ _ F).
        destruct (rc (getb s b) =? 0) eqn:E; [apply Z.eqb_eq in E; lia|]. cbn [negb]. exact (SH FVar).
  - (* OReset *)
    destruct (getv s v) as [|r o] eqn:G; [exact I|].
    assert (D : forall f0, Inv (setv (release f0 s r) v (both HNone))).
    { intros f0. apply (Inv_drop f0 s v r o _ I B G); [intros; reflexivity|apply coh_both]. }
    destruct f; try exact (D _).
    destruct r as [|b]; [exact I|].
    destruct (Inv_live s v b o I G) as [[L F] R]. rewrite (touch_live _ _ F).
    destruct (rc (getb s b) =? 1) eqn:E.
    + apply Z.eqb_eq in E. apply Inv_write_inplace; [exact I|split; assumption|exact E].
    + exact (D FStr).
  - (* OSwap *)
    destruct B as [Ba Bb].
    destruct f; try exact I.
    destruct (getv s a) as [|ra oa] eqn:Ga; [exact I|].
    destruct (getv s b) as [|rb ob] eqn:Gb; [exact I|].
    destruct (Nat.eqb a b) eqn:E; [exact I|]. apply Nat.eqb_neq in E.
    unfold ptr_swap. split.
    + eapply wf_setv.
      * eapply (wf_setv s zero (fun c => bz (href c rb) - bz (href c ra))); [exact W|exact Bb|].
        intros c. rewrite Gb, !refers_href. unfold zero. lia.
      * cbn [vars setv]. rewrite upd_length. exact Ba.
      * intros c. rewrite getv_setv_other by congruence. rewrite Ga, !refers_href. unfold zero. lia.
    + apply coh_setv; [apply coh_setv; [exact C|]|].
      * intros r o H; inversion H; subst. apply (C _ _ _ Ga).
      * intros r o H; inversion H; subst. apply (C _ _ _ Gb).
  - (* OAssignRaw *)
    destruct B as [Bd Bs].
    destruct f; try exact I.
    destruct (getv s d) as [|rd od] eqn:Gd; [exact I|].
    destruct (getv s sv) as [|r o] eqn:Gs; [exact I|].
    pose proof (C _ _ _ Gs) as RO. subst o.
    apply (Inv_share_release_store FPtr s d rd od sv r r _ I Bd Gd Gs).
    + intros c. apply refers_both.
    + apply coh_both.
  - (* OAssignVal *)
    destruct f; try exact I; destruct (getv s v) as [|r o] eqn:G; try exact I.
    + exact (Inv_assign_val FVar s v r o c I B G).
    + exact (Inv_assign_val FXml s v r o c I B G).
  - (* OWrite *)
    destruct f; try exact I; destruct (getv s v) as [|r o] eqn:G; try exact I.
    + exact (Inv_str_detach s v r o (SPush m) I B G).
    + exact (Inv_var_detach s v r o m I B G).
    + exact (Inv_var_detach s v r o m I B G).
  - (* ODetach *)
    destruct f; try exact I; destruct (getv s v) as [|r o] eqn:G; try exact I.
    + exact (Inv_str_detach s v r o (SPush 0) I B G).
    + exact (Inv_var_detach s v r o 0 I B G).
    + exact (Inv_var_detach s v r o 0 I B G).
  - (* ODestroy *)
    destruct (getv s v) as [|r o] eqn:G; [exact I|].
    apply (Inv_drop f s v r o _ I B G); [intros; reflexivity|discriminate].
  - (* OResize *)
    destruct f; try exact I; destruct (getv s v) as [|r o] eqn:G; try exact I.
    exact (Inv_str_detach s v r o (STrunc n) I B G).
  - (* OReserve *)
    destruct f; try exact I; destruct (getv s v) as [|r o] eqn:G; try exact I.
    exact (Inv_str_detach s v r o (SReserve n) I B G).
  - (* OStrMod: every modifier that is detach + write into the own block *)
    destruct f; try exact I; destruct (getv s v) as [|r o] eqn:G; try exact I.
    exact (Inv_str_detach s v r o md I B G).
  - (* OStrCatV *)
    destruct B as [Bd Bs].
    destruct f; try exact I.
    destruct (getv s d) as [|rd od] eqn:Gd; [exact I|].
    destruct (getv s sv) as [|rs os] eqn:Gs; [exact I|].
    assert (T : (match rs with HBlock b => touch s b | HNone => s end) = s).
    { destruct rs as [|b]; [reflexivity|]. destruct (Inv_live s sv b os I Gs) as [[L F] R]. apply touch_live; exact F. }
    rewrite T.
    pose proof (Inv_str_detach s d rd od (SCat front (match rs with HBlock b => val (getb s b) | HNone => 0 end)) I Bd Gd) as I2.
    rewrite (touch_var_id _ sv I2). exact I2.
  - (* ORetype *)
    destruct f; try exact I; destruct (getv s v) as [|r o] eqn:G; try exact I.
    + exact (Inv_retype FVar s v r o c I B G).
    + exact (Inv_retype FXml s v r o c I B G).
Qed.

Theorem run_Inv f ops : Inv (run f ops).
Proof.
  unfold run. assert (H : forall s, Inv s -> Inv (fold_left (step f) ops s)).
  { induction ops as [|o t IH]; intros s I; [exact I|]. simpl. apply IH. apply step_Inv. exact I. }
  apply H. exact Inv_init.
Qed.

(* ---- consequences, in the vocabulary of the property ------------------------------------------ *)
Lemma Inv_no_fault s : Inv s -> flt s = None.
Proof. intros [W _]. apply (wf_flt _ _ W). Qed.

Lemma Inv_rc_counts s b : Inv s -> (b < length (heap s))%nat -> freed (getb s b) = false ->
  rc (getb s b) = Z.of_nat (count_refs b (vars s)) /\ 1 <= rc (getb s b) /\ dtors (getb s b) = 0%nat.
Proof.
  intros [W _] L F. destruct (wf_blk _ _ W b L) as [_ A]. destruct (A F) as (A1 & A2 & A3).
  unfold cnt, zero in A1. repeat split; try assumption. lia.
Qed.

Lemma Inv_released_iff_unreferenced s b : Inv s -> (b < length (heap s))%nat ->
  (freed (getb s b) = true <-> count_refs b (vars s) = 0%nat).
Proof.
  intros [W _] L. destruct (wf_blk _ _ W b L) as [A B]. split.
  - intros F. destruct (A F) as [A1 _]. unfold cnt, zero in A1. lia.
  - intros Z0. destruct (freed (getb s b)) eqn:F; [reflexivity|].
    destruct (B eq_refl) as (B1 & B2 & _). unfold cnt, zero in B1. lia.
Qed.

Lemma Inv_released_once s b : Inv s -> (b < length (heap s))%nat ->
  dtors (getb s b) = if freed (getb s b) then 1%nat else 0%nat.
Proof.
  intros [W _] L. destruct (wf_blk _ _ W b L) as [A B].
  destruct (freed (getb s b)); [apply (A eq_refl)|apply (B eq_refl)].
Qed.

Lemma Inv_no_dangling s v r o : Inv s -> getv s v = VLive r o ->
  r = o /\ forall b, o = HBlock b -> (b < length (heap s))%nat /\ freed (getb s b) = false.
Proof.
  intros I G. pose proof I as [W C]. pose proof (C _ _ _ G) as E. subst o. split; [reflexivity|].
  intros b ->. destruct (Inv_live s v b _ I G) as [[L F] _]. split; assumption.
Qed.

Lemma Inv_unallocated_unreferenced s b : Inv s -> (length (heap s) <= b)%nat -> count_refs b (vars s) = 0%nat.
Proof. intros [W _] L. pose proof (wf_out _ _ W b L) as O. unfold cnt, zero in O. lia. Qed.

(* ---- releases are final: the release counter of a block only grows, a released block stays released,
        block identities are never reused ---------------------------------------------------------- *)
Definition ext (s s' : state) : Prop :=
  (length (heap s) <= length (heap s'))%nat /\
  forall b, (b < length (heap s))%nat ->
    (dtors (getb s b) <= dtors (getb s' b))%nat /\ (freed (getb s b) = true -> freed (getb s' b) = true).

Lemma ext_refl s : ext s s.
Proof. split; [lia|]. intros b _. split; [lia|auto]. Qed.
Lemma ext_trans s1 s2 s3 : ext s1 s2 -> ext s2 s3 -> ext s1 s3.
Proof.
  intros [L1 H1] [L2 H2]. split; [lia|]. intros b L.
  destruct (H1 b L) as [A1 B1]. destruct (H2 b ltac:(lia)) as [A2 B2]. split; [lia|auto].
Qed.
Lemma ext_heap_eq s s' : heap s' = heap s -> ext s s'.
Proof. intros E. unfold ext, getb. rewrite E. split; [lia|]. intros b _. split; [lia|auto]. Qed.

Lemma ext1_raise s x : ext s (raise s x).
Proof. apply ext_heap_eq. unfold raise. destruct (flt s); reflexivity. Qed.
Lemma ext1_touch s b : ext s (touch s b).
Proof. unfold touch. destruct (freed (getb s b)); [apply ext1_raise|apply ext_refl]. Qed.
Lemma ext1_setb s b k : (dtors (getb s b) <= dtors k)%nat -> (freed (getb s b) = true -> freed k = true) -> ext s (setb s b k).
Proof.
  intros D F. split; [rewrite len_setb; lia|]. intros c L.
  destruct (Nat.eq_dec b c) as [->|N].
  - rewrite getb_setb_same by exact L. split; assumption.
  - rewrite getb_setb_other by exact N. split; [lia|auto].
Qed.
Lemma ext1_inc s b : ext s (inc s b).
Proof. unfold inc. eapply ext_trans; [apply (ext1_touch s b)|]. apply ext1_setb; simpl; [lia|auto]. Qed.
Lemma ext1_dec s b : ext s (fst (dec s b)).
Proof.
  unfold dec. cbn [fst]. eapply ext_trans; [apply (ext1_touch s b)|].
  set (s1 := touch s b). destruct (rc (getb s1 b) - 1 <? 0).
  - eapply ext_trans; [apply (ext1_raise s1 (FUnderflow b))|]. apply ext1_setb; simpl; [lia|auto].
  - apply ext1_setb; simpl; [lia|auto].
Qed.
Lemma ext1_free s b : ext s (free_blk s b).
Proof.
  unfold free_blk. destruct (freed (getb s b)) eqn:F; [apply ext1_raise|].
  apply ext1_setb; simpl; [lia|auto].
Qed.
Lemma ext1_release f s h : ext s (release f s h).
Proof.
  destruct h as [|b]; [apply ext_refl|]. unfold release.
  eapply ext_trans; [apply (ext1_touch s b)|]. set (s1 := touch s b).
  destruct (is_ptr f || negb (rc (getb s1 b) =? 0)); [|apply ext_refl].
  pose proof (ext1_dec s1 b) as D. destruct (dec s1 b) as [s2 r]. cbn [fst] in D.
  destruct (r =? 0); [|exact D]. eapply ext_trans; [exact D|apply ext1_free].
Qed.
Lemma ext1_write_inplace s b n : ext s (write_inplace s b n).
Proof.
  unfold write_inplace. eapply ext_trans; [apply (ext1_touch s b)|]. set (s1 := touch s b).
  destruct (Nat.eqb (count_refs b (vars s1)) 1).
  - apply ext1_setb; simpl; [lia|auto].
  - eapply ext_trans; [apply (ext1_raise s1 (FSharedWrite b))|]. apply ext1_setb; simpl; [lia|auto].
Qed.
Lemma ext1_alloc s k vs fl : ext s {| heap := heap s ++ [k]; vars := vs; flt := fl |}.
Proof.
  split; [simpl; rewrite app_length; lia|]. intros b L. rewrite getb_app_old by exact L.
  unfold getb. split; [lia|auto].
Qed.

Lemma ext_setv s s1 v x : ext s s1 -> ext s (setv s1 v x).
Proof. intros H. eapply ext_trans; [exact H|]. apply ext_heap_eq. reflexivity. Qed.
Lemma ext_inc s s1 b : ext s s1 -> ext s (inc s1 b).
Proof. intros H. eapply ext_trans; [exact H|apply ext1_inc]. Qed.
Lemma ext_touch s s1 b : ext s s1 -> ext s (touch s1 b).
Proof. intros H. eapply ext_trans; [exact H|apply ext1_touch]. Qed.
Lemma ext_release s f s1 h : ext s s1 -> ext s (release f s1 h).
Proof. intros H. eapply ext_trans; [exact H|apply ext1_release]. Qed.
Lemma ext_write_inplace s s1 b n : ext s s1 -> ext s (write_inplace s1 b n).
Proof. intros H. eapply ext_trans; [exact H|apply ext1_write_inplace]. Qed.
Lemma ext_alloc s s1 k vs fl : ext s s1 -> ext s {| heap := heap s1 ++ [k]; vars := vs; flt := fl |}.
Proof. intros H. eapply ext_trans; [exact H|apply ext1_alloc]. Qed.

Ltac ext_go :=
  repeat first
    [ apply ext_refl
    | apply ext_setv | apply ext_inc | apply ext_touch | apply ext_release | apply ext_write_inplace | apply ext_alloc
    | match goal with |- ext _ (match ?x with _ => _ end) => destruct x end ].

Theorem step_ext obj_only f s o : ext s (step_gen obj_only f s o).
Proof.
  unfold step_gen, str_detach, var_detach, assign_val, retype, touch_var, ptr_swap, alloc. cbv zeta. ext_go.
Qed.

Lemma run_from_ext f ops s : ext s (fold_left (step f) ops s).
Proof.
  revert s. induction ops as [|o t IH]; intros s; [apply ext_refl|]. simpl.
  eapply ext_trans; [apply (step_ext false f s o)|apply IH].
Qed.

Lemma run_app f ops more : run f (ops ++ more) = fold_left (step f) more (run f ops).
Proof. unfold run. apply fold_left_app. Qed.

(* ---- what the fault monitors of the model check ------------------------------------------------ *)
Lemma flt_raise s x : flt (raise s x) <> None.
Proof. unfold raise. destruct (flt s) eqn:E; simpl; congruence. Qed.
Lemma flt_setb s b k : flt (setb s b k) = flt s.
Proof. reflexivity. Qed.

Lemma monitor_touch s b : flt s = None -> flt (touch s b) = None -> freed (getb s b) = false.
Proof.
  intros H0 H. unfold touch in H. destruct (freed (getb s b)); [|reflexivity].
  exfalso. exact (flt_raise _ _ H).
Qed.

Lemma monitor_write s b n : flt s = None -> flt (write_inplace s b n) = None ->
  freed (getb s b) = false /\ count_refs b (vars s) = 1%nat.
Proof.
  intros H0 H. unfold write_inplace in H. cbn [flt setb] in H.
  destruct (Nat.eqb (count_refs b (vars (touch s b))) 1) eqn:E.
  - pose proof (monitor_touch s b H0 H) as F. split; [exact F|].
    rewrite vars_touch in E. apply Nat.eqb_eq in E. exact E.
  - exfalso. exact (flt_raise _ _ H).
Qed.

Lemma monitor_free s b : flt s = None -> flt (free_blk s b) = None -> freed (getb s b) = false.
Proof.
  intros H0 H. unfold free_blk in H. destruct (freed (getb s b)); [|reflexivity].
  exfalso. exact (flt_raise _ _ H).
Qed.

(* ---- statements over all histories ---------------------------------------------------------------- *)
Lemma hist_no_fault f ops : flt (run f ops) = None.
Proof. apply Inv_no_fault, run_Inv. Qed.

Lemma hist_rc_counts f ops b : (b < length (heap (run f ops)))%nat -> freed (getb (run f ops) b) = false ->
  rc (getb (run f ops) b) = Z.of_nat (count_refs b (vars (run f ops))) /\ 1 <= rc (getb (run f ops) b)
  /\ dtors (getb (run f ops) b) = 0%nat.
Proof. apply Inv_rc_counts, run_Inv. Qed.

Lemma hist_released_iff_unreferenced f ops b : (b < length (heap (run f ops)))%nat ->
  (freed (getb (run f ops) b) = true <-> count_refs b (vars (run f ops)) = 0%nat).
Proof. apply Inv_released_iff_unreferenced, run_Inv. Qed.

Lemma hist_released_once f ops b : (b < length (heap (run f ops)))%nat ->
  dtors (getb (run f ops) b) = if freed (getb (run f ops) b) then 1%nat else 0%nat.
Proof. apply Inv_released_once, run_Inv. Qed.

Lemma hist_no_dangling f ops v r o : getv (run f ops) v = VLive r o ->
  r = o /\ forall b, o = HBlock b -> (b < length (heap (run f ops)))%nat /\ freed (getb (run f ops) b) = false.
Proof. apply Inv_no_dangling, run_Inv. Qed.

Lemma hist_release_final f ops more b : (b < length (heap (run f ops)))%nat ->
  (b < length (heap (run f (ops ++ more))))%nat /\
  (dtors (getb (run f ops) b) <= dtors (getb (run f (ops ++ more)) b) <= 1)%nat /\
  (freed (getb (run f ops) b) = true -> freed (getb (run f (ops ++ more)) b) = true).
Proof.
  intros L. rewrite run_app. destruct (run_from_ext f more (run f ops)) as [LL H].
  destruct (H b L) as [D F]. split; [lia|]. split; [|exact F]. split; [exact D|].
  rewrite <- run_app. rewrite hist_released_once by (rewrite run_app; lia).
  destruct (freed (getb (run f (ops ++ more)) b)); lia.
Qed.

(* a block, once it exists, never gets a handle again after its last handle has gone *)
Lemma hist_no_resurrection f ops more b : (b < length (heap (run f ops)))%nat ->
  count_refs b (vars (run f ops)) = 0%nat -> count_refs b (vars (run f (ops ++ more))) = 0%nat.
Proof.
  intros L Z0. destruct (hist_release_final f ops more b L) as (L' & _ & F).
  apply (hist_released_iff_unreferenced f (ops ++ more) b L'). apply F.
  apply (hist_released_iff_unreferenced f ops b L). exact Z0.
Qed.
