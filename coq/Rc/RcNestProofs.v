(* Handles stored inside payloads (RcNest): the counting invariant
     counter of b = handles to b in live variables + handles to b in the `next` member of objects that exist
   for every history, no access to a released object, release exactly once and exactly when no handle is left
   (cascading), for every sequence of operations over <variable, depth> locations. *)
From Coq Require Import ZArith List Bool Arith Lia.
From Common Require Import ListAux.
From Rc Require Import RcModel RcProofs RcNest.
Import ListNotations.
Local Open Scope Z_scope.

(* ---- sums over 0..n-1 ------------------------------------------------------------------------------- *)
Fixpoint sumf (f : nat -> Z) (n : nat) : Z := match n with O => 0 | S n' => sumf f n' + f n' end.

Lemma sumf_ext f g n : (forall i, (i < n)%nat -> f i = g i) -> sumf f n = sumf g n.
Proof.
  induction n as [|n IH]; intros H; [reflexivity|]. cbn [sumf]. rewrite IH by (intros i Hi; apply H; lia).
  rewrite (H n) by lia. reflexivity.
Qed.
Lemma sumf_upd1 f g n j : (j < n)%nat -> (forall i, (i < n)%nat -> i <> j -> f i = g i) ->
  sumf g n = sumf f n - f j + g j.
Proof.
  induction n as [|n IH]; intros Hj H; [lia|]. cbn [sumf].
  destruct (Nat.eq_dec j n) as [->|N].
  - rewrite (sumf_ext f g n) by (intros i Hi; apply H; lia). lia.
  - rewrite IH by (try lia; intros i Hi Hn; apply H; lia). rewrite (H n) by lia. lia.
Qed.
Lemma sumf_nonneg f n : (forall i, (i < n)%nat -> 0 <= f i) -> 0 <= sumf f n.
Proof.
  induction n as [|n IH]; intros H; [cbn; lia|]. cbn [sumf].
  pose proof (H n ltac:(lia)). assert (0 <= sumf f n) by (apply IH; intros i Hi; apply H; lia). lia.
Qed.
Lemma sumf_ge f n j : (j < n)%nat -> (forall i, (i < n)%nat -> 0 <= f i) -> f j <= sumf f n.
Proof.
  induction n as [|n IH]; intros Hj H; [lia|]. cbn [sumf].
  assert (0 <= sumf f n) by (apply sumf_nonneg; intros i Hi; apply H; lia).
  pose proof (H n ltac:(lia)).
  destruct (Nat.eq_dec j n) as [->|N]; [lia|].
  assert (f j <= sumf f n) by (apply IH; [lia|intros i Hi; apply H; lia]). lia.
Qed.
Lemma sumf_le_n f n : (forall i, (i < n)%nat -> f i <= 1) -> sumf f n <= Z.of_nat n.
Proof.
  induction n as [|n IH]; intros H; [cbn; lia|]. cbn [sumf].
  pose proof (H n ltac:(lia)). assert (sumf f n <= Z.of_nat n) by (apply IH; intros i Hi; apply H; lia). lia.
Qed.

(* ---- counting handles --------------------------------------------------------------------------------- *)
Definition hb (h : handle) (b : nat) : bool := match h with HBlock c => Nat.eqb c b | HNone => false end.
Definition counted (k : nblock) : bool := negb (nfreed k) && (0 <? nrc k).
Definition is_svar (X : slot) (v : nat) : bool := match X with SVar x => Nat.eqb x v | _ => false end.
Definition is_snext (X : slot) (k : nat) : bool := match X with SNext x => Nat.eqb x k | _ => false end.

(* handles to b, not counting the location X: in variable v / in the member `next` of object k (an object
   whose counter is 0 is being destroyed: its member has been handed to the release in progress) *)
Definition vterm (X : slot) (s : nstate) (b v : nat) : Z :=
  if is_svar X v then 0 else match ngetv s v with NLive h => bz (hb h b) | NDead => 0 end.
Definition kterm (X : slot) (s : nstate) (b k : nat) : Z :=
  if is_snext X k then 0 else if counted (ngetb s k) then bz (hb (nnext (ngetb s k)) b) else 0.
Definition hc (X : slot) (s : nstate) (b : nat) : Z :=
  sumf (vterm X s b) (length (nvars s)) + sumf (kterm X s b) (length (nheap s)).

Lemma bz_nonneg x : 0 <= bz x. Proof. destruct x; cbn; lia. Qed.
Lemma bz_le1 x : bz x <= 1. Proof. destruct x; cbn; lia. Qed.
Lemma vterm_nonneg X s b v : 0 <= vterm X s b v.
Proof. unfold vterm. destruct (is_svar X v); [lia|]. destruct (ngetv s v); [lia|apply bz_nonneg]. Qed.
Lemma kterm_nonneg X s b k : 0 <= kterm X s b k.
Proof. unfold kterm. destruct (is_snext X k); [lia|]. destruct (counted _); [apply bz_nonneg|lia]. Qed.
Lemma hc_nonneg X s b : 0 <= hc X s b.
Proof.
  unfold hc. pose proof (sumf_nonneg (vterm X s b) (length (nvars s)) (fun i _ => vterm_nonneg X s b i)).
  pose proof (sumf_nonneg (kterm X s b) (length (nheap s)) (fun i _ => kterm_nonneg X s b i)). lia.
Qed.

(* [adj b] = references to b held by the operation in progress (a handle read for sharing and already
   counted, the old value of the location being assigned, the member of an object being destroyed) *)
Record wfn (s : nstate) (X : slot) (adj : nat -> Z) : Prop := {
  wn_flt : nflt s = None;
  wn_adj : forall b, 0 <= adj b;
  wn_blk : forall b, (b < length (nheap s))%nat ->
      (nfreed (ngetb s b) = true -> hc X s b + adj b = 0 /\ ndtors (ngetb s b) = 1%nat) /\
      (nfreed (ngetb s b) = false -> nrc (ngetb s b) = hc X s b + adj b /\ ndtors (ngetb s b) = 0%nat);
  wn_out : forall b, (length (nheap s) <= b)%nat -> hc X s b + adj b = 0 }.

Definition nozero (s : nstate) : Prop :=
  forall c, (c < length (nheap s))%nat -> nfreed (ngetb s c) = false -> 1 <= nrc (ngetb s c).
Definition NInv (s : nstate) : Prop := wfn s SNo zero /\ nozero s.

Lemma wfn_ext s X adj adj' : wfn s X adj -> (forall b, adj' b = adj b) -> wfn s X adj'.
Proof.
  intros W H. constructor.
  - apply (wn_flt _ _ _ W).
  - intros b. rewrite H. apply (wn_adj _ _ _ W).
  - intros b Lb. rewrite H. apply (wn_blk _ _ _ W b Lb).
  - intros b Lb. rewrite H. apply (wn_out _ _ _ W b Lb).
Qed.

Lemma held_unfreed s X adj b : wfn s X adj -> 1 <= hc X s b + adj b ->
  (b < length (nheap s))%nat /\ nfreed (ngetb s b) = false.
Proof.
  intros W H. destruct (Nat.lt_ge_cases b (length (nheap s))) as [L|L].
  - split; [exact L|]. destruct (nfreed (ngetb s b)) eqn:E; [|reflexivity].
    destruct (wn_blk _ _ _ W b L) as [A _]. specialize (A E). lia.
  - pose proof (wn_out _ _ _ W b L). lia.
Qed.

(* ---- primitives --------------------------------------------------------------------------------------- *)
Lemma ngetb_nsetb_same s b k : (b < length (nheap s))%nat -> ngetb (nsetb s b k) b = k.
Proof. intros H. unfold ngetb, nsetb; cbn [nheap]. apply nth_upd_same; exact H. Qed.
Lemma ngetb_nsetb_other s b c k : b <> c -> ngetb (nsetb s b k) c = ngetb s c.
Proof. intros H. unfold ngetb, nsetb; cbn [nheap]. apply nth_upd_other; exact H. Qed.
Lemma len_nsetb s b k : length (nheap (nsetb s b k)) = length (nheap s).
Proof. unfold nsetb; cbn [nheap]. apply upd_length. Qed.
Lemma ntouch_unfreed s b : nfreed (ngetb s b) = false -> ntouch s b = s.
Proof. intros H. unfold ntouch. rewrite H. reflexivity. Qed.
Lemma ngetv_nsetv_same s v x : (v < length (nvars s))%nat -> ngetv (nsetv s v x) v = x.
Proof. intros H. unfold ngetv, nsetv; cbn [nvars]. apply nth_upd_same; exact H. Qed.
Lemma ngetv_nsetv_other s v w x : v <> w -> ngetv (nsetv s v x) w = ngetv s w.
Proof. intros H. unfold ngetv, nsetv; cbn [nvars]. apply nth_upd_other; exact H. Qed.

(* one block replaced *)
Lemma hc_nsetb X s j k' b : (j < length (nheap s))%nat ->
  hc X (nsetb s j k') b = hc X s b - kterm X s b j + kterm X (nsetb s j k') b j.
Proof.
  intros Lj. unfold hc. rewrite len_nsetb. cbn [nvars nsetb].
  rewrite (sumf_ext (vterm X (nsetb s j k') b) (vterm X s b)) by (intros i _; reflexivity).
  rewrite (sumf_upd1 (kterm X s b) (kterm X (nsetb s j k') b) _ j Lj).
  - lia.
  - intros i _ N. unfold kterm. rewrite ngetb_nsetb_other by congruence. reflexivity.
Qed.
(* one variable replaced *)
Lemma hc_nsetv X s v x b : (v < length (nvars s))%nat ->
  hc X (nsetv s v x) b = hc X s b - vterm X s b v + vterm X (nsetv s v x) b v.
Proof.
  intros Lv. unfold hc. cbn [nvars nheap nsetv]. rewrite upd_length.
  rewrite (sumf_ext (kterm X (nsetv s v x) b) (kterm X s b)) by (intros i _; reflexivity).
  rewrite (sumf_upd1 (vterm X s b) (vterm X (nsetv s v x) b) _ v Lv).
  - lia.
  - intros i _ N. unfold vterm. rewrite ngetv_nsetv_other by congruence. reflexivity.
Qed.

(* a block replaced by one with the same contribution *)
Lemma wfn_nsetb_same_terms s X adj j k' adj' :
  wfn s X adj -> (j < length (nheap s))%nat ->
  (forall b, kterm X (nsetb s j k') b j = kterm X s b j) ->
  (forall b, 0 <= adj' b) -> (forall b, b <> j -> adj' b = adj b) ->
  (nfreed k' = true -> hc X s j + adj' j = 0 /\ ndtors k' = 1%nat) ->
  (nfreed k' = false -> nrc k' = hc X s j + adj' j /\ ndtors k' = 0%nat) ->
  wfn (nsetb s j k') X adj'.
Proof.
  intros W Lj T A0 A1 F1 F2.
  assert (H : forall b, hc X (nsetb s j k') b = hc X s b) by (intros b; rewrite hc_nsetb by exact Lj; rewrite T; lia).
  constructor.
  - apply (wn_flt _ _ _ W).
  - exact A0.
  - intros b Lb. rewrite len_nsetb in Lb. rewrite H. destruct (Nat.eq_dec b j) as [->|N].
    + rewrite ngetb_nsetb_same by exact Lj. split; assumption.
    + rewrite ngetb_nsetb_other by congruence. rewrite (A1 b N). apply (wn_blk _ _ _ W b Lb).
  - intros b Lb. rewrite len_nsetb in Lb. rewrite H. rewrite (A1 b) by lia. apply (wn_out _ _ _ W b Lb).
Qed.

Lemma wfn_ninc s X adj b : wfn s X adj -> (b < length (nheap s))%nat -> nfreed (ngetb s b) = false ->
  (1 <= nrc (ngetb s b) \/ nnext (ngetb s b) = HNone) -> wfn (ninc s b) X (bump adj b 1).
Proof.
  intros W L F H. unfold ninc. rewrite (ntouch_unfreed _ _ F).
  destruct (wn_blk _ _ _ W b L) as [_ A]. destruct (A F) as [A1 A2].
  apply (wfn_nsetb_same_terms s X adj b _ _ W L).
  - intros c. unfold kterm. rewrite ngetb_nsetb_same by exact L. destruct (is_snext X b); [reflexivity|].
    unfold counted, with_nrc; cbn [nfreed nrc nnext]. rewrite F. cbn [negb andb].
    destruct H as [H|H].
    + destruct (0 <? nrc (ngetb s b) + 1) eqn:E1; [|apply Z.ltb_ge in E1; lia].
      destruct (0 <? nrc (ngetb s b)) eqn:E2; [reflexivity|apply Z.ltb_ge in E2; lia].
    + rewrite H. cbn [hb bz]. destruct (0 <? _), (0 <? _); reflexivity.
  - intros c. unfold bump. pose proof (wn_adj _ _ _ W c). destruct (Nat.eqb c b); lia.
  - intros c N. apply bump_other. exact N.
  - cbn [with_nrc nfreed]. rewrite F. discriminate.
  - intros _. cbn [with_nrc nrc ndtors]. rewrite bump_same. split; [lia|exact A2].
Qed.

(* the decrement leaves the counter positive *)
Lemma wfn_ndec_pos s X adj b : wfn s X adj -> (b < length (nheap s))%nat -> nfreed (ngetb s b) = false ->
  1 <= adj b -> 2 <= nrc (ngetb s b) -> wfn (ndec s b) X (bump adj b (-1)).
Proof.
  intros W L F HA H. unfold ndec. rewrite (ntouch_unfreed _ _ F).
  destruct (nrc (ngetb s b) - 1 <? 0) eqn:EU; [apply Z.ltb_lt in EU; lia|].
  destruct (wn_blk _ _ _ W b L) as [_ A]. destruct (A F) as [A1 A2].
  apply (wfn_nsetb_same_terms s X adj b _ _ W L).
  - intros c. unfold kterm. rewrite ngetb_nsetb_same by exact L. destruct (is_snext X b); [reflexivity|].
    unfold counted, with_nrc; cbn [nfreed nrc nnext]. rewrite F. cbn [negb andb].
    destruct (0 <? nrc (ngetb s b) - 1) eqn:E1; [|apply Z.ltb_ge in E1; lia].
    destruct (0 <? nrc (ngetb s b)) eqn:E2; [reflexivity|apply Z.ltb_ge in E2; lia].
  - intros c. unfold bump. pose proof (wn_adj _ _ _ W c). destruct (Nat.eqb_spec c b); [subst; lia|lia].
  - intros c N. apply bump_other. exact N.
  - cbn [with_nrc nfreed]. rewrite F. discriminate.
  - intros _. cbn [with_nrc nrc ndtors]. rewrite bump_same. split; [lia|exact A2].
Qed.

(* the decrement takes the counter to 0: the object is about to be destroyed, its member handle passes to
   the release in progress *)
Lemma wfn_ndec_zero s X adj b : wfn s X adj -> (b < length (nheap s))%nat -> nfreed (ngetb s b) = false ->
  1 <= adj b -> nrc (ngetb s b) = 1 -> is_snext X b = false ->
  wfn (ndec s b) X (fun c => adj c - bz (Nat.eqb c b) + bz (hb (nnext (ngetb s b)) c)).
Proof.
  intros W L F HA H NX. unfold ndec. rewrite (ntouch_unfreed _ _ F). rewrite H. cbn [Z.sub Z.add Z.opp Z.pos_sub Z.ltb Z.compare].
  destruct (wn_blk _ _ _ W b L) as [_ A]. destruct (A F) as [A1 A2].
  set (s1 := nsetb s b (with_nrc (ngetb s b) 0)).
  assert (HC : forall c, hc X s1 c = hc X s c - bz (hb (nnext (ngetb s b)) c)).
  { intros c. unfold s1. rewrite hc_nsetb by exact L. unfold kterm. rewrite ngetb_nsetb_same by exact L. rewrite NX.
    unfold counted, with_nrc; cbn [nfreed nrc nnext]. rewrite F. cbn [negb andb Z.ltb Z.compare].
    destruct (0 <? nrc (ngetb s b)) eqn:E2; [lia|apply Z.ltb_ge in E2; lia]. }
  constructor.
  - apply (wn_flt _ _ _ W).
  - intros c. pose proof (wn_adj _ _ _ W c). pose proof (bz_nonneg (hb (nnext (ngetb s b)) c)).
    destruct (Nat.eqb_spec c b); [subst; cbn [bz]; lia|cbn [bz]; lia].
  - intros c Lc. unfold s1 in Lc. rewrite len_nsetb in Lc. rewrite HC. destruct (Nat.eq_dec c b) as [->|N].
    + unfold s1. rewrite ngetb_nsetb_same by exact L. cbn [with_nrc nfreed nrc ndtors]. rewrite F, Nat.eqb_refl. cbn [bz].
      split; [discriminate|]. intros _. split; [lia|exact A2].
    + unfold s1. rewrite ngetb_nsetb_other by congruence. destruct (Nat.eqb_spec c b); [contradiction|]. cbn [bz].
      destruct (wn_blk _ _ _ W c Lc) as [B1 B2]. split.
      * intros E. destruct (B1 E) as [B3 B4]. split; [lia|exact B4].
      * intros E. destruct (B2 E) as [B3 B4]. split; [lia|exact B4].
  - intros c Lc. unfold s1 in Lc. rewrite len_nsetb in Lc. rewrite HC.
    destruct (Nat.eqb_spec c b); [lia|]. cbn [bz]. pose proof (wn_out _ _ _ W c Lc). lia.
Qed.

Lemma wfn_nfree s X adj b : wfn s X adj -> (b < length (nheap s))%nat -> nfreed (ngetb s b) = false ->
  nrc (ngetb s b) = 0 -> wfn (nfree s b) X adj.
Proof.
  intros W L F H. unfold nfree. rewrite F.
  destruct (wn_blk _ _ _ W b L) as [_ A]. destruct (A F) as [A1 A2].
  apply (wfn_nsetb_same_terms s X adj b _ _ W L).
  - intros c. unfold kterm. rewrite ngetb_nsetb_same by exact L. destruct (is_snext X b); [reflexivity|].
    unfold counted; cbn [nfreed nrc nnext]. rewrite F, H. reflexivity.
  - apply (wn_adj _ _ _ W).
  - reflexivity.
  - intros _. cbn [ndtors]. rewrite A2. split; [lia|reflexivity].
  - cbn [nfreed]. discriminate.
Qed.

Lemma ngetb_nalloc_old s n b : (b < length (nheap s))%nat -> ngetb (nalloc s n) b = ngetb s b.
Proof. intros H. unfold ngetb, nalloc; cbn [nheap]. apply app_nth1. exact H. Qed.
Lemma ngetb_nalloc_new s n : ngetb (nalloc s n) (length (nheap s)) = {| nrc := 0; nfreed := false; nval := n; nnext := HNone; ndtors := 0 |}.
Proof. unfold ngetb, nalloc; cbn [nheap]. rewrite app_nth2 by lia. rewrite Nat.sub_diag. reflexivity. Qed.
Lemma len_nalloc s n : length (nheap (nalloc s n)) = S (length (nheap s)).
Proof. unfold nalloc; cbn [nheap]. rewrite app_length. cbn. lia. Qed.

Lemma hc_nalloc X s n b : hc X (nalloc s n) b = hc X s b.
Proof.
  unfold hc. rewrite len_nalloc. cbn [sumf]. change (nvars (nalloc s n)) with (nvars s).
  rewrite (sumf_ext (vterm X (nalloc s n) b) (vterm X s b)) by (intros i _; reflexivity).
  rewrite (sumf_ext (kterm X (nalloc s n) b) (kterm X s b)).
  - unfold kterm at 2. rewrite ngetb_nalloc_new. unfold counted; cbn [nfreed nrc nnext].
    destruct (is_snext X (length (nheap s))); cbn; lia.
  - intros i Hi. unfold kterm. rewrite ngetb_nalloc_old by exact Hi. reflexivity.
Qed.

Lemma wfn_nalloc s X adj n : wfn s X adj -> wfn (nalloc s n) X adj.
Proof.
  intros W. pose proof (wn_out _ _ _ W (length (nheap s)) (Nat.le_refl _)) as O.
  pose proof (hc_nonneg X s (length (nheap s))). pose proof (wn_adj _ _ _ W (length (nheap s))).
  constructor.
  - apply (wn_flt _ _ _ W).
  - apply (wn_adj _ _ _ W).
  - intros b Lb. rewrite len_nalloc in Lb. rewrite hc_nalloc.
    destruct (Nat.eq_dec b (length (nheap s))) as [->|N].
    + rewrite ngetb_nalloc_new. cbn [nfreed nrc ndtors]. split; [discriminate|]. intros _. split; [lia|reflexivity].
    + rewrite ngetb_nalloc_old by lia. apply (wn_blk _ _ _ W b). lia.
  - intros b Lb. rewrite len_nalloc in Lb. rewrite hc_nalloc. apply (wn_out _ _ _ W b). lia.
Qed.

(* ---- protection: objects reached from a variable through locations other than X ------------------------- *)
Inductive prot (s : nstate) (X : slot) : nat -> Prop :=
| prot_var v p : ngetv s v = NLive (HBlock p) -> is_svar X v = false -> prot s X p
| prot_next q p : prot s X q -> nnext (ngetb s q) = HBlock p -> is_snext X q = false -> prot s X p.

Lemma ngetv_live_range s v h : ngetv s v = NLive h -> (v < length (nvars s))%nat.
Proof.
  intros H. destruct (Nat.lt_ge_cases v (length (nvars s))) as [L|L]; [exact L|].
  unfold ngetv in H. rewrite nth_overflow in H by exact L. discriminate.
Qed.

Lemma vterm_hit X s v p : ngetv s v = NLive (HBlock p) -> is_svar X v = false -> 1 <= hc X s p.
Proof.
  intros G NX. pose proof (ngetv_live_range _ _ _ G) as Lv. unfold hc.
  pose proof (sumf_ge (vterm X s p) _ v Lv (fun i _ => vterm_nonneg X s p i)) as H1.
  pose proof (sumf_nonneg (kterm X s p) (length (nheap s)) (fun i _ => kterm_nonneg X s p i)) as H2.
  unfold vterm at 1 in H1. rewrite NX, G in H1. cbn [hb] in H1. rewrite Nat.eqb_refl in H1. cbn [bz] in H1. lia.
Qed.
Lemma kterm_hit X s q p : (q < length (nheap s))%nat -> counted (ngetb s q) = true -> nnext (ngetb s q) = HBlock p ->
  is_snext X q = false -> 1 <= hc X s p.
Proof.
  intros Lq C G NX. unfold hc.
  pose proof (sumf_ge (kterm X s p) _ q Lq (fun i _ => kterm_nonneg X s p i)) as H1.
  pose proof (sumf_nonneg (vterm X s p) (length (nvars s)) (fun i _ => vterm_nonneg X s p i)) as H2.
  unfold kterm at 1 in H1. rewrite NX, C, G in H1. cbn [hb] in H1. rewrite Nat.eqb_refl in H1. cbn [bz] in H1. lia.
Qed.

Lemma prot_held s X adj p : wfn s X adj -> prot s X p ->
  (p < length (nheap s))%nat /\ nfreed (ngetb s p) = false /\ 1 <= hc X s p /\ 1 <= nrc (ngetb s p).
Proof.
  intros W P. assert (H : 1 <= hc X s p).
  { induction P as [v p G NX|q p P IH G NX].
    - exact (vterm_hit X s v p G NX).
    - pose proof (wn_adj _ _ _ W q) as AQ.
      destruct (held_unfreed s X adj q W ltac:(lia)) as [Lq Fq].
      destruct (wn_blk _ _ _ W q Lq) as [_ A]. destruct (A Fq) as [A1 _].
      apply (kterm_hit X s q p Lq); [|exact G|exact NX].
      unfold counted. rewrite Fq. cbn [negb andb]. apply Z.ltb_lt. lia. }
  pose proof (wn_adj _ _ _ W p) as AP.
  destruct (held_unfreed s X adj p W ltac:(lia)) as [Lp Fp].
  destruct (wn_blk _ _ _ W p Lp) as [_ A]. destruct (A Fp) as [A1 _].
  repeat split; try assumption; lia.
Qed.

(* what the release does not change *)
Definition same_static (s s' : nstate) : Prop :=
  nvars s' = nvars s /\ length (nheap s') = length (nheap s) /\
  forall c, nnext (ngetb s' c) = nnext (ngetb s c) /\ nval (ngetb s' c) = nval (ngetb s c).
Lemma same_static_refl s : same_static s s.
Proof. repeat split. Qed.
Lemma same_static_trans s1 s2 s3 : same_static s1 s2 -> same_static s2 s3 -> same_static s1 s3.
Proof.
  intros (A1 & A2 & A3) (B1 & B2 & B3). split; [congruence|]. split; [congruence|].
  intros c. destruct (A3 c), (B3 c). split; congruence.
Qed.
Lemma same_static_nsetb s b k : nnext k = nnext (ngetb s b) -> nval k = nval (ngetb s b) -> same_static s (nsetb s b k).
Proof.
  intros H1 H2. split; [reflexivity|]. split; [apply len_nsetb|]. intros c.
  destruct (Nat.eq_dec b c) as [->|N].
  - destruct (Nat.lt_ge_cases c (length (nheap s))) as [L|L].
    + rewrite ngetb_nsetb_same by exact L. split; assumption.
    + unfold ngetb, nsetb; cbn [nheap]. rewrite !nth_overflow by (rewrite ?upd_length; exact L). split; reflexivity.
  - rewrite ngetb_nsetb_other by exact N. split; reflexivity.
Qed.
Lemma prot_static s s' X p : same_static s s' -> prot s X p -> prot s' X p.
Proof.
  intros (A1 & A2 & A3) P. induction P as [v p G NX|q p P IH G NX].
  - apply (prot_var s' X v p); [|exact NX]. unfold ngetv in *. rewrite A1. exact G.
  - apply (prot_next s' X q p IH); [|exact NX]. destruct (A3 q) as [E _]. rewrite E. exact G.
Qed.

(* number of objects whose counter is positive: what the cascade consumes *)
Definition mz (s : nstate) : Z := sumf (fun c => bz (counted (ngetb s c))) (length (nheap s)).
Lemma mz_nonneg s : 0 <= mz s.
Proof. apply sumf_nonneg. intros i _. apply bz_nonneg. Qed.
Lemma mz_le_len s : mz s <= Z.of_nat (length (nheap s)).
Proof. apply sumf_le_n. intros i _. apply bz_le1. Qed.
Lemma mz_nsetb s b k : (b < length (nheap s))%nat ->
  mz (nsetb s b k) = mz s - bz (counted (ngetb s b)) + bz (counted k).
Proof.
  intros L. unfold mz. rewrite len_nsetb.
  rewrite (sumf_upd1 (fun c => bz (counted (ngetb s c))) (fun c => bz (counted (ngetb (nsetb s b k) c))) _ b L).
  - rewrite ngetb_nsetb_same by exact L. reflexivity.
  - intros i _ N. rewrite ngetb_nsetb_other by congruence. reflexivity.
Qed.

Definition frame0 (s s' : nstate) : Prop :=
  forall c, (c < length (nheap s))%nat -> nfreed (ngetb s c) = false -> nrc (ngetb s c) = 0 -> ngetb s' c = ngetb s c.
Definition zeros_from (s s' : nstate) : Prop :=
  forall c, (c < length (nheap s'))%nat -> nfreed (ngetb s' c) = false -> nrc (ngetb s' c) = 0 ->
            nfreed (ngetb s c) = false /\ nrc (ngetb s c) = 0.

Lemma nrelease_none fuel s : nrelease fuel s HNone = s.
Proof. destruct fuel; reflexivity. Qed.

(* the release of one counted reference, with everything it sets off *)
Lemma nrelease_ok fuel : forall s X adj b,
  wfn s X adj -> 1 <= adj b -> (forall K, X = SNext K -> prot s X K) -> mz s < Z.of_nat fuel ->
  let s' := nrelease fuel s (HBlock b) in
  wfn s' X (bump adj b (-1)) /\ same_static s s' /\ frame0 s s' /\ zeros_from s s'.
Proof.
  induction fuel as [|fuel IH]; intros s X adj b W HA PX FU; [pose proof (mz_nonneg s); lia|].
  pose proof (hc_nonneg X s b) as HN.
  destruct (held_unfreed s X adj b W ltac:(lia)) as [L F].
  destruct (wn_blk _ _ _ W b L) as [_ A]. destruct (A F) as [A1 A2].
  cbn [nrelease].
  assert (D : ndec s b = nsetb s b (with_nrc (ngetb s b) (nrc (ngetb s b) - 1))).
  { unfold ndec. rewrite (ntouch_unfreed _ _ F). destruct (nrc (ngetb s b) - 1 <? 0) eqn:EU; [apply Z.ltb_lt in EU; lia|reflexivity]. }
  assert (G1 : ngetb (ndec s b) b = with_nrc (ngetb s b) (nrc (ngetb s b) - 1)) by (rewrite D; apply ngetb_nsetb_same; exact L).
  assert (ST1 : same_static s (ndec s b)) by (rewrite D; apply same_static_nsetb; reflexivity).
  rewrite G1. cbn [with_nrc nrc].
  destruct (nrc (ngetb s b) - 1 =? 0) eqn:EZ.
  - (* the last reference *)
    apply Z.eqb_eq in EZ. assert (R1 : nrc (ngetb s b) = 1) by lia.
    assert (NX : is_snext X b = false).
    { destruct X as [|x|x]; try reflexivity. cbn [is_snext]. destruct (Nat.eqb_spec x b) as [->|]; [|reflexivity].
      destruct (prot_held s (SNext b) adj b W (PX b eq_refl)) as (_ & _ & P1 & _). lia. }
    pose proof (wfn_ndec_zero s X adj b W L F HA R1 NX) as W1.
    set (s1 := ndec s b) in *.
    assert (F1 : nfreed (ngetb s1 b) = false) by (rewrite G1; exact F).
    rewrite (ntouch_unfreed _ _ F1). rewrite G1. cbn [with_nrc nnext].
    assert (L1 : (b < length (nheap s1))%nat) by (destruct ST1 as (_ & E & _); rewrite E; exact L).
    assert (M1 : mz s1 = mz s - 1).
    { rewrite D, mz_nsetb by exact L. unfold counted. cbn [with_nrc nfreed nrc]. rewrite F, R1. cbn. lia. }
    assert (FR1 : frame0 s s1).
    { intros c Lc Fc Rc. rewrite D. apply ngetb_nsetb_other. intros ->. lia. }
    destruct (nnext (ngetb s b)) as [|c] eqn:NB.
    + (* no member handle *)
      rewrite nrelease_none.
      assert (R0 : nrc (ngetb s1 b) = 0) by (rewrite G1; cbn [with_nrc nrc]; lia).
      pose proof (wfn_nfree s1 X _ b W1 L1 F1 R0) as W2.
      split; [|split; [|split]].
      * eapply wfn_ext; [exact W2|]. intros x. cbn [hb bz]. unfold bump. destruct (Nat.eqb x b); cbn [bz]; lia.
      * eapply same_static_trans; [exact ST1|]. unfold nfree. rewrite F1. apply same_static_nsetb; reflexivity.
      * intros x Lx Fx Rx. unfold nfree. rewrite F1. rewrite ngetb_nsetb_other by (intros ->; lia). apply FR1; assumption.
      * intros x Lx Fx Rx. unfold nfree in Lx, Fx, Rx. rewrite F1 in Lx, Fx, Rx. rewrite len_nsetb in Lx.
        destruct (Nat.eq_dec b x) as [->|N]; [rewrite ngetb_nsetb_same in Fx by exact L1; discriminate|].
        rewrite ngetb_nsetb_other in Fx, Rx by exact N.
        assert (x <> b) by congruence.
        rewrite D in Fx, Rx. rewrite ngetb_nsetb_other in Fx, Rx by congruence. split; assumption.
    + (* the member handle is released in turn *)
      assert (HA1 : 1 <= adj c - bz (Nat.eqb c b) + bz (hb (HBlock c) c)).
      { cbn [hb]. rewrite Nat.eqb_refl. cbn [bz]. pose proof (wn_adj _ _ _ W c). destruct (Nat.eqb_spec c b); [subst; cbn [bz]; lia|cbn [bz]; lia]. }
      assert (PX1 : forall K, X = SNext K -> prot s1 X K) by (intros K E; apply (prot_static s s1 X K ST1), PX, E).
      destruct (IH s1 X _ c W1 HA1 PX1 ltac:(lia)) as (W3 & ST3 & FR3 & ZF3).
      set (s3 := nrelease fuel s1 (HBlock c)) in *.
      assert (R0 : nrc (ngetb s1 b) = 0) by (rewrite G1; cbn [with_nrc nrc]; lia).
      assert (G3 : ngetb s3 b = ngetb s1 b) by (apply FR3; assumption).
      assert (L3 : (b < length (nheap s3))%nat) by (destruct ST3 as (_ & E & _); rewrite E; exact L1).
      assert (F3 : nfreed (ngetb s3 b) = false) by (rewrite G3; exact F1).
      assert (R3 : nrc (ngetb s3 b) = 0) by (rewrite G3; exact R0).
      pose proof (wfn_nfree s3 X _ b W3 L3 F3 R3) as W4.
      split; [|split; [|split]].
      * eapply wfn_ext; [exact W4|]. intros x. cbn [hb]. unfold bump.
        destruct (Nat.eqb_spec x c); destruct (Nat.eqb_spec x b); destruct (Nat.eqb_spec c x); subst; cbn [bz]; try lia; congruence.
      * eapply same_static_trans; [exact ST1|]. eapply same_static_trans; [exact ST3|].
        unfold nfree. rewrite F3. apply same_static_nsetb; reflexivity.
      * intros x Lx Fx Rx. unfold nfree. rewrite F3. rewrite ngetb_nsetb_other by (intros ->; lia).
        rewrite <- (FR1 x Lx Fx Rx). apply FR3.
        -- destruct ST1 as (_ & E & _). rewrite E. exact Lx.
        -- rewrite (FR1 x Lx Fx Rx). exact Fx.
        -- rewrite (FR1 x Lx Fx Rx). exact Rx.
      * intros x Lx Fx Rx. unfold nfree in Lx, Fx, Rx. rewrite F3 in Lx, Fx, Rx. rewrite len_nsetb in Lx.
        destruct (Nat.eq_dec b x) as [->|N]; [rewrite ngetb_nsetb_same in Fx by exact L3; discriminate|].
        rewrite ngetb_nsetb_other in Fx, Rx by exact N.
        destruct (ZF3 x Lx Fx Rx) as [Fx1 Rx1].
        rewrite D in Fx1, Rx1. rewrite ngetb_nsetb_other in Fx1, Rx1 by exact N. split; assumption.
  - (* other references remain *)
    apply Z.eqb_neq in EZ. assert (R2 : 2 <= nrc (ngetb s b)) by lia.
    split; [|split; [|split]].
    + exact (wfn_ndec_pos s X adj b W L F HA R2).
    + exact ST1.
    + intros x Lx Fx Rx. rewrite D. apply ngetb_nsetb_other. intros ->. lia.
    + intros x Lx Fx Rx. rewrite D in Lx, Fx, Rx. rewrite len_nsetb in Lx.
      destruct (Nat.eq_dec b x) as [->|N].
      * rewrite ngetb_nsetb_same in Rx by exact L. cbn [with_nrc nrc] in Rx. lia.
      * rewrite ngetb_nsetb_other in Fx, Rx by exact N. split; assumption.
Qed.

(* ---- a location taken out of the count, and put back ------------------------------------------------------ *)
Definition slot_ok (s : nstate) (X : slot) : Prop :=
  match X with
  | SNo => True
  | SVar v => (v < length (nvars s))%nat
  | SNext k => (k < length (nheap s))%nat /\ counted (ngetb s k) = true
  end.

Lemma hc_exclude s X b : slot_ok s X -> hc SNo s b = hc X s b + bz (hb (slot_get s X) b).
Proof.
  intros OK. destruct X as [|v|k]; cbn [slot_get].
  - cbn [hb bz]. lia.
  - cbn [slot_ok] in OK. unfold hc.
    change (kterm (SVar v) s b) with (kterm SNo s b).
    rewrite (sumf_upd1 (vterm SNo s b) (vterm (SVar v) s b) _ v OK).
    + assert (E1 : vterm (SVar v) s b v = 0) by (unfold vterm; cbn [is_svar]; rewrite Nat.eqb_refl; reflexivity).
      assert (E2 : vterm SNo s b v = bz (hb match ngetv s v with NLive h => h | NDead => HNone end b))
        by (unfold vterm; cbn [is_svar]; destruct (ngetv s v); reflexivity).
      rewrite E1, E2. lia.
    + intros i _ N. unfold vterm. cbn [is_svar]. destruct (Nat.eqb_spec v i); [congruence|reflexivity].
  - cbn [slot_ok] in OK. destruct OK as [Lk C]. unfold hc.
    change (vterm (SNext k) s b) with (vterm SNo s b).
    rewrite (sumf_upd1 (kterm SNo s b) (kterm (SNext k) s b) _ k Lk).
    + assert (E1 : kterm (SNext k) s b k = 0) by (unfold kterm; cbn [is_snext]; rewrite Nat.eqb_refl; reflexivity).
      assert (E2 : kterm SNo s b k = bz (hb (nnext (ngetb s k)) b)) by (unfold kterm; cbn [is_snext]; rewrite C; reflexivity).
      rewrite E1, E2. lia.
    + intros i _ N. unfold kterm. cbn [is_snext]. destruct (Nat.eqb_spec k i); [congruence|reflexivity].
Qed.

Lemma wfn_reacc s X X' adj adj' : wfn s X adj -> (forall c, hc X' s c + adj' c = hc X s c + adj c) ->
  (forall c, 0 <= adj' c) -> wfn s X' adj'.
Proof.
  intros W H A. constructor.
  - apply (wn_flt _ _ _ W).
  - exact A.
  - intros b Lb. rewrite H. apply (wn_blk _ _ _ W b Lb).
  - intros b Lb. rewrite H. apply (wn_out _ _ _ W b Lb).
Qed.

Lemma wfn_exclude s X adj : wfn s SNo adj -> slot_ok s X -> wfn s X (fun c => adj c + bz (hb (slot_get s X) c)).
Proof.
  intros W OK. apply (wfn_reacc s SNo X adj _ W).
  - intros c. rewrite (hc_exclude s X c OK). lia.
  - intros c. pose proof (wn_adj _ _ _ W c). pose proof (bz_nonneg (hb (slot_get s X) c)). lia.
Qed.
Lemma wfn_include s X adj : wfn s X adj -> slot_ok s X -> (forall c, bz (hb (slot_get s X) c) <= adj c) ->
  wfn s SNo (fun c => adj c - bz (hb (slot_get s X) c)).
Proof.
  intros W OK H. apply (wfn_reacc s X SNo adj _ W).
  - intros c. rewrite (hc_exclude s X c OK). lia.
  - intros c. specialize (H c). lia.
Qed.

Lemma wfn_same_hc s s' X adj : wfn s X adj -> nheap s' = nheap s -> nflt s' = nflt s ->
  (forall c, hc X s' c = hc X s c) -> wfn s' X adj.
Proof.
  intros W EH EF H. constructor.
  - rewrite EF. apply (wn_flt _ _ _ W).
  - apply (wn_adj _ _ _ W).
  - intros b Lb. rewrite EH in Lb. rewrite H. unfold ngetb. rewrite EH. apply (wn_blk _ _ _ W b Lb).
  - intros b Lb. rewrite EH in Lb. rewrite H. apply (wn_out _ _ _ W b Lb).
Qed.

(* writing the location that is out of the count changes no count *)
Lemma wfn_nsetv_excluded s v x adj : wfn s (SVar v) adj -> (v < length (nvars s))%nat -> wfn (nsetv s v x) (SVar v) adj.
Proof.
  intros W Lv. apply (wfn_same_hc s _ _ adj W); try reflexivity.
  intros c. rewrite hc_nsetv by exact Lv. unfold vterm. cbn [is_svar]. rewrite Nat.eqb_refl. lia.
Qed.
Lemma wfn_set_next_excluded s k h adj : wfn s (SNext k) adj -> (k < length (nheap s))%nat ->
  wfn (nsetb s k (with_nnext (ngetb s k) h)) (SNext k) adj.
Proof.
  intros W Lk. destruct (wn_blk _ _ _ W k Lk) as [B1 B2].
  apply (wfn_nsetb_same_terms s (SNext k) adj k _ adj W Lk).
  - intros c. unfold kterm. cbn [is_snext]. rewrite Nat.eqb_refl. reflexivity.
  - apply (wn_adj _ _ _ W).
  - reflexivity.
  - cbn [with_nnext nfreed ndtors]. exact B1.
  - cbn [with_nnext nfreed nrc ndtors]. exact B2.
Qed.

Lemma slot_handle_live s X b : NInv s -> slot_ok s X -> slot_get s X = HBlock b ->
  (b < length (nheap s))%nat /\ nfreed (ngetb s b) = false /\ 1 <= nrc (ngetb s b).
Proof.
  intros [W NZ] OK G. pose proof (hc_exclude s X b OK) as H. rewrite G in H. cbn [hb] in H. rewrite Nat.eqb_refl in H. cbn [bz] in H.
  pose proof (hc_nonneg X s b).
  destruct (held_unfreed s SNo zero b W ltac:(unfold zero; lia)) as [L F].
  split; [exact L|]. split; [exact F|]. apply NZ; assumption.
Qed.

(* ---- resolving <variable, depth> ---------------------------------------------------------------------------- *)
Lemma prot_live s p : NInv s -> prot s SNo p ->
  (p < length (nheap s))%nat /\ nfreed (ngetb s p) = false /\ 1 <= nrc (ngetb s p).
Proof. intros [W _] P. destruct (prot_held s SNo zero p W P) as (A & B & _ & D). repeat split; assumption. Qed.

Lemma walk_ok s : NInv s -> forall k b, prot s SNo b ->
  walk_touch s b k = s /\ forall c, walk_to s b k = Some c -> prot s SNo c.
Proof.
  intros I. induction k as [|k IH]; intros b P; cbn [walk_touch walk_to].
  - split; [reflexivity|]. intros c E. inversion E; subst. exact P.
  - destruct (prot_live s b I P) as (_ & F & _). rewrite (ntouch_unfreed _ _ F).
    destruct (nnext (ngetb s b)) as [|c] eqn:N.
    + split; [reflexivity|]. discriminate.
    + apply IH. apply (prot_next s SNo b c P N). reflexivity.
Qed.

Lemma resolve_ok s v k X : NInv s -> resolve s v k = Some X ->
  resolve_touch s v k = s /\ slot_touch s X = s /\ slot_ok s X /\ (forall K, X = SNext K -> prot s SNo K).
Proof.
  intros I R. unfold resolve in R. unfold resolve_touch.
  destruct k as [|k].
  - destruct (ngetv s v) as [|h] eqn:G; [discriminate|]. inversion R; subst X.
    split; [destruct h; reflexivity|]. split; [reflexivity|]. split; [|discriminate].
    cbn [slot_ok]. apply (ngetv_live_range _ _ _ G).
  - destruct (ngetv s v) as [|[|b]] eqn:G; try discriminate.
    assert (P : prot s SNo b) by (apply (prot_var s SNo v b G); reflexivity).
    destruct (walk_ok s I k b P) as [WT WP]. rewrite WT.
    destruct (walk_to s b k) as [c|] eqn:E; [|discriminate]. inversion R; subst X.
    pose proof (WP c eq_refl) as PC. destruct (prot_live s c I PC) as (Lc & Fc & Rc).
    split; [reflexivity|]. cbn [slot_touch slot_ok]. split; [apply ntouch_unfreed; exact Fc|]. split.
    + split; [exact Lc|]. unfold counted. rewrite Fc. cbn [negb andb]. apply Z.ltb_lt. lia.
    + intros K EK. inversion EK; subst. exact PC.
Qed.

(* an object reached from a variable is still reached when the member `next` of K is not used, or K itself is *)
Lemma prot_without s p K : prot s SNo p -> prot s (SNext K) p \/ prot s (SNext K) K.
Proof.
  intros P. induction P as [v p G NX|q p P IH G NX].
  - left. apply (prot_var s (SNext K) v p G). reflexivity.
  - destruct IH as [IH|IH]; [|right; exact IH].
    destruct (Nat.eq_dec K q) as [->|N]; [right; exact IH|].
    left. apply (prot_next s (SNext K) q p IH G). cbn [is_snext]. destruct (Nat.eqb_spec K q); [contradiction|reflexivity].
Qed.
Lemma prot_holder s K : prot s SNo K -> prot s (SNext K) K.
Proof. intros P. destruct (prot_without s K K P); assumption. Qed.

(* ---- the phases of an operation ------------------------------------------------------------------------------ *)
Lemma nozero_from s s' X adj : wfn s' X adj -> nozero s -> zeros_from s s' -> length (nheap s') = length (nheap s) -> nozero s'.
Proof.
  intros W NZ ZF EL c Lc Fc.
  destruct (wn_blk _ _ _ W c Lc) as [_ A]. destruct (A Fc) as [A1 _].
  pose proof (hc_nonneg X s' c). pose proof (wn_adj _ _ _ W c).
  destruct (Z.eq_dec (nrc (ngetb s' c)) 0) as [E|E]; [|lia].
  destruct (ZF c Lc Fc E) as [F0 R0]. rewrite EL in Lc. specialize (NZ c Lc F0). lia.
Qed.

Lemma release_phase s X adj rd : wfn s X adj -> nozero s -> (forall K, X = SNext K -> prot s X K) ->
  (forall c, bz (hb rd c) <= adj c) ->
  let s' := nrelease (nfuel s) s rd in
  wfn s' X (fun c => adj c - bz (hb rd c)) /\ same_static s s' /\ nozero s'.
Proof.
  intros W NZ PX H. destruct rd as [|r].
  - cbn zeta. rewrite nrelease_none. split; [|split; [apply same_static_refl|exact NZ]].
    eapply wfn_ext; [exact W|]. intros c. cbn [hb bz]. lia.
  - assert (HA : 1 <= adj r) by (specialize (H r); cbn [hb] in H; rewrite Nat.eqb_refl in H; exact H).
    assert (FU : mz s < Z.of_nat (nfuel s)) by (unfold nfuel; pose proof (mz_le_len s); lia).
    destruct (nrelease_ok (nfuel s) s X adj r W HA PX FU) as (W2 & ST & _ & ZF).
    cbn zeta. split; [|split; [exact ST|]].
    + eapply wfn_ext; [exact W2|]. intros c. cbn [hb]. unfold bump. rewrite (Nat.eqb_sym r c). destruct (Nat.eqb c r); cbn [bz]; lia.
    + apply (nozero_from s _ X _ W2 NZ ZF). destruct ST as (_ & E & _). exact E.
Qed.

Lemma slot_get_set s X h : slot_ok s X -> X <> SNo -> slot_touch s X = s -> slot_get (slot_set s X h) X = h.
Proof.
  intros OK NS T. destruct X as [|v|k]; [contradiction| |].
  - cbn [slot_set slot_get]. rewrite ngetv_nsetv_same by exact OK. reflexivity.
  - cbn [slot_set slot_get slot_touch] in *. rewrite T. destruct OK as [Lk _]. rewrite ngetb_nsetb_same by exact Lk. reflexivity.
Qed.

(* store h into the location X (out of the count), whose reference the operation holds *)
Lemma store_phase s X adj h : wfn s X adj -> nozero s -> X <> SNo ->
  match X with SVar v => (v < length (nvars s))%nat | SNext K => prot s X K | SNo => True end ->
  (forall c, bz (hb h c) <= adj c) ->
  wfn (slot_set s X h) SNo (fun c => adj c - bz (hb h c)) /\ nozero (slot_set s X h).
Proof.
  intros W NZ NS OK H. destruct X as [|v|K]; [contradiction| |].
  - cbn [slot_set]. pose proof (wfn_nsetv_excluded s v (NLive h) adj W OK) as W1.
    assert (OK1 : slot_ok (nsetv s v (NLive h)) (SVar v)) by (cbn [slot_ok nsetv nvars]; rewrite upd_length; exact OK).
    pose proof (wfn_include _ _ _ W1 OK1) as W2. cbn [slot_get] in W2. rewrite ngetv_nsetv_same in W2 by exact OK.
    split; [apply W2; exact H|]. exact NZ.
  - destruct (prot_held s (SNext K) adj K W OK) as (LK & FK & _ & RK).
    cbn [slot_set]. rewrite (ntouch_unfreed _ _ FK).
    pose proof (wfn_set_next_excluded s K h adj W LK) as W1.
    set (s1 := nsetb s K (with_nnext (ngetb s K) h)) in *.
    assert (G1 : ngetb s1 K = with_nnext (ngetb s K) h) by (apply ngetb_nsetb_same; exact LK).
    assert (OK1 : slot_ok s1 (SNext K)).
    { cbn [slot_ok]. split; [unfold s1; rewrite len_nsetb; exact LK|]. rewrite G1. unfold counted. cbn [with_nnext nfreed nrc].
      rewrite FK. cbn [negb andb]. apply Z.ltb_lt. lia. }
    pose proof (wfn_include _ _ _ W1 OK1) as W2. cbn [slot_get] in W2. rewrite G1 in W2. cbn [with_nnext nnext] in W2.
    split; [apply W2; exact H|].
    intros c Lc Fc. unfold s1 in Lc. rewrite len_nsetb in Lc. destruct (Nat.eq_dec K c) as [->|N].
    + rewrite G1. cbn [with_nnext nrc]. exact RK.
    + unfold s1 in Fc |- *. rewrite ngetb_nsetb_other in Fc |- * by exact N. apply NZ; assumption.
Qed.

Lemma slot_touch_ok s X : slot_ok s X -> slot_touch s X = s.
Proof.
  destruct X as [|v|k]; try reflexivity. intros [_ C]. cbn [slot_touch]. apply ntouch_unfreed.
  unfold counted in C. destruct (nfreed (ngetb s k)); [discriminate|reflexivity].
Qed.
Lemma slot_get_static s s' X : same_static s s' -> slot_get s' X = slot_get s X.
Proof.
  intros (A1 & _ & A3). destruct X as [|v|k]; cbn [slot_get]; [reflexivity| |].
  - unfold ngetv. rewrite A1. reflexivity.
  - apply (A3 k).
Qed.
Lemma slot_ok_static s s' X : same_static s s' -> (forall k, counted (ngetb s k) = true -> counted (ngetb s' k) = true) ->
  slot_ok s X -> slot_ok s' X.
Proof.
  intros (A1 & A2 & _) CM. destruct X as [|v|k]; cbn [slot_ok]; [auto| |].
  - rewrite A1. auto.
  - rewrite A2. intros [L C]. split; [exact L|apply CM; exact C].
Qed.

Lemma ninc_eq s b : nfreed (ngetb s b) = false -> ninc s b = nsetb s b (with_nrc (ngetb s b) (nrc (ngetb s b) + 1)).
Proof. intros F. unfold ninc. rewrite (ntouch_unfreed _ _ F). reflexivity. Qed.

(* blocks whose counter may still be 0: only b (a fresh object before its first increment) *)
Lemma ninc_keeps s b : (b < length (nheap s))%nat -> nfreed (ngetb s b) = false -> 0 <= nrc (ngetb s b) ->
  (forall c, (c < length (nheap s))%nat -> c <> b -> nfreed (ngetb s c) = false -> 1 <= nrc (ngetb s c)) ->
  same_static s (ninc s b) /\ nozero (ninc s b) /\ (forall k, counted (ngetb s k) = true -> counted (ngetb (ninc s b) k) = true).
Proof.
  intros L F R NZ. rewrite (ninc_eq s b F). split; [|split].
  - apply same_static_nsetb; reflexivity.
  - intros c Lc Fc. rewrite len_nsetb in Lc. destruct (Nat.eq_dec b c) as [->|N].
    + rewrite ngetb_nsetb_same by exact L. cbn [with_nrc nrc]. lia.
    + rewrite ngetb_nsetb_other in Fc |- * by exact N. apply NZ; [exact Lc|congruence|exact Fc].
  - intros k C. destruct (Nat.eq_dec b k) as [->|N].
    + rewrite ngetb_nsetb_same by exact L. unfold counted in *. cbn [with_nrc nfreed nrc].
      destruct (nfreed (ngetb s k)); [discriminate|]. cbn [negb andb] in *. apply Z.ltb_lt in C. apply Z.ltb_lt. lia.
    + rewrite ngetb_nsetb_other by exact N. exact C.
Qed.

(* take a counted reference on the object h refers to (h is read from a location that counts) *)
Lemma share_phase s h : NInv s ->
  (forall b, h = HBlock b -> (b < length (nheap s))%nat /\ nfreed (ngetb s b) = false /\ 1 <= nrc (ngetb s b)) ->
  let s1 := match h with HBlock b => ninc s b | HNone => s end in
  wfn s1 SNo (fun c => bz (hb h c)) /\ same_static s s1 /\ nozero s1 /\ (forall k, counted (ngetb s k) = true -> counted (ngetb s1 k) = true).
Proof.
  intros [W NZ] H. destruct h as [|b]; cbn zeta.
  - split; [|split; [apply same_static_refl|split; [exact NZ|auto]]]. eapply wfn_ext; [exact W|]. intros c. reflexivity.
  - destruct (H b eq_refl) as (L & F & R).
    destruct (ninc_keeps s b L F ltac:(lia)) as (ST & NZ1 & CM); [intros c Lc _ Fc; apply NZ; assumption|].
    split; [|split; [exact ST|split; [exact NZ1|exact CM]]].
    eapply wfn_ext; [apply (wfn_ninc s SNo zero b W L F); left; exact R|].
    intros c. cbn [hb]. unfold bump, zero. rewrite (Nat.eqb_sym b c). destruct (Nat.eqb c b); cbn [bz]; lia.
Qed.

Lemma NInv_assign s Dst Src : NInv s -> slot_ok s Dst -> Dst <> SNo -> slot_ok s Src ->
  (forall K, Dst = SNext K -> prot s SNo K) -> NInv (nassign false s Dst Src).
Proof.
  intros I OKD ND OKS PD. unfold nassign. cbv zeta.
  rewrite (slot_touch_ok s Src OKS).
  set (h := slot_get s Src).
  assert (HL : forall b, h = HBlock b -> (b < length (nheap s))%nat /\ nfreed (ngetb s b) = false /\ 1 <= nrc (ngetb s b))
    by (intros b E; apply (slot_handle_live s Src b I OKS E)).
  destruct (share_phase s h I HL) as (W1 & ST1 & NZ1 & CM1).
  set (s1 := match h with HBlock b => ninc s b | HNone => s end) in *.
  pose proof (slot_ok_static s s1 Dst ST1 CM1 OKD) as OKD1.
  rewrite (slot_touch_ok s1 Dst OKD1).
  pose proof (wfn_exclude s1 Dst _ W1 OKD1) as W1x.
  assert (PX1 : forall K, Dst = SNext K -> prot s1 Dst K).
  { intros K E. subst Dst. apply (prot_static s s1 _ K ST1). apply prot_holder. apply (PD K eq_refl). }
  destruct (release_phase s1 Dst _ (slot_get s1 Dst) W1x NZ1 PX1) as (W2 & ST2 & NZ2).
  { intros c. pose proof (bz_nonneg (hb h c)). lia. }
  set (s2 := nrelease (nfuel s1) s1 (slot_get s1 Dst)) in *.
  destruct (store_phase s2 Dst _ h W2 NZ2 ND) as (W3 & NZ3).
  { destruct Dst as [|v|K]; [exact Logic.I| |].
    - cbn [slot_ok] in OKD1. destruct ST2 as (E & _). rewrite E. exact OKD1.
    - apply (prot_static s1 s2 _ K ST2). apply PX1. reflexivity. }
  { intros c. lia. }
  split; [|exact NZ3]. eapply wfn_ext; [exact W3|]. intros c. unfold zero. lia.
Qed.

Lemma NInv_reset s Dst : NInv s -> slot_ok s Dst -> Dst <> SNo -> (forall K, Dst = SNext K -> prot s SNo K) ->
  NInv (slot_set (nrelease (nfuel s) s (slot_get s Dst)) Dst HNone).
Proof.
  intros I OKD ND PD. destruct I as [W NZ].
  pose proof (wfn_exclude s Dst _ W OKD) as Wx.
  assert (PX : forall K, Dst = SNext K -> prot s Dst K) by (intros K E; subst Dst; apply prot_holder, (PD K eq_refl)).
  destruct (release_phase s Dst _ (slot_get s Dst) Wx NZ PX) as (W2 & ST2 & NZ2).
  { intros c. unfold zero. lia. }
  set (s2 := nrelease (nfuel s) s (slot_get s Dst)) in *.
  destruct (store_phase s2 Dst _ HNone W2 NZ2 ND) as (W3 & NZ3).
  { destruct Dst as [|v|K]; [exact Logic.I| |].
    - cbn [slot_ok] in OKD. destruct ST2 as (E & _). rewrite E. exact OKD.
    - apply (prot_static s s2 _ K ST2). apply PX. reflexivity. }
  { intros c. cbn [hb bz]. unfold zero. lia. }
  split; [|exact NZ3]. eapply wfn_ext; [exact W3|]. intros c. cbn [hb bz]. unfold zero. lia.
Qed.

Lemma NInv_destroy s v h : NInv s -> ngetv s v = NLive h -> NInv (nsetv (nrelease (nfuel s) s h) v NDead).
Proof.
  intros [W NZ] G. pose proof (ngetv_live_range _ _ _ G) as Lv.
  pose proof (wfn_exclude s (SVar v) _ W Lv) as Wx. cbn [slot_get] in Wx. rewrite G in Wx.
  destruct (release_phase s (SVar v) _ h Wx NZ) as (W2 & ST2 & NZ2); [discriminate|intros c; unfold zero; lia|].
  set (s2 := nrelease (nfuel s) s h) in *.
  assert (Lv2 : (v < length (nvars s2))%nat) by (destruct ST2 as (E & _); rewrite E; exact Lv).
  pose proof (wfn_nsetv_excluded s2 v NDead _ W2 Lv2) as W3.
  assert (OK3 : slot_ok (nsetv s2 v NDead) (SVar v)) by (cbn [slot_ok nsetv nvars]; rewrite upd_length; exact Lv2).
  pose proof (wfn_include _ _ _ W3 OK3) as W4. cbn [slot_get] in W4. rewrite ngetv_nsetv_same in W4 by exact Lv2.
  split; [|exact NZ2]. eapply wfn_ext; [apply W4|].
  - intros c. cbn [hb bz]. unfold zero. lia.
  - intros c. cbn [hb bz]. unfold zero. lia.
Qed.

(* construction into a variable that holds nothing: the fields are written, then the counter is incremented *)
Lemma NInv_construct s d h : wfn s SNo zero -> (d < length (nvars s))%nat -> ngetv s d = NDead ->
  (forall b, h = HBlock b -> (b < length (nheap s))%nat /\ nfreed (ngetb s b) = false /\ 0 <= nrc (ngetb s b) /\ (1 <= nrc (ngetb s b) \/ nnext (ngetb s b) = HNone)) ->
  (forall c, (c < length (nheap s))%nat -> (forall b, h = HBlock b -> c <> b) -> nfreed (ngetb s c) = false -> 1 <= nrc (ngetb s c)) ->
  NInv (match h with HBlock b => ninc (nsetv s d (NLive h)) b | HNone => nsetv s d (NLive h) end).
Proof.
  intros W Ld G H NZ.
  pose proof (wfn_exclude s (SVar d) _ W Ld) as Wx. cbn [slot_get] in Wx. rewrite G in Wx.
  pose proof (wfn_nsetv_excluded s d (NLive h) _ Wx Ld) as W1.
  set (s1 := nsetv s d (NLive h)) in *.
  assert (Ld1 : (d < length (nvars s1))%nat) by (unfold s1; cbn [nsetv nvars]; rewrite upd_length; exact Ld).
  assert (G1 : ngetv s1 d = NLive h) by (apply ngetv_nsetv_same; exact Ld).
  destruct h as [|b].
  - pose proof (wfn_include _ _ _ W1 Ld1) as W2. cbn [slot_get] in W2. rewrite G1 in W2. split.
    + eapply wfn_ext; [apply W2|]; intros c; cbn [hb bz]; unfold zero; lia.
    + intros c Lc Fc. apply (NZ c Lc); [discriminate|exact Fc].
  - destruct (H b eq_refl) as (L & F & R0 & R).
    pose proof (wfn_ninc s1 (SVar d) _ b W1 L F R) as W2.
    destruct (ninc_keeps s1 b L F R0) as (ST & NZ2 & _).
    { intros c Lc N Fc. apply (NZ c Lc); [intros b' E; inversion E; subst; exact N|exact Fc]. }
    assert (Ld2 : (d < length (nvars (ninc s1 b)))%nat) by (destruct ST as (E & _); rewrite E; exact Ld1).
    pose proof (wfn_include _ _ _ W2 Ld2) as W3. cbn [slot_get] in W3.
    assert (G2 : ngetv (ninc s1 b) d = NLive (HBlock b)) by (destruct ST as (E & _); unfold ngetv; rewrite E; exact G1).
    rewrite G2 in W3. split; [|exact NZ2].
    eapply wfn_ext; [apply W3|].
    + intros c. cbn [hb bz]. unfold bump, zero. rewrite (Nat.eqb_sym b c). destruct (Nat.eqb c b); cbn [bz]; lia.
    + intros c. cbn [hb bz]. unfold bump, zero. rewrite (Nat.eqb_sym b c). destruct (Nat.eqb c b); cbn [bz]; lia.
Qed.

Lemma resolve_not_SNo s v k X : resolve s v k = Some X -> X <> SNo.
Proof.
  unfold resolve. destruct k as [|k]; destruct (ngetv s v) as [|[|b]]; try discriminate.
  - intros E; inversion E; discriminate.
  - intros E; inversion E; discriminate.
  - destruct (walk_to s b k); [|discriminate]. intros E; inversion E; discriminate.
Qed.

Lemma NInv_ninit : NInv ninit.
Proof.
  split.
  - constructor.
    + reflexivity.
    + intros b. unfold zero. lia.
    + intros b L. cbn in L. lia.
    + intros b _. reflexivity.
  - intros c L. cbn in L. lia.
Qed.

Theorem nstep_NInv s o : NInv s -> NInv (nstep s o).
Proof.
  intros I. pose proof I as [W NZ]. unfold nstep, nstep_gen. rewrite (wn_flt _ _ _ W).
  destruct (negb (forallb (fun v => Nat.ltb v (length (nvars s))) (nop_vars o))) eqn:B; [exact I|].
  apply negb_false_iff in B.
  destruct o as [v n|v|d sv sk|how dv dk sv sk|dv dk|v]; cbn [nop_vars forallb] in B;
  rewrite ?andb_true_r, ?andb_true_iff, ?Nat.ltb_lt in B.
  - (* NCreate *)
    destruct (ngetv s v) eqn:G; [|exact I].
    apply (NInv_construct (nalloc s n) v (HBlock (length (nheap s)))).
    + apply wfn_nalloc. exact W.
    + exact B.
    + exact G.
    + intros b E. inversion E; subst b. rewrite len_nalloc, ngetb_nalloc_new. cbn [nfreed nrc nnext].
      split; [lia|]. split; [reflexivity|]. split; [lia|right; reflexivity].
    + intros c Lc N Fc. rewrite len_nalloc in Lc. specialize (N _ eq_refl).
      rewrite ngetb_nalloc_old in Fc |- * by lia. apply NZ; [lia|exact Fc].
  - (* NNull *)
    destruct (ngetv s v) eqn:G; [|exact I].
    apply (NInv_construct s v HNone W B G); [discriminate|].
    intros c Lc _ Fc. apply NZ; assumption.
  - (* NCopy *)
    destruct B as [Bd Bs].
    destruct (ngetv s d) eqn:Gd; [|exact I].
    destruct (resolve s sv sk) as [Src|] eqn:R; [|exact I].
    destruct (resolve_ok s sv sk Src I R) as (T1 & T2 & OKS & _).
    cbv zeta. rewrite T1, T2.
    apply (NInv_construct s d (slot_get s Src) W Bd Gd).
    + intros b E. destruct (slot_handle_live s Src b I OKS E) as (L & F & R1).
      split; [exact L|]. split; [exact F|]. split; [lia|left; exact R1].
    + intros c Lc _ Fc. apply NZ; assumption.
  - (* NAssign *)
    destruct (resolve s dv dk) as [Dst|] eqn:RD; [|exact I].
    destruct (resolve s sv sk) as [Src|] eqn:RS; [|exact I].
    destruct (resolve_ok s dv dk Dst I RD) as (T1 & _ & OKD & PD).
    destruct (resolve_ok s sv sk Src I RS) as (T2 & _ & OKS & _).
    cbv zeta. rewrite T1, T2. cbn [andb].
    apply (NInv_assign s Dst Src I OKD (resolve_not_SNo _ _ _ _ RD) OKS PD).
  - (* NReset *)
    destruct (resolve s dv dk) as [Dst|] eqn:RD; [|exact I].
    destruct (resolve_ok s dv dk Dst I RD) as (T1 & T2 & OKD & PD).
    cbv zeta. rewrite T1, T2.
    apply (NInv_reset s Dst I OKD (resolve_not_SNo _ _ _ _ RD) PD).
  - (* NDestroy *)
    destruct (ngetv s v) as [|h] eqn:G; [exact I|].
    apply (NInv_destroy s v h I G).
Qed.

Theorem nrun_NInv ops : NInv (nrun ops).
Proof.
  unfold nrun. assert (H : forall s, NInv s -> NInv (fold_left nstep ops s)).
  { induction ops as [|o t IH]; intros s I; [exact I|]. cbn [fold_left]. apply IH, nstep_NInv, I. }
  apply H, NInv_ninit.
Qed.

(* ---- consequences, in the vocabulary of the property ---------------------------------------------------------- *)
(* handles referring to b: in live variables, and in the member `next` of objects that have not been released *)
Definition nhandles (s : nstate) (b : nat) : Z :=
  sumf (fun v => match ngetv s v with NLive h => bz (hb h b) | NDead => 0 end) (length (nvars s)) +
  sumf (fun k => if nfreed (ngetb s k) then 0 else bz (hb (nnext (ngetb s k)) b)) (length (nheap s)).

Lemma hc_nhandles s b : nozero s -> hc SNo s b = nhandles s b.
Proof.
  intros NZ. unfold hc, nhandles. f_equal.
  apply sumf_ext. intros k Lk. unfold kterm. cbn [is_snext]. unfold counted.
  destruct (nfreed (ngetb s k)) eqn:F; [reflexivity|]. cbn [negb andb].
  pose proof (NZ k Lk F). destruct (0 <? nrc (ngetb s k)) eqn:E; [reflexivity|apply Z.ltb_ge in E; lia].
Qed.

Lemma NInv_no_fault s : NInv s -> nflt s = None.
Proof. intros [W _]. apply (wn_flt _ _ _ W). Qed.

Lemma NInv_count s b : NInv s -> (b < length (nheap s))%nat -> nfreed (ngetb s b) = false ->
  nrc (ngetb s b) = nhandles s b /\ 1 <= nrc (ngetb s b) /\ ndtors (ngetb s b) = 0%nat.
Proof.
  intros [W NZ] L F. destruct (wn_blk _ _ _ W b L) as [_ A]. destruct (A F) as [A1 A2].
  rewrite <- (hc_nhandles s b NZ). unfold zero in A1. split; [lia|]. split; [apply NZ; assumption|exact A2].
Qed.

Lemma NInv_released_iff s b : NInv s -> (b < length (nheap s))%nat ->
  (nfreed (ngetb s b) = true <-> nhandles s b = 0).
Proof.
  intros I L. pose proof I as [W NZ]. rewrite <- (hc_nhandles s b NZ). destruct (wn_blk _ _ _ W b L) as [A B]. split.
  - intros F. destruct (A F) as [A1 _]. unfold zero in A1. lia.
  - intros Z0. destruct (nfreed (ngetb s b)) eqn:F; [reflexivity|].
    destruct (B eq_refl) as [B1 _]. pose proof (NZ b L F). unfold zero in B1. lia.
Qed.

Lemma NInv_released_once s b : NInv s -> (b < length (nheap s))%nat ->
  ndtors (ngetb s b) = if nfreed (ngetb s b) then 1%nat else 0%nat.
Proof.
  intros [W _] L. destruct (wn_blk _ _ _ W b L) as [A B].
  destruct (nfreed (ngetb s b)); [apply (A eq_refl)|apply (B eq_refl)].
Qed.

(* no handle - in a variable or inside an object that exists - refers to a released object *)
Lemma NInv_no_dangling s : NInv s ->
  (forall v b, ngetv s v = NLive (HBlock b) -> (b < length (nheap s))%nat /\ nfreed (ngetb s b) = false) /\
  (forall k b, (k < length (nheap s))%nat -> nfreed (ngetb s k) = false -> nnext (ngetb s k) = HBlock b ->
               (b < length (nheap s))%nat /\ nfreed (ngetb s b) = false).
Proof.
  intros I. pose proof I as [W NZ]. split.
  - intros v b G. destruct (prot_live s b I) as (L & F & _); [apply (prot_var s SNo v b G); reflexivity|]. split; assumption.
  - intros k b Lk Fk G.
    assert (C : counted (ngetb s k) = true).
    { unfold counted. rewrite Fk. cbn [negb andb]. apply Z.ltb_lt. pose proof (NZ k Lk Fk). lia. }
    pose proof (kterm_hit SNo s k b Lk C G eq_refl) as H.
    apply (held_unfreed s SNo zero b W). unfold zero. lia.
Qed.

(* following the chains from the variables, as the harness does after every operation, reads live objects only *)
Lemma chain_touch_ok s : NInv s -> forall fuel h, (forall b, h = HBlock b -> prot s SNo b) -> chain_touch s fuel h = s.
Proof.
  intros I. induction fuel as [|fuel IH]; intros h P; [reflexivity|]. destruct h as [|b]; [reflexivity|].
  cbn [chain_touch]. pose proof (P b eq_refl) as PB. destruct (prot_live s b I PB) as (_ & F & _).
  rewrite (ntouch_unfreed _ _ F). apply IH. intros c E. apply (prot_next s SNo b c PB E). reflexivity.
Qed.
Lemma fold_left_fix {A B} (f : A -> B -> A) (l : list B) (a : A) : (forall x, In x l -> f a x = a) -> fold_left f l a = a.
Proof.
  induction l as [|x t IH]; intros H; [reflexivity|]. cbn [fold_left]. rewrite (H x) by (left; reflexivity).
  apply IH. intros y Hy. apply H. right. exact Hy.
Qed.
Lemma NInv_obs_touch s : NInv s -> nobs_touch s = s.
Proof.
  intros I. unfold nobs_touch. apply fold_left_fix. intros x X. destruct x as [|h]; [reflexivity|].
  apply (chain_touch_ok s I). intros b E. subst h.
  destruct (In_nth _ _ NDead X) as (v & Lv & G). apply (prot_var s SNo v b); [exact G|reflexivity].
Qed.

(* ---- releases are final -------------------------------------------------------------------------------------------- *)
Definition next (s s' : nstate) : Prop :=
  (length (nheap s) <= length (nheap s'))%nat /\
  forall b, (b < length (nheap s))%nat ->
    (ndtors (ngetb s b) <= ndtors (ngetb s' b))%nat /\ (nfreed (ngetb s b) = true -> nfreed (ngetb s' b) = true).
Lemma next_refl s : next s s.
Proof. split; [lia|]. intros b _. split; [lia|auto]. Qed.
Lemma next_trans s1 s2 s3 : next s1 s2 -> next s2 s3 -> next s1 s3.
Proof.
  intros [L1 H1] [L2 H2]. split; [lia|]. intros b L.
  destruct (H1 b L) as [A1 B1]. destruct (H2 b ltac:(lia)) as [A2 B2]. split; [lia|auto].
Qed.
Lemma next_heap_eq s s' : nheap s' = nheap s -> next s s'.
Proof. intros E. unfold next, ngetb. rewrite E. split; [lia|]. intros b _. split; [lia|auto]. Qed.
Lemma next_raise s x : next s (nraise s x).
Proof. apply next_heap_eq. unfold nraise. destruct (nflt s); reflexivity. Qed.
Lemma next_touch s b : next s (ntouch s b).
Proof. unfold ntouch. destruct (nfreed (ngetb s b)); [apply next_raise|apply next_refl]. Qed.
Lemma next_setb s b k : (ndtors (ngetb s b) <= ndtors k)%nat -> (nfreed (ngetb s b) = true -> nfreed k = true) -> next s (nsetb s b k).
Proof.
  intros D F. split; [rewrite len_nsetb; lia|]. intros c L. destruct (Nat.eq_dec b c) as [->|N].
  - rewrite ngetb_nsetb_same by exact L. split; assumption.
  - rewrite ngetb_nsetb_other by exact N. split; [lia|auto].
Qed.
Lemma next_inc s b : next s (ninc s b).
Proof. unfold ninc. eapply next_trans; [apply (next_touch s b)|]. apply next_setb; cbn; [lia|auto]. Qed.
Lemma next_dec s b : next s (ndec s b).
Proof.
  unfold ndec. eapply next_trans; [apply (next_touch s b)|]. set (s1 := ntouch s b).
  destruct (nrc (ngetb s1 b) - 1 <? 0).
  - eapply next_trans; [apply (next_raise s1 (NUnderflow b))|]. apply next_setb; cbn; [lia|auto].
  - apply next_setb; cbn; [lia|auto].
Qed.
Lemma next_free s b : next s (nfree s b).
Proof. unfold nfree. destruct (nfreed (ngetb s b)) eqn:F; [apply next_raise|]. apply next_setb; cbn; [lia|auto]. Qed.
Lemma next_alloc s n : next s (nalloc s n).
Proof.
  split; [rewrite len_nalloc; lia|]. intros b L. rewrite ngetb_nalloc_old by exact L. split; [lia|auto].
Qed.
Lemma next_release fuel : forall s h, next s (nrelease fuel s h).
Proof.
  induction fuel as [|fuel IH]; intros s [|b]; cbn [nrelease]; try apply next_refl; [apply next_raise|].
  destruct (nrc (ngetb (ndec s b) b) =? 0); [|apply next_dec].
  eapply next_trans; [apply next_dec|]. eapply next_trans; [apply next_touch|]. eapply next_trans; [apply IH|apply next_free].
Qed.
Lemma next_setv s v x : next s (nsetv s v x).
Proof. apply next_heap_eq. reflexivity. Qed.
Lemma next_slot_touch s X : next s (slot_touch s X).
Proof. destruct X; cbn [slot_touch]; try apply next_refl. apply next_touch. Qed.
Lemma next_slot_set s X h : next s (slot_set s X h).
Proof.
  destruct X as [|v|k]; cbn [slot_set]; [apply next_refl|apply next_setv|].
  eapply next_trans; [apply next_touch|]. apply next_setb; cbn; [lia|auto].
Qed.
Lemma next_walk_touch k : forall s b, next s (walk_touch s b k).
Proof.
  induction k as [|k IH]; intros s b; cbn [walk_touch]; [apply next_refl|].
  destruct (nnext (ngetb (ntouch s b) b)); [apply next_touch|]. eapply next_trans; [apply next_touch|apply IH].
Qed.
Lemma next_resolve_touch s v k : next s (resolve_touch s v k).
Proof.
  unfold resolve_touch. destruct k; [apply next_refl|]. destruct (ngetv s v) as [|[|b]]; try apply next_refl. apply next_walk_touch.
Qed.

Ltac next_chain :=
  repeat first
    [ apply next_refl
    | eapply next_trans; [|first [apply next_slot_set | apply next_setv | apply next_release | apply next_inc | apply next_slot_touch
                                 | apply next_resolve_touch | apply next_alloc ]]
    | match goal with |- next _ (match ?x with _ => _ end) => destruct x end
    | match goal with |- next _ (if ?x then _ else _) => destruct x end ].

Theorem nstep_next w s o : next s (nstep_gen w s o).
Proof.
  unfold nstep_gen. destruct (nflt s); [apply next_refl|].
  destruct (negb (forallb (fun v => Nat.ltb v (length (nvars s))) (nop_vars o))); [apply next_refl|].
  destruct o; unfold nassign; cbv zeta; next_chain.
Qed.

Lemma nrun_from_next ops s : next s (fold_left nstep ops s).
Proof.
  revert s. induction ops as [|o t IH]; intros s; [apply next_refl|]. cbn [fold_left].
  eapply next_trans; [apply (nstep_next false s o)|apply IH].
Qed.
Lemma nrun_app ops more : nrun (ops ++ more) = fold_left nstep more (nrun ops).
Proof. unfold nrun. apply fold_left_app. Qed.

(* ---- statements over all histories ------------------------------------------------------------------------------------ *)
Lemma nhist_no_fault ops : nflt (nrun ops) = None /\ nflt (nobs_touch (nrun ops)) = None.
Proof. pose proof (nrun_NInv ops) as I. rewrite (NInv_obs_touch _ I). split; apply NInv_no_fault, I. Qed.

Lemma nhist_count ops b : (b < length (nheap (nrun ops)))%nat -> nfreed (ngetb (nrun ops) b) = false ->
  nrc (ngetb (nrun ops) b) = nhandles (nrun ops) b /\ 1 <= nrc (ngetb (nrun ops) b) /\ ndtors (ngetb (nrun ops) b) = 0%nat.
Proof. apply NInv_count, nrun_NInv. Qed.

Lemma nhist_released_iff ops b : (b < length (nheap (nrun ops)))%nat ->
  (nfreed (ngetb (nrun ops) b) = true <-> nhandles (nrun ops) b = 0).
Proof. apply NInv_released_iff, nrun_NInv. Qed.

Lemma nhist_released_once ops b : (b < length (nheap (nrun ops)))%nat ->
  ndtors (ngetb (nrun ops) b) = if nfreed (ngetb (nrun ops) b) then 1%nat else 0%nat.
Proof. apply NInv_released_once, nrun_NInv. Qed.

Lemma nhist_no_dangling ops :
  (forall v b, ngetv (nrun ops) v = NLive (HBlock b) -> (b < length (nheap (nrun ops)))%nat /\ nfreed (ngetb (nrun ops) b) = false) /\
  (forall k b, (k < length (nheap (nrun ops)))%nat -> nfreed (ngetb (nrun ops) k) = false -> nnext (ngetb (nrun ops) k) = HBlock b ->
               (b < length (nheap (nrun ops)))%nat /\ nfreed (ngetb (nrun ops) b) = false).
Proof. apply NInv_no_dangling, nrun_NInv. Qed.

Lemma nhist_release_final ops more b : (b < length (nheap (nrun ops)))%nat ->
  (b < length (nheap (nrun (ops ++ more))))%nat /\
  (ndtors (ngetb (nrun ops) b) <= ndtors (ngetb (nrun (ops ++ more)) b) <= 1)%nat /\
  (nfreed (ngetb (nrun ops) b) = true -> nfreed (ngetb (nrun (ops ++ more)) b) = true).
Proof.
  intros L. rewrite nrun_app. destruct (nrun_from_next more (nrun ops)) as [LL H].
  destruct (H b L) as [D F]. split; [lia|]. split; [|exact F]. split; [exact D|].
  rewrite <- nrun_app. rewrite nhist_released_once by (rewrite nrun_app; lia).
  destruct (nfreed (ngetb (nrun (ops ++ more)) b)); lia.
Qed.

(* the code as it was written before fixes/C09/02 reads the source handle from a released object *)
Lemma nassign_as_written_refuted :
  nflt (nrun_as_written [NCreate 0 1; NAssign AConv 0 0 0 1]) = Some (NUaf 0) /\
  nflt (nrun_as_written [NCreate 0 1; NAssign ASame 0 0 0 1]) = Some (NUaf 0) /\
  nflt (nrun [NCreate 0 1; NAssign AConv 0 0 0 1]) = None.
Proof. vm_compute. repeat split. Qed.
