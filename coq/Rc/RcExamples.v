(* Concrete histories, configurations and schedules used by the non-vacuity Examples of
   Properties_C09.v.  Definitions only. *)
From Coq Require Import ZArith List Bool Arith.
From Rc Require Import RcModel RcConc.
Import ListNotations.
Local Open Scope Z_scope.

Definition ex_hist : list op :=
  [OCreate 0 3; OCopy 1 0; OCopy 2 0; OWrite 1; OWrite 1; OAssign 2 1; ODestroy 0; OReset 1; ODestroy 1; ODestroy 2].

Definition ex_cfg : list (nat * list cop) :=
  [(1%nat, [CWrite 0 false; CCopy 1 0; CWrite 1 false; CDrop 0; CDrop 1]);
   (2%nat, [CAssign 0 1; CWrite 1 true; CSwap 0 1; CDrop 0; CRead 1; CDrop 1]);
   (1%nat, [CWrite 0 false; CWrite 0 false; CDrop 0])].

Definition ex_rr : list nat := flat_map (fun _ => [0; 1; 2]%nat) (seq 0 30).

Definition ex_seq : list nat := repeat 2%nat 15 ++ repeat 1%nat 30 ++ repeat 0%nat 25.
