(* Concrete histories, configurations and schedules used by the non-vacuity Examples of
   Properties_C09.v.  Definitions only. *)
From Coq Require Import ZArith List Bool Arith.
From Rc Require Import RcModel RcConc RcNest.
Import ListNotations.
Local Open Scope Z_scope.

Definition ex_hist : list op :=
  [OCreate 0 83; OCopy 1 0; OCopy 2 0; OWrite 1 4; OWrite 1 5; OAssign 2 1; ODestroy 0; OReset 1; ODestroy 1; ODestroy 2].

(* Variant: value assignment (cloning while shared, in place when alone); Ptr: raw-pointer assignment of the own object *)
Definition ex_hist_var : list op :=
  [OCreate 0 10; OCopy 1 0; OAssignVal 1 83; OAssignVal 1 84; OWrite 0 7; ODestroy 0; ODestroy 1].
Definition ex_hist_ptr : list op :=
  [OCreate 0 5; OAssignRaw 0 0; OCopy 1 0; OCreate 2 6; OAssignRaw 1 2; OSwap 0 2; ODestroy 0; ODestroy 1; ODestroy 2].

(* the other modifiers of String on a shared payload.  "AbC " = markers 4 2 6 7 = 2231.  Variable 1 is lowered (its copy 0 keeps the
   text), 2 = copy of 1 gets the text of 0 in front (prepend, with the library's local copy in variable 6), 0 is appended to itself,
   then trimmed (substr + assignment through variable 6) *)
Definition ex_hist_mod : list op :=
  [OCreate 0 2231; OCopy 1 0; OStrMod 1 (SMap MLower); OCopy 2 1; OCopy 6 2; OStrCatV true 2 0; ODestroy 6; OStrCatV false 0 0;
   OCreate 6 (trimv 7 (peek (run FStr [OCreate 0 2231; OStrCatV false 0 0]) 0)); OAssign 0 6; ODestroy 6].
(* Variant: `b = 5` on a shared list payload (clear() + inline data: OReset), Variant::swap through the local copy (variable 6),
   the write accessor of another type, then the value assignment of the first type again (both `type != T` branches) *)
Definition ex_hist_var2 : list op :=
  [OCreate 0 10; OCopy 1 0; OReset 1; OCopy 6 1; OAssign 1 0; OAssign 0 6; ODestroy 6; OCopy 2 1; ORetype 2 0; ORetype 2 83].

Definition ex_cfg : list (nat * list cop) :=
  [(1%nat, [CWrite 0 (WAppend 1); CCopy 1 0; CWrite 1 (WAppend 2); CDrop 0; CDrop 1]);
   (2%nat, [CAssign 0 1; CWrite 1 WReserve; CSwap 0 1; CDrop 0; CRead 1; CDrop 1]);
   (1%nat, [CWrite 0 (WAppend 3); CWrite 0 WClear; CDrop 0])].

Definition ex_rr : list nat := flat_map (fun _ => [0; 1; 2]%nat) (seq 0 30).

Definition ex_seq : list nat := repeat 2%nat 15 ++ repeat 1%nat 30 ++ repeat 0%nat 25.

(* an access trace as the harness records it: two threads, one handle each to a String "3" (capacity 3);
   thread 0 appends '1' (reads ref = 2: clones), thread 1 drops its handle, thread 0 appends again in place *)
Definition ex_trace_cfg : list (nat * list cop) :=
  [(1%nat, [CWrite 0 (WAppend 1); CWrite 0 (WAppend 2)]); (1%nat, [CDrop 0])].
Definition ev (t : nat) (k : ekind) (r : Z) : event := {| etid := t; ekind_of := k; eres := r |}.
Definition ex_trace : list event :=
  [ev 0 EReadRef 2; ev 0 EAlloc 0; ev 0 ECopy 0; ev 1 EDec 1; ev 0 EDec 0; ev 0 EFree 0; ev 0 EReadRef 1; ev 0 EWrite 202].
(* the same with the decrement of thread 0 reported before its copy, and with the release missing *)
Definition ex_trace_bad_order : list event :=
  [ev 0 EReadRef 2; ev 0 EAlloc 0; ev 1 EDec 1; ev 0 EDec 0; ev 0 ECopy 0; ev 0 EFree 0].
Definition ex_trace_no_free : list event :=
  [ev 0 EReadRef 2; ev 0 EAlloc 0; ev 0 ECopy 0; ev 1 EDec 1; ev 0 EDec 0; ev 0 EReadRef 1; ev 0 EWrite 202].

(* handles stored inside payloads: variable 0 holds the head of a chain of three objects, each kept alive by its
   predecessor only (built through the member handles), then `cur = cur->next` twice, through the converting
   operator= and through operator=(C* ); [ex_nest_unlink]: `a->next = a->next->next`; [ex_nest_cycle]: the tail
   points back to the head, the last variable goes, the cycle stays (every object still has a handle) *)
Definition ex_nest_chain : list nop :=
  [NCreate 0 10; NCreate 1 11; NAssign ARaw 0 1 1 0; NDestroy 1; NCreate 1 12; NAssign ARaw 0 2 1 0; NDestroy 1].
Definition ex_nest_walk : list nop := ex_nest_chain ++ [NAssign AConv 0 0 0 1; NAssign ARaw 0 0 0 1].
Definition ex_nest_unlink : list nop := ex_nest_chain ++ [NAssign ASame 0 1 0 2].
Definition ex_nest_cycle : list nop := ex_nest_chain ++ [NAssign ARaw 0 3 0 0; NCopy 1 0 1; NDestroy 0; NReset 1 0].
