(* Interleaving model for the concurrent clause of C09.  NO proofs here.

   Several threads each own their own handle variables ([tvars], never touched by another thread).
   Handles of different threads may refer to the same payload block.  Every library call on a handle
   is split into its accesses to shared memory, in program order, as the code performs them
   (String.hpp 24-28, 78-82, 113-127, 142, 193-202, 492-522; Variant.hpp 30-36, 87-122, 352-366;
   RefCount.hpp 16-49; Xml.hpp 30-39, 62-75, 124-147):

     copy  d <- s   : plain read of s's block (`if(other.data->ref)`) ; atomic increment (+ store into d)
     drop  v        : plain read (`data->ref &&`) ; atomic decrement-and-fetch ; delete if the result was 0
     assign d <- s  : (Variant: nothing at all when d and s are the same variable) plain read of s's block ;
                      atomic increment ; plain read of d's block ; atomic decrement-and-fetch ; delete if 0
                      (+ store into d)
     write v m      : plain read of ref ; then either (ref == 1 [String: and the capacity suffices])
                      the in-place modification, or: allocate and copy from the old payload ; plain read ;
                      atomic decrement-and-fetch ; delete if 0 (+ store the clone into v).
                      m = WAppend d : s.append(char d) | v.toList().append(d)     (grows by one marker)
                      m = WReserve  : s.reserve(length + 64) | v.toList()          (write access only)
                      m = WClear    : String::clear(): `ref == 1` -> length := 0 in place, else plain read ;
                                      atomic decrement-and-fetch ; delete if 0 ; the handle becomes the
                                      (uncounted) empty string, which the harness destroys at once
     read  v        : plain read of the payload
     swap  a b      : exchanges two handles of the same thread (no shared access)

   One step of the machine = one of these accesses by one thread (sequential consistency: accesses of
   all threads are totally ordered, each sees the latest value).  Stores into the thread's own
   handle variable and registers are merged with the adjacent shared access: no other thread reads
   them.  Convention: a handle variable stops referring to its block at its atomic decrement (it is
   [pend]ing from then on); the clone / the assigned source is held in [tmp] until it is stored.
   RefCount::Ptr performs no plain read before its atomic operations; the model's extra plain reads are
   harmless (they are not observable events, see [silent]).  The in-place modification is one step,
   together with the plain read of length and capacity that String::detach makes after `ref == 1`: once
   `ref == 1` was read by the only holder, no other thread can obtain a handle (handles never travel
   between threads), which is what [jclaim] in RcConcProofs states.  A schedule is a list of thread
   ids, chosen by the adversary.

   Monitors: every access to a released block is a fault (CUaf); releasing twice is a fault
   (CDouble); releasing a block while any handle variable or in-flight handle of any thread refers to
   it is a fault (CFreeReferenced); modifying a payload in place while the number of handles
   referring to it is not exactly one is a fault (CSharedWrite); a counter below zero is a fault.

   Last part of the file: [replay], the acceptor for the access traces the harness records from the
   real code (one event per atomic operation, allocation, release, copy from the old payload and
   in-place modification, in the order in which the threads performed them). *)
From Coq Require Import ZArith List Bool Arith.
From Common Require Import ListAux.
From Rc Require Import RcModel.
Import ListNotations.
Local Open Scope Z_scope.

Record cblock := { crc : Z; cfreed : bool; cfrees : nat; cval : Z (* contents, RcModel.push *); ccap : Z (* String capacity *) }.

Inductive wmode := WAppend (m : Z) | WReserve | WClear.

Inductive cop :=
| CCopy (d s : nat)               (* new (&d) H(s)                      d must be dead, s alive *)
| CAssign (d s : nat)             (* d = s                              both alive *)
| CDrop (v : nat)                 (* v.~H() *)
| CWrite (v : nat) (m : wmode)    (* write access through v, see above *)
| CRead (v : nat)                 (* read the payload through v *)
| CSwap (a b : nat).              (* exchange two own live handles (Ptr::swap, repaired) *)

Record thread := {
  tvars : list (option nat);      (* own handle variables: None = destroyed, Some b = refers to block b *)
  tmp : option nat;               (* in-flight handle: the clone, or the source of an assignment *)
  pend : option nat;              (* block whose counter this thread has just decremented *)
  reg : Z;                        (* value read from / returned for a counter *)
  prog : list cop;
  phase : nat }.

Inductive cfault := CUaf (b : nat) | CDouble (b : nat) | CUnderflow (b : nat) | CSharedWrite (b : nat) | CFreeReferenced (b : nat).

Record cstate := { cheap : list cblock; threads : list thread; cflt : option cfault; cflav : flavour }.

Inductive action :=
| ANone                (* nothing shared *)
| ATouch (b : nat)     (* plain read of header or payload *)
| AReadRef (b : nat)   (* plain read of the counter, result in reg *)
| AInc (b : nat)       (* atomic increment *)
| ADec (b : nat)       (* atomic decrement, new value in reg *)
| AFree (b : nat)      (* delete *)
| AWrite (b : nat) (nv : Z)          (* in-place modification of the payload: the contents become nv *)
| AAlloc (src : nat) (nv nc : Z).    (* new block, count 1, contents nv (copied from src and modified), capacity nc *)

Definition dead_cblock : cblock := {| crc := 0; cfreed := true; cfrees := 0; cval := 0; ccap := 0 |}.
Definition getcb (h : list cblock) (b : nat) : cblock := nth b h dead_cblock.

Definition tv (th : thread) (v : nat) : option nat := nth v (tvars th) None.

Definition pop (th : thread) : thread :=
  {| tvars := tvars th; tmp := tmp th; pend := pend th; reg := reg th; prog := tl (prog th); phase := 0 |}.
Definition goto (th : thread) (p : nat) : thread :=
  {| tvars := tvars th; tmp := tmp th; pend := pend th; reg := reg th; prog := prog th; phase := p |}.
Definition set_var (th : thread) (v : nat) (x : option nat) : thread :=
  {| tvars := upd v x (tvars th); tmp := tmp th; pend := pend th; reg := reg th; prog := prog th; phase := phase th |}.
Definition set_tmp (th : thread) (x : option nat) : thread :=
  {| tvars := tvars th; tmp := x; pend := pend th; reg := reg th; prog := prog th; phase := phase th |}.
Definition set_pend (th : thread) (x : option nat) : thread :=
  {| tvars := tvars th; tmp := tmp th; pend := x; reg := reg th; prog := prog th; phase := phase th |}.
Definition set_reg (th : thread) (r : Z) : thread :=
  {| tvars := tvars th; tmp := tmp th; pend := pend th; reg := r; prog := prog th; phase := phase th |}.

(* the decrement: the variable stops referring to the block *)
Definition after_dec (th : thread) (v b : nat) (r : Z) (next : nat) : thread :=
  goto (set_reg (set_pend (set_var th v None) (Some b)) r) next.
(* `== 0) delete`, then the store of the in-flight handle into v (assignment, clone) *)
Definition free_action (th : thread) : action :=
  match pend th with
  | Some b => if reg th =? 0 then AFree b else ANone
  | None => ANone
  end.
Definition after_free_store (th : thread) (v : nat) : thread :=
  pop (set_tmp (set_var (set_pend th None) v (tmp th)) None).

(* write access tests `ref > 1` (Variant, Xml::Variant) or `ref == 1` (String); Variant::operator= returns at
   once on a self-assignment *)
Definition tests_gt1 (f : flavour) : bool := match f with FVar | FXml => true | _ => false end.
Definition is_str (f : flavour) : bool := match f with FStr => true | _ => false end.
Definition skips_self (f : flavour) : bool := match f with FVar => true | _ => false end.
Definition inplace_test (f : flavour) (r : Z) : bool := if tests_gt1 f then negb (r >? 1) else r =? 1.
(* clear() has an in-place branch for String only *)
Definition inplace_ok (f : flavour) (m : wmode) (r : Z) : bool :=
  inplace_test f r && match m with WClear => is_str f | _ => true end.
Definition newval (m : wmode) (c : Z) : Z :=
  match m with WAppend d => push c d | WReserve => c | WClear => 0 end.
(* minCapacity of String::detach *)
Definition need (m : wmode) (c : Z) : Z :=
  match m with WAppend d => slen (push c d) | WReserve => slen c + 64 | WClear => 0 end.
Definition fits (f : flavour) (k : cblock) (m : wmode) : bool :=
  if is_str f then need m (cval k) <=? ccap k else true.
Definition newcap (f : flavour) (m : wmode) (c : Z) : Z := if is_str f then Z.lor (need m c) 3 else 0.

(* next shared access of the thread, and its local state afterwards given the value read /
   returned [res] and the index of a freshly allocated block [nb] *)
Definition plan (f : flavour) (h : list cblock) (th : thread) : action * (Z -> nat -> thread) :=
  match prog th with
  | [] => (ANone, fun _ _ => th)
  | CCopy d s :: _ =>
      match phase th with
      | O => match tv th d, tv th s with
             | None, Some b => if Nat.ltb d (length (tvars th)) then (ATouch b, fun _ _ => goto th 1)
                               else (ANone, fun _ _ => pop th)
             | _, _ => (ANone, fun _ _ => pop th)
             end
      | _ => match tv th s with
             | Some b => (AInc b, fun _ _ => pop (set_var th d (Some b)))
             | None => (ANone, fun _ _ => pop th)
             end
      end
  | CDrop v :: _ =>
      match phase th with
      | 0%nat => match tv th v with
                 | Some b => (ATouch b, fun _ _ => goto th 1)
                 | None => (ANone, fun _ _ => pop th)
                 end
      | 1%nat => match tv th v with
                 | Some b => (ADec b, fun r _ => after_dec th v b r 2)
                 | None => (ANone, fun _ _ => pop th)
                 end
      | _ => (free_action th, fun _ _ => pop (set_pend th None))
      end
  | CAssign d s :: _ =>
      match phase th with
      | 0%nat => if skips_self f && Nat.eqb d s then (ANone, fun _ _ => pop th) else
                 match tv th d, tv th s with
                 | Some _, Some b => (ATouch b, fun _ _ => goto th 1)
                 | _, _ => (ANone, fun _ _ => pop th)
                 end
      | 1%nat => match tv th s with
                 | Some b => (AInc b, fun _ _ => goto (set_tmp th (Some b)) 2)
                 | None => (ANone, fun _ _ => pop th)
                 end
      | 2%nat => match tv th d with
                 | Some b => (ATouch b, fun _ _ => goto th 3)
                 | None => (ANone, fun _ _ => pop th)
                 end
      | 3%nat => match tv th d with
                 | Some b => (ADec b, fun r _ => after_dec th d b r 4)
                 | None => (ANone, fun _ _ => pop th)
                 end
      | _ => (free_action th, fun _ _ => after_free_store th d)
      end
  | CWrite v m :: _ =>
      match phase th with
      | 0%nat => match tv th v with
                 | Some b => (AReadRef b, fun r _ => goto (set_reg th r) 1)
                 | None => (ANone, fun _ _ => pop th)
                 end
      | 1%nat => match tv th v with
                 | Some b => let c := cval (getcb h b) in
                             if inplace_ok f m (reg th) && fits f (getcb h b) m
                             then (AWrite b (newval m c), fun _ _ => pop th)
                             else match m with
                                  | WClear => (ATouch b, fun _ _ => goto th 3)        (* `data->ref &&` *)
                                  | _ => (AAlloc b (newval m c) (newcap f m c), fun _ nb => goto (set_tmp th (Some nb)) 2)
                                  end
                 | None => (ANone, fun _ _ => pop th)
                 end
      | 2%nat => match tv th v with
                 | Some b => (ATouch b, fun _ _ => goto th 3)
                 | None => (ANone, fun _ _ => pop th)
                 end
      | 3%nat => match tv th v with
                 | Some b => (ADec b, fun r _ => after_dec th v b r 4)
                 | None => (ANone, fun _ _ => pop th)
                 end
      | _ => (free_action th, fun _ _ => after_free_store th v)
      end
  | CRead v :: _ =>
      match tv th v with
      | Some b => (ATouch b, fun _ _ => pop th)
      | None => (ANone, fun _ _ => pop th)
      end
  | CSwap a b :: _ =>
      match tv th a, tv th b with
      | Some _, Some _ => (ANone, fun _ _ => pop (set_var (set_var th a (tv th b)) b (tv th a)))
      | _, _ => (ANone, fun _ _ => pop th)
      end
  end.

(* effect on the shared heap, and the value read / returned *)
Definition updb (h : list cblock) (b : nat) (k : cblock) : list cblock := upd b k h.
Definition heap_act (h : list cblock) (a : action) : list cblock * Z :=
  match a with
  | ANone | ATouch _ => (h, 0)
  | AReadRef b => (h, crc (getcb h b))
  | AInc b => let k := getcb h b in
              (updb h b {| crc := crc k + 1; cfreed := cfreed k; cfrees := cfrees k; cval := cval k; ccap := ccap k |}, crc k + 1)
  | ADec b => let k := getcb h b in
              (updb h b {| crc := crc k - 1; cfreed := cfreed k; cfrees := cfrees k; cval := cval k; ccap := ccap k |}, crc k - 1)
  | AFree b => let k := getcb h b in
               (updb h b {| crc := crc k; cfreed := true; cfrees := S (cfrees k); cval := cval k; ccap := ccap k |}, 0)
  | AWrite b nv => let k := getcb h b in
                   (updb h b {| crc := crc k; cfreed := cfreed k; cfrees := cfrees k; cval := nv; ccap := ccap k |}, 0)
  | AAlloc src nv nc => (h ++ [{| crc := 1; cfreed := false; cfrees := 0; cval := nv; ccap := nc |}], 0)
  end.

(* handles referring to b: handle variables and in-flight handles *)
Definition isb (b : nat) (x : option nat) : Z :=
  match x with Some c => if Nat.eqb c b then 1 else 0 | None => 0 end.
Definition vcount (b : nat) (l : list (option nat)) : Z := fold_right (fun x a => isb b x + a) 0 l.
Definition tokc (b : nat) (th : thread) : Z := vcount b (tvars th) + isb b (tmp th).
Definition sumz (f : thread -> Z) (l : list thread) : Z := fold_right (fun th a => f th + a) 0 l.
Definition handles_total (st : cstate) (b : nat) : Z := sumz (tokc b) (threads st).

Definition monitor (st : cstate) (a : action) : option cfault :=
  let h := cheap st in
  match a with
  | ANone => None
  | ATouch b | AReadRef b | AInc b | AAlloc b _ _ => if cfreed (getcb h b) then Some (CUaf b) else None
  | ADec b => if cfreed (getcb h b) then Some (CUaf b)
              else if crc (getcb h b) - 1 <? 0 then Some (CUnderflow b) else None
  | AFree b => if cfreed (getcb h b) then Some (CDouble b)
               else if handles_total st b =? 0 then None else Some (CFreeReferenced b)
  | AWrite b _ => if cfreed (getcb h b) then Some (CUaf b)
                else if handles_total st b =? 1 then None else Some (CSharedWrite b)
  end.

Definition with_flt (st : cstate) (f : cfault) : cstate :=
  {| cheap := cheap st; threads := threads st; cflt := Some f; cflav := cflav st |}.

(* perform access [a]; [k] gives the thread's local state afterwards *)
Definition fire (st : cstate) (t : nat) (a : action) (k : Z -> nat -> thread) : cstate :=
  match monitor st a with
  | Some f => with_flt st f
  | None =>
      let '(h', res) := heap_act (cheap st) a in
      {| cheap := h'; threads := upd t (k res (length (cheap st))) (threads st);
         cflt := None; cflav := cflav st |}
  end.

(* thread t performs its next access *)
Definition cstep (st : cstate) (t : nat) : cstate :=
  match cflt st with
  | Some _ => st
  | None =>
      match nth_error (threads st) t with
      | None => st
      | Some th =>
          match prog th with
          | [] => st
          | _ :: _ => let '(a, k) := plan (cflav st) (cheap st) th in fire st t a k
          end
      end
  end.

Definition run_sched (st : cstate) (sched : list nat) : cstate := fold_left cstep sched st.

(* initial configuration: one common payload with value [val]; thread i owns [fst cfg_i] handles to it
   (in its first variables, out of [nv]) and runs [snd cfg_i] *)
Definition mk_thread (nv : nat) (c : nat * list cop) : thread :=
  {| tvars := repeat (Some 0%nat) (Nat.min (fst c) nv) ++ repeat None (nv - Nat.min (fst c) nv);
     tmp := None; pend := None; reg := 0; prog := snd c; phase := 0 |}.
Definition cinit (f : flavour) (val : Z) (nv : nat) (cfg : list (nat * list cop)) : cstate :=
  let ths := map (mk_thread nv) cfg in
  let n := sumz (tokc 0) ths in
  {| cheap := if n =? 0 then [] else [{| crc := n; cfreed := false; cfrees := 0; cval := val;
                                        ccap := if is_str f then Z.lor (slen val) 3 else 0 |}];
     threads := ths; cflt := None; cflav := f |}.

Definition finished (st : cstate) : Prop := forall th, In th (threads st) -> prog th = [].
Definition finishedb (st : cstate) : bool := forallb (fun th => match prog th with [] => true | _ => false end) (threads st).

(* observation at the end: the value each handle variable reads *)
Definition var_value (h : list cblock) (x : option nat) : option Z :=
  match x with Some b => Some (cval (getcb h b)) | None => None end.
Definition final_values (st : cstate) : list (list (option Z)) :=
  map (fun th => map (var_value (cheap st)) (tvars th)) (threads st).
Definition live_cblocks (st : cstate) : nat := length (filter (fun k => negb (cfreed k)) (cheap st)).
Definition total_cfrees (st : cstate) : nat := fold_right (fun k a => (cfrees k + a)%nat) 0%nat (cheap st).

(* round-robin schedule long enough to finish every program: 5 accesses per call at most *)
Definition steps_bound (cfg : list (nat * list cop)) : nat := fold_right (fun c a => (5 * length (snd c) + a)%nat) 0%nat cfg.

(* ---- access traces of the implementation --------------------------------------------------------------
   The harness records, in baton-passing mode, one event per access of the real code that it can observe:
     EReadRef r : the counter of the handle's block as the write access / clear() is entered (read by the
                  harness in the same scheduling segment in which the library reads it)
     EInc r     : __sync_add_and_fetch(&ref, 1) returned r          (Atomic::increment)
     EDec r     : __sync_add_and_fetch(&ref, -1) returned r         (Atomic::decrement)
     EAlloc     : operator new[] of a payload block inside the call
     ECopy      : Memory::copy out of a payload block (String) / first allocation made while the
                  container is copy-constructed from the old payload (Variant, Xml::Variant)
     EFree      : operator delete[] of a payload block / ~T() of the Ptr pointee
     EWrite c   : the call returned with the handle still referring to the same block and no
                  allocation: modified in place, contents now c
   Plain reads of `ref` in front of an atomic operation and of the payload ([ATouch]) and steps without
   shared access ([ANone]) leave no event: they are taken, in program order, immediately before the
   thread's next event ([advance]).  [accept] lets thread [etid e] make exactly the step that event e
   reports, and fails when the machine's next access is of another kind, returns another value, or
   raises a fault. *)
Inductive ekind := EReadRef | EInc | EDec | EFree | EWrite | EAlloc | ECopy.
Record event := { etid : nat; ekind_of : ekind; eres : Z }.

Definition silent (a : action) : bool := match a with ANone | ATouch _ => true | _ => false end.

Definition next_action (st : cstate) (t : nat) : option action :=
  match cflt st with
  | Some _ => None
  | None => match nth_error (threads st) t with
            | Some th => match prog th with [] => None | _ :: _ => Some (fst (plan (cflav st) (cheap st) th)) end
            | None => None
            end
  end.

Fixpoint advance (fuel : nat) (st : cstate) (t : nat) : cstate * list nat :=
  match fuel with
  | O => (st, [])
  | S n => match next_action st t with
           | Some a => if silent a then let '(st', l) := advance n (cstep st t) t in (st', t :: l) else (st, [])
           | None => (st, [])
           end
  end.

Definition fuel_of (st : cstate) (t : nat) : nat :=
  match nth_error (threads st) t with Some th => S (5 * length (prog th)) | None => O end.
Definition reg_of (st : cstate) (t : nat) : Z :=
  match nth_error (threads st) t with Some th => reg th | None => 0 end.

(* st' is the state after the step *)
Definition match_event (e : event) (a : action) (st' : cstate) : bool :=
  match ekind_of e, a with
  | EReadRef, AReadRef _ => reg_of st' (etid e) =? eres e
  | EInc, AInc b => crc (getcb (cheap st') b) =? eres e
  | EDec, ADec _ => reg_of st' (etid e) =? eres e
  | EFree, AFree _ => true
  | EWrite, AWrite _ nv => nv =? eres e
  | EAlloc, AAlloc _ _ _ => true
  | _, _ => false
  end.

(* the copy out of the old payload comes after the allocation and before the thread gives up its reference *)
Definition at_copy_point (st : cstate) (t : nat) : bool :=
  match nth_error (threads st) t with
  | Some th => match prog th, phase th with CWrite _ _ :: _, 2%nat => true | _, _ => false end
  | None => false
  end.

Definition accept (st : cstate) (e : event) : option (cstate * list nat) :=
  let t := etid e in
  match ekind_of e with
  | ECopy => if at_copy_point st t then
               let st' := cstep st t in
               match cflt st' with None => Some (st', [t]) | Some _ => None end
             else None
  | _ => let '(st1, l) := advance (fuel_of st t) st t in
         match next_action st1 t with
         | Some a => let st' := cstep st1 t in
                     match cflt st' with
                     | Some _ => None
                     | None => if match_event e a st' then Some (st', l ++ [t]) else None
                     end
         | None => None
         end
  end.

(* the state reached, the schedule that leads there, and the events from the first rejected one on *)
Fixpoint replay (st : cstate) (es : list event) : cstate * list nat * list event :=
  match es with
  | [] => (st, [], [])
  | e :: r => match accept st e with
              | Some (st', l) => let '(s2, l2, rest) := replay st' r in (s2, l ++ l2, rest)
              | None => (st, [], es)
              end
  end.

(* after the last event every thread must be able to complete without a further observable access *)
Fixpoint finish (st : cstate) (ts : list nat) : cstate * list nat :=
  match ts with
  | [] => (st, [])
  | t :: r => let '(s1, l1) := advance (fuel_of st t) st t in
              let '(s2, l2) := finish s1 r in (s2, l1 ++ l2)
  end.
