(* Concurrent clause of C09: for every schedule, the interleaving machine of RcConc raises no fault,
   every payload is released exactly once, after its last handle, and is modified in place only
   while exactly one handle refers to it. *)
From Coq Require Import ZArith List Bool Arith Lia.
From Common Require Import ListAux.
From Rc Require Import RcModel RcConc.
Import ListNotations.
Local Open Scope Z_scope.

(* ---- sums over variables and threads ------------------------------------------------------------ *)
Lemma isb_nonneg b x : 0 <= isb b x.
Proof. destruct x as [c|]; simpl; [destruct (Nat.eqb c b)|]; lia. Qed.
Lemma isb_le1 b x : isb b x <= 1.
Proof. destruct x as [c|]; simpl; [destruct (Nat.eqb c b)|]; lia. Qed.
Lemma isb_same b : isb b (Some b) = 1.
Proof. simpl. rewrite Nat.eqb_refl. reflexivity. Qed.
Lemma isb_other b c : c <> b -> isb b (Some c) = 0.
Proof. intros N. simpl. destruct (Nat.eqb_spec c b); [contradiction|reflexivity]. Qed.
Lemma isb_pos b x : 0 < isb b x -> x = Some b.
Proof. destruct x as [c|]; simpl; [|lia]. destruct (Nat.eqb_spec c b); [subst; reflexivity|lia]. Qed.

Lemma vcount_nonneg b l : 0 <= vcount b l.
Proof. induction l as [|x t IH]; simpl; [lia|]. pose proof (isb_nonneg b x). lia. Qed.

Lemma vcount_upd b v x l : (v < length l)%nat ->
  vcount b (upd v x l) = vcount b l - isb b (nth v l None) + isb b x.
Proof.
  revert v. induction l as [|h t IH]; intros v Hv; simpl in Hv; [lia|].
  destruct v as [|v]; simpl.
  - lia.
  - rewrite IH by lia. lia.
Qed.

Lemma vcount_nth b v l : nth v l None = Some b -> 1 <= vcount b l.
Proof.
  revert v. induction l as [|h t IH]; intros v H.
  - destruct v; discriminate.
  - destruct v as [|v]; simpl in *.
    + subst h. rewrite isb_same. pose proof (vcount_nonneg b t). lia.
    + specialize (IH v H). pose proof (isb_nonneg b h). lia.
Qed.

Lemma vcount_zero_nth b l : vcount b l = 0 -> forall v, nth v l None <> Some b.
Proof. intros Z0 v H. apply vcount_nth in H. lia. Qed.

Lemma vcount_repeat_none b n : vcount b (repeat None n) = 0.
Proof. induction n; simpl; lia. Qed.
Lemma vcount_app b l1 l2 : vcount b (l1 ++ l2) = vcount b l1 + vcount b l2.
Proof. induction l1 as [|x t IH]; simpl; lia. Qed.
Lemma vcount_repeat_some b c n : c <> b -> vcount b (repeat (Some c) n) = 0.
Proof. intros N. induction n; simpl; [lia|]. destruct (Nat.eqb_spec c b); [contradiction|lia]. Qed.

Lemma sumz_upd f t th th' l : nth_error l t = Some th -> sumz f (upd t th' l) = sumz f l - f th + f th'.
Proof.
  revert t. induction l as [|h r IH]; intros t H; [destruct t; discriminate|].
  destruct t as [|t]; simpl in *.
  - inversion H; subst. lia.
  - rewrite (IH t H). lia.
Qed.

Lemma sumz_nonneg f l : (forall x, 0 <= f x) -> 0 <= sumz f l.
Proof. intros P. induction l as [|h r IH]; simpl; [lia|]. pose proof (P h). lia. Qed.

Lemma sumz_ge f t th l : (forall x, 0 <= f x) -> nth_error l t = Some th -> f th <= sumz f l.
Proof.
  intros P. revert t. induction l as [|h r IH]; intros t H; [destruct t; discriminate|].
  destruct t as [|t]; simpl in *.
  - inversion H; subst. pose proof (sumz_nonneg f r P). lia.
  - specialize (IH t H). pose proof (P h). lia.
Qed.

Lemma sumz_ge2 f t u th uh l : (forall x, 0 <= f x) -> t <> u ->
  nth_error l t = Some th -> nth_error l u = Some uh -> f th + f uh <= sumz f l.
Proof.
  intros P. revert t u. induction l as [|h r IH]; intros t u N Ht Hu; [destruct t; discriminate|].
  destruct t as [|t], u as [|u]; simpl in *; try congruence.
  - inversion Ht; subst. pose proof (sumz_ge f u uh r P Hu). lia.
  - inversion Hu; subst. pose proof (sumz_ge f t th r P Ht). lia.
  - assert (t <> u) by congruence. specialize (IH t u H Ht Hu). pose proof (P h). lia.
Qed.

Lemma sumz_zero_each f l : (forall x, 0 <= f x) -> sumz f l = 0 -> forall x, In x l -> f x = 0.
Proof.
  intros P. induction l as [|h r IH]; intros Z0 x I; [destruct I|]. simpl in Z0.
  pose proof (P h). pose proof (sumz_nonneg f r P). destruct I as [->|I]; [lia|]. apply IH; [lia|exact I].
Qed.

Lemma nth_error_upd_same {A} t (x : A) l : (t < length l)%nat -> nth_error (upd t x l) t = Some x.
Proof. revert t. induction l as [|h r IH]; intros [|t] H; simpl in *; try lia; auto. apply IH. lia. Qed.
Lemma nth_error_upd_other {A} t u (x : A) l : t <> u -> nth_error (upd t x l) u = nth_error l u.
Proof. revert t u. induction l as [|h r IH]; intros [|t] [|u] H; simpl; auto; try congruence. Qed.
Lemma nth_error_lt {A} (l : list A) t x : nth_error l t = Some x -> (t < length l)%nat.
Proof. intros H. apply nth_error_Some. congruence. Qed.

(* ---- the invariant ----------------------------------------------------------------------------------- *)
Definition pendc (b : nat) (th : thread) : Z := if reg th =? 0 then isb b (pend th) else 0.
Definition tok (st : cstate) (b : nat) : Z := sumz (tokc b) (threads st).
Definition npend (st : cstate) (b : nat) : Z := sumz (pendc b) (threads st).

Lemma tokc_nonneg b th : 0 <= tokc b th.
Proof. unfold tokc. pose proof (vcount_nonneg b (tvars th)). pose proof (isb_nonneg b (tmp th)). lia. Qed.
Lemma pendc_nonneg b th : 0 <= pendc b th.
Proof. unfold pendc. destruct (reg th =? 0); [apply isb_nonneg|lia]. Qed.

Definition idle (th : thread) : Prop := tmp th = None /\ pend th = None.
Definition has (x : option nat) : Prop := exists b, x = Some b.

(* what the registers and variables of a thread look like at each point of a call *)
Definition tshape (th : thread) : Prop :=
  match prog th with
  | [] => phase th = 0%nat /\ idle th
  | CCopy d s :: _ =>
      match phase th with
      | 0%nat => idle th
      | 1%nat => idle th /\ tv th d = None /\ (d < length (tvars th))%nat /\ has (tv th s)
      | _ => False
      end
  | CDrop v :: _ =>
      match phase th with
      | 0%nat => idle th
      | 1%nat => idle th /\ has (tv th v)
      | 2%nat => tmp th = None /\ has (pend th)
      | _ => False
      end
  | CAssign d s :: _ =>
      match phase th with
      | 0%nat => idle th
      | 1%nat => idle th /\ has (tv th d) /\ has (tv th s)
      | 2%nat | 3%nat => pend th = None /\ has (tmp th) /\ has (tv th d)
      | 4%nat => has (tmp th) /\ has (pend th) /\ tv th d = None /\ (d < length (tvars th))%nat
      | _ => False
      end
  | CWrite v _ :: _ =>
      match phase th with
      | 0%nat => idle th
      | 1%nat => idle th /\ has (tv th v)
      | 2%nat | 3%nat => pend th = None /\ has (tv th v)
      | 4%nat => has (pend th) /\ tv th v = None /\ (v < length (tvars th))%nat
      | _ => False
      end
  | CRead _ :: _ | CSwap _ _ :: _ => phase th = 0%nat /\ idle th
  end.

(* a thread that has read `ref` for a write access: the value is at least one, and if it is one the
   counter still is one *)
Definition jclaim (h : list cblock) (th : thread) : Prop :=
  match prog th with
  | CWrite v _ :: _ => phase th = 1%nat -> forall b, tv th v = Some b ->
                       1 <= reg th /\ (reg th = 1 -> crc (getcb h b) = 1)
  | _ => True
  end.

Definition blk_ok (st : cstate) (b : nat) : Prop :=
  let k := getcb (cheap st) b in
  (cfreed k = false -> crc k = tok st b /\ cfrees k = 0%nat /\ 0 <= crc k /\
                       npend st b = (if crc k =? 0 then 1 else 0)) /\
  (cfreed k = true -> tok st b = 0 /\ npend st b = 0 /\ ((b < length (cheap st))%nat -> cfrees k = 1%nat)).

Record CInv (st : cstate) : Prop := {
  ci_flt : cflt st = None;
  ci_blk : forall b, blk_ok st b;
  ci_thr : forall t th, nth_error (threads st) t = Some th -> tshape th /\ jclaim (cheap st) th }.

Definition st_upd (st : cstate) (h' : list cblock) (t : nat) (th' : thread) : cstate :=
  {| cheap := h'; threads := upd t th' (threads st); cflt := None; cflav := cflav st |}.

Lemma tok_upd st h' t th th' b : nth_error (threads st) t = Some th ->
  tok (st_upd st h' t th') b = tok st b - tokc b th + tokc b th'.
Proof. intros H. unfold tok, st_upd; simpl. apply sumz_upd. exact H. Qed.
Lemma npend_upd st h' t th th' b : nth_error (threads st) t = Some th ->
  npend (st_upd st h' t th') b = npend st b - pendc b th + pendc b th'.
Proof. intros H. unfold npend, st_upd; simpl. apply sumz_upd. exact H. Qed.

Lemma tok_ge st t th b : nth_error (threads st) t = Some th -> tokc b th <= tok st b.
Proof. intros H. unfold tok. apply (sumz_ge (tokc b) t th); [apply tokc_nonneg|exact H]. Qed.
Lemma tok_ge2 st t u th uh b : t <> u -> nth_error (threads st) t = Some th -> nth_error (threads st) u = Some uh ->
  tokc b th + tokc b uh <= tok st b.
Proof. intros N H1 H2. unfold tok. apply (sumz_ge2 (tokc b) t u th uh); [apply tokc_nonneg|assumption..]. Qed.
Lemma npend_ge st t th b : nth_error (threads st) t = Some th -> pendc b th <= npend st b.
Proof. intros H. unfold npend. apply (sumz_ge (pendc b) t th); [apply pendc_nonneg|exact H]. Qed.

(* a block some thread holds a handle to is not released and its counter is positive *)
Lemma held_not_freed st t th b : CInv st -> nth_error (threads st) t = Some th -> 1 <= tokc b th ->
  cfreed (getcb (cheap st) b) = false /\ crc (getcb (cheap st) b) = tok st b /\ 1 <= crc (getcb (cheap st) b)
  /\ npend st b = 0 /\ cfrees (getcb (cheap st) b) = 0%nat.
Proof.
  intros I H T. pose proof (tok_ge st t th b H) as G. destruct (ci_blk st I b) as [A B].
  destruct (cfreed (getcb (cheap st) b)) eqn:F.
  - destruct (B eq_refl) as [Z0 _]. lia.
  - destruct (A eq_refl) as (A1 & A2 & A3 & A4). split; [reflexivity|]. split; [exact A1|].
    assert (1 <= crc (getcb (cheap st) b)) by lia. split; [assumption|].
    destruct (crc (getcb (cheap st) b) =? 0) eqn:E; [apply Z.eqb_eq in E; lia|]. split; assumption.
Qed.

Lemma tv_tokc th v b : tv th v = Some b -> 1 <= tokc b th.
Proof. intros H. unfold tokc. pose proof (vcount_nth b v (tvars th) H). pose proof (isb_nonneg b (tmp th)). lia. Qed.

Lemma getcb_updb_same h b k : (b < length h)%nat -> getcb (updb h b k) b = k.
Proof. intros H. unfold getcb, updb. apply nth_upd_same. exact H. Qed.
Lemma getcb_updb_other h b c k : b <> c -> getcb (updb h b k) c = getcb h c.
Proof. intros H. unfold getcb, updb. apply nth_upd_other. exact H. Qed.
Lemma len_updb h b k : length (updb h b k) = length h.
Proof. unfold updb. apply upd_length. Qed.
Lemma not_freed_in_range h b : cfreed (getcb h b) = false -> (b < length h)%nat.
Proof.
  intros F. destruct (Nat.lt_ge_cases b (length h)) as [L|L]; [exact L|].
  unfold getcb in F. rewrite nth_overflow in F by exact L. discriminate.
Qed.

(* ---- framing -------------------------------------------------------------------------------------------- *)
Lemma blk_ok_frame st h' t th th' c : nth_error (threads st) t = Some th ->
  crc (getcb h' c) = crc (getcb (cheap st) c) -> cfreed (getcb h' c) = cfreed (getcb (cheap st) c) ->
  cfrees (getcb h' c) = cfrees (getcb (cheap st) c) ->
  ((c < length h')%nat -> (c < length (cheap st))%nat) ->
  tokc c th' = tokc c th -> pendc c th' = pendc c th ->
  blk_ok st c -> blk_ok (st_upd st h' t th') c.
Proof.
  intros H E1 E2 E3 L T P [A B]. unfold blk_ok.
  rewrite (tok_upd st h' t th th' c H), (npend_upd st h' t th th' c H), T, P.
  cbn [cheap st_upd]. rewrite E1, E2, E3.
  replace (tok st c - tokc c th + tokc c th) with (tok st c) by lia.
  replace (npend st c - pendc c th + pendc c th) with (npend st c) by lia.
  split; [exact A|]. intros F. destruct (B F) as (B1 & B2 & B3). repeat split; auto.
Qed.

Lemma thr_upd st h' t th th' : CInv st -> nth_error (threads st) t = Some th ->
  tshape th' -> jclaim h' th' ->
  (forall u uh, u <> t -> nth_error (threads st) u = Some uh -> jclaim (cheap st) uh -> jclaim h' uh) ->
  forall u uh, nth_error (threads (st_upd st h' t th')) u = Some uh -> tshape uh /\ jclaim h' uh.
Proof.
  intros I H S J K u uh G. cbn [threads st_upd] in G. destruct (Nat.eq_dec t u) as [->|N].
  - rewrite nth_error_upd_same in G by (eapply nth_error_lt; exact H). inversion G; subst. split; assumption.
  - rewrite nth_error_upd_other in G by exact N. destruct (ci_thr st I u uh G) as [S' J']. split; [exact S'|].
    apply (K u uh); [congruence|exact G|exact J'].
Qed.

Lemma jclaim_mono h h' uh : (forall b, crc (getcb h b) = 1 -> crc (getcb h' b) = 1) -> jclaim h uh -> jclaim h' uh.
Proof.
  intros M. unfold jclaim. destruct (prog uh) as [|[] ?]; auto.
  intros J P b Hb. destruct (J P b Hb) as [R1 R2]. split; [exact R1|]. intros R. apply M. apply R2. exact R.
Qed.

(* another thread's claim "the counter is one" survives an increment or decrement by a thread that
   holds a handle to the block: with two holders the counter was not one *)
Lemma jclaim_stable_rc st t th u uh b h' : CInv st -> u <> t ->
  nth_error (threads st) t = Some th -> nth_error (threads st) u = Some uh -> 1 <= tokc b th ->
  (forall c, c <> b -> crc (getcb h' c) = crc (getcb (cheap st) c)) ->
  jclaim (cheap st) uh -> jclaim h' uh.
Proof.
  intros I N Ht Hu T E. unfold jclaim. destruct (prog uh) as [|[] ?]; auto.
  intros J P c Hc. destruct (J P c Hc) as [R1 R2]. split; [exact R1|]. intros R. specialize (R2 R).
  destruct (Nat.eq_dec c b) as [->|NE]; [|rewrite E by exact NE; exact R2].
  exfalso. pose proof (tv_tokc uh _ b Hc) as Tu.
  pose proof (tok_ge2 st t u th uh b ltac:(congruence) Ht Hu) as G.
  destruct (held_not_freed st t th b I Ht T) as (_ & C & _). lia.
Qed.

Lemma tshape_pop th : idle th -> tshape (pop th).
Proof.
  intros [A B]. unfold tshape, pop, idle; cbn [prog phase tmp pend].
  destruct (tl (prog th)) as [|[] ?]; cbn; auto.
Qed.
Lemma jclaim_phase h th : phase th <> 1%nat -> jclaim h th.
Proof. intros N. unfold jclaim. destruct (prog th) as [|[] ?]; auto. intros P. contradiction. Qed.

(* ---- the six kinds of step ------------------------------------------------------------------------------- *)
(* no change of the shared heap *)
Lemma K_same st t th th' : CInv st -> nth_error (threads st) t = Some th ->
  (forall c, tokc c th' = tokc c th) -> (forall c, pendc c th' = pendc c th) ->
  tshape th' -> jclaim (cheap st) th' -> CInv (st_upd st (cheap st) t th').
Proof.
  intros I H T P S J. constructor.
  - reflexivity.
  - intros c. apply (blk_ok_frame st (cheap st) t th th' c H); auto. apply (ci_blk st I).
  - apply (thr_upd st (cheap st) t th th' I H S J). intros u uh _ _ X. exact X.
Qed.

Lemma K_inc st t th th' b : CInv st -> nth_error (threads st) t = Some th -> 1 <= tokc b th ->
  (forall c, tokc c th' = tokc c th + isb c (Some b)) -> (forall c, pendc c th' = pendc c th) ->
  tshape th' -> (forall h, jclaim h th') ->
  monitor st (AInc b) = None /\ CInv (st_upd st (fst (heap_act (cheap st) (AInc b))) t th').
Proof.
  intros I H T TD PD S J.
  destruct (held_not_freed st t th b I H T) as (F & C & C1 & NP & FR).
  pose proof (not_freed_in_range _ _ F) as L.
  split; [unfold monitor; rewrite F; reflexivity|].
  cbn [heap_act fst]. set (k' := {| crc := _; cfreed := _; cfrees := _; cval := _; ccap := _ |}).
  constructor.
  - reflexivity.
  - intros c. destruct (Nat.eq_dec c b) as [->|N].
    + unfold blk_ok. cbn [cheap st_upd]. rewrite getcb_updb_same by exact L.
      rewrite (tok_upd st _ t th th' b H), (npend_upd st _ t th th' b H), TD, PD, isb_same.
      unfold k'; cbn [crc cfreed cfrees]. rewrite F. split; [intros _|intros X; discriminate].
      repeat split; try lia; try (destruct (crc (getcb (cheap st) b) + 1 =? 0) eqn:E; [apply Z.eqb_eq in E|]; lia).
    + apply (blk_ok_frame st _ t th th' c H); try (rewrite getcb_updb_other by congruence; reflexivity).
      * rewrite len_updb. auto.
      * rewrite TD, isb_other by congruence. lia.
      * apply PD.
      * apply (ci_blk st I).
  - apply (thr_upd st _ t th th' I H S (J _)). intros u uh N Hu X.
    apply (jclaim_stable_rc st t th u uh b _ I N H Hu T); [|exact X].
    intros c NE. rewrite getcb_updb_other by congruence. reflexivity.
Qed.

Lemma K_dec st t th th' b : CInv st -> nth_error (threads st) t = Some th -> 1 <= tokc b th ->
  (forall c, tokc c th' = tokc c th - isb c (Some b)) -> (forall c, pendc c th = 0) ->
  (forall c, pendc c th' = if crc (getcb (cheap st) b) - 1 =? 0 then isb c (Some b) else 0) ->
  tshape th' -> (forall h, jclaim h th') ->
  monitor st (ADec b) = None /\ CInv (st_upd st (fst (heap_act (cheap st) (ADec b))) t th').
Proof.
  intros I H T TD P0 PD S J.
  destruct (held_not_freed st t th b I H T) as (F & C & C1 & NP & FR).
  pose proof (not_freed_in_range _ _ F) as L.
  split.
  { unfold monitor. rewrite F. destruct (crc (getcb (cheap st) b) - 1 <? 0) eqn:E; [apply Z.ltb_lt in E; lia|reflexivity]. }
  cbn [heap_act fst]. set (k' := {| crc := _; cfreed := _; cfrees := _; cval := _; ccap := _ |}).
  constructor.
  - reflexivity.
  - intros c. destruct (Nat.eq_dec c b) as [->|N].
    + unfold blk_ok. cbn [cheap st_upd]. rewrite getcb_updb_same by exact L.
      rewrite (tok_upd st _ t th th' b H), (npend_upd st _ t th th' b H), TD, PD, P0, isb_same.
      unfold k'; cbn [crc cfreed cfrees]. rewrite F. split; [intros _|intros X; discriminate].
      repeat split; try lia; try (destruct (crc (getcb (cheap st) b) - 1 =? 0); lia).
    + apply (blk_ok_frame st _ t th th' c H); try (rewrite getcb_updb_other by congruence; reflexivity).
      * rewrite len_updb. auto.
      * rewrite TD, isb_other by congruence. lia.
      * rewrite PD, P0, isb_other by congruence. destruct (crc (getcb (cheap st) b) - 1 =? 0); reflexivity.
      * apply (ci_blk st I).
  - apply (thr_upd st _ t th th' I H S (J _)). intros u uh N Hu X.
    apply (jclaim_stable_rc st t th u uh b _ I N H Hu T); [|exact X].
    intros c NE. rewrite getcb_updb_other by congruence. reflexivity.
Qed.

Lemma K_free st t th th' b : CInv st -> nth_error (threads st) t = Some th ->
  (forall c, pendc c th = isb c (Some b)) ->
  (forall c, tokc c th' = tokc c th) -> (forall c, pendc c th' = 0) ->
  tshape th' -> (forall h, jclaim h th') ->
  monitor st (AFree b) = None /\ CInv (st_upd st (fst (heap_act (cheap st) (AFree b))) t th').
Proof.
  intros I H P1 TD PD S J.
  pose proof (npend_ge st t th b H) as G. rewrite P1, isb_same in G.
  destruct (ci_blk st I b) as [A B].
  destruct (cfreed (getcb (cheap st) b)) eqn:F; [destruct (B eq_refl) as (_ & Z0 & _); lia|].
  destruct (A eq_refl) as (A1 & A2 & A3 & A4).
  destruct (crc (getcb (cheap st) b) =? 0) eqn:E; [apply Z.eqb_eq in E|lia].
  pose proof (not_freed_in_range _ _ F) as L.
  split.
  { unfold monitor. rewrite F. unfold handles_total. fold (tok st b). rewrite <- A1, E. reflexivity. }
  cbn [heap_act fst]. set (k' := {| crc := _; cfreed := _; cfrees := _; cval := _; ccap := _ |}).
  constructor.
  - reflexivity.
  - intros c. destruct (Nat.eq_dec c b) as [->|N].
    + unfold blk_ok. cbn [cheap st_upd]. rewrite getcb_updb_same by exact L.
      rewrite (tok_upd st _ t th th' b H), (npend_upd st _ t th th' b H), TD, PD, P1, isb_same.
      unfold k'; cbn [crc cfreed cfrees]. split; [intros X; discriminate|intros _].
      repeat split; try lia; try (intros _; rewrite A2; reflexivity).
    + apply (blk_ok_frame st _ t th th' c H); try (rewrite getcb_updb_other by congruence; reflexivity).
      * rewrite len_updb. auto.
      * apply TD.
      * rewrite PD, P1, isb_other by congruence. reflexivity.
      * apply (ci_blk st I).
  - apply (thr_upd st _ t th th' I H S (J _)). intros u uh N Hu X.
    apply (jclaim_mono (cheap st)); [|exact X]. intros c.
    destruct (Nat.eq_dec c b) as [->|NE].
    + rewrite getcb_updb_same by exact L. unfold k'; cbn [crc]. auto.
    + rewrite getcb_updb_other by congruence. auto.
Qed.

Lemma K_alloc st t th th' src nv nc : CInv st -> nth_error (threads st) t = Some th -> 1 <= tokc src th ->
  (forall c, tokc c th' = tokc c th + isb c (Some (length (cheap st)))) -> (forall c, pendc c th' = pendc c th) ->
  tshape th' -> (forall h, jclaim h th') ->
  monitor st (AAlloc src nv nc) = None /\ CInv (st_upd st (fst (heap_act (cheap st) (AAlloc src nv nc))) t th').
Proof.
  intros I H T TD PD S J.
  destruct (held_not_freed st t th src I H T) as (F & _).
  split; [unfold monitor; rewrite F; reflexivity|].
  cbn [heap_act fst]. set (k' := {| crc := _; cfreed := _; cfrees := _; cval := _; ccap := _ |}).
  set (nb := length (cheap st)) in *.
  assert (GN : getcb (cheap st ++ [k']) nb = k').
  { unfold getcb, nb. rewrite app_nth2 by lia. rewrite Nat.sub_diag. reflexivity. }
  assert (GO : forall c, c <> nb -> getcb (cheap st ++ [k']) c = getcb (cheap st) c).
  { intros c N. unfold getcb. destruct (Nat.lt_ge_cases c nb) as [Lc|Lc].
    - apply app_nth1. exact Lc.
    - rewrite !nth_overflow; [reflexivity|unfold nb in *; lia|rewrite app_length; simpl; unfold nb in *; lia]. }
  constructor.
  - reflexivity.
  - intros c. destruct (Nat.eq_dec c nb) as [->|N].
    + destruct (ci_blk st I nb) as [_ B].
      assert (FD : cfreed (getcb (cheap st) nb) = true) by (unfold getcb, nb; rewrite nth_overflow by lia; reflexivity).
      destruct (B FD) as (B1 & B2 & _).
      unfold blk_ok. cbn [cheap st_upd]. rewrite GN.
      rewrite (tok_upd st _ t th th' nb H), (npend_upd st _ t th th' nb H), TD, PD, isb_same.
      unfold k'; cbn [crc cfreed cfrees]. split; [intros _|intros X; discriminate].
      change (1 =? 0) with false. repeat split; try lia.
    + apply (blk_ok_frame st _ t th th' c H); try (rewrite GO by exact N; reflexivity).
      * rewrite app_length. simpl. unfold nb in N. lia.
      * rewrite TD, isb_other by congruence. lia.
      * apply PD.
      * apply (ci_blk st I).
  - apply (thr_upd st _ t th th' I H S (J _)). intros u uh N Hu X.
    apply (jclaim_mono (cheap st)); [|exact X]. intros c R.
    destruct (Nat.eq_dec c nb) as [->|NE]; [|rewrite GO by exact NE; exact R].
    exfalso. unfold getcb, nb in R. rewrite nth_overflow in R by lia. simpl in R. lia.
Qed.

Lemma K_write st t th th' b nv : CInv st -> nth_error (threads st) t = Some th -> 1 <= tokc b th ->
  crc (getcb (cheap st) b) = 1 ->
  (forall c, tokc c th' = tokc c th) -> (forall c, pendc c th' = pendc c th) ->
  tshape th' -> (forall h, jclaim h th') ->
  monitor st (AWrite b nv) = None /\ CInv (st_upd st (fst (heap_act (cheap st) (AWrite b nv))) t th').
Proof.
  intros I H T R1 TD PD S J.
  destruct (held_not_freed st t th b I H T) as (F & C & C1 & NP & FR).
  pose proof (not_freed_in_range _ _ F) as L.
  split.
  { unfold monitor. rewrite F. unfold handles_total. fold (tok st b). rewrite <- C, R1. reflexivity. }
  cbn [heap_act fst]. set (k' := {| crc := _; cfreed := _; cfrees := _; cval := _; ccap := _ |}).
  assert (G : forall c, crc (getcb (updb (cheap st) b k') c) = crc (getcb (cheap st) c) /\
                        cfreed (getcb (updb (cheap st) b k') c) = cfreed (getcb (cheap st) c) /\
                        cfrees (getcb (updb (cheap st) b k') c) = cfrees (getcb (cheap st) c)).
  { intros c. destruct (Nat.eq_dec c b) as [->|N].
    - rewrite getcb_updb_same by exact L. unfold k'; cbn. auto.
    - rewrite getcb_updb_other by congruence. auto. }
  constructor.
  - reflexivity.
  - intros c. destruct (G c) as (G1 & G2 & G3).
    apply (blk_ok_frame st _ t th th' c H); auto.
    + rewrite len_updb. auto.
    + apply (ci_blk st I).
  - apply (thr_upd st _ t th th' I H S (J _)). intros u uh N Hu X.
    apply (jclaim_mono (cheap st)); [|exact X]. intros c Rc. destruct (G c) as (G1 & _). rewrite G1. exact Rc.
Qed.

(* ---- local bookkeeping of one thread ----------------------------------------------------------------------- *)
Lemma fire_ok st t a k : monitor st a = None ->
  fire st t a k = st_upd st (fst (heap_act (cheap st) a)) t (k (snd (heap_act (cheap st) a)) (length (cheap st))).
Proof. intros M. unfold fire. rewrite M. destruct (heap_act (cheap st) a). reflexivity. Qed.

Lemma tv_lt th v b : tv th v = Some b -> (v < length (tvars th))%nat.
Proof.
  unfold tv. intros H. destruct (Nat.lt_ge_cases v (length (tvars th))) as [L|L]; [exact L|].
  rewrite nth_overflow in H by exact L. discriminate.
Qed.

Lemma tokc_set_var th v x c : (v < length (tvars th))%nat ->
  tokc c (set_var th v x) = tokc c th - isb c (tv th v) + isb c x.
Proof. intros L. unfold tokc, set_var, tv; cbn [tvars tmp]. rewrite vcount_upd by exact L. lia. Qed.

Lemma pendc_idle th c : pend th = None -> pendc c th = 0.
Proof. intros E. unfold pendc. rewrite E. destruct (reg th =? 0); reflexivity. Qed.

Lemma mon_touch st t th b : CInv st -> nth_error (threads st) t = Some th -> 1 <= tokc b th ->
  monitor st (ATouch b) = None /\ monitor st (AReadRef b) = None.
Proof.
  intros I H T. destruct (held_not_freed st t th b I H T) as (F & _).
  unfold monitor. rewrite F. split; reflexivity.
Qed.

(* steps that leave the shared heap alone *)
Lemma fire_same st t th a k th' : CInv st -> nth_error (threads st) t = Some th ->
  monitor st a = None -> fst (heap_act (cheap st) a) = cheap st ->
  th' = k (snd (heap_act (cheap st) a)) (length (cheap st)) ->
  (forall c, tokc c th' = tokc c th) -> (forall c, pendc c th' = pendc c th) ->
  tshape th' -> jclaim (cheap st) th' -> CInv (fire st t a k).
Proof.
  intros I H M E -> T P S J. rewrite (fire_ok st t a k M), E. apply (K_same st t th _ I H T P S J).
Qed.

Lemma fire_skip st t th : CInv st -> nth_error (threads st) t = Some th -> idle th ->
  CInv (fire st t ANone (fun _ _ => pop th)).
Proof.
  intros I H ID. apply (fire_same st t th ANone _ (pop th) I H); try reflexivity.
  - apply tshape_pop. exact ID.
  - apply jclaim_phase. cbn. discriminate.
Qed.

Lemma fire_touch st t th b th' : CInv st -> nth_error (threads st) t = Some th -> 1 <= tokc b th ->
  (forall c, tokc c th' = tokc c th) -> (forall c, pendc c th' = pendc c th) ->
  tshape th' -> jclaim (cheap st) th' -> CInv (fire st t (ATouch b) (fun _ _ => th')).
Proof.
  intros I H T TD PD S J. destruct (mon_touch st t th b I H T) as [M _].
  apply (fire_same st t th (ATouch b) _ th' I H M); auto.
Qed.

Lemma has_some (x : option nat) : has x -> exists b, x = Some b.
Proof. auto. Qed.

Lemma nth_upd_any {A} (l : list A) a b x d : nth b l d = x -> (a < length l)%nat -> nth b (upd a x l) d = x.
Proof.
  intros E L. destruct (Nat.eq_dec a b) as [->|N].
  - apply nth_upd_same. exact L.
  - rewrite nth_upd_other by exact N. exact E.
Qed.

(* the tail shared by drop, assignment and clone: `== 0) delete` and the final store *)
Lemma fire_free_phase st t th th' : CInv st -> nth_error (threads st) t = Some th ->
  has (pend th) ->
  (forall c, tokc c th' = tokc c th) -> pend th' = None ->
  tshape th' -> (forall h, jclaim h th') ->
  CInv (fire st t (free_action th) (fun _ _ => th')).
Proof.
  intros I H [b PB] TD PN S J. unfold free_action. rewrite PB.
  destruct (reg th =? 0) eqn:R.
  - destruct (K_free st t th th' b I H) as [M C]; auto.
    + intros c. unfold pendc. rewrite R, PB. reflexivity.
    + intros c. apply pendc_idle. exact PN.
    + rewrite (fire_ok _ _ _ _ M). exact C.
  - apply (fire_same st t th ANone _ th' I H); try reflexivity; auto.
    intros c. rewrite (pendc_idle th' c PN). unfold pendc. rewrite R. reflexivity.
Qed.

Lemma fire_dec st t th v b next : CInv st -> nth_error (threads st) t = Some th ->
  tv th v = Some b -> pend th = None ->
  tshape (after_dec th v b (crc (getcb (cheap st) b) - 1) next) -> next <> 1%nat ->
  CInv (fire st t (ADec b) (fun r _ => after_dec th v b r next)).
Proof.
  intros I H TV PN S NX.
  pose proof (tv_lt th v b TV) as L.
  assert (T : 1 <= tokc b th) by apply (tv_tokc th v b TV).
  assert (TD : forall c, tokc c (after_dec th v b (crc (getcb (cheap st) b) - 1) next) = tokc c th - isb c (Some b)).
  { intros c. unfold after_dec. change (tokc c (set_var th v None) = tokc c th - isb c (Some b)).
    rewrite tokc_set_var by exact L. rewrite TV. simpl isb at 2. lia. }
  assert (P0 : forall c, pendc c th = 0) by (intros c; apply pendc_idle; exact PN).
  assert (PD : forall c, pendc c (after_dec th v b (crc (getcb (cheap st) b) - 1) next) =
                         if crc (getcb (cheap st) b) - 1 =? 0 then isb c (Some b) else 0) by (intros c; reflexivity).
  assert (J : forall h, jclaim h (after_dec th v b (crc (getcb (cheap st) b) - 1) next))
    by (intros h; apply jclaim_phase; cbn; exact NX).
  destruct (K_dec st t th _ b I H T TD P0 PD S J) as [M C].
  rewrite (fire_ok _ _ _ _ M). exact C.
Qed.

Lemma fire_inc st t th b th' : CInv st -> nth_error (threads st) t = Some th -> 1 <= tokc b th ->
  (forall c, tokc c th' = tokc c th + isb c (Some b)) -> (forall c, pendc c th' = pendc c th) ->
  tshape th' -> (forall h, jclaim h th') ->
  CInv (fire st t (AInc b) (fun _ _ => th')).
Proof.
  intros I H T TD PD S J. destruct (K_inc st t th th' b I H T TD PD S J) as [M C].
  rewrite (fire_ok _ _ _ _ M). exact C.
Qed.

Lemma tshape_after_store th v : tshape (after_free_store th v).
Proof. unfold after_free_store. apply tshape_pop. split; reflexivity. Qed.

Lemma tokc_after_store th v c : tv th v = None -> (v < length (tvars th))%nat ->
  tokc c (after_free_store th v) = tokc c th.
Proof.
  intros TV L. unfold after_free_store. change (tokc c (set_tmp (set_var th v (tmp th)) None) = tokc c th).
  unfold tokc at 1. cbn [tvars tmp set_tmp set_var]. rewrite vcount_upd by exact L.
  unfold tv in TV. rewrite TV. unfold tokc. simpl. lia.
Qed.

Lemma idle_pend th : idle th -> pend th = None.
Proof. intros [_ B]. exact B. Qed.
Lemma idle_tmp th : idle th -> tmp th = None.
Proof. intros [A _]. exact A. Qed.

Lemma inplace_one f r : inplace_test f r = true -> 1 <= r -> r = 1.
Proof.
  unfold inplace_test. destruct (tests_gt1 f); intros E R.
  - apply negb_true_iff in E. rewrite Z.gtb_ltb in E. apply Z.ltb_ge in E. lia.
  - apply Z.eqb_eq in E. exact E.
Qed.

Theorem cstep_inv st t : CInv st -> CInv (cstep st t).
Proof.
  intros I. unfold cstep. rewrite (ci_flt st I).
  destruct (nth_error (threads st) t) as [th|] eqn:H; [|exact I].
  destruct (prog th) as [|op rest] eqn:P; [exact I|].
  destruct (ci_thr st I t th H) as [S J].
  unfold plan. rewrite P. unfold tshape in S. rewrite P in S. unfold jclaim in J. rewrite P in J.
  destruct op as [d s|d s|v|v m|v|a b].
  - (* CCopy *)
    destruct (phase th) as [|[|ph]] eqn:PH; [| |contradiction].
    + destruct (tv th d) as [bd|] eqn:Td; [apply (fire_skip st t th I H S)|].
      destruct (tv th s) as [b|] eqn:Ts; [|apply (fire_skip st t th I H S)].
      destruct (Nat.ltb d (length (tvars th))) eqn:Ld; [|apply (fire_skip st t th I H S)].
      apply Nat.ltb_lt in Ld.
      apply (fire_touch st t th b (goto th 1) I H (tv_tokc th s b Ts)); try (intros; reflexivity).
      * unfold tshape. cbn [prog phase goto]. rewrite P. repeat split; try apply S; auto. exists b. exact Ts.
      * unfold jclaim; cbn [prog goto]; rewrite P; exact Logic.I.
    + destruct S as (ID & Td & Ld & [b Ts]). rewrite Ts.
      apply (fire_inc st t th b _ I H (tv_tokc th s b Ts)).
      * intros c. change (tokc c (set_var th d (Some b)) = tokc c th + isb c (Some b)).
        rewrite tokc_set_var by exact Ld. rewrite Td. simpl isb at 1. lia.
      * intros c. reflexivity.
      * apply tshape_pop. exact ID.
      * intros h. apply jclaim_phase. cbn. discriminate.
  - (* CAssign *)
    destruct (phase th) as [|[|[|[|[|ph]]]]] eqn:PH; [| | | | |contradiction].
    + destruct (skips_self (cflav st) && Nat.eqb d s); [apply (fire_skip st t th I H S)|].
      destruct (tv th d) as [bd|] eqn:Td; [|apply (fire_skip st t th I H S)].
      destruct (tv th s) as [b|] eqn:Ts; [|apply (fire_skip st t th I H S)].
      apply (fire_touch st t th b (goto th 1) I H (tv_tokc th s b Ts)); try (intros; reflexivity).
      * unfold tshape. cbn [prog phase goto]. rewrite P. repeat split; try apply S; [exists bd; exact Td|exists b; exact Ts].
      * unfold jclaim; cbn [prog goto]; rewrite P; exact Logic.I.
    + destruct S as (ID & [bd Td] & [b Ts]). rewrite Ts.
      apply (fire_inc st t th b _ I H (tv_tokc th s b Ts)).
      * intros c. change (tokc c (set_tmp th (Some b)) = tokc c th + isb c (Some b)).
        unfold tokc. cbn [tvars tmp set_tmp]. rewrite (idle_tmp th ID). simpl isb at 2. lia.
      * intros c. reflexivity.
      * unfold tshape. cbn [prog phase goto set_tmp tmp pend]. rewrite P.
        split; [apply (idle_pend th ID)|]. split; [exists b; reflexivity|exists bd; exact Td].
      * intros h. unfold jclaim; cbn [prog goto set_tmp]; rewrite P; exact Logic.I.
    + destruct S as (PN & TM & [bd Td]). rewrite Td.
      apply (fire_touch st t th bd (goto th 3) I H (tv_tokc th d bd Td)); try (intros; reflexivity).
      * unfold tshape. cbn [prog phase goto]. rewrite P. repeat split; auto. exists bd; exact Td.
      * unfold jclaim; cbn [prog goto]; rewrite P; exact Logic.I.
    + destruct S as (PN & TM & [bd Td]). rewrite Td.
      apply (fire_dec st t th d bd 4 I H Td PN); [|discriminate].
      unfold tshape, after_dec. cbn [prog phase goto set_reg set_pend set_var tmp pend tvars]. rewrite P.
      pose proof (tv_lt th d bd Td) as L.
      split; [exact TM|]. split; [eexists; reflexivity|]. split.
      * unfold tv. cbn [tvars]. apply nth_upd_same. exact L.
      * rewrite upd_length. exact L.
    + destruct S as (TM & PB & Td & Ld).
      apply (fire_free_phase st t th _ I H PB).
      * intros c. apply tokc_after_store; assumption.
      * reflexivity.
      * apply tshape_after_store.
      * intros h. apply jclaim_phase. cbn. discriminate.
  - (* CDrop *)
    destruct (phase th) as [|[|[|ph]]] eqn:PH; [| | |contradiction].
    + destruct (tv th v) as [b|] eqn:Tv; [|apply (fire_skip st t th I H S)].
      apply (fire_touch st t th b (goto th 1) I H (tv_tokc th v b Tv)); try (intros; reflexivity).
      * unfold tshape. cbn [prog phase goto]. rewrite P. split; [exact S|exists b; exact Tv].
      * unfold jclaim; cbn [prog goto]; rewrite P; exact Logic.I.
    + destruct S as (ID & [b Tv]). rewrite Tv.
      apply (fire_dec st t th v b 2 I H Tv (idle_pend th ID)); [|discriminate].
      unfold tshape, after_dec. cbn [prog phase goto set_reg set_pend set_var tmp pend tvars]. rewrite P.
      split; [apply (idle_tmp th ID)|eexists; reflexivity].
    + destruct S as (TM & PB).
      apply (fire_free_phase st t th _ I H PB).
      * intros c. reflexivity.
      * reflexivity.
      * apply tshape_pop. split; [exact TM|reflexivity].
      * intros h. apply jclaim_phase. cbn. discriminate.
  - (* CWrite *)
    destruct (phase th) as [|[|[|[|[|ph]]]]] eqn:PH; [| | | | |contradiction].
    + destruct (tv th v) as [b|] eqn:Tv; [|apply (fire_skip st t th I H S)].
      pose proof (tv_tokc th v b Tv) as T.
      destruct (mon_touch st t th b I H T) as [_ M].
      destruct (held_not_freed st t th b I H T) as (_ & _ & C1 & _).
      apply (fire_same st t th (AReadRef b) _ (goto (set_reg th (crc (getcb (cheap st) b))) 1) I H M); try reflexivity.
      * intros c. rewrite !pendc_idle; [reflexivity|apply (idle_pend th S)|apply (idle_pend th S)].
      * unfold tshape. cbn [prog phase goto set_reg tmp pend]. rewrite P. split; [exact S|exists b; exact Tv].
      * unfold jclaim. cbn [prog phase goto set_reg reg]. rewrite P. intros _ b' Tb'.
        change (tv th v = Some b') in Tb'. rewrite Tv in Tb'. inversion Tb'; subst b'. split; [exact C1|auto].
    + destruct S as (ID & [b Tv]). rewrite Tv.
      pose proof (tv_tokc th v b Tv) as T.
      destruct (J eq_refl b Tv) as [R1 R2].
      destruct (inplace_ok (cflav st) m (reg th) && fits (cflav st) (getcb (cheap st) b) m) eqn:E.
      * apply andb_true_iff in E. destruct E as [E _]. unfold inplace_ok in E. apply andb_true_iff in E. destruct E as [E _].
        pose proof (inplace_one _ _ E R1) as R.
        destruct (K_write st t th (pop th) b (newval m (cval (getcb (cheap st) b))) I H T (R2 R)) as [M C]; try (intros; reflexivity).
        -- apply tshape_pop. exact ID.
        -- intros h. apply jclaim_phase. cbn. discriminate.
        -- rewrite (fire_ok _ _ _ _ M). exact C.
      * assert (AL : forall nv nc, CInv (fire st t (AAlloc b nv nc) (fun _ nb => goto (set_tmp th (Some nb)) 2))).
        { intros nv nc.
          destruct (K_alloc st t th (goto (set_tmp th (Some (length (cheap st)))) 2) b nv nc I H T) as [M C].
          -- intros c. change (tokc c (set_tmp th (Some (length (cheap st)))) = tokc c th + isb c (Some (length (cheap st)))).
             unfold tokc. cbn [tvars tmp set_tmp]. rewrite (idle_tmp th ID). simpl isb at 2. lia.
          -- intros c. reflexivity.
          -- unfold tshape. cbn [prog phase goto set_tmp tmp pend]. rewrite P.
             split; [apply (idle_pend th ID)|exists b; exact Tv].
          -- intros h. unfold jclaim. cbn [prog phase goto set_tmp]. rewrite P. intros X; discriminate.
          -- rewrite (fire_ok _ _ _ _ M). exact C. }
        destruct m as [dg| |]; try apply AL.
        apply (fire_touch st t th b (goto th 3) I H T); try (intros; reflexivity).
        -- unfold tshape. cbn [prog phase goto]. rewrite P. split; [apply (idle_pend th ID)|exists b; exact Tv].
        -- unfold jclaim; cbn [prog phase goto]; rewrite P. intros X; discriminate.
    + destruct S as (PN & [b Tv]). rewrite Tv.
      apply (fire_touch st t th b (goto th 3) I H (tv_tokc th v b Tv)); try (intros; reflexivity).
      * unfold tshape. cbn [prog phase goto]. rewrite P. repeat split; auto. exists b; exact Tv.
      * unfold jclaim; cbn [prog phase goto]; rewrite P. intros X; discriminate.
    + destruct S as (PN & [b Tv]). rewrite Tv.
      apply (fire_dec st t th v b 4 I H Tv PN); [|discriminate].
      unfold tshape, after_dec. cbn [prog phase goto set_reg set_pend set_var tmp pend tvars]. rewrite P.
      pose proof (tv_lt th v b Tv) as L.
      split; [eexists; reflexivity|]. split.
      * unfold tv. cbn [tvars]. apply nth_upd_same. exact L.
      * rewrite upd_length. exact L.
    + destruct S as (PB & Tv & Lv).
      apply (fire_free_phase st t th _ I H PB).
      * intros c. apply tokc_after_store; assumption.
      * reflexivity.
      * apply tshape_after_store.
      * intros h. apply jclaim_phase. cbn. discriminate.
  - (* CRead *)
    destruct S as [PH ID].
    destruct (tv th v) as [b|] eqn:Tv; [|apply (fire_skip st t th I H ID)].
    apply (fire_touch st t th b (pop th) I H (tv_tokc th v b Tv)); try (intros; reflexivity).
    + apply tshape_pop. exact ID.
    + apply jclaim_phase. cbn. discriminate.
  - (* CSwap *)
    destruct S as [PH ID].
    destruct (tv th a) as [ba|] eqn:Ta; [|apply (fire_skip st t th I H ID)].
    destruct (tv th b) as [bb|] eqn:Tb; [|apply (fire_skip st t th I H ID)].
    pose proof (tv_lt th a ba Ta) as La. pose proof (tv_lt th b bb Tb) as Lb.
    rewrite <- Ta, <- Tb.
    apply (fire_same st t th ANone _ (pop (set_var (set_var th a (tv th b)) b (tv th a))) I H); try reflexivity.
    + intros c. change (tokc c (set_var (set_var th a (tv th b)) b (tv th a)) = tokc c th).
      rewrite tokc_set_var by (cbn [tvars set_var]; rewrite upd_length; exact Lb).
      rewrite tokc_set_var by exact La.
      assert (X : tv (set_var th a (tv th b)) b = tv th b).
      { unfold tv. cbn [tvars set_var]. apply nth_upd_any; [reflexivity|exact La]. }
      rewrite X. lia.
    + apply tshape_pop. exact ID.
    + apply jclaim_phase. cbn. discriminate.
Qed.

(* ---- initial configurations -------------------------------------------------------------------------------- *)
Lemma sumz_map_zero (f : thread -> Z) {A} (g : A -> thread) l : (forall x, f (g x) = 0) -> sumz f (map g l) = 0.
Proof. intros Z0. induction l as [|x r IH]; simpl; [reflexivity|]. rewrite Z0, IH. reflexivity. Qed.

Lemma tshape_fresh tvs p : tshape {| tvars := tvs; tmp := None; pend := None; reg := 0; prog := p; phase := 0 |}.
Proof. unfold tshape, idle; cbn. destruct p as [|[] ?]; cbn; auto. Qed.

Theorem cinit_inv f val nv cfg : CInv (cinit f val nv cfg).
Proof.
  unfold cinit. set (ths := map (mk_thread nv) cfg). set (n := sumz (tokc 0) ths).
  assert (NP : forall b, sumz (pendc b) ths = 0).
  { intros b. unfold ths. apply sumz_map_zero. intros x. reflexivity. }
  assert (TK : forall b, b <> 0%nat -> sumz (tokc b) ths = 0).
  { intros b N. unfold ths. apply sumz_map_zero. intros x. unfold tokc, mk_thread; cbn [tvars tmp].
    rewrite vcount_app, vcount_repeat_none, vcount_repeat_some by congruence. reflexivity. }
  assert (N0 : 0 <= n) by (apply sumz_nonneg; apply tokc_nonneg).
  constructor.
  - reflexivity.
  - intros b. unfold blk_ok, tok, npend. cbn [cheap threads]. rewrite NP.
    destruct (n =? 0) eqn:E.
    + apply Z.eqb_eq in E. assert (F : getcb [] b = dead_cblock) by (unfold getcb; destruct b; reflexivity).
      rewrite F. cbn. split; [intros X; discriminate|]. intros _.
      split; [|split; [reflexivity|intros X; lia]].
      destruct (Nat.eq_dec b 0) as [->|NB]; [exact E|apply TK; exact NB].
    + apply Z.eqb_neq in E. destruct b as [|b].
      * unfold getcb; cbn. split; [|intros X; discriminate]. intros _. fold n.
        repeat split; try lia. destruct (n =? 0) eqn:E2; [apply Z.eqb_eq in E2; lia|reflexivity].
      * assert (F : forall k0, getcb [k0] (S b) = dead_cblock)
          by (intros k0; unfold getcb; destruct b; reflexivity).
        rewrite F. cbn. split; [intros X; discriminate|]. intros _.
        split; [apply TK; discriminate|]. split; [reflexivity|intros X; lia].
  - intros t th H. cbn [threads cheap] in *. apply nth_error_In in H. unfold ths in H. apply in_map_iff in H.
    destruct H as [c [<- _]]. split; [apply tshape_fresh|]. apply jclaim_phase. cbn. discriminate.
Qed.

Theorem run_sched_inv st sched : CInv st -> CInv (run_sched st sched).
Proof.
  unfold run_sched. revert st. induction sched as [|t r IH]; intros st I; [exact I|].
  simpl. apply IH. apply cstep_inv. exact I.
Qed.

(* ---- what the invariant says, in the vocabulary of the property -------------------------------------------- *)
Lemma CInv_no_fault st : CInv st -> cflt st = None.
Proof. apply ci_flt. Qed.

Lemma CInv_released_once st b : CInv st -> (b < length (cheap st))%nat ->
  cfrees (getcb (cheap st) b) = if cfreed (getcb (cheap st) b) then 1%nat else 0%nat.
Proof.
  intros I L. destruct (ci_blk st I b) as [A B]. destruct (cfreed (getcb (cheap st) b)).
  - apply (B eq_refl). exact L.
  - apply (A eq_refl).
Qed.

Lemma CInv_released_unreferenced st b : CInv st -> cfreed (getcb (cheap st) b) = true -> handles_total st b = 0.
Proof. intros I F. destruct (ci_blk st I b) as [_ B]. apply (B F). Qed.

Lemma CInv_no_handle_to_released st b t th v : CInv st -> nth_error (threads st) t = Some th ->
  tv th v = Some b \/ tmp th = Some b -> (b < length (cheap st))%nat /\ cfreed (getcb (cheap st) b) = false.
Proof.
  intros I H X. assert (T : 1 <= tokc b th).
  { destruct X as [X|X]; [apply (tv_tokc th v b X)|].
    unfold tokc. rewrite X, isb_same. pose proof (vcount_nonneg b (tvars th)). lia. }
  destruct (held_not_freed st t th b I H T) as (F & _). split; [apply not_freed_in_range; exact F|exact F].
Qed.

Lemma CInv_count st b : CInv st -> cfreed (getcb (cheap st) b) = false ->
  crc (getcb (cheap st) b) = handles_total st b /\ 0 <= crc (getcb (cheap st) b).
Proof. intros I F. destruct (ci_blk st I b) as [A _]. destruct (A F) as (A1 & _ & A3 & _). split; assumption. Qed.

(* quiescence: every thread has completed its program *)
Lemma finished_no_pending st b : CInv st -> finished st -> npend st b = 0 /\
  handles_total st b = sumz (fun th => vcount b (tvars th)) (threads st).
Proof.
  intros I FN.
  assert (ID : forall th, In th (threads st) -> idle th).
  { intros th X. destruct (In_nth_error _ _ X) as [t Ht]. destruct (ci_thr st I t th Ht) as [S _].
    unfold tshape in S. rewrite (FN th X) in S. apply S. }
  unfold npend, handles_total. split.
  - induction (threads st) as [|th r IH]; simpl; [reflexivity|].
    rewrite IH by (intros; apply ID; right; assumption).
    rewrite pendc_idle by (apply idle_pend, ID; left; reflexivity). reflexivity.
  - induction (threads st) as [|th r IH]; simpl; [reflexivity|].
    rewrite IH by (intros; apply ID; right; assumption).
    unfold tokc. rewrite (idle_tmp th) by (apply ID; left; reflexivity). simpl. lia.
Qed.

Lemma finished_released_iff st b : CInv st -> finished st -> (b < length (cheap st))%nat ->
  let nvars := sumz (fun th => vcount b (tvars th)) (threads st) in
  (cfreed (getcb (cheap st) b) = true <-> nvars = 0) /\
  (cfreed (getcb (cheap st) b) = false -> crc (getcb (cheap st) b) = nvars /\ 1 <= nvars).
Proof.
  intros I FN L nvars. destruct (finished_no_pending st b I FN) as [NP HT]. fold nvars in HT.
  destruct (ci_blk st I b) as [A B]. split; [split|].
  - intros F. destruct (B F) as [T _]. unfold tok in T. unfold handles_total in HT. lia.
  - intros Z0. destruct (cfreed (getcb (cheap st) b)) eqn:F; [reflexivity|].
    destruct (A eq_refl) as (A1 & _ & A3 & A4). unfold tok in A1. unfold handles_total in HT.
    destruct (crc (getcb (cheap st) b) =? 0) eqn:E; [lia|]. apply Z.eqb_neq in E. lia.
  - intros F. destruct (A F) as (A1 & _ & A3 & A4). unfold tok in A1. unfold handles_total in HT.
    destruct (crc (getcb (cheap st) b) =? 0) eqn:E; [lia|]. apply Z.eqb_neq in E. lia.
Qed.

(* ---- the monitors ---------------------------------------------------------------------------------------------- *)
Lemma monitor_write_meaning st b nv : monitor st (AWrite b nv) = None ->
  cfreed (getcb (cheap st) b) = false /\ handles_total st b = 1.
Proof.
  unfold monitor. destruct (cfreed (getcb (cheap st) b)); [discriminate|].
  destruct (handles_total st b =? 1) eqn:E; [|discriminate]. apply Z.eqb_eq in E. auto.
Qed.
Lemma monitor_free_meaning st b : monitor st (AFree b) = None ->
  cfreed (getcb (cheap st) b) = false /\ handles_total st b = 0.
Proof.
  unfold monitor. destruct (cfreed (getcb (cheap st) b)); [discriminate|].
  destruct (handles_total st b =? 0) eqn:E; [|discriminate]. apply Z.eqb_eq in E. auto.
Qed.
Lemma monitor_access_meaning st a b nv nc : a = ATouch b \/ a = AReadRef b \/ a = AInc b \/ a = ADec b \/ a = AAlloc b nv nc ->
  monitor st a = None -> cfreed (getcb (cheap st) b) = false.
Proof.
  intros [->|[->|[->|[->| ->]]]]; unfold monitor; destruct (cfreed (getcb (cheap st) b)); auto; discriminate.
Qed.

(* ---- releases are final ------------------------------------------------------------------------------------------ *)
Definition cext (h h' : list cblock) : Prop :=
  (length h <= length h')%nat /\
  forall b, (b < length h)%nat -> (cfrees (getcb h b) <= cfrees (getcb h' b))%nat /\
                                  (cfreed (getcb h b) = true -> cfreed (getcb h' b) = true).
Lemma cext_refl h : cext h h.
Proof. split; [lia|]. intros b _. split; [lia|auto]. Qed.
Lemma cext_trans h1 h2 h3 : cext h1 h2 -> cext h2 h3 -> cext h1 h3.
Proof.
  intros [L1 H1] [L2 H2]. split; [lia|]. intros b L.
  destruct (H1 b L) as [A1 B1]. destruct (H2 b ltac:(lia)) as [A2 B2]. split; [lia|auto].
Qed.
Lemma cext_updb h b k : (cfrees (getcb h b) <= cfrees k)%nat -> (cfreed (getcb h b) = true -> cfreed k = true) ->
  cext h (updb h b k).
Proof.
  intros D F. split; [rewrite len_updb; lia|]. intros c L. destruct (Nat.eq_dec b c) as [->|N].
  - rewrite getcb_updb_same by exact L. split; assumption.
  - rewrite getcb_updb_other by exact N. split; [lia|auto].
Qed.
Lemma heap_act_ext h a : cext h (fst (heap_act h a)).
Proof.
  destruct a; cbn [heap_act fst]; try apply cext_refl; try (apply cext_updb; cbn; [lia|auto]).
  split; [rewrite app_length; simpl; lia|]. intros b L. unfold getcb. rewrite app_nth1 by exact L. split; [lia|auto].
Qed.
Lemma cstep_ext st t : cext (cheap st) (cheap (cstep st t)).
Proof.
  unfold cstep. destruct (cflt st); [apply cext_refl|].
  destruct (nth_error (threads st) t) as [th|]; [|apply cext_refl].
  destruct (prog th); [apply cext_refl|].
  destruct (plan (cflav st) (cheap st) th) as [a k]. unfold fire.
  destruct (monitor st a); [apply cext_refl|].
  pose proof (heap_act_ext (cheap st) a) as X. destruct (heap_act (cheap st) a). exact X.
Qed.
Lemma run_sched_ext st sched : cext (cheap st) (cheap (run_sched st sched)).
Proof.
  unfold run_sched. revert st. induction sched as [|t r IH]; intros st; [apply cext_refl|]. simpl.
  eapply cext_trans; [apply (cstep_ext st t)|apply IH].
Qed.
Lemma run_sched_app st s1 s2 : run_sched st (s1 ++ s2) = run_sched (run_sched st s1) s2.
Proof. unfold run_sched. apply fold_left_app. Qed.

(* ---- every thread completes: each access of a thread strictly reduces its remaining work -------------- *)
Definition work (th : thread) : nat := 5 * length (prog th) - phase th.
Definition workof (st : cstate) (t : nat) : nat :=
  match nth_error (threads st) t with Some th => work th | None => 0%nat end.

Lemma plan_decreases f h th res nb : tshape th -> prog th <> [] ->
  (work (snd (plan f h th) res nb) < work th)%nat.
Proof.
  intros S P. unfold plan. unfold tshape in S. destruct (prog th) as [|op rest] eqn:E; [contradiction|].
  unfold work. rewrite E.
  destruct op; destruct (phase th) as [|[|[|[|[|ph]]]]] eqn:PH; try contradiction; try (destruct S; discriminate);
  repeat match goal with |- context [match ?x with _ => _ end] => destruct x end;
  cbn [snd fst pop goto after_dec after_free_store set_var set_tmp set_pend set_reg prog phase tl length]; rewrite ?E;
  cbn [length tl]; lia.
Qed.

Lemma work_zero_iff th : tshape th -> (work th = 0%nat <-> prog th = []).
Proof.
  intros S. unfold work. unfold tshape in S. destruct (prog th) as [|op rest] eqn:E.
  - destruct S as [PH _]. rewrite PH. simpl. split; auto.
  - split; [|discriminate]. intros W. exfalso. cbn [length] in W.
    destruct op; destruct (phase th) as [|[|[|[|[|ph]]]]]; try contradiction; try lia; destruct S; discriminate.
Qed.

Lemma cstep_other st t u : t <> u -> nth_error (threads (cstep st t)) u = nth_error (threads st) u.
Proof.
  intros N. unfold cstep. destruct (cflt st); [reflexivity|].
  destruct (nth_error (threads st) t) as [th|]; [|reflexivity].
  destruct (prog th); [reflexivity|]. destruct (plan (cflav st) (cheap st) th) as [a k]. unfold fire.
  destruct (monitor st a); [reflexivity|]. destruct (heap_act (cheap st) a). cbn [threads].
  apply nth_error_upd_other. exact N.
Qed.

Lemma cstep_self st t th : CInv st -> nth_error (threads st) t = Some th -> prog th <> [] ->
  exists th', nth_error (threads (cstep st t)) t = Some th' /\ (work th' < work th)%nat.
Proof.
  intros I H P. pose proof (cstep_inv st t I) as I'. pose proof (ci_flt _ I') as F.
  destruct (ci_thr st I t th H) as [S _].
  unfold cstep in *. rewrite (ci_flt st I) in *. rewrite H in *.
  destruct (prog th) as [|op rest] eqn:E; [contradiction|].
  pose proof (plan_decreases (cflav st) (cheap st) th) as D. rewrite E in D.
  destruct (plan (cflav st) (cheap st) th) as [a k]. unfold fire in *.
  destruct (monitor st a); [discriminate|]. destruct (heap_act (cheap st) a) as [h' res]. cbn [threads].
  exists (k res (length (cheap st))). split.
  - apply nth_error_upd_same. eapply nth_error_lt. exact H.
  - apply (D res (length (cheap st)) S). discriminate.
Qed.

Lemma workof_step st t u : CInv st ->
  (workof (cstep st u) t <= workof st t)%nat /\ (t = u -> (workof st t > 0)%nat -> (workof (cstep st u) t < workof st t)%nat).
Proof.
  intros I. unfold workof. destruct (Nat.eq_dec u t) as [->|N].
  - destruct (nth_error (threads st) t) as [th|] eqn:H.
    + destruct (ci_thr st I t th H) as [S _].
      destruct (prog th) as [|op rest] eqn:P.
      * assert (X : cstep st t = st).
        { unfold cstep. rewrite (ci_flt st I), H, P. reflexivity. }
        rewrite X, H. split; [lia|]. intros _ W. apply (work_zero_iff th S) in P. lia.
      * destruct (cstep_self st t th I H) as [th' [H' W]]; [congruence|]. rewrite H'. split; [lia|]. intros _ _. exact W.
    + assert (X : cstep st t = st) by (unfold cstep; rewrite (ci_flt st I), H; reflexivity).
      rewrite X, H. split; [lia|]. intros _ W. lia.
  - rewrite cstep_other by exact N. split; [lia|]. intros E. congruence.
Qed.

Theorem schedule_completes st sched : CInv st ->
  (forall t, (workof st t <= count_occ Nat.eq_dec sched t)%nat) ->
  forall t, workof (run_sched st sched) t = 0%nat.
Proof.
  unfold run_sched. revert st. induction sched as [|u r IH]; intros st I B t.
  - specialize (B t). simpl in *. lia.
  - simpl. apply IH; [apply cstep_inv; exact I|]. intros t'.
    specialize (B t'). simpl in B. destruct (workof_step st t' u I) as [LE LT].
    destruct (Nat.eq_dec u t') as [->|N].
    + destruct (Nat.eq_dec (workof st t') 0) as [Z0|NZ]; [lia|]. specialize (LT eq_refl ltac:(lia)). lia.
    + lia.
Qed.

Lemma workof_zero_finished st : CInv st -> (forall t, workof st t = 0%nat) -> finished st.
Proof.
  intros I W th X. destruct (In_nth_error _ _ X) as [t H]. destruct (ci_thr st I t th H) as [S _].
  apply (work_zero_iff th S). specialize (W t). unfold workof in W. rewrite H in W. exact W.
Qed.

Lemma workof_cinit f val nv cfg t :
  workof (cinit f val nv cfg) t = (5 * length (snd (nth t cfg (0%nat, []))))%nat.
Proof.
  unfold workof, cinit. cbn [threads]. rewrite nth_error_map.
  destruct (nth_error cfg t) as [c|] eqn:E.
  - rewrite (nth_error_nth _ _ _ E). cbn. unfold work. cbn. lia.
  - cbn. rewrite nth_overflow by (apply nth_error_None; exact E). reflexivity.
Qed.

(* ---- the statements for every schedule ------------------------------------------------------------------------- *)
Definition safe_state (st : cstate) : Prop :=
  cflt st = None /\
  (forall b, (b < length (cheap st))%nat ->
     cfrees (getcb (cheap st) b) = if cfreed (getcb (cheap st) b) then 1%nat else 0%nat) /\
  (forall b, cfreed (getcb (cheap st) b) = true -> handles_total st b = 0) /\
  (forall b, cfreed (getcb (cheap st) b) = false ->
     crc (getcb (cheap st) b) = handles_total st b /\ 0 <= crc (getcb (cheap st) b)) /\
  (forall t th v b, nth_error (threads st) t = Some th -> tv th v = Some b \/ tmp th = Some b ->
     (b < length (cheap st))%nat /\ cfreed (getcb (cheap st) b) = false).

Lemma CInv_safe st : CInv st -> safe_state st.
Proof.
  intros I. split; [apply (ci_flt st I)|]. split; [intros b L; apply (CInv_released_once st b I L)|].
  split; [intros b F; apply (CInv_released_unreferenced st b I F)|].
  split; [intros b F; apply (CInv_count st b I F)|].
  intros t th v b H X. apply (CInv_no_handle_to_released st b t th v I H X).
Qed.

Theorem all_interleavings_safe f val nv cfg sched :
  safe_state (run_sched (cinit f val nv cfg) sched).
Proof. apply CInv_safe, run_sched_inv, cinit_inv. Qed.

Theorem all_interleavings_release_final f val nv cfg s1 s2 b :
  let st1 := run_sched (cinit f val nv cfg) s1 in
  let st2 := run_sched (cinit f val nv cfg) (s1 ++ s2) in
  (b < length (cheap st1))%nat ->
  (b < length (cheap st2))%nat /\
  (cfrees (getcb (cheap st1) b) <= cfrees (getcb (cheap st2) b) <= 1)%nat /\
  (cfreed (getcb (cheap st1) b) = true -> cfreed (getcb (cheap st2) b) = true).
Proof.
  intros st1 st2 L. unfold st2. rewrite run_sched_app. fold st1.
  destruct (run_sched_ext st1 s2) as [LL X]. destruct (X b L) as [D F].
  split; [lia|]. split; [|exact F]. split; [exact D|].
  assert (I2 : CInv (run_sched st1 s2)) by (apply run_sched_inv, run_sched_inv, cinit_inv).
  rewrite (CInv_released_once _ b I2) by lia. destruct (cfreed (getcb (cheap (run_sched st1 s2)) b)); lia.
Qed.

Theorem fair_schedules_complete f val nv cfg sched :
  (forall t, (5 * length (snd (nth t cfg (0%nat, []))) <= count_occ Nat.eq_dec sched t)%nat) ->
  let st := run_sched (cinit f val nv cfg) sched in
  finished st /\
  forall b, (b < length (cheap st))%nat ->
    let nvars := sumz (fun th => vcount b (tvars th)) (threads st) in
    (cfreed (getcb (cheap st) b) = true <-> nvars = 0) /\
    (cfreed (getcb (cheap st) b) = false -> crc (getcb (cheap st) b) = nvars /\ 1 <= nvars).
Proof.
  intros B st.
  assert (I : CInv st) by (apply run_sched_inv, cinit_inv).
  assert (FN : finished st).
  { apply (workof_zero_finished st I). apply schedule_completes; [apply cinit_inv|].
    intros t. rewrite workof_cinit. apply B. }
  split; [exact FN|]. intros b L. apply (finished_released_iff st b I FN L).
Qed.

(* the access a thread is about to perform is always a legal one *)
Lemma next_access_allowed st t th : CInv st -> nth_error (threads st) t = Some th -> prog th <> [] ->
  monitor st (fst (plan (cflav st) (cheap st) th)) = None.
Proof.
  intros I H P. pose proof (ci_flt _ (cstep_inv st t I)) as F.
  unfold cstep in F. rewrite (ci_flt st I), H in F.
  destruct (prog th) as [|op rest]; [contradiction|].
  destruct (plan (cflav st) (cheap st) th) as [a k]. cbn [fst]. unfold fire in F.
  destruct (monitor st a); [discriminate|reflexivity].
Qed.

Theorem all_interleavings_next_access f val nv cfg sched t th :
  let st := run_sched (cinit f val nv cfg) sched in
  nth_error (threads st) t = Some th -> prog th <> [] ->
  let a := fst (plan (cflav st) (cheap st) th) in
  (forall b c, a = AWrite b c -> cfreed (getcb (cheap st) b) = false /\ handles_total st b = 1) /\
  (forall b, a = AFree b -> cfreed (getcb (cheap st) b) = false /\ handles_total st b = 0) /\
  (forall b c k, a = ATouch b \/ a = AReadRef b \/ a = AInc b \/ a = ADec b \/ a = AAlloc b c k ->
             cfreed (getcb (cheap st) b) = false).
Proof.
  intros st H P a.
  assert (I : CInv st) by (apply run_sched_inv, cinit_inv).
  pose proof (next_access_allowed st t th I H P) as M. fold a in M.
  split; [|split].
  - intros b c E. rewrite E in M. apply (monitor_write_meaning st b c M).
  - intros b E. rewrite E in M. apply (monitor_free_meaning st b M).
  - intros b c k E. apply (monitor_access_meaning st a b c k E M).
Qed.

(* ---- an access trace of the implementation that [replay] accepts is a run of the machine ------------------- *)
Lemma advance_run fuel st t st' l : advance fuel st t = (st', l) -> st' = run_sched st l.
Proof.
  revert st st' l. induction fuel as [|n IH]; intros st st' l H; cbn [advance] in H.
  - inversion H; reflexivity.
  - destruct (next_action st t) as [a|]; [|inversion H; reflexivity].
    destruct (silent a); [|inversion H; reflexivity].
    destruct (advance n (cstep st t) t) as [s2 l2] eqn:E. inversion H; subst.
    change (run_sched st (t :: l2)) with (run_sched (cstep st t) l2). apply IH. exact E.
Qed.

Lemma accept_run st e st' l : accept st e = Some (st', l) -> st' = run_sched st l.
Proof.
  unfold accept. intros H. destruct (ekind_of e).
  1-6: destruct (advance (fuel_of st (etid e)) st (etid e)) as [s1 l1] eqn:A;
       destruct (next_action s1 (etid e)) as [a|]; [|discriminate];
       destruct (cflt (cstep s1 (etid e))); [discriminate|];
       destruct (match_event e a (cstep s1 (etid e))); [|discriminate];
       inversion H; subst; rewrite run_sched_app, <- (advance_run _ _ _ _ _ A); reflexivity.
  destruct (at_copy_point st (etid e)); [|discriminate].
  destruct (cflt (cstep st (etid e))); [discriminate|]. inversion H; subst. reflexivity.
Qed.

Lemma replay_run st es st' l rest : replay st es = (st', l, rest) -> st' = run_sched st l.
Proof.
  revert st st' l rest. induction es as [|e r IH]; intros st st' l rest H; cbn [replay] in H.
  - inversion H; reflexivity.
  - destruct (accept st e) as [[s1 l1]|] eqn:A; [|inversion H; reflexivity].
    destruct (replay s1 r) as [[s2 l2] rs] eqn:R. inversion H; subst.
    rewrite run_sched_app, <- (accept_run _ _ _ _ A). apply (IH _ _ _ _ R).
Qed.

Lemma finish_run st ts st' l : finish st ts = (st', l) -> st' = run_sched st l.
Proof.
  revert st st' l. induction ts as [|t r IH]; intros st st' l H; cbn [finish] in H.
  - inversion H; reflexivity.
  - destruct (advance (fuel_of st t) st t) as [s1 l1] eqn:A.
    destruct (finish s1 r) as [s2 l2] eqn:F. inversion H; subst.
    rewrite run_sched_app, <- (advance_run _ _ _ _ _ A). apply (IH _ _ _ F).
Qed.

Theorem accepted_trace_is_run f val nv cfg es ts st1 l1 rest st2 l2 :
  replay (cinit f val nv cfg) es = (st1, l1, rest) -> finish st1 ts = (st2, l2) ->
  st1 = run_sched (cinit f val nv cfg) l1 /\ st2 = run_sched (cinit f val nv cfg) (l1 ++ l2) /\
  safe_state st1 /\ safe_state st2.
Proof.
  intros R F. pose proof (replay_run _ _ _ _ _ R) as E1. pose proof (finish_run _ _ _ _ F) as E2.
  assert (E3 : st2 = run_sched (cinit f val nv cfg) (l1 ++ l2)) by (rewrite run_sched_app, <- E1; exact E2).
  split; [exact E1|]. split; [exact E3|]. split.
  - rewrite E1. apply all_interleavings_safe.
  - rewrite E3. apply all_interleavings_safe.
Qed.

(* what an accepted event says about the step the machine made for it *)
Lemma accept_means st e st' l : accept st e = Some (st', l) ->
  cflt st' = None /\ exists s1, st' = cstep s1 (etid e) /\
  (ekind_of e = ECopy \/ exists a, next_action s1 (etid e) = Some a /\ match_event e a st' = true).
Proof.
  unfold accept. intros H. destruct (ekind_of e) eqn:K.
  1-6: destruct (advance (fuel_of st (etid e)) st (etid e)) as [s1 l1] eqn:A;
       destruct (next_action s1 (etid e)) as [a|] eqn:N; [|discriminate];
       destruct (cflt (cstep s1 (etid e))) eqn:FL; [discriminate|];
       destruct (match_event e a (cstep s1 (etid e))) eqn:M; [|discriminate];
       inversion H; subst; split; [exact FL|]; exists s1; split; [reflexivity|]; right; exists a; split; [exact N|exact M].
  destruct (at_copy_point st (etid e)); [|discriminate].
  destruct (cflt (cstep st (etid e))) eqn:FL; [discriminate|]. inversion H; subst.
  split; [exact FL|]. exists st. split; [reflexivity|left; reflexivity].
Qed.
