(* Property C09 - statements closed by `exact`, each followed by Print Assumptions, plus
   non-vacuity Examples.

   Clause of the property text                          -> theorem
   -----------------------------------------------------------------------------------------------
   SEQUENTIAL (every history of create/null/copy/fromraw/assign/assignraw/assignval/reset/swap/write/
   detach/resize/reserve/strmod/strcat/retype/destroy on the handle variables of String | Variant | RefCount::Ptr | Xml::Variant;
   the value of a payload is its contents, RcModel.push.  strmod = any modifier of String that is `detach(..)` followed by a
   write into the own block, in a mode md: append(char), resize, reserve, toLowerCase, toUpperCase, replace(char, char), a store
   through operator char*, append / prepend of characters; strcat = append / operator+= / prepend of another handle's text, which
   may be the handle itself or a handle to the same payload; retype = the `type != T` branch of the write accessors and value
   assignments of Variant / Xml::Variant.  Scalar assignment to a Variant is reset (clear() + inline data); Variant::swap, the
   local copy prepend keeps, and the String that trim assigns are histories of these operations over a seventh variable):
   counter = number of live handles referring to b      -> seq_count_is_number_of_handles
   released exactly once                                -> seq_released_exactly_once, seq_release_is_final
   ... after the last handle has gone (and then at once)-> seq_released_iff_last_handle_gone
   never released while another handle refers to it     -> seq_no_handle_to_released_block,
                                                           seq_no_fault (no FUaf / FDouble / FUnderflow)
   never modified in place while another handle refers  -> seq_no_fault (no FSharedWrite) with
                                                           monitor_inplace_write_means_unshared;
                                                           seen from outside: seq_other_handles_keep_their_value,
                                                           seq_step_refines_value_semantics (all four types),
                                                           seq_history_refines_value_semantics (all four types,
                                                           whole histories: the Model computes what the Spec, in
                                                           which every variable owns its value, computes; for
                                                           RefCount::Ptr the identities of the objects agree too)
   every modifier that is detach-then-write-into-the-own-block, whatever it writes (mode md arbitrary), keeps the invariant
   and changes the value read through that one variable only
                                                        -> seq_detach_then_modify_keeps_invariant,
                                                           seq_detach_then_modify_changes_one_value
   the type-changing branch likewise                    -> seq_type_change_keeps_invariant
   what the fault monitors mean                         -> monitor_access_means_not_released,
                                                           monitor_inplace_write_means_unshared,
                                                           monitor_release_means_first_release
   a released block never gets a handle again           -> seq_no_handle_after_release
   the invariant itself (init, every step)              -> seq_invariant_init, seq_invariant_step

   CONCURRENT (interleaving machine RcConc: threads owning distinct handle variables, some of them
   referring to one common payload; each library call split into its shared-memory accesses; the
   schedule = list of thread ids is universally quantified; sequential consistency):
   invariant (init, every access of every thread)       -> conc_invariant_init, conc_invariant_step
   for EVERY schedule: no access to a released payload, no double release, no release while a
   handle (variable or in flight) of any thread refers to it, no in-place write unless exactly one
   handle refers to it; released at most once; counter = number of handles
                                                        -> conc_every_interleaving_safe
   the access a thread is about to make is legal (write: exactly one handle; delete: no handle,
   not yet released; any read/increment/decrement: not released)
                                                        -> conc_every_next_access_legal
   a release is final, the release counter never exceeds one -> conc_release_is_final
   every schedule that lets each thread make its accesses ends with every program completed and
   then: released <-> no handle left (exactly once, after the last handle, no leak)
                                                        -> conc_fair_schedules_release_after_last_handle
   an access trace recorded from the implementation that RcConc.replay accepts is a run of the
   machine (so everything above holds of the state it reaches)
                                                        -> conc_accepted_trace_is_a_run, conc_accepted_event_means
   Not covered by a theorem (validated by correspondence only): the values read through the
   handles in the CONCURRENT machine (compared with the value-semantics Spec on every case).

   HANDLES STORED INSIDE PAYLOADS (machine RcNest: RefCount::Ptr handles to a pointee type with a Ptr member
   `next`; locations <variable, depth> = the variable or the member of the object reached through depth-1
   `->next` steps; every history of create/null/copy/assign (same-type, converting, operator=(C* ))/reset/
   destroy over such locations, so the source of an assignment may be stored inside the object the target
   is the last handle of, the target may be a member handle, and releases cascade):
   the invariant (init, every step)                     -> nest_invariant_init, nest_invariant_step
   counter = handles in variables + handles inside objects that exist
                                                        -> nest_count_is_number_of_handles
   released exactly once                                -> nest_released_exactly_once, nest_release_is_final
   ... exactly when no handle - in a variable or inside an object that exists - refers to it (so the
   release of the last outer handle cascades down the chain, and stops at an object that has another handle)
                                                        -> nest_released_iff_no_handle_left
   never released while a handle refers to it; no access to a released object, neither by an operation nor
   by following the chains from the variables afterwards; the recursion of the release never runs out of fuel
                                                        -> nest_no_handle_to_released_object, nest_no_fault
   the code as written before fixes/C09/02 (operator= reads `other` again after the release) does access a
   released object on `cur = cur->next`                 -> nest_assign_as_written_refuted
   the machine computes what the counter-free reference object RcNest.pstep computes (variables and members
   as a plain pointer graph; after every operation the objects no handle refers to are destroyed, repeatedly):
   same variables, same chains, same objects destroyed, for every history; and everything the check compares
   after an operation (chains read through the variables, objects alive, objects destroyed) is a function of it
                                                        -> nest_step_refines_reference_object,
                                                           nest_history_refines_reference_object
   the reference object does not depend on the order in which objects without a handle are destroyed
                                                        -> nest_reference_destruction_order_irrelevant *)
From Coq Require Import ZArith List Bool Arith.
From Common Require Import ListAux.
From Rc Require Import RcModel RcSpec RcProofs RcSeq RcRefine RcConc RcConcProofs RcNest RcNestProofs RcNestRefine RcExamples.
Import ListNotations.
Local Open Scope Z_scope.

Theorem seq_invariant_init : Inv init.
Proof. exact Inv_init. Qed.
Print Assumptions seq_invariant_init.

Theorem seq_invariant_step : forall f s o, Inv s -> Inv (step f s o).
Proof. exact step_Inv. Qed.
Print Assumptions seq_invariant_step.

Theorem seq_no_fault : forall f ops, flt (run f ops) = None.
Proof. exact hist_no_fault. Qed.
Print Assumptions seq_no_fault.

Theorem seq_count_is_number_of_handles : forall f ops b,
  (b < length (heap (run f ops)))%nat -> freed (getb (run f ops) b) = false ->
  rc (getb (run f ops) b) = Z.of_nat (count_refs b (vars (run f ops))) /\ 1 <= rc (getb (run f ops) b)
  /\ dtors (getb (run f ops) b) = 0%nat.
Proof. exact hist_rc_counts. Qed.
Print Assumptions seq_count_is_number_of_handles.

Theorem seq_released_iff_last_handle_gone : forall f ops b, (b < length (heap (run f ops)))%nat ->
  (freed (getb (run f ops) b) = true <-> count_refs b (vars (run f ops)) = 0%nat).
Proof. exact hist_released_iff_unreferenced. Qed.
Print Assumptions seq_released_iff_last_handle_gone.

Theorem seq_released_exactly_once : forall f ops b, (b < length (heap (run f ops)))%nat ->
  dtors (getb (run f ops) b) = if freed (getb (run f ops) b) then 1%nat else 0%nat.
Proof. exact hist_released_once. Qed.
Print Assumptions seq_released_exactly_once.

Theorem seq_release_is_final : forall f ops more b, (b < length (heap (run f ops)))%nat ->
  (b < length (heap (run f (ops ++ more))))%nat /\
  (dtors (getb (run f ops) b) <= dtors (getb (run f (ops ++ more)) b) <= 1)%nat /\
  (freed (getb (run f ops) b) = true -> freed (getb (run f (ops ++ more)) b) = true).
Proof. exact hist_release_final. Qed.
Print Assumptions seq_release_is_final.

Theorem seq_no_handle_after_release : forall f ops more b, (b < length (heap (run f ops)))%nat ->
  count_refs b (vars (run f ops)) = 0%nat -> count_refs b (vars (run f (ops ++ more))) = 0%nat.
Proof. exact hist_no_resurrection. Qed.
Print Assumptions seq_no_handle_after_release.

Theorem seq_no_handle_to_released_block : forall f ops v r o, getv (run f ops) v = VLive r o ->
  r = o /\ forall b, o = HBlock b -> (b < length (heap (run f ops)))%nat /\ freed (getb (run f ops) b) = false.
Proof. exact hist_no_dangling. Qed.
Print Assumptions seq_no_handle_to_released_block.

Theorem monitor_access_means_not_released : forall s b,
  flt s = None -> flt (touch s b) = None -> freed (getb s b) = false.
Proof. exact monitor_touch. Qed.
Print Assumptions monitor_access_means_not_released.

Theorem monitor_inplace_write_means_unshared : forall s b n,
  flt s = None -> flt (write_inplace s b n) = None -> freed (getb s b) = false /\ count_refs b (vars s) = 1%nat.
Proof. exact monitor_write. Qed.
Print Assumptions monitor_inplace_write_means_unshared.

Theorem monitor_release_means_first_release : forall s b,
  flt s = None -> flt (free_blk s b) = None -> freed (getb s b) = false.
Proof. exact monitor_free. Qed.
Print Assumptions monitor_release_means_first_release.

Theorem seq_step_refines_value_semantics : forall f ops o,
  abs f (run f (ops ++ [o])) = svars (spec_step f (abs_state f (run f ops)) o).
Proof. exact hist_step_refines. Qed.
Print Assumptions seq_step_refines_value_semantics.

Theorem seq_history_refines_value_semantics : forall f ops,
  abs f (run f ops) = svars (spec_run f ops) /\
  (is_ptr f = true -> screated (spec_run f ops) = length (heap (run f ops))).
Proof. exact run_refines_all. Qed.
Print Assumptions seq_history_refines_value_semantics.

Theorem seq_other_handles_keep_their_value : forall f ops o w, ~ In w (op_vars o) ->
  nth w (abs f (run f (ops ++ [o]))) SDead = nth w (abs f (run f ops)) SDead.
Proof. exact others_keep_their_value. Qed.
Print Assumptions seq_other_handles_keep_their_value.

Theorem seq_detach_then_modify_keeps_invariant : forall s v r o md,
  Inv s -> (v < length (vars s))%nat -> getv s v = VLive r o -> Inv (str_detach s v r md).
Proof. exact Inv_str_detach. Qed.
Print Assumptions seq_detach_then_modify_keeps_invariant.

Theorem seq_detach_then_modify_changes_one_value : forall s v r o md,
  Inv s -> (v < length (vars s))%nat -> getv s v = VLive r o ->
  RcRefine.abs FStr (str_detach s v r md) = upd v (smod (RcRefine.abs_var FStr s (VLive r o)) md) (RcRefine.abs FStr s).
Proof. exact (fun s v r o md I L G => abs_str_detach FStr s v r o md I eq_refl L G). Qed.
Print Assumptions seq_detach_then_modify_changes_one_value.

Theorem seq_type_change_keeps_invariant : forall f s v r o c,
  Inv s -> (v < length (vars s))%nat -> getv s v = VLive r o ->
  Inv (retype f s v r c) /\ (is_ptr f = false -> abs f (retype f s v r c) = upd v (SVal 0 c) (abs f s)).
Proof. exact (fun f s v r o c I L G => conj (Inv_retype f s v r o c I L G) (fun NP => abs_retype f s v r o c I NP L G)). Qed.
Print Assumptions seq_type_change_keeps_invariant.

(* ---- non-vacuity ---------------------------------------------------------------------------------- *)
(* a String history with sharing, a clone on write, an in-place write and both releases *)
Example ex_hist_blocks :
  map (fun k => (rc k, freed k, dtors k)) (heap (run FStr ex_hist)) = [(0, true, 1%nat); (0, true, 1%nat)]
  /\ map (fun k => (rc k, freed k, dtors k)) (heap (run FStr (firstn 6 ex_hist))) = [(1, false, 0%nat); (2, false, 0%nat)]
  /\ flt (run FStr ex_hist) = None.
Proof. vm_compute. repeat split. Qed.
(* contents: 83 = "123" in base 8, 5349 = "12345" *)
Example ex_count : count_refs 1 (vars (run FStr (firstn 6 ex_hist))) = 2%nat /\ val (getb (run FStr (firstn 6 ex_hist)) 1) = 5349
  /\ slen 5349 = 5 /\ cap (getb (run FStr (firstn 6 ex_hist)) 1) = 7.
Proof. vm_compute. repeat split. Qed.
(* values: variable 0 keeps "123" while its copy, variable 1, is written twice (clone, then in place) *)
Example ex_values : abs FStr (run FStr (firstn 5 ex_hist)) = [SVal 0 83; SVal 0 5349; SVal 0 83; SDead; SDead; SDead; SDead]
  /\ svars (spec_run FStr (firstn 5 ex_hist)) = [SVal 0 83; SVal 0 5349; SVal 0 83; SDead; SDead; SDead; SDead].
Proof. vm_compute. split; reflexivity. Qed.
(* Variant: a value assignment through a shared handle clones, the next one is in place; the other handle keeps "12" and is then written *)
Example ex_values_var :
  map (fun k => (rc k, freed k, dtors k, val k)) (heap (run FVar (firstn 5 ex_hist_var))) = [(1, false, 0%nat, 87); (1, false, 0%nat, 84)]
  /\ abs FVar (run FVar (firstn 5 ex_hist_var)) = [SVal 0 87; SVal 0 84; SDead; SDead; SDead; SDead; SDead]
  /\ map (fun k => (freed k, dtors k)) (heap (run FVar ex_hist_var)) = [(true, 1%nat); (true, 1%nat)].
Proof. vm_compute. repeat split. Qed.
(* the other modifiers of String: "AbC " (2231) shared by 0 and 1; 1 lowered -> "abc " (671), 0 keeps its text; 2 = copy of 1 with the
   text of 0 in front; 0 appended to itself and trimmed: "AbC AbC" *)
Example ex_values_mod :
  abs FStr (run FStr (firstn 3 ex_hist_mod)) = [SVal 0 2231; SVal 0 671; SDead; SDead; SDead; SDead; SDead]
  /\ map (fun k => (rc k, freed k)) (heap (run FStr (firstn 3 ex_hist_mod))) = [(1, false); (1, false)]
  /\ abs FStr (run FStr ex_hist_mod) = svars (spec_run FStr ex_hist_mod)
  /\ markers (peek (run FStr ex_hist_mod) 2) = [4; 2; 6; 7; 1; 2; 3; 7] /\ markers (peek (run FStr ex_hist_mod) 0) = [4; 2; 6; 7; 4; 2; 6]
  /\ markers (peek (run FStr ex_hist_mod) 1) = [1; 2; 3; 7]
  /\ flt (run FStr ex_hist_mod) = None.
Proof. vm_compute. repeat split. Qed.
(* Variant: scalar assignment through a shared handle releases nothing (the other handle still refers to the payload), swap moves it,
   the type-changing accessor on a shared payload makes a new one and leaves the other handle's alone *)
Example ex_values_var2 :
  map (fun k => (rc k, freed k, val k)) (heap (run FVar (firstn 3 ex_hist_var2))) = [(1, false, 10)]
  /\ abs FVar (run FVar (firstn 7 ex_hist_var2)) = [SNull; SVal 0 10; SDead; SDead; SDead; SDead; SDead]
  /\ map (fun k => (rc k, freed k, dtors k, val k)) (heap (run FVar ex_hist_var2)) = [(1, false, 0%nat, 10); (0, true, 1%nat, 0); (1, false, 0%nat, 83)]
  /\ abs FVar (run FVar ex_hist_var2) = [SNull; SVal 0 10; SVal 0 83; SDead; SDead; SDead; SDead].
Proof. vm_compute. repeat split. Qed.
(* RefCount::Ptr, whole history, with identities: p0 = &*p0 keeps object 0 alive; p1 = &*p2 shares object 1 *)
Example ex_values_ptr :
  abs FPtr (run FPtr (firstn 6 ex_hist_ptr)) = [SVal 1 6; SVal 1 6; SVal 0 5; SDead; SDead; SDead; SDead]
  /\ svars (spec_run FPtr (firstn 6 ex_hist_ptr)) = [SVal 1 6; SVal 1 6; SVal 0 5; SDead; SDead; SDead; SDead]
  /\ map (fun k => (rc k, freed k)) (heap (run FPtr (firstn 6 ex_hist_ptr))) = [(1, false); (2, false)]
  /\ map (fun k => (freed k, dtors k)) (heap (run FPtr ex_hist_ptr)) = [(true, 1%nat); (true, 1%nat)].
Proof. vm_compute. repeat split. Qed.
(* the three monitors do fire on states that deserve it *)
Example ex_monitor_fires :
  flt (write_inplace (run FVar [OCreate 0 2; OCopy 1 0]) 0 9) = Some (FSharedWrite 0)
  /\ flt (touch (run FPtr [OCreate 0 2; ODestroy 0]) 0) = Some (FUaf 0)
  /\ flt (free_blk (run FXml [OCreate 0 2; ODestroy 0]) 0) = Some (FDouble 0).
Proof. vm_compute. repeat split. Qed.
(* RefCount::Ptr::swap as it was written (obj exchanged, refObj not) leaves a handle to a released object *)
Example ex_swap_as_written_dangles :
  flt (fst (step_obs true FPtr (run_as_written FPtr [OCreate 0 1; OCreate 1 2; OSwap 0 1]) (ODestroy 0))) = Some (FUaf 0)
  /\ flt (fst (step_obs false FPtr (run FPtr [OCreate 0 1; OCreate 1 2; OSwap 0 1]) (ODestroy 0))) = None.
Proof. vm_compute. split; reflexivity. Qed.

(* ================================ concurrent clause ================================================ *)
Theorem conc_invariant_init : forall f val nv cfg, CInv (cinit f val nv cfg).
Proof. exact cinit_inv. Qed.
Print Assumptions conc_invariant_init.

Theorem conc_invariant_step : forall st t, CInv st -> CInv (cstep st t).
Proof. exact cstep_inv. Qed.
Print Assumptions conc_invariant_step.

Theorem conc_every_interleaving_safe : forall f val nv cfg sched,
  let st := run_sched (cinit f val nv cfg) sched in
  cflt st = None /\
  (forall b, (b < length (cheap st))%nat ->
     cfrees (getcb (cheap st) b) = if cfreed (getcb (cheap st) b) then 1%nat else 0%nat) /\
  (forall b, cfreed (getcb (cheap st) b) = true -> handles_total st b = 0) /\
  (forall b, cfreed (getcb (cheap st) b) = false ->
     crc (getcb (cheap st) b) = handles_total st b /\ 0 <= crc (getcb (cheap st) b)) /\
  (forall t th v b, nth_error (threads st) t = Some th -> tv th v = Some b \/ tmp th = Some b ->
     (b < length (cheap st))%nat /\ cfreed (getcb (cheap st) b) = false).
Proof. exact all_interleavings_safe. Qed.
Print Assumptions conc_every_interleaving_safe.

Theorem conc_every_next_access_legal : forall f val nv cfg sched t th,
  let st := run_sched (cinit f val nv cfg) sched in
  nth_error (threads st) t = Some th -> prog th <> [] ->
  let a := fst (plan (cflav st) (cheap st) th) in
  (forall b c, a = AWrite b c -> cfreed (getcb (cheap st) b) = false /\ handles_total st b = 1) /\
  (forall b, a = AFree b -> cfreed (getcb (cheap st) b) = false /\ handles_total st b = 0) /\
  (forall b c k, a = ATouch b \/ a = AReadRef b \/ a = AInc b \/ a = ADec b \/ a = AAlloc b c k ->
             cfreed (getcb (cheap st) b) = false).
Proof. exact all_interleavings_next_access. Qed.
Print Assumptions conc_every_next_access_legal.

Theorem conc_release_is_final : forall f val nv cfg s1 s2 b,
  let st1 := run_sched (cinit f val nv cfg) s1 in
  let st2 := run_sched (cinit f val nv cfg) (s1 ++ s2) in
  (b < length (cheap st1))%nat ->
  (b < length (cheap st2))%nat /\
  (cfrees (getcb (cheap st1) b) <= cfrees (getcb (cheap st2) b) <= 1)%nat /\
  (cfreed (getcb (cheap st1) b) = true -> cfreed (getcb (cheap st2) b) = true).
Proof. exact all_interleavings_release_final. Qed.
Print Assumptions conc_release_is_final.

Theorem conc_fair_schedules_release_after_last_handle : forall f val nv cfg sched,
  (forall t, (5 * length (snd (nth t cfg (0%nat, []))) <= count_occ Nat.eq_dec sched t)%nat) ->
  let st := run_sched (cinit f val nv cfg) sched in
  finished st /\
  forall b, (b < length (cheap st))%nat ->
    let nvars := sumz (fun th => vcount b (tvars th)) (threads st) in
    (cfreed (getcb (cheap st) b) = true <-> nvars = 0) /\
    (cfreed (getcb (cheap st) b) = false -> crc (getcb (cheap st) b) = nvars /\ 1 <= nvars).
Proof. exact fair_schedules_complete. Qed.
Print Assumptions conc_fair_schedules_release_after_last_handle.

Theorem conc_accepted_trace_is_a_run : forall f val nv cfg es ts st1 l1 rest st2 l2,
  replay (cinit f val nv cfg) es = (st1, l1, rest) -> finish st1 ts = (st2, l2) ->
  st1 = run_sched (cinit f val nv cfg) l1 /\ st2 = run_sched (cinit f val nv cfg) (l1 ++ l2) /\
  safe_state st1 /\ safe_state st2.
Proof. exact accepted_trace_is_run. Qed.
Print Assumptions conc_accepted_trace_is_a_run.

Theorem conc_accepted_event_means : forall st e st' l, accept st e = Some (st', l) ->
  cflt st' = None /\ exists s1, st' = cstep s1 (etid e) /\
  (ekind_of e = ECopy \/ exists a, next_action s1 (etid e) = Some a /\ match_event e a st' = true).
Proof. exact accept_means. Qed.
Print Assumptions conc_accepted_event_means.

(* ---- non-vacuity ---------------------------------------------------------------------------------- *)
(* three threads, four handles to the common payload; writes, copies, assignment, swap, drops *)
Example ex_fair_hypothesis_holds :
  forallb (fun t => Nat.leb (5 * length (snd (nth t ex_cfg (0%nat, [])))) (count_occ Nat.eq_dec ex_rr t)) (seq 0 4) = true
  /\ forallb (fun t => Nat.leb (5 * length (snd (nth t ex_cfg (0%nat, [])))) (count_occ Nat.eq_dec ex_seq t)) (seq 0 4) = true.
Proof. vm_compute. split; reflexivity. Qed.
(* the two schedules release the common payload once each, but clone different numbers of times *)
(* the two schedules release every payload once each, but clone different numbers of times *)
Example ex_conc_runs :
  let a := run_sched (cinit FStr 3 3 ex_cfg) ex_rr in
  let b := run_sched (cinit FStr 3 3 ex_cfg) ex_seq in
  cflt a = None /\ finishedb a = true /\ map (fun k => (cfreed k, cfrees k)) (cheap a) = repeat (true, 1%nat) 5
  /\ cflt b = None /\ finishedb b = true /\ map (fun k => (cfreed k, cfrees k)) (cheap b) = repeat (true, 1%nat) 4.
Proof. vm_compute. repeat split. Qed.
(* a race: both threads read ref = 2, both clone, the second decrement releases the payload *)
Example ex_conc_race :
  let st := run_sched (cinit FVar 7 1 [(1%nat, [CWrite 0 (WAppend 1)]); (1%nat, [CWrite 0 (WAppend 2)])]) [0; 1; 0; 1; 0; 1; 0; 1]%nat in
  map (fun k => (crc k, cfreed k, cfrees k, cval k)) (cheap st) = [(0, false, 0%nat, 7); (1, false, 0%nat, 57); (1, false, 0%nat, 58)]
  /\ map reg (threads st) = [1; 0] /\ map pend (threads st) = [Some 0%nat; Some 0%nat]
  /\ map (fun k => (cfreed k, cfrees k)) (cheap (run_sched st [0; 1]%nat)) = [(true, 1%nat); (false, 0%nat); (false, 0%nat)].
Proof. vm_compute. repeat split. Qed.
(* the monitors reject what the property forbids *)
Example ex_conc_monitors :
  let st := cinit FStr 7 1 [(1%nat, []); (1%nat, [])] in
  monitor st (AWrite 0 0) = Some (CSharedWrite 0) /\ monitor st (AFree 0) = Some (CFreeReferenced 0)
  /\ monitor st (ATouch 1) = Some (CUaf 1).
Proof. vm_compute. repeat split. Qed.
(* a recorded trace is accepted and completes; the same events with thread 0's decrement reported before its
   copy from the old payload, or without the release after the decrement that reached 0, are rejected at
   that event *)
Example ex_trace_accepted :
  let '(st, l, rest) := replay (cinit FStr 3 1 ex_trace_cfg) ex_trace in
  rest = [] /\ l = [0; 0; 0; 1; 1; 0; 0; 0; 0]%nat /\ finishedb (fst (finish st [0; 1]%nat)) = true
  /\ map (fun k => (crc k, cfreed k, cval k, ccap k)) (cheap st) = [(0, true, 3, 3); (1, false, 202, 3)].
Proof. vm_compute. repeat split. Qed.
Example ex_trace_rejected :
  snd (replay (cinit FStr 3 1 ex_trace_cfg) ex_trace_bad_order) = [ev 0 ECopy 0; ev 0 EFree 0]
  /\ snd (replay (cinit FStr 3 1 ex_trace_cfg) ex_trace_no_free) = [ev 0 EReadRef 1; ev 0 EWrite 202].
Proof. vm_compute. split; reflexivity. Qed.

(* ================================ handles stored inside payloads ==================================== *)
Theorem nest_invariant_init : NInv ninit.
Proof. exact NInv_ninit. Qed.
Print Assumptions nest_invariant_init.

Theorem nest_invariant_step : forall s o, NInv s -> NInv (nstep s o).
Proof. exact nstep_NInv. Qed.
Print Assumptions nest_invariant_step.

Theorem nest_no_fault : forall ops, nflt (nrun ops) = None /\ nflt (nobs_touch (nrun ops)) = None.
Proof. exact nhist_no_fault. Qed.
Print Assumptions nest_no_fault.

Theorem nest_count_is_number_of_handles : forall ops b,
  (b < length (nheap (nrun ops)))%nat -> nfreed (ngetb (nrun ops) b) = false ->
  nrc (ngetb (nrun ops) b) = nhandles (nrun ops) b /\ 1 <= nrc (ngetb (nrun ops) b) /\ ndtors (ngetb (nrun ops) b) = 0%nat.
Proof. exact nhist_count. Qed.
Print Assumptions nest_count_is_number_of_handles.

Theorem nest_released_iff_no_handle_left : forall ops b, (b < length (nheap (nrun ops)))%nat ->
  (nfreed (ngetb (nrun ops) b) = true <-> nhandles (nrun ops) b = 0).
Proof. exact nhist_released_iff. Qed.
Print Assumptions nest_released_iff_no_handle_left.

Theorem nest_released_exactly_once : forall ops b, (b < length (nheap (nrun ops)))%nat ->
  ndtors (ngetb (nrun ops) b) = if nfreed (ngetb (nrun ops) b) then 1%nat else 0%nat.
Proof. exact nhist_released_once. Qed.
Print Assumptions nest_released_exactly_once.

Theorem nest_release_is_final : forall ops more b, (b < length (nheap (nrun ops)))%nat ->
  (b < length (nheap (nrun (ops ++ more))))%nat /\
  (ndtors (ngetb (nrun ops) b) <= ndtors (ngetb (nrun (ops ++ more)) b) <= 1)%nat /\
  (nfreed (ngetb (nrun ops) b) = true -> nfreed (ngetb (nrun (ops ++ more)) b) = true).
Proof. exact nhist_release_final. Qed.
Print Assumptions nest_release_is_final.

Theorem nest_no_handle_to_released_object : forall ops,
  (forall v b, ngetv (nrun ops) v = NLive (HBlock b) -> (b < length (nheap (nrun ops)))%nat /\ nfreed (ngetb (nrun ops) b) = false) /\
  (forall k b, (k < length (nheap (nrun ops)))%nat -> nfreed (ngetb (nrun ops) k) = false -> nnext (ngetb (nrun ops) k) = HBlock b ->
               (b < length (nheap (nrun ops)))%nat /\ nfreed (ngetb (nrun ops) b) = false).
Proof. exact nhist_no_dangling. Qed.
Print Assumptions nest_no_handle_to_released_object.

Theorem nest_assign_as_written_refuted :
  nflt (nrun_as_written [NCreate 0 1; NAssign AConv 0 0 0 1]) = Some (NUaf 0) /\
  nflt (nrun_as_written [NCreate 0 1; NAssign ASame 0 0 0 1]) = Some (NUaf 0) /\
  nflt (nrun [NCreate 0 1; NAssign AConv 0 0 0 1]) = None.
Proof. exact nassign_as_written_refuted. Qed.
Print Assumptions nest_assign_as_written_refuted.

Theorem nest_step_refines_reference_object : forall s o, NInv s -> nabs (nstep s o) = pstep (nabs s) o.
Proof. exact nstep_refines. Qed.
Print Assumptions nest_step_refines_reference_object.

Theorem nest_history_refines_reference_object : forall ops,
  nabs (nrun ops) = prun ops /\
  map (fun o => match o with NODead => PODead | NOChain c => POChain (map (fun x => (fst (fst x), snd (fst x))) c) end) (nobs (nrun ops)) = pobs (prun ops) /\
  nlive_blocks (nrun ops) = palive_count (prun ops) /\ ntotal_dtors (nrun ops) = pdead_count (prun ops).
Proof. exact nhist_observation_refines. Qed.
Print Assumptions nest_history_refines_reference_object.

Theorem nest_reference_destruction_order_irrelevant : forall t t', kills t t' -> settled t' -> t' = sweep t.
Proof. exact kills_is_sweep. Qed.
Print Assumptions nest_reference_destruction_order_irrelevant.

(* ---- non-vacuity ---------------------------------------------------------------------------------- *)
(* the chain 0 -> 1 -> 2 held by variable 0 alone: every counter is 1 = one handle, two of them inside payloads *)
Example ex_nest_chain_counts :
  map (fun k => (nrc k, nfreed k, nnext k)) (nheap (nrun ex_nest_chain)) = [(1, false, HBlock 1); (1, false, HBlock 2); (1, false, HNone)]
  /\ map (nhandles (nrun ex_nest_chain)) [0; 1; 2]%nat = [1; 1; 1]
  /\ nobs (nrun ex_nest_chain) = [NOChain [(0%nat, 10, 1); (1%nat, 11, 1); (2%nat, 12, 1)]; NODead; NODead; NODead].
Proof. vm_compute. repeat split. Qed.
(* cur = cur->next twice: each step releases exactly the object left behind, once; the object cur ends up with stays *)
Example ex_nest_walk_releases :
  map (fun k => (nrc k, nfreed k, ndtors k)) (nheap (nrun ex_nest_walk)) = [(0, true, 1%nat); (0, true, 1%nat); (1, false, 0%nat)]
  /\ map (fun k => (nfreed k, ndtors k)) (nheap (nrun (firstn 8 ex_nest_walk))) = [(true, 1%nat); (false, 0%nat); (false, 0%nat)]
  /\ nobs (nrun ex_nest_walk) = [NOChain [(2%nat, 12, 1)]; NODead; NODead; NODead]
  /\ nflt (nrun_as_written ex_nest_walk) = Some (NUaf 0).
Proof. vm_compute. repeat split. Qed.
(* a->next = a->next->next releases the middle object only; destroying the variable then cascades over the rest *)
Example ex_nest_unlink_and_cascade :
  map (fun k => (nrc k, nfreed k, ndtors k)) (nheap (nrun ex_nest_unlink)) = [(1, false, 0%nat); (0, true, 1%nat); (1, false, 0%nat)]
  /\ map (fun k => (nfreed k, ndtors k)) (nheap (nrun (ex_nest_unlink ++ [NDestroy 0]))) = [(true, 1%nat); (true, 1%nat); (true, 1%nat)]
  /\ map (fun k => (nfreed k, ndtors k)) (nheap (nrun (ex_nest_chain ++ [NCopy 1 0 2; NDestroy 0]))) = [(true, 1%nat); (true, 1%nat); (false, 0%nat)].
Proof. vm_compute. repeat split. Qed.
(* a cycle keeps itself: no variable is left, every object still has a handle inside another one, none is released *)
Example ex_nest_cycle_stays :
  map (fun k => (nrc k, nfreed k)) (nheap (nrun ex_nest_cycle)) = [(1, false); (1, false); (1, false)]
  /\ nvars (nrun ex_nest_cycle) = [NDead; NLive HNone; NDead; NDead]
  /\ map (nhandles (nrun ex_nest_cycle)) [0; 1; 2]%nat = [1; 1; 1].
Proof. vm_compute. repeat split. Qed.
(* the reference object on the same histories: cur = cur->next twice leaves object 2; the cycle stays; and destroying
   the two objects of a dropped chain in the other order than the sweep does ends in the same state *)
Example ex_nest_reference_object :
  map palive (pobjs (prun ex_nest_walk)) = [false; false; true] /\ pobs (prun ex_nest_walk) = [POChain [(2%nat, 12)]; PODead; PODead; PODead]
  /\ map palive (pobjs (prun ex_nest_cycle)) = [true; true; true]
  /\ nabs (nrun ex_nest_unlink) = prun ex_nest_unlink.
Proof. vm_compute. repeat split. Qed.
Example ex_nest_other_order :
  let t := {| pvars := [PDead]; pobjs := [{| palive := true; pn := 1; pnext := Some 1%nat |}; {| palive := true; pn := 2; pnext := None |}] |} in
  referenced t 0 = false /\ referenced t 1 = true /\ referenced (pkill t 0) 1 = false
  /\ map palive (pobjs (sweep t)) = [false; false] /\ pkill (pkill t 0) 1 = sweep t.
Proof. vm_compute. repeat split. Qed.
