(* Lemmas for property C18 (component Codec). *)
From Coq Require Import ZArith List Bool Lia ZifyBool ZifyNat ZifyN.
From Common Require Import Words ListAux.
From Codec Require Import Gen_Codec CodecSpec CodecModel.
Import ListNotations.
Local Open Scope Z_scope.
Local Open Scope bool_scope.
Ltac Zify.zify_post_hook ::= Z.div_mod_to_equations.

(* ------------------------------------------------------------------------------------------ *)
(* finite sweeps: forallb over [0, n) lifted to a quantified statement                          *)
(* ------------------------------------------------------------------------------------------ *)

Definition zrange (n : nat) : list Z := map Z.of_nat (seq 0 n).

Lemma zrange_In n x : 0 <= x < Z.of_nat n -> In x (zrange n).
Proof.
  intros H. unfold zrange. apply in_map_iff. exists (Z.to_nat x). split; [lia|].
  apply in_seq. lia.
Qed.

Lemma sweep1 (f : Z -> bool) n : forallb f (zrange n) = true -> forall x, 0 <= x < Z.of_nat n -> f x = true.
Proof. intros H x Hx. rewrite forallb_forall in H. apply H, zrange_In, Hx. Qed.

Lemma sweep2 (f : Z -> Z -> bool) n m :
  forallb (fun x => forallb (f x) (zrange m)) (zrange n) = true ->
  forall x y, 0 <= x < Z.of_nat n -> 0 <= y < Z.of_nat m -> f x y = true.
Proof. intros H x y Hx Hy. apply (sweep1 (f x) m); [|exact Hy]. apply (sweep1 _ n H x Hx). Qed.

(* ------------------------------------------------------------------------------------------ *)
(* bit facts used by the encoder (domains of at most 64 values: swept)                          *)
(* ------------------------------------------------------------------------------------------ *)

Lemma lor_128 x : 0 <= x < 64 -> Z.lor x 128 = 128 + x.
Proof. intros H. apply Z.eqb_eq. revert x H. apply (sweep1 (fun x => Z.lor x 128 =? 128 + x) 64). vm_compute. reflexivity. Qed.
Lemma lor_192 x : 0 <= x < 32 -> Z.lor x 192 = 192 + x.
Proof. intros H. apply Z.eqb_eq. revert x H. apply (sweep1 (fun x => Z.lor x 192 =? 192 + x) 32). vm_compute. reflexivity. Qed.
Lemma lor_224 x : 0 <= x < 16 -> Z.lor x 224 = 224 + x.
Proof. intros H. apply Z.eqb_eq. revert x H. apply (sweep1 (fun x => Z.lor x 224 =? 224 + x) 16). vm_compute. reflexivity. Qed.
Lemma lor_240 x : 0 <= x < 8 -> Z.lor x 240 = 240 + x.
Proof. intros H. apply Z.eqb_eq. revert x H. apply (sweep1 (fun x => Z.lor x 240 =? 240 + x) 8). vm_compute. reflexivity. Qed.

Lemma land_63 x : Z.land x 63 = x mod 64.
Proof. change 63 with (Z.ones 6). rewrite Z.land_ones by lia. reflexivity. Qed.

Lemma shiftr_div x n : 0 <= n -> Z.shiftr x n = x / 2 ^ n.
Proof. intros. apply Z.shiftr_div_pow2. assumption. Qed.

(* `ch & ~(2^n - 1)` clears the low n bits *)
Lemma land_lnot_ones x n : 0 <= n -> Z.land x (Z.lnot (2 ^ n - 1)) = (x / 2 ^ n) * 2 ^ n.
Proof.
  intros Hn. replace (2 ^ n - 1) with (Z.ones n) by (rewrite Z.ones_equiv; lia).
  rewrite <- Z.ldiff_land, Z.ldiff_ones_r by assumption.
  rewrite Z.shiftl_mul_pow2, Z.shiftr_div_pow2 by assumption. reflexivity.
Qed.

Lemma below_mask x n : 0 <= n -> 0 <= x -> (Z.land x (Z.lnot (2 ^ n - 1)) =? 0) = (x <? 2 ^ n).
Proof.
  intros Hn Hx. rewrite land_lnot_ones by assumption.
  assert (0 < 2 ^ n) by (apply Z.pow_pos_nonneg; lia).
  destruct (x <? 2 ^ n) eqn:E.
  - apply Z.eqb_eq. rewrite Z.div_small by lia. reflexivity.
  - apply Z.eqb_neq. intro H0. apply Z.mul_eq_0 in H0. destruct H0 as [H0|H0]; [|lia].
    apply Z.div_small_iff in H0; lia.
Qed.

(* ------------------------------------------------------------------------------------------ *)
(* UTF-8 encoder = RFC 3629 layout                                                              *)
(* ------------------------------------------------------------------------------------------ *)

Lemma w8_small x : 0 <= x < 256 -> w8 x = x.
Proof. intros. unfold w8. apply Z.mod_small. lia. Qed.

Lemma to_string_rfc3629 cp : 0 <= cp < 1114112 -> to_string cp = rfc3629 cp.
Proof.
  intros H. unfold to_string, rfc3629.
  rewrite (w32_small cp) by lia.
  change (128 - 1) with (2 ^ 7 - 1). change (2048 - 1) with (2 ^ 11 - 1). change (65536 - 1) with (2 ^ 16 - 1).
  rewrite !below_mask by lia.
  change (2 ^ 7) with 128. change (2 ^ 11) with 2048. change (2 ^ 16) with 65536.
  rewrite !land_63, !shiftr_div by lia.
  change (2 ^ 6) with 64. change (2 ^ 12) with 4096. change (2 ^ 18) with 262144.
  destruct (cp <? 128) eqn:E1.
  { rewrite w8_small by lia. reflexivity. }
  destruct (cp <? 2048) eqn:E2.
  { rewrite lor_192, lor_128 by lia. rewrite !w8_small by lia. reflexivity. }
  destruct (cp <? 65536) eqn:E3.
  { rewrite lor_224, !lor_128 by lia. rewrite !w8_small by lia. reflexivity. }
  replace (cp <? 1114112) with true by lia.
  rewrite lor_240, !lor_128 by lia. rewrite !w8_small by lia. reflexivity.
Qed.

Lemma to_string_beyond cp : 1114112 <= cp < 4294967296 -> to_string cp = [].
Proof.
  intros H. unfold to_string. rewrite (w32_small cp) by lia.
  change (128 - 1) with (2 ^ 7 - 1). change (2048 - 1) with (2 ^ 11 - 1). change (65536 - 1) with (2 ^ 16 - 1).
  rewrite !below_mask by lia.
  change (2 ^ 7) with 128. change (2 ^ 11) with 2048. change (2 ^ 16) with 65536.
  replace (cp <? 128) with false by lia. replace (cp <? 2048) with false by lia.
  replace (cp <? 65536) with false by lia. replace (cp <? 1114112) with false by lia. reflexivity.
Qed.

(* every byte the layout produces is a byte *)
Lemma rfc3629_wf cp : 0 <= cp < 1114112 -> wf_bytes (rfc3629 cp) = true.
Proof.
  intros H. apply wf_bytes_forall. unfold rfc3629.
  destruct (cp <? 128) eqn:E1; [|destruct (cp <? 2048) eqn:E2; [|destruct (cp <? 65536) eqn:E3]];
    cbn [In]; intros b Hb; intuition lia.
Qed.

(* ------------------------------------------------------------------------------------------ *)
(* Unicode::length = lead byte table (256-value sweep; the signed char view is inside)           *)
(* ------------------------------------------------------------------------------------------ *)

Lemma utf8_length_lead_len b : 0 <= b < 256 -> utf8_length b = lead_len b.
Proof.
  intros H. apply Z.eqb_eq. revert b H.
  apply (sweep1 (fun b => utf8_length b =? lead_len b) 256). vm_compute. reflexivity.
Qed.

Lemma utf8_len_cases c : utf8_len c = 0 \/ utf8_len c = 1 \/ utf8_len c = 2 \/ utf8_len c = 3 \/ utf8_len c = 4.
Proof.
  unfold utf8_len.
  destruct (Z.land c 128 =? 0); [tauto|]. destruct (Z.land c 224 =? 192); [tauto|].
  destruct (Z.land c 240 =? 224); [tauto|]. destruct (Z.land c 248 =? 240); tauto.
Qed.

Lemma sx8_w8 b : sx8 (w8 b) = sx8 b.
Proof. unfold sx8, w8. rewrite Z.mod_mod by lia. reflexivity. Qed.

(* ------------------------------------------------------------------------------------------ *)
(* splitting land / lor at bit n                                                                *)
(* ------------------------------------------------------------------------------------------ *)

Lemma land_split n a b : 0 <= n ->
  Z.land a b = Z.land (a mod 2 ^ n) (b mod 2 ^ n) + 2 ^ n * Z.land (a / 2 ^ n) (b / 2 ^ n).
Proof.
  intros Hn. assert (Hp : 0 < 2 ^ n) by (apply Z.pow_pos_nonneg; lia).
  rewrite (Z.div_mod (Z.land a b) (2 ^ n)) at 1 by lia.
  rewrite Z.add_comm. f_equal.
  - rewrite <- !Z.land_ones by assumption. apply Z.bits_inj'. intros i Hi.
    rewrite !Z.land_spec. destruct (Z.testbit a i), (Z.testbit b i), (Z.testbit (Z.ones n) i); reflexivity.
  - rewrite <- !Z.shiftr_div_pow2 by assumption. rewrite Z.shiftr_land. reflexivity.
Qed.

Lemma lor_split n a b : 0 <= n ->
  Z.lor a b = Z.lor (a mod 2 ^ n) (b mod 2 ^ n) + 2 ^ n * Z.lor (a / 2 ^ n) (b / 2 ^ n).
Proof.
  intros Hn. assert (Hp : 0 < 2 ^ n) by (apply Z.pow_pos_nonneg; lia).
  rewrite (Z.div_mod (Z.lor a b) (2 ^ n)) at 1 by lia.
  rewrite Z.add_comm. f_equal.
  - rewrite <- !Z.land_ones by assumption. apply Z.land_lor_distr_l.
  - rewrite <- !Z.shiftr_div_pow2 by assumption. rewrite Z.shiftr_lor. reflexivity.
Qed.

(* y | (b << n) = y + 2^n b when y fits in n bits *)
Lemma lor_shiftl_add y b n : 0 <= n -> 0 <= y < 2 ^ n -> Z.lor y (Z.shiftl b n) = y + 2 ^ n * b.
Proof.
  intros Hn Hy. rewrite Z.shiftl_mul_pow2 by assumption. rewrite (lor_split n) by assumption.
  rewrite (Z.mod_small y), Z.mod_mul, (Z.div_small y), Z.div_mul by lia.
  rewrite Z.lor_0_r, Z.lor_0_l. reflexivity.
Qed.

(* ------------------------------------------------------------------------------------------ *)
(* Unicode::fromString: closed arithmetic form, hence no failing read, hence the round trip     *)
(* ------------------------------------------------------------------------------------------ *)

Definition from_string_arith (buf : list Z) : Z :=
  match buf with
  | [] => 0
  | a :: t =>
    if Z.land (w8 a) 128 =? 0 then w8 a else
    match utf8_len (sx8 a), t with
    | 4, b :: c :: d :: _ =>
        w32 (add32 (shl32 (add32 (shl32 (add32 (shl32 (w8 a) 6) (w8 b)) 6) (w8 c)) 6) (w8 d) - 63447168)
    | 3, b :: c :: _ => w32 (add32 (shl32 (add32 (shl32 (add32 0 (w8 a)) 6) (w8 b)) 6) (w8 c) - 925824)
    | 2, b :: _ => w32 (add32 (shl32 (add32 0 (w8 a)) 6) (w8 b) - 12416)
    | 4, _ => 0
    | 3, _ => 0
    | 2, _ => 0
    | _, _ => w32 (add32 0 (w8 a) - 0)
    end
  end.

Lemma of_nat_length_cons {A} (a : A) t : Z.of_nat (length (a :: t)) = 1 + Z.of_nat (length t).
Proof. cbn [length]. lia. Qed.

Lemma from_string_eq buf : from_string buf = Ok (from_string_arith buf).
Proof.
  destruct buf as [|a t]; [reflexivity|].
  unfold from_string, from_string_arith.
  rewrite of_nat_length_cons.
  replace (1 + Z.of_nat (length t) =? 0) with false by lia.
  cbn [peek nth_error bind].
  destruct (Z.land (w8 a) 128 =? 0); [reflexivity|].
  destruct (utf8_len_cases (sx8 a)) as [E|[E|[E|[E|E]]]]; rewrite E.
  - (* 0 *) replace (1 + Z.of_nat (length t) <? 0) with false by lia. reflexivity.
  - (* 1 *) replace (1 + Z.of_nat (length t) <? 1) with false by lia. reflexivity.
  - (* 2 *) destruct t as [|b t].
    + reflexivity.
    + rewrite of_nat_length_cons. replace (1 + (1 + Z.of_nat (length t)) <? 2) with false by lia. reflexivity.
  - (* 3 *) destruct t as [|b [|c t]]; try reflexivity.
    rewrite !of_nat_length_cons. replace (1 + (1 + (1 + Z.of_nat (length t))) <? 3) with false by lia. reflexivity.
  - (* 4 *) destruct t as [|b [|c [|d t]]]; try reflexivity.
    rewrite !of_nat_length_cons. replace (1 + (1 + (1 + (1 + Z.of_nat (length t)))) <? 4) with false by lia. reflexivity.
Qed.

Lemma from_string_in_bounds buf : exists v, from_string buf = Ok v.
Proof. eexists. apply from_string_eq. Qed.

Lemma lead_len_of_utf8_len b : 0 <= b < 256 -> utf8_len (sx8 b) = lead_len b.
Proof. intros H. apply (utf8_length_lead_len b H). Qed.

Lemma land_128_small b : 0 <= b < 256 -> (Z.land b 128 =? 0) = (b <? 128).
Proof.
  intros H. apply eqb_prop. revert b H.
  apply (sweep1 (fun b => Bool.eqb (Z.land b 128 =? 0) (b <? 128)) 256). vm_compute. reflexivity.
Qed.

Ltac w32_inner :=
  repeat match goal with
         | |- context [w32 ?x] =>
           lazymatch x with context [w32 _] => fail | _ => rewrite (w32_small x) by lia end
         end.

Lemma from_string_rfc3629 cp rest : 0 <= cp < 1114112 -> from_string (rfc3629 cp ++ rest) = Ok cp.
Proof.
  intros H. rewrite from_string_eq. f_equal. unfold rfc3629.
  destruct (cp <? 128) eqn:E1; [|destruct (cp <? 2048) eqn:E2; [|destruct (cp <? 65536) eqn:E3]];
    cbn [app from_string_arith].
  - rewrite w8_small, land_128_small by lia. replace (cp <? 128) with true by lia. reflexivity.
  - rewrite !w8_small, land_128_small by lia. replace (192 + cp / 64 <? 128) with false by lia.
    rewrite lead_len_of_utf8_len by lia. unfold lead_len.
    replace ((0 <=? 192 + cp / 64) && (192 + cp / 64 <? 128)) with false by lia.
    replace ((192 <=? 192 + cp / 64) && (192 + cp / 64 <? 224)) with true by lia.
    unfold add32, shl32. rewrite Z.shiftl_mul_pow2 by lia. change (2 ^ 6) with 64.
    w32_inner. lia.
  - rewrite !w8_small, land_128_small by lia. replace (224 + cp / 4096 <? 128) with false by lia.
    rewrite lead_len_of_utf8_len by lia. unfold lead_len.
    replace ((0 <=? 224 + cp / 4096) && (224 + cp / 4096 <? 128)) with false by lia.
    replace ((192 <=? 224 + cp / 4096) && (224 + cp / 4096 <? 224)) with false by lia.
    replace ((224 <=? 224 + cp / 4096) && (224 + cp / 4096 <? 240)) with true by lia.
    unfold add32, shl32. rewrite !Z.shiftl_mul_pow2 by lia. change (2 ^ 6) with 64.
    w32_inner. lia.
  - rewrite !w8_small, land_128_small by lia. replace (240 + cp / 262144 <? 128) with false by lia.
    rewrite lead_len_of_utf8_len by lia. unfold lead_len.
    replace ((0 <=? 240 + cp / 262144) && (240 + cp / 262144 <? 128)) with false by lia.
    replace ((192 <=? 240 + cp / 262144) && (240 + cp / 262144 <? 224)) with false by lia.
    replace ((224 <=? 240 + cp / 262144) && (240 + cp / 262144 <? 240)) with false by lia.
    replace ((240 <=? 240 + cp / 262144) && (240 + cp / 262144 <? 248)) with true by lia.
    unfold add32, shl32. rewrite !Z.shiftl_mul_pow2 by lia. change (2 ^ 6) with 64.
    w32_inner. lia.
Qed.

(* ------------------------------------------------------------------------------------------ *)
(* Unicode::isValid = layout validity, for every byte list (so no read fails, loop terminates)  *)
(* ------------------------------------------------------------------------------------------ *)

Lemma peek_app_0 pre b t : peek (pre ++ b :: t) (length pre) = Ok b.
Proof. unfold peek. rewrite nth_error_app2 by lia. rewrite Nat.sub_diag. reflexivity. Qed.

Lemma peek_app_k pre rest k : peek (pre ++ rest) (length pre + k) = peek rest k.
Proof. unfold peek. rewrite nth_error_app2 by lia. replace (length pre + k - length pre)%nat with k by lia. reflexivity. Qed.

Lemma check2_cont b : 0 <= b < 256 -> (Z.land (sx8 b) 192 =? 128) = is_cont b.
Proof.
  intros H. apply eqb_prop. revert b H.
  apply (sweep1 (fun b => Bool.eqb (Z.land (sx8 b) 192 =? 128) (is_cont b)) 256). vm_compute. reflexivity.
Qed.

Lemma land192_cont b : 0 <= b < 256 -> (Z.land b 192 =? 128) = is_cont b /\ 0 <= Z.land b 192.
Proof.
  intros H.
  assert (S : Bool.eqb (Z.land b 192 =? 128) (is_cont b) && (0 <=? Z.land b 192) = true).
  { revert b H. apply (sweep1 (fun b => Bool.eqb (Z.land b 192 =? 128) (is_cont b) && (0 <=? Z.land b 192)) 256).
    vm_compute. reflexivity. }
  apply andb_prop in S. destruct S as [S1 S2]. apply eqb_prop in S1. split; [exact S1|lia].
Qed.

Definition pair16 (b1 b2 : Z) : Z := Z.lor (w8 b1) (Z.shiftl (w8 b2) 8).

Lemma check3_facts b1 b2 : 0 <= b1 < 256 -> 0 <= b2 < 256 ->
  (Z.land (pair16 b1 b2) 49344 =? 32896) = is_cont b1 && is_cont b2
  /\ 0 <= pair16 b1 b2 < 65536 /\ 0 <= Z.land (pair16 b1 b2) 49344 < 65536.
Proof.
  intros H1 H2.
  pose (f := fun b1 b2 => Bool.eqb (Z.land (pair16 b1 b2) 49344 =? 32896) (is_cont b1 && is_cont b2)
                          && ((0 <=? pair16 b1 b2) && (pair16 b1 b2 <? 65536))
                          && ((0 <=? Z.land (pair16 b1 b2) 49344) && (Z.land (pair16 b1 b2) 49344 <? 65536))).
  assert (S : f b1 b2 = true).
  { apply (sweep2 f 256 256); [vm_compute; reflexivity|exact H1|exact H2]. }
  unfold f in S. apply andb_prop in S. destruct S as [S S3]. apply andb_prop in S. destruct S as [S1 S2].
  apply eqb_prop in S1. split; [exact S1|]. lia.
Qed.

Lemma check4_cont b1 b2 b3 : 0 <= b1 < 256 -> 0 <= b2 < 256 -> 0 <= b3 < 256 ->
  (Z.land (Z.lor (Z.lor (w8 b1) (Z.shiftl (w8 b2) 8)) (Z.shiftl (w8 b3) 16)) 12632256 =? 8421504)
  = is_cont b1 && is_cont b2 && is_cont b3.
Proof.
  intros H1 H2 H3. fold (pair16 b1 b2).
  destruct (check3_facts b1 b2 H1 H2) as (C & HY & HA).
  destruct (land192_cont b3 H3) as (C3 & HB).
  rewrite (w8_small b3) by lia.
  rewrite lor_shiftl_add by (change (2 ^ 16) with 65536; lia).
  rewrite (land_split 16) by lia.
  change (2 ^ 16) with 65536. change (12632256 mod 65536) with 49344. change (12632256 / 65536) with 192.
  replace ((pair16 b1 b2 + 65536 * b3) mod 65536) with (pair16 b1 b2) by lia.
  replace ((pair16 b1 b2 + 65536 * b3) / 65536) with b3 by lia.
  rewrite <- C, <- C3. lia.
Qed.

Lemma lead_len_cases b : lead_len b = 0 \/ lead_len b = 1 \/ lead_len b = 2 \/ lead_len b = 3 \/ lead_len b = 4.
Proof.
  unfold lead_len.
  destruct ((0 <=? b) && (b <? 128)); [tauto|]. destruct ((192 <=? b) && (b <? 224)); [tauto|].
  destruct ((224 <=? b) && (b <? 240)); [tauto|]. destruct ((240 <=? b) && (b <? 248)); tauto.
Qed.

Lemma wf_cons b t : wf_bytes (b :: t) = true -> 0 <= b < 256 /\ wf_bytes t = true.
Proof. unfold wf_bytes. cbn [forallb]. unfold is_byte. intros H. apply andb_prop in H. destruct H. split; [lia|assumption]. Qed.

Lemma is_valid_loop_eq fuel : forall pre rest,
  (length rest < fuel)%nat -> wf_bytes rest = true ->
  is_valid_loop fuel (pre ++ rest) (length pre + length rest) (length pre) (Z.of_nat (length rest))
  = Ok (layout_valid_fuel fuel rest).
Proof.
  induction fuel as [|f IH]; intros pre rest Hf Hwf; [lia|].
  destruct rest as [|b0 t].
  - cbn [is_valid_loop layout_valid_fuel length].
    replace (length pre <? length pre + 0)%nat with false by lia. reflexivity.
  - cbn [is_valid_loop layout_valid_fuel].
    replace (length pre <? length pre + length (b0 :: t))%nat with true by (cbn [length]; lia).
    rewrite peek_app_0. cbn [bind].
    apply wf_cons in Hwf. destruct Hwf as [Hb0 Hwt].
    rewrite lead_len_of_utf8_len by assumption.
    rewrite of_nat_length_cons.
    destruct (lead_len_cases b0) as [E|[E|[E|[E|E]]]]; rewrite E.
    + (* not a lead byte *)
      replace (1 + Z.of_nat (length t) <? 0) with false by lia. reflexivity.
    + (* one byte *)
      replace (1 + Z.of_nat (length t) <? 1) with false by lia.
      cbn [Z.eqb Pos.eqb bind negb].
      change (pre ++ b0 :: t) with (pre ++ [b0] ++ t). rewrite app_assoc.
      replace (length pre + length (b0 :: t))%nat with (length (pre ++ [b0]) + length t)%nat
        by (rewrite app_length; cbn [length]; lia).
      replace (length pre + Z.to_nat 1)%nat with (length (pre ++ [b0])) by (rewrite app_length; cbn [length]; lia).
      replace (1 + Z.of_nat (length t) - 1) with (Z.of_nat (length t)) by lia.
      apply IH; [cbn [length] in Hf; lia|assumption].
    + (* two bytes *)
      destruct t as [|b1 t].
      { reflexivity. }
      rewrite of_nat_length_cons.
      replace (1 + (1 + Z.of_nat (length t)) <? 2) with false by lia.
      cbn [Z.eqb Pos.eqb bind].
      rewrite (peek_app_k pre (b0 :: b1 :: t) 1). cbn [peek nth_error bind].
      apply wf_cons in Hwt. destruct Hwt as [Hb1 Hwt].
      rewrite check2_cont by assumption.
      destruct (is_cont b1); cbn [negb andb]; [|reflexivity].
      change (pre ++ b0 :: b1 :: t) with (pre ++ [b0; b1] ++ t). rewrite app_assoc.
      replace (length pre + length (b0 :: b1 :: t))%nat with (length (pre ++ [b0; b1]) + length t)%nat
        by (rewrite app_length; cbn [length]; lia).
      replace (length pre + Z.to_nat 2)%nat with (length (pre ++ [b0; b1])) by (rewrite app_length; cbn [length]; lia).
      replace (1 + (1 + Z.of_nat (length t)) - 2) with (Z.of_nat (length t)) by lia.
      apply IH; [cbn [length] in Hf; lia|assumption].
    + (* three bytes *)
      destruct t as [|b1 [|b2 t]]; try reflexivity.
      rewrite !of_nat_length_cons.
      replace (1 + (1 + (1 + Z.of_nat (length t))) <? 3) with false by lia.
      cbn [Z.eqb Pos.eqb bind].
      rewrite (peek_app_k pre (b0 :: b1 :: b2 :: t) 1), (peek_app_k pre (b0 :: b1 :: b2 :: t) 2).
      cbn [peek nth_error bind].
      apply wf_cons in Hwt. destruct Hwt as [Hb1 Hwt]. apply wf_cons in Hwt. destruct Hwt as [Hb2 Hwt].
      fold (pair16 b1 b2). destruct (check3_facts b1 b2 Hb1 Hb2) as (C & _ & _). rewrite C.
      destruct (is_cont b1 && is_cont b2); cbn [negb andb]; [|reflexivity].
      change (pre ++ b0 :: b1 :: b2 :: t) with (pre ++ [b0; b1; b2] ++ t). rewrite app_assoc.
      replace (length pre + length (b0 :: b1 :: b2 :: t))%nat with (length (pre ++ [b0; b1; b2]) + length t)%nat
        by (rewrite app_length; cbn [length]; lia).
      replace (length pre + Z.to_nat 3)%nat with (length (pre ++ [b0; b1; b2])) by (rewrite app_length; cbn [length]; lia).
      replace (1 + (1 + (1 + Z.of_nat (length t))) - 3) with (Z.of_nat (length t)) by lia.
      apply IH; [cbn [length] in Hf; lia|assumption].
    + (* four bytes *)
      destruct t as [|b1 [|b2 [|b3 t]]]; try reflexivity.
      rewrite !of_nat_length_cons.
      replace (1 + (1 + (1 + (1 + Z.of_nat (length t)))) <? 4) with false by lia.
      cbn [Z.eqb Pos.eqb bind].
      rewrite (peek_app_k pre (b0 :: b1 :: b2 :: b3 :: t) 1), (peek_app_k pre (b0 :: b1 :: b2 :: b3 :: t) 2),
        (peek_app_k pre (b0 :: b1 :: b2 :: b3 :: t) 3).
      cbn [peek nth_error bind].
      apply wf_cons in Hwt. destruct Hwt as [Hb1 Hwt]. apply wf_cons in Hwt. destruct Hwt as [Hb2 Hwt].
      apply wf_cons in Hwt. destruct Hwt as [Hb3 Hwt].
      rewrite check4_cont by assumption.
      destruct (is_cont b1 && is_cont b2 && is_cont b3); cbn [negb andb]; [|reflexivity].
      change (pre ++ b0 :: b1 :: b2 :: b3 :: t) with (pre ++ [b0; b1; b2; b3] ++ t). rewrite app_assoc.
      replace (length pre + length (b0 :: b1 :: b2 :: b3 :: t))%nat with (length (pre ++ [b0; b1; b2; b3]) + length t)%nat
        by (rewrite app_length; cbn [length]; lia).
      replace (length pre + Z.to_nat 4)%nat with (length (pre ++ [b0; b1; b2; b3])) by (rewrite app_length; cbn [length]; lia).
      replace (1 + (1 + (1 + (1 + Z.of_nat (length t)))) - 4) with (Z.of_nat (length t)) by lia.
      apply IH; [cbn [length] in Hf; lia|assumption].
Qed.

Lemma is_valid_layout bs : wf_bytes bs = true -> is_valid bs = Ok (layout_valid bs).
Proof.
  intros H. unfold is_valid, layout_valid.
  apply (is_valid_loop_eq (S (length bs)) [] bs); [lia|exact H].
Qed.

(* isValid accepts every text the encoder produces *)
Lemma is_cp_range cp : is_cp cp = true <-> 0 <= cp < 1114112.
Proof. unfold is_cp. lia. Qed.

Lemma rfc3629_length_pos cp : (0 < length (rfc3629 cp))%nat.
Proof.
  unfold rfc3629. destruct (cp <? 128); [|destruct (cp <? 2048); [|destruct (cp <? 65536)]]; cbn [length]; lia.
Qed.

Lemma layout_valid_fuel_app cp rest f : 0 <= cp < 1114112 ->
  layout_valid_fuel (S f) (rfc3629 cp ++ rest) = layout_valid_fuel f rest.
Proof.
  intros H. unfold rfc3629.
  destruct (cp <? 128) eqn:E1; [|destruct (cp <? 2048) eqn:E2; [|destruct (cp <? 65536) eqn:E3]];
    cbn [app layout_valid_fuel]; unfold lead_len, is_cont.
  - replace ((0 <=? cp) && (cp <? 128)) with true by lia. reflexivity.
  - replace ((0 <=? 192 + cp / 64) && (192 + cp / 64 <? 128)) with false by lia.
    replace ((192 <=? 192 + cp / 64) && (192 + cp / 64 <? 224)) with true by lia.
    replace ((128 <=? 128 + cp mod 64) && (128 + cp mod 64 <? 192)) with true by lia. reflexivity.
  - replace ((0 <=? 224 + cp / 4096) && (224 + cp / 4096 <? 128)) with false by lia.
    replace ((192 <=? 224 + cp / 4096) && (224 + cp / 4096 <? 224)) with false by lia.
    replace ((224 <=? 224 + cp / 4096) && (224 + cp / 4096 <? 240)) with true by lia.
    replace ((128 <=? 128 + (cp / 64) mod 64) && (128 + (cp / 64) mod 64 <? 192)) with true by lia.
    replace ((128 <=? 128 + cp mod 64) && (128 + cp mod 64 <? 192)) with true by lia. reflexivity.
  - replace ((0 <=? 240 + cp / 262144) && (240 + cp / 262144 <? 128)) with false by lia.
    replace ((192 <=? 240 + cp / 262144) && (240 + cp / 262144 <? 224)) with false by lia.
    replace ((224 <=? 240 + cp / 262144) && (240 + cp / 262144 <? 240)) with false by lia.
    replace ((240 <=? 240 + cp / 262144) && (240 + cp / 262144 <? 248)) with true by lia.
    replace ((128 <=? 128 + (cp / 4096) mod 64) && (128 + (cp / 4096) mod 64 <? 192)) with true by lia.
    replace ((128 <=? 128 + (cp / 64) mod 64) && (128 + (cp / 64) mod 64 <? 192)) with true by lia.
    replace ((128 <=? 128 + cp mod 64) && (128 + cp mod 64 <? 192)) with true by lia. reflexivity.
Qed.

Lemma layout_valid_text cps : (forall cp, In cp cps -> 0 <= cp < 1114112) ->
  forall f, (length (flat_map rfc3629 cps) < f)%nat -> layout_valid_fuel f (flat_map rfc3629 cps) = true.
Proof.
  induction cps as [|cp t IH]; intros H f Hf.
  - destruct f; [cbn [flat_map length] in Hf; lia|reflexivity].
  - destruct f as [|f]; [lia|]. cbn [flat_map] in *.
    rewrite layout_valid_fuel_app by (apply H; left; reflexivity).
    apply IH; [intros c Hc; apply H; right; exact Hc|].
    rewrite app_length in Hf. pose proof (rfc3629_length_pos cp). lia.
Qed.

Lemma to_string_n_rfc3629 cps : (forall cp, In cp cps -> 0 <= cp < 1114112) ->
  to_string_n cps = flat_map rfc3629 cps.
Proof.
  induction cps as [|cp t IH]; intros H; [reflexivity|].
  unfold to_string_n in *. cbn [flat_map].
  rewrite to_string_rfc3629 by (apply H; left; reflexivity).
  rewrite IH by (intros c Hc; apply H; right; exact Hc). reflexivity.
Qed.

Lemma flat_map_rfc3629_wf cps : (forall cp, In cp cps -> 0 <= cp < 1114112) ->
  wf_bytes (flat_map rfc3629 cps) = true.
Proof.
  induction cps as [|cp t IH]; intros H; [reflexivity|].
  cbn [flat_map]. rewrite wf_bytes_app, rfc3629_wf by (apply H; left; reflexivity).
  rewrite IH by (intros c Hc; apply H; right; exact Hc). reflexivity.
Qed.

Lemma is_valid_to_string_n cps : (forall cp, In cp cps -> 0 <= cp < 1114112) ->
  is_valid (to_string_n cps) = Ok true.
Proof.
  intros H. rewrite to_string_n_rfc3629 by exact H.
  rewrite is_valid_layout by (apply flat_map_rfc3629_wf; exact H).
  f_equal. unfold layout_valid. apply layout_valid_text; [exact H|lia].
Qed.

Lemma is_valid_to_string cp : 0 <= cp < 1114112 -> is_valid (to_string cp) = Ok true.
Proof.
  intros H. pose proof (is_valid_to_string_n [cp]) as P.
  unfold to_string_n in P. cbn [flat_map] in P. rewrite app_nil_r in P.
  apply P. intros c [Hc|[]]. subst c. exact H.
Qed.

Lemma utf8_roundtrip_all cp : 0 <= cp < 1114112 ->
  to_string cp = rfc3629 cp /\ from_string (to_string cp) = Ok cp /\ is_valid (to_string cp) = Ok true.
Proof.
  intros H. split; [apply to_string_rfc3629; exact H|]. split; [|apply is_valid_to_string; exact H].
  rewrite to_string_rfc3629 by exact H. rewrite <- (app_nil_r (rfc3629 cp)). apply from_string_rfc3629. exact H.
Qed.

(* ------------------------------------------------------------------------------------------ *)
(* fromHex                                                                                      *)
(* ------------------------------------------------------------------------------------------ *)

Lemma hexdigit_lookup d : 0 <= d < 16 -> peek gen_hexdigits (Z.to_nat d) = Ok (hex_char d).
Proof.
  intros H.
  assert (S : (match peek gen_hexdigits (Z.to_nat d) with Ok v => v =? hex_char d | Err _ => false end) = true).
  { revert d H.
    apply (sweep1 (fun d => match peek gen_hexdigits (Z.to_nat d) with Ok v => v =? hex_char d | Err _ => false end) 16).
    vm_compute. reflexivity. }
  destruct (peek gen_hexdigits (Z.to_nat d)); [f_equal; lia|discriminate].
Qed.

Lemma from_hex_loop_eq : forall rest pre acc,
  wf_bytes rest = true ->
  from_hex_loop (length rest) (pre ++ rest) (length pre) acc = Ok (acc ++ upper_hex rest).
Proof.
  induction rest as [|b t IH]; intros pre acc Hwf.
  - cbn [from_hex_loop length upper_hex]. rewrite app_nil_r. reflexivity.
  - apply wf_cons in Hwf. destruct Hwf as [Hb Hwt].
    cbn [length from_hex_loop upper_hex]. rewrite peek_app_0. cbn [bind].
    rewrite w8_small by lia.
    rewrite shiftr_div by lia. change (2 ^ 4) with 16.
    change 15 with (Z.ones 4). rewrite Z.land_ones by lia. change (2 ^ 4) with 16.
    rewrite !hexdigit_lookup by lia. cbn [bind].
    change (pre ++ b :: t) with (pre ++ [b] ++ t). rewrite app_assoc.
    replace (S (length pre)) with (length (pre ++ [b])) by (rewrite app_length; cbn [length]; lia).
    rewrite IH by assumption. rewrite <- app_assoc. reflexivity.
Qed.

Lemma from_hex_upper_hex data : wf_bytes data = true -> from_hex data = Ok (upper_hex data).
Proof. intros H. unfold from_hex. apply (from_hex_loop_eq data [] [] H). Qed.

(* ------------------------------------------------------------------------------------------ *)
(* fromBase64 (repaired): the buffer machine refines a pure decoder; hence no access fails      *)
(* ------------------------------------------------------------------------------------------ *)

(* the same decisions without the buffer: finished bytes and the byte under construction *)
Fixpoint b64_pure (rest : list Z) (i : nat) (done : list Z) (cur : Z) : option (list Z) :=
  match rest with
  | [] => Some done
  | ci :: t =>
    if w8 ci >? 122 then None else
    let c := nth (Z.to_nat (w8 ci)) gen_base64de 0 in
    if c =? 255 then (if sx8 ci =? 61 then Some done else None)
    else
      let ph := Z.land (Z.of_nat i) 3 in
      if ph =? 0 then b64_pure t (S i) done (w8 (Z.land (Z.shiftl c 2) 255))
      else if ph =? 1 then
        b64_pure t (S i) (done ++ [w8 (Z.lor cur (Z.land (Z.shiftr c 4) 3))]) (w8 (Z.shiftl (Z.land c 15) 4))
      else if ph =? 2 then
        b64_pure t (S i) (done ++ [w8 (Z.lor cur (Z.land (Z.shiftr c 2) 15))]) (w8 (Z.shiftl (Z.land c 3) 6))
      else b64_pure t (S i) (done ++ [w8 (Z.lor cur c)]) 0
  end.

Definition from_base64_pure (inp : list Z) : list Z :=
  if negb (Z.land (Z.of_nat (length inp)) 3 =? 0) then []
  else match b64_pure inp 0 [] 0 with Some d => d | None => [] end.

Lemma nth_error_upd_same {A} j (x : A) o : (j < length o)%nat -> nth_error (upd j x o) j = Some x.
Proof. revert j; induction o as [|h t IH]; intros [|j] H; cbn [length] in *; try lia; cbn [upd nth_error]; auto. apply IH. lia. Qed.

Lemma firstn_S_upd {A} j (x : A) o : (j < length o)%nat -> firstn (S j) (upd j x o) = firstn j o ++ [x].
Proof.
  revert j; induction o as [|h t IH]; intros [|j] H; cbn [length] in *; try lia.
  - reflexivity.
  - cbn [upd]. rewrite firstn_cons. rewrite IH by lia. reflexivity.
Qed.

Lemma table_lookup x : 0 <= x <= 122 -> peek gen_base64de (Z.to_nat x) = Ok (nth (Z.to_nat x) gen_base64de 0).
Proof.
  intros H. unfold peek.
  assert (L : (Z.to_nat x < length gen_base64de)%nat).
  { replace (length gen_base64de) with 123%nat by (vm_compute; reflexivity). lia. }
  rewrite (nth_error_nth' _ 0 L). reflexivity.
Qed.

Lemma take_init_firstn : forall d o, firstn (length d) o = map Some d -> take_init o (length d) = Ok d.
Proof.
  induction d as [|v d IH]; intros o H; [reflexivity|].
  destruct o as [|c o]; cbn [length firstn map] in H; [discriminate|].
  injection H as Hc Ht. subst c. cbn [length take_init]. rewrite IH by exact Ht. reflexivity.
Qed.

Lemma wr_ok o j v : (j < length o)%nat -> wr o j v = Ok (upd j (Some (w8 v)) o).
Proof. intros H. unfold wr. replace (j <? length o)%nat with true by lia. reflexivity. Qed.

Lemma rd_ok o j v : nth_error o j = Some (Some v) -> rd o j = Ok v.
Proof. intros H. unfold rd. rewrite H. reflexivity. Qed.

Definition b64_rel (e : b64_exit) (p : option (list Z)) : Prop :=
  match e, p with
  | Bailed, None => True
  | Finished o j, Some d => j = length d /\ firstn j o = map Some d
  | _, _ => False
  end.

Lemma land3_mod i : Z.land (Z.of_nat i) 3 = Z.of_nat i mod 4.
Proof. change 3 with (Z.ones 2). rewrite Z.land_ones by lia. reflexivity. Qed.

Lemma b64_loop_refines : forall rest pre o done cur,
  (length done <= length pre)%nat ->
  (length pre + length rest < length o)%nat ->
  firstn (length done) o = map Some done ->
  (Z.of_nat (length pre) mod 4 <> 0 -> nth_error o (length done) = Some (Some cur)) ->
  exists e, b64_loop true (length rest) (pre ++ rest) (length pre) o (length done) = Ok e
            /\ b64_rel e (b64_pure rest (length pre) done cur).
Proof.
  induction rest as [|ci t IH]; intros pre o done cur Hj Hlen Hfirst Hcur.
  - eexists. split; [reflexivity|]. cbn [b64_pure b64_rel]. split; [reflexivity|exact Hfirst].
  - cbn [length b64_loop b64_pure]. rewrite peek_app_0. cbn [bind].
    destruct (w8 ci >? 122) eqn:Ez.
    { eexists. split; [reflexivity|exact I]. }
    assert (Hw : 0 <= w8 ci <= 122) by (unfold w8 in *; lia).
    rewrite table_lookup by exact Hw. cbn [bind].
    set (c := nth (Z.to_nat (w8 ci)) gen_base64de 0).
    destruct (c =? 255) eqn:E255.
    { destruct (sx8 ci =? 61); eexists; (split; [reflexivity|]); cbn [b64_rel]; auto. }
    cbn [length] in Hlen.
    assert (Hpre : S (length pre) = length (pre ++ [ci])) by (rewrite app_length; cbn [length]; lia).
    assert (Hlist : pre ++ ci :: t = (pre ++ [ci]) ++ t) by (rewrite <- app_assoc; reflexivity).
    rewrite land3_mod.
    destruct (Z.of_nat (length pre) mod 4 =? 0) eqn:P0.
    { (* phase 0 *)
      rewrite wr_ok by lia. cbn [bind]. rewrite Hpre, Hlist.
      apply IH.
      - rewrite <- Hpre. lia.
      - rewrite upd_length, <- Hpre. lia.
      - rewrite firstn_upd_ge by lia. exact Hfirst.
      - intros _. apply nth_error_upd_same. lia. }
    assert (Hc : nth_error o (length done) = Some (Some cur)) by (apply Hcur; lia).
    rewrite (rd_ok _ _ _ Hc). cbn [bind].
    destruct (Z.of_nat (length pre) mod 4 =? 1) eqn:P1; [|destruct (Z.of_nat (length pre) mod 4 =? 2) eqn:P2].
    + (* phase 1 *)
      rewrite wr_ok by lia. cbn [bind]. rewrite wr_ok by (rewrite upd_length; lia). cbn [bind].
      rewrite Hpre, Hlist.
      replace (S (length done)) with (length (done ++ [w8 (Z.lor cur (Z.land (Z.shiftr c 4) 3))]))
        by (rewrite app_length; cbn [length]; lia).
      apply IH.
      * rewrite app_length, <- Hpre. cbn [length]. lia.
      * rewrite !upd_length, <- Hpre. lia.
      * rewrite app_length. cbn [length]. rewrite Nat.add_1_r.
        rewrite firstn_upd_ge by lia. rewrite firstn_S_upd by lia.
        rewrite Hfirst, map_app. reflexivity.
      * intros _. rewrite app_length. cbn [length]. rewrite Nat.add_1_r.
        apply nth_error_upd_same. rewrite upd_length. lia.
    + (* phase 2 *)
      rewrite wr_ok by lia. cbn [bind]. rewrite wr_ok by (rewrite upd_length; lia). cbn [bind].
      rewrite Hpre, Hlist.
      replace (S (length done)) with (length (done ++ [w8 (Z.lor cur (Z.land (Z.shiftr c 2) 15))]))
        by (rewrite app_length; cbn [length]; lia).
      apply IH.
      * rewrite app_length, <- Hpre. cbn [length]. lia.
      * rewrite !upd_length, <- Hpre. lia.
      * rewrite app_length. cbn [length]. rewrite Nat.add_1_r.
        rewrite firstn_upd_ge by lia. rewrite firstn_S_upd by lia.
        rewrite Hfirst, map_app. reflexivity.
      * intros _. rewrite app_length. cbn [length]. rewrite Nat.add_1_r.
        apply nth_error_upd_same. rewrite upd_length. lia.
    + (* phase 3 *)
      rewrite wr_ok by lia. cbn [bind].
      rewrite Hpre, Hlist.
      replace (S (length done)) with (length (done ++ [w8 (Z.lor cur c)]))
        by (rewrite app_length; cbn [length]; lia).
      apply IH.
      * rewrite app_length, <- Hpre. cbn [length]. lia.
      * rewrite !upd_length, <- Hpre. lia.
      * rewrite app_length. cbn [length]. rewrite Nat.add_1_r.
        rewrite firstn_S_upd by lia. rewrite Hfirst, map_app. reflexivity.
      * intros Hne. exfalso. apply Hne. rewrite <- Hpre. lia.
Qed.

Lemma from_base64_eq inp : from_base64 inp = Ok (from_base64_pure inp).
Proof.
  unfold from_base64, from_base64_gen, from_base64_pure.
  destruct (negb (Z.land (Z.of_nat (length inp)) 3 =? 0)); [reflexivity|].
  set (o := repeat None (S (Z.to_nat (Z.lor (Z.of_nat (length inp)) 3)))).
  destruct (b64_loop_refines inp [] o [] 0) as (e & He & Hrel).
  - cbn [length]. lia.
  - unfold o. rewrite repeat_length. cbn [length].
    assert (Z.of_nat (length inp) <= Z.lor (Z.of_nat (length inp)) 3).
    { rewrite (lor_split 2) by lia. change (2 ^ 2) with 4. change (3 mod 4) with 3. change (3 / 4) with 0.
      rewrite Z.lor_0_r.
      assert (Z.of_nat (length inp) mod 4 <= Z.lor (Z.of_nat (length inp) mod 4) 3).
      { assert (S : (Z.of_nat (length inp) mod 4 <=? Z.lor (Z.of_nat (length inp) mod 4) 3) = true).
        { apply (sweep1 (fun x => x <=? Z.lor x 3) 4); [vm_compute; reflexivity|lia]. }
        lia. }
      lia. }
    lia.
  - reflexivity.
  - cbn [length]. intros H. exfalso. apply H. reflexivity.
  - cbn [app length] in He, Hrel. rewrite He. cbn [bind].
    destruct e as [|o' j]; destruct (b64_pure inp 0 [] 0) as [d|]; cbn [b64_rel] in Hrel; try contradiction.
    + reflexivity.
    + destruct Hrel as [Hj Hf]. subst j. apply take_init_firstn. exact Hf.
Qed.

Lemma from_base64_in_bounds inp : exists r, from_base64 inp = Ok r.
Proof. eexists. apply from_base64_eq. Qed.

(* the code as found: the signed comparison lets 0x80 through and the table read leaves the table *)
Lemma from_base64_unrepaired_out_of_bounds :
  wf_bytes [128; 65; 65; 65] = true /\ from_base64_unrepaired [128; 65; 65; 65] = Err OutOfBounds.
Proof. split; vm_compute; reflexivity. Qed.

(* ------------------------------------------------------------------------------------------ *)
(* fromBase64 inverts the RFC 4648 encoder                                                      *)
(* ------------------------------------------------------------------------------------------ *)

Lemma list_ind3 {A} (P : list A -> Prop) :
  P [] -> (forall a, P [a]) -> (forall a b, P [a; b]) ->
  (forall a b c t, P t -> P (a :: b :: c :: t)) -> forall l, P l.
Proof.
  intros H0 H1 H2 H3.
  assert (G : forall n l, (length l <= n)%nat -> P l).
  { induction n as [|n IH]; intros l Hl.
    - destruct l; [exact H0|cbn [length] in Hl; lia].
    - destruct l as [|a [|b [|c t]]]; auto.
      apply H3. apply IH. cbn [length] in Hl. lia. }
  intros l. apply (G (length l)). lia.
Qed.

(* the regenerated decode table inverts the RFC alphabet *)
Lemma base64_table_inverts_alphabet k : 0 <= k < 64 ->
  (w8 (b64_char k) >? 122) = false /\ nth (Z.to_nat (w8 (b64_char k))) gen_base64de 0 = k.
Proof.
  intros H.
  assert (S : negb (w8 (b64_char k) >? 122) && (nth (Z.to_nat (w8 (b64_char k))) gen_base64de 0 =? k) = true).
  { revert k H.
    apply (sweep1 (fun k => negb (w8 (b64_char k) >? 122) && (nth (Z.to_nat (w8 (b64_char k))) gen_base64de 0 =? k)) 64).
    vm_compute. reflexivity. }
  apply andb_prop in S. destruct S as [S1 S2]. split; [destruct (w8 (b64_char k) >? 122); [discriminate|reflexivity]|lia].
Qed.

Lemma b64_pure_char k t i done cur : 0 <= k < 64 ->
  b64_pure (b64_char k :: t) i done cur =
  let ph := Z.land (Z.of_nat i) 3 in
  if ph =? 0 then b64_pure t (S i) done (w8 (Z.land (Z.shiftl k 2) 255))
  else if ph =? 1 then
    b64_pure t (S i) (done ++ [w8 (Z.lor cur (Z.land (Z.shiftr k 4) 3))]) (w8 (Z.shiftl (Z.land k 15) 4))
  else if ph =? 2 then
    b64_pure t (S i) (done ++ [w8 (Z.lor cur (Z.land (Z.shiftr k 2) 15))]) (w8 (Z.shiftl (Z.land k 3) 6))
  else b64_pure t (S i) (done ++ [w8 (Z.lor cur k)]) 0.
Proof.
  intros H. destruct (base64_table_inverts_alphabet k H) as [Hz Hn].
  cbn [b64_pure]. rewrite Hz, Hn. replace (k =? 255) with false by lia. reflexivity.
Qed.

Lemma b64_pure_pad t i done cur : b64_pure (b64_pad :: t) i done cur = Some done.
Proof. reflexivity. Qed.

Lemma b64_bits1 k0 k1 : 0 <= k0 < 64 -> 0 <= k1 < 64 ->
  w8 (Z.lor (w8 (Z.land (Z.shiftl k0 2) 255)) (Z.land (Z.shiftr k1 4) 3)) = 4 * k0 + k1 / 16.
Proof.
  intros H0 H1. apply Z.eqb_eq.
  apply (sweep2 (fun k0 k1 => w8 (Z.lor (w8 (Z.land (Z.shiftl k0 2) 255)) (Z.land (Z.shiftr k1 4) 3)) =? 4 * k0 + k1 / 16) 64 64);
    [vm_compute; reflexivity|exact H0|exact H1].
Qed.

Lemma b64_bits2 k1 k2 : 0 <= k1 < 64 -> 0 <= k2 < 64 ->
  w8 (Z.lor (w8 (Z.shiftl (Z.land k1 15) 4)) (Z.land (Z.shiftr k2 2) 15)) = 16 * (k1 mod 16) + k2 / 4.
Proof.
  intros H1 H2. apply Z.eqb_eq.
  apply (sweep2 (fun k1 k2 => w8 (Z.lor (w8 (Z.shiftl (Z.land k1 15) 4)) (Z.land (Z.shiftr k2 2) 15)) =? 16 * (k1 mod 16) + k2 / 4) 64 64);
    [vm_compute; reflexivity|exact H1|exact H2].
Qed.

Lemma b64_bits3 k2 k3 : 0 <= k2 < 64 -> 0 <= k3 < 64 ->
  w8 (Z.lor (w8 (Z.shiftl (Z.land k2 3) 6)) k3) = 64 * (k2 mod 4) + k3.
Proof.
  intros H2 H3. apply Z.eqb_eq.
  apply (sweep2 (fun k2 k3 => w8 (Z.lor (w8 (Z.shiftl (Z.land k2 3) 6)) k3) =? 64 * (k2 mod 4) + k3) 64 64);
    [vm_compute; reflexivity|exact H2|exact H3].
Qed.

Lemma phase_facts i : Z.of_nat i mod 4 = 0 ->
  Z.land (Z.of_nat i) 3 = 0 /\ Z.land (Z.of_nat (S i)) 3 = 1 /\ Z.land (Z.of_nat (S (S i))) 3 = 2
  /\ Z.land (Z.of_nat (S (S (S i)))) 3 = 3 /\ Z.of_nat (S (S (S (S i)))) mod 4 = 0.
Proof. intros H. rewrite !land3_mod. lia. Qed.

Lemma b64_pure_inverts : forall bs, wf_bytes bs = true ->
  forall i done cur, Z.of_nat i mod 4 = 0 -> b64_pure (rfc4648_encode bs) i done cur = Some (done ++ bs).
Proof.
  induction bs as [|a|a b|a b c t IH] using list_ind3; intros Hwf i done cur Hi;
    destruct (phase_facts i Hi) as (P0 & P1 & P2 & P3 & P4).
  - cbn [rfc4648_encode b64_pure]. rewrite app_nil_r. reflexivity.
  - apply wf_cons in Hwf. destruct Hwf as [Ha _].
    cbn [rfc4648_encode].
    rewrite b64_pure_char by lia. cbv zeta. rewrite P0. cbn [Z.eqb].
    rewrite b64_pure_char by lia. cbv zeta. rewrite P1. cbn [Z.eqb Pos.eqb].
    rewrite b64_pure_pad. rewrite b64_bits1 by lia. repeat f_equal. lia.
  - apply wf_cons in Hwf. destruct Hwf as [Ha Hwf]. apply wf_cons in Hwf. destruct Hwf as [Hb _].
    cbn [rfc4648_encode].
    rewrite b64_pure_char by lia. cbv zeta. rewrite P0. cbn [Z.eqb].
    rewrite b64_pure_char by lia. cbv zeta. rewrite P1. cbn [Z.eqb Pos.eqb].
    rewrite b64_pure_char by lia. cbv zeta. rewrite P2. cbn [Z.eqb Pos.eqb].
    rewrite b64_pure_pad. rewrite b64_bits1, b64_bits2 by lia.
    rewrite <- app_assoc. cbn [app]. repeat f_equal; lia.
  - apply wf_cons in Hwf. destruct Hwf as [Ha Hwf]. apply wf_cons in Hwf. destruct Hwf as [Hb Hwf].
    apply wf_cons in Hwf. destruct Hwf as [Hc Hwf].
    cbn [rfc4648_encode].
    rewrite b64_pure_char by lia. cbv zeta. rewrite P0. cbn [Z.eqb].
    rewrite b64_pure_char by lia. cbv zeta. rewrite P1. cbn [Z.eqb Pos.eqb].
    rewrite b64_pure_char by lia. cbv zeta. rewrite P2. cbn [Z.eqb Pos.eqb].
    rewrite b64_pure_char by lia. cbv zeta. rewrite P3. cbn [Z.eqb Pos.eqb].
    rewrite IH by assumption.
    rewrite b64_bits1, b64_bits2, b64_bits3 by lia.
    rewrite <- !app_assoc. cbn [app]. repeat f_equal; lia.
Qed.

Lemma rfc4648_length_mod4 bs : Z.of_nat (length (rfc4648_encode bs)) mod 4 = 0.
Proof.
  induction bs as [|a|a b|a b c t IH] using list_ind3; cbn [rfc4648_encode length]; try reflexivity.
  lia.
Qed.

Lemma from_base64_inverts bs : wf_bytes bs = true -> from_base64 (rfc4648_encode bs) = Ok bs.
Proof.
  intros H. rewrite from_base64_eq. f_equal. unfold from_base64_pure.
  rewrite land3_mod, rfc4648_length_mod4. cbn [Z.eqb negb].
  rewrite (b64_pure_inverts bs H 0 [] 0) by reflexivity. reflexivity.
Qed.
