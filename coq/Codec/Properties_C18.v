(* Property C18 - "Text codecs and numeric conversions are exact inverses and bounds-safe".
   Only statements closed by `exact`, each followed by Print Assumptions, plus non-vacuity Examples.

   Clause of the property text                                   -> theorem(s) below
   ---------------------------------------------------------------------------------------------------------
   toString/fromString inverse on every code point <= U+10FFFF    utf8_roundtrip (all 1,114,112 code points,
     and agree with UTF-8                                           structural proof by range, no sweep),
                                                                    utf8_text_roundtrip (sequences),
                                                                    utf8_decoder_reads_first_sequence,
                                                                    utf8_encoder_total (what happens >= 0x110000),
                                                                    utf8_surrogates_not_excluded (D800..DFFF are laid
                                                                    out as 3-byte sequences: the code excludes nothing)
   length/isValid/fromString never read beyond the byte range,    utf8_readers_in_bounds, utf8_from_string_never_fails,
     arbitrary bytes (incl. truncated sequences, offset table)      utf8_is_valid_never_fails, utf8_from_string_truncated,
                                                                    utf8_is_valid_accepts_text
                                                                    utf8_is_valid_accepts_strict_text (what the reference demands of isValid),
                                                                    utf8_length_of_lead_bytes (length() = length of the encoding on lead bytes)
   integer conversions exact over the full range of each type     integer_roundtrips_in_range, integer_roundtrips_cast,
     (libc printf/strto* MODELLED as reference functions: trusted)  integer_prints_canonical, integer_parses_canonical
                                                                    (the three parse statements are corollaries of the next block)
   the parsers on ALL byte strings (the property text is silent;  parsers_total_within_terminator (checked reads on the String's
     the code hands them to libc, modelled): total, nothing read    buffer: never Err, = the list functions), parsers_never_fail,
     beyond the terminator, white space / sign / longest digit      parsers_ignore_bytes_behind_terminator, parsers_on_all_strings
     prefix, value clamped / wrapped per type, rest ignored         (every s has the shape ws ++ sign ++ digits ++ rest and the four results
                                                                    are parsed_int/uint/int64/uint64 of sign and digits), parsers_value_of_shape
                                                                    (any such reading of s gives these results), noncanonical_forms_agree
   ... the same conversions and the String overloads of the      attached_conversions_see_the_window_only, attached_conversions_equal_owned
     readers on a String that does not own its bytes (attach):      (a readable byte behind the window: its value and what follows never matter),
     the C-string view reads the byte BEHIND the window             attached_conversions_need_a_readable_byte (none: the view is out of bounds),
                                                                    string_overloads_as_found_refuted / string_overloads_as_found_partial
                                                                    (fromString/isValid(const String&) before fix 02 went through that view)
   fromHex yields the upper-case hexadecimal text                 hex_is_upper_hex (hex digit table regenerated)
   fromBase64 returns the original bytes for every RFC 4648       base64_inverts_rfc4648 (all byte strings: induction
     encoding                                                       over 3-byte groups + 3 tails), base64_decodes_every_rfc4648_text
                                                                    (the same through the oracle the check uses), base64_table_inverts_alphabet
   ... while handling every other byte string without             base64_in_bounds (input, 123-entry table, output buffer,
     out-of-bounds access                                           no read of an unwritten cell), base64_as_found_refuted
                                                                    (the code before fix 01 leaves the table at byte 0x80)
                                                                    base64_attached_as_found_refuted / _partial (before fix 03 the input
                                                                    pointer of an attached String came from the C-string view)
   Bytes are lists of Z with wf_bytes (0 <= b < 256); from_string, is_valid and from_base64 need not even that
   (the code looks at its input through (char)/(unsigned char) casts only). *)
From Coq Require Import ZArith List.
From Common Require Import Words ListAux.
From Codec Require Import Gen_Codec CodecSpec CodecModel CodecProofs CodecProofsInt CodecProofsParse CodecProofsAtt.
Import ListNotations.
Local Open Scope Z_scope.

(* ---- UTF-8 ------------------------------------------------------------------------------------------- *)

Theorem utf8_roundtrip : forall cp, 0 <= cp < 1114112 ->
  to_string cp = rfc3629 cp /\ from_string (to_string cp) = Ok cp /\ is_valid (to_string cp) = Ok true.
Proof. exact utf8_roundtrip_all. Qed.
Print Assumptions utf8_roundtrip.
Example utf8_roundtrip_nv :
  to_string 8364 = [226; 130; 172] /\ from_string [226; 130; 172] = Ok 8364 /\
  to_string 1114111 = [244; 143; 191; 191] /\ from_string (to_string 2048) = Ok 2048 /\ to_string 2047 = [223; 191].
Proof. vm_compute. repeat split. Qed.

Theorem utf8_text_roundtrip : forall cps, (forall cp, In cp cps -> 0 <= cp < 1114112) ->
  to_string_n cps = flat_map rfc3629 cps /\ is_valid (to_string_n cps) = Ok true.
Proof. exact (fun cps H => conj (to_string_n_rfc3629 cps H) (is_valid_to_string_n cps H)). Qed.
Print Assumptions utf8_text_roundtrip.
Example utf8_text_roundtrip_nv : to_string_n [72; 228; 8364; 128512] = [72; 195; 164; 226; 130; 172; 240; 159; 152; 128].
Proof. vm_compute. reflexivity. Qed.

Theorem utf8_decoder_reads_first_sequence : forall bs cp, utf8_first bs = Some cp -> from_string bs = Ok cp.
Proof. exact from_string_utf8_first. Qed.
Print Assumptions utf8_decoder_reads_first_sequence.
Example utf8_decoder_reads_first_sequence_nv : utf8_first [226; 130; 172; 65; 255] = Some 8364.
Proof. vm_compute. reflexivity. Qed.

Theorem utf8_encoder_total : forall cp, 0 <= cp < 4294967296 ->
  to_string cp = if cp <? 1114112 then rfc3629 cp else [].
Proof. exact to_string_all_uint32. Qed.
Print Assumptions utf8_encoder_total.
Example utf8_encoder_total_nv : to_string 1114112 = [] /\ to_string 4294967295 = [].
Proof. vm_compute. split; reflexivity. Qed.

Theorem utf8_surrogates_not_excluded : forall cp, 55296 <= cp <= 57343 ->
  to_string cp = [224 + cp / 4096; 128 + (cp / 64) mod 64; 128 + cp mod 64]
  /\ from_string (to_string cp) = Ok cp /\ is_valid (to_string cp) = Ok true.
Proof. exact surrogates_encoded. Qed.
Print Assumptions utf8_surrogates_not_excluded.
Example utf8_surrogates_not_excluded_nv : to_string 55296 = [237; 160; 128] /\ from_string [237; 191; 191] = Ok 57343.
Proof. vm_compute. split; reflexivity. Qed.

Theorem utf8_readers_in_bounds : forall bs, wf_bytes bs = true ->
  (exists v, from_string bs = Ok v) /\ is_valid bs = Ok (layout_valid bs) /\
  (forall b, In b bs -> utf8_length b = lead_len b).
Proof. exact readers_in_bounds. Qed.
Print Assumptions utf8_readers_in_bounds.
Example utf8_readers_in_bounds_nv :
  from_string [240; 159; 152] = Ok 0 /\ is_valid [240; 159; 152] = Ok false /\ is_valid [65; 226; 130] = Ok false /\
  is_valid [226; 130; 172; 65] = Ok true /\ from_string [248; 128; 128; 128; 128] = Ok 248 /\ utf8_length 248 = 0.
Proof. vm_compute. repeat split. Qed.

Theorem utf8_from_string_never_fails : forall bs e, from_string bs <> Err e.
Proof. exact from_string_never_fails. Qed.
Print Assumptions utf8_from_string_never_fails.

Theorem utf8_is_valid_never_fails : forall bs,
  is_valid bs = Ok (layout_valid (map w8 bs)) /\ (forall e, is_valid bs <> Err e).
Proof. exact (fun bs => conj (is_valid_any bs) (is_valid_never_fails_any bs)). Qed.
Print Assumptions utf8_is_valid_never_fails.
Example utf8_never_fails_nv : is_valid [255; 240; 128; 224] = Ok false
  /\ from_string [224; 128] = Ok 0 /\ is_valid [195] = Ok false /\ is_valid [240; 144; 128] = Ok false.
Proof. vm_compute. repeat split. Qed.

Theorem utf8_from_string_truncated : forall b0 t, 128 <= b0 < 256 ->
  Z.of_nat (length (b0 :: t)) < lead_len b0 -> from_string (b0 :: t) = Ok 0.
Proof. exact from_string_truncated. Qed.
Print Assumptions utf8_from_string_truncated.
Example utf8_from_string_truncated_nv : Z.of_nat (length [244; 143; 191]) < lead_len 244.
Proof. vm_compute. reflexivity. Qed.

Theorem utf8_is_valid_accepts_text : forall bs, utf8_text bs = true -> is_valid bs = Ok true.
Proof. exact is_valid_utf8_text. Qed.
Print Assumptions utf8_is_valid_accepts_text.
Example utf8_is_valid_accepts_text_nv : utf8_text [72; 195; 164; 226; 130; 172; 240; 159; 152; 128] = true /\ utf8_text [192; 128] = false.
Proof. vm_compute. split; reflexivity. Qed.

(* the check's reference for isValid demands acceptance of STRICT UTF-8 text only (encodings of scalar values: no surrogates, RFC 3629);
   the validator accepts the wider class above as well, encoded surrogates included - a model fact, left open by the reference *)
Theorem utf8_is_valid_accepts_strict_text : forall bs, utf8_strict bs = true -> utf8_text bs = true /\ is_valid bs = Ok true.
Proof. exact (fun bs H => conj (utf8_strict_is_text bs H) (is_valid_utf8_strict bs H)). Qed.
Print Assumptions utf8_is_valid_accepts_strict_text.
Example utf8_is_valid_accepts_strict_text_nv :
  utf8_strict [72; 195; 164; 226; 130; 172; 240; 159; 152; 128] = true /\ utf8_strict [65; 237; 160; 128] = false /\ utf8_text [65; 237; 160; 128] = true.
Proof. vm_compute. split; [reflexivity|]. split; reflexivity. Qed.

(* Unicode::length on the bytes that start the encoding of a code point (00..7F, C2..DF, E0..EF, F0..F4) is the length of
   that encoding, and these are exactly the bytes some encoding starts with.  On the other 77 bytes (80..C1, F5..FF) the
   property text asks nothing of length() but not to read beyond its argument; what the code answers there is the table
   of utf8_readers_in_bounds - compared between model and code, not demanded by the reference *)
Theorem utf8_length_of_lead_bytes :
  (forall cp, 0 <= cp < 1114112 ->
     utf8_length (hd 0 (rfc3629 cp)) = Z.of_nat (length (rfc3629 cp)) /\ starts_encoding (hd 0 (rfc3629 cp)) = true) /\
  (forall b, starts_encoding b = true -> 0 <= lead_witness b < 1114112 /\ hd 0 (rfc3629 (lead_witness b)) = b).
Proof. exact (conj length_of_lead_byte starts_encoding_has_witness). Qed.
Print Assumptions utf8_length_of_lead_bytes.
Example utf8_length_of_lead_bytes_nv :
  utf8_length 226 = 3 /\ starts_encoding 226 = true /\ lead_witness 226 = 8192 /\ starts_encoding 244 = true /\ lead_witness 224 = 2048 /\
  starts_encoding 192 = false /\ starts_encoding 193 = false /\ starts_encoding 245 = false /\ starts_encoding 128 = false /\
  utf8_length 193 = 2.     (* the code's answer on a byte that starts nothing *)
Proof. vm_compute. repeat (split; [reflexivity|]). reflexivity. Qed.

(* ---- integers (libc modelled) ------------------------------------------------------------------------- *)

Theorem integer_roundtrips_in_range :
  (forall v, int_min <= v <= int_max -> to_int (from_int v) = v) /\
  (forall v, 0 <= v <= uint_max -> to_uint (from_uint v) = v) /\
  (forall v, int64_min <= v <= int64_max -> to_int64 (from_int64 v) = v) /\
  (forall v, 0 <= v <= uint64_max -> to_uint64 (from_uint64 v) = v).
Proof. exact integer_roundtrips_in_range_cor. Qed.
Print Assumptions integer_roundtrips_in_range.
Example integer_roundtrips_nv :
  from_int int_min = [45; 50; 49; 52; 55; 52; 56; 51; 54; 52; 56] /\ to_int (from_int int_min) = int_min /\
  to_uint64 (from_uint64 uint64_max) = uint64_max /\ to_int64 (from_int64 int64_min) = int64_min /\
  to_uint (from_uint uint_max) = uint_max /\ from_uint64 0 = [48].
Proof. vm_compute. repeat split. Qed.

Theorem integer_roundtrips_cast : forall v,
  to_int (from_int v) = sx32 v /\ to_uint (from_uint v) = w32 v /\
  to_int64 (from_int64 v) = sx64 v /\ to_uint64 (from_uint64 v) = w64 v.
Proof. exact integer_roundtrips_cast_cor. Qed.
Print Assumptions integer_roundtrips_cast.
Example integer_roundtrips_cast_nv : to_int (from_int 2147483648) = -2147483648 /\ to_uint (from_uint (-1)) = 4294967295.
Proof. vm_compute. split; reflexivity. Qed.

Theorem integer_prints_canonical : forall v,
  (decimal_of (from_int v) (sx32 v) /\ from_int v = ref_decimal (sx32 v)) /\
  (decimal_of (from_uint v) (w32 v) /\ from_uint v = ref_decimal (w32 v)) /\
  (decimal_of (from_int64 v) (sx64 v) /\ from_int64 v = ref_decimal (sx64 v)) /\
  (decimal_of (from_uint64 v) (w64 v) /\ from_uint64 v = ref_decimal (w64 v)).
Proof. exact CodecProofsInt.integer_prints_canonical. Qed.
Print Assumptions integer_prints_canonical.
Example integer_prints_canonical_nv : from_int64 (-9223372036854775808) =
  [45; 57; 50; 50; 51; 51; 55; 50; 48; 51; 54; 56; 53; 52; 55; 55; 53; 56; 48; 56] /\ from_uint 1000 = [49; 48; 48; 48].
Proof. vm_compute. split; reflexivity. Qed.

Theorem integer_parses_canonical : forall s v, decimal_of s v ->
  (int_min <= v <= int_max -> to_int s = v) /\
  (0 <= v <= uint_max -> to_uint s = v) /\
  (int64_min <= v <= int64_max -> to_int64 s = v) /\
  (0 <= v <= uint64_max -> to_uint64 s = v).
Proof. exact integer_parses_canonical_cor. Qed.
Print Assumptions integer_parses_canonical.
Example integer_parses_canonical_nv : decimal_of [45; 49; 50] (-12) /\ to_int [45; 49; 50] = -12 /\
  to_uint64 [49; 56; 52; 52; 54; 55; 52; 52; 48; 55; 51; 55; 48; 57; 53; 53; 49; 54; 49; 53] = uint64_max.
Proof. split; [exists [49; 50]; repeat split|vm_compute; split; reflexivity]. Qed.

(* ---- integers: the parsers on every byte string (checked reads; libc modelled) ------------------------------ *)

(* String::toInt() ... run on the String's own buffer `s ++ [0]` with every byte fetched by a checked read: never an
   error (no read beyond the terminator, no fuel exhaustion), and the result is the list function of the model *)
Theorem parsers_total_within_terminator : forall s,
  to_int_chk s = Ok (to_int s) /\ to_uint_chk s = Ok (to_uint s) /\
  to_int64_chk s = Ok (to_int64 s) /\ to_uint64_chk s = Ok (to_uint64 s).
Proof. exact parsers_checked_total. Qed.
Print Assumptions parsers_total_within_terminator.

Theorem parsers_never_fail : forall s e,
  to_int_chk s <> Err e /\ to_uint_chk s <> Err e /\ to_int64_chk s <> Err e /\ to_uint64_chk s <> Err e.
Proof. exact CodecProofsParse.parsers_never_fail. Qed.
Print Assumptions parsers_never_fail.

(* whatever lies behind the terminator (nothing at all, or any bytes) is not looked at; the same for the bytes of s
   behind an embedded NUL, since s itself is arbitrary *)
Theorem parsers_ignore_bytes_behind_terminator : forall s junk,
  strtol64_at (s ++ 0 :: junk) = Ok (to_int64 s) /\ strtoul64_at (s ++ 0 :: junk) = Ok (to_uint64 s).
Proof. exact (fun s junk => conj (strtol64_at_ok s junk) (strtoul64_at_ok s junk)). Qed.
Print Assumptions parsers_ignore_bytes_behind_terminator.
Example parsers_checked_nv :
  to_int_chk [32; 9; 43; 48; 48; 49; 50; 120; 57] = Ok 12 /\              (* " \t+0012x9" *)
  to_int_chk [49; 0; 50] = Ok 1 /\ to_uint_chk [] = Ok 0 /\ to_int64_chk [45] = Ok 0 /\
  strtol64_at ([49; 50] ++ 0 :: [51; 52]) = Ok 12 /\ strtol64_at [49; 50] = Err OutOfBounds /\   (* no terminator: the model does see the over-read *)
  to_uint64_chk [45; 49] = Ok 18446744073709551615.
Proof. vm_compute. repeat split. Qed.

(* every byte string: leading white space, optional sign, longest digit prefix, rest; the value of the prefix per type:
     toInt64  = the signed value clamped to [-2^63, 2^63-1]
     toUInt64 = 2^64-1 when the magnitude exceeds it, else the magnitude, negated modulo 2^64 after '-'
     toInt    = toInt64 truncated to 32 bit (two's complement), toUInt = toUInt64 modulo 2^32
     no digit: 0.  The bytes of `rest` do not occur on the right-hand sides: they are ignored. *)
Theorem parsers_on_all_strings : forall s,
  exists ws sg neg ds rest, decimal_shape s ws sg neg ds rest /\
    to_int64 s = parsed_int64 neg ds /\ to_uint64 s = parsed_uint64 neg ds /\
    to_int s = parsed_int neg ds /\ to_uint s = parsed_uint neg ds.
Proof. exact CodecProofsParse.parsers_on_all_strings. Qed.
Print Assumptions parsers_on_all_strings.

Theorem parsers_value_of_shape : forall s ws sg neg ds rest, decimal_shape s ws sg neg ds rest ->
  to_int64 s = parsed_int64 neg ds /\ to_uint64 s = parsed_uint64 neg ds /\
  to_int s = parsed_int neg ds /\ to_uint s = parsed_uint neg ds.
Proof. exact CodecProofsParse.parsers_value_of_shape. Qed.
Print Assumptions parsers_value_of_shape.
Example parsers_shape_nv :
  decimal_shape [32; 9; 43; 48; 48; 49; 50; 120; 57] [32; 9] [43] false [48; 48; 49; 50] [120; 57] /\
  decimal_shape [45; 45; 53] [] [45] true [] [45; 53] /\                                  (* "--5": sign, no digit, value 0 *)
  parsed_int false [50; 49; 52; 55; 52; 56; 51; 54; 52; 56] = -2147483648 /\             (* "2147483648" wraps *)
  to_int [57; 50; 50; 51; 51; 55; 50; 48; 51; 54; 56; 53; 52; 55; 55; 53; 56; 48; 56] = -1 /\  (* 2^63: clamped to 2^63-1, then truncated *)
  to_int64 [45; 57; 50; 50; 51; 51; 55; 50; 48; 51; 54; 56; 53; 52; 55; 55; 53; 56; 48; 57] = int64_min /\   (* -2^63-1 *)
  to_uint [45; 49] = 4294967295 /\ to_uint64 [45; 49] = uint64_max /\
  to_uint [49; 56; 52; 52; 54; 55; 52; 52; 48; 55; 51; 55; 48; 57; 53; 53; 49; 54; 49; 54] = 4294967295 /\   (* 2^64: clamped, then truncated *)
  to_uint64 [45; 49; 56; 52; 52; 54; 55; 52; 52; 48; 55; 51; 55; 48; 57; 53; 53; 49; 54; 49; 54] = uint64_max.
Proof.
  split. { split; [reflexivity|]. split; [reflexivity|]. split; [right; left; split; reflexivity|]. split; [discriminate|]. split; reflexivity. }
  split. { split; [reflexivity|]. split; [reflexivity|]. split; [right; right; split; reflexivity|]. split; [discriminate|]. split; reflexivity. }
  vm_compute. repeat split.
Qed.

Theorem noncanonical_forms_agree : forall ws zs ds rest,
  forallb is_space ws = true -> forallb (fun c => c =? 48) zs = true -> forallb is_digit ds = true -> ds <> [] ->
  first_is is_digit rest = false ->
  (forall sg, sg = [] \/ sg = [43] ->
     let s := ws ++ sg ++ (zs ++ ds) ++ rest in
     to_int s = to_int ds /\ to_uint s = to_uint ds /\ to_int64 s = to_int64 ds /\ to_uint64 s = to_uint64 ds) /\
  (let s := ws ++ [45] ++ (zs ++ ds) ++ rest in
   to_int s = to_int (45 :: ds) /\ to_uint s = to_uint (45 :: ds) /\ to_int64 s = to_int64 (45 :: ds) /\ to_uint64 s = to_uint64 (45 :: ds)).
Proof. exact CodecProofsParse.noncanonical_forms_agree. Qed.
Print Assumptions noncanonical_forms_agree.
Example noncanonical_forms_agree_nv :
  to_int ([32; 10] ++ [43] ++ ([48; 48] ++ [52; 50]) ++ [32; 55]) = 42 /\ to_int [52; 50] = 42 /\
  to_uint ([13] ++ [45] ++ ([48] ++ [49]) ++ [46; 53]) = 4294967295.
Proof. vm_compute. repeat split. Qed.

(* ---- Strings that do not own their bytes (String::attach): window ++ tail is the attached block ----------------------------- *)

(* with at least one readable byte behind the window the four conversions return what the window alone stands for:
   neither the byte behind it (NUL or not) nor anything after it occurs on the right-hand side *)
Theorem attached_conversions_see_the_window_only : forall s tail, tail <> [] ->
  to_int_att s tail = Ok (to_int s) /\ to_uint_att s tail = Ok (to_uint s) /\
  to_int64_att s tail = Ok (to_int64 s) /\ to_uint64_att s tail = Ok (to_uint64 s).
Proof. exact attached_parsers_window. Qed.
Print Assumptions attached_conversions_see_the_window_only.

Theorem attached_conversions_equal_owned : forall s tail, tail <> [] ->
  to_int_att s tail = to_int_chk s /\ to_uint_att s tail = to_uint_chk s /\
  to_int64_att s tail = to_int64_chk s /\ to_uint64_att s tail = to_uint64_chk s.
Proof. exact attached_parsers_as_owned. Qed.
Print Assumptions attached_conversions_equal_owned.

(* the precondition is needed: when the allocation ends with the window, the view's look at the byte behind it is out of bounds *)
Theorem attached_conversions_need_a_readable_byte : forall s,
  to_int_att s [] = Err OutOfBounds /\ to_uint_att s [] = Err OutOfBounds /\
  to_int64_att s [] = Err OutOfBounds /\ to_uint64_att s [] = Err OutOfBounds.
Proof. exact attached_parsers_unreadable. Qed.
Print Assumptions attached_conversions_need_a_readable_byte.
Example attached_conversions_nv :
  to_int_att [49; 50] [51; 52] = Ok 12 /\            (* "12" attached inside "1234": 12, not 1234 *)
  to_int_att [49; 50] [0; 57] = Ok 12 /\ to_uint64_att [45; 49] [57] = Ok 18446744073709551615 /\
  c_view [49; 50] [51; 52] = Ok [49; 50; 0] /\ c_view [49; 50] [0; 57] = Ok [49; 50; 0; 57] /\
  to_int64_att [49; 50] [] = Err OutOfBounds.
Proof. vm_compute. split; [reflexivity|]. split; [reflexivity|]. split; [reflexivity|]. split; [reflexivity|]. split; reflexivity. Qed.

(* Unicode::fromString(const String&) and isValid(const String&) as found (before fixes/C18/02) converted the String
   through the same view: on a String attached to an exactly sized block that is a read beyond the range they were given,
   for EVERY window; with a readable byte behind the window they equal the pointer overloads.  As repaired they ARE the
   pointer overloads on the window (from_string / is_valid above), so the bounds theorems of the UTF-8 block apply. *)
Theorem string_overloads_as_found_refuted : forall s,
  from_string_view s [] = Err OutOfBounds /\ is_valid_view s [] = Err OutOfBounds.
Proof. exact readers_view_unreadable. Qed.
Print Assumptions string_overloads_as_found_refuted.

Theorem string_overloads_as_found_partial : forall s tail, tail <> [] ->
  from_string_view s tail = from_string s /\ is_valid_view s tail = is_valid s.
Proof. exact readers_view_readable. Qed.
Print Assumptions string_overloads_as_found_partial.
Example string_overloads_as_found_nv :
  from_string_view [226; 130; 172] [] = Err OutOfBounds /\ from_string [226; 130; 172] = Ok 8364 /\
  from_string_view [226; 130] [172] = Ok 0 /\ is_valid_view [226; 130] [172] = Ok false.   (* the truncated window stays truncated *)
Proof. vm_compute. split; [reflexivity|]. split; [reflexivity|]. split; reflexivity. Qed.

(* ---- hex ------------------------------------------------------------------------------------------------ *)

Theorem hex_is_upper_hex : forall data, wf_bytes data = true -> from_hex data = Ok (upper_hex data).
Proof. exact from_hex_upper_hex. Qed.
Print Assumptions hex_is_upper_hex.
Example hex_is_upper_hex_nv : from_hex [0; 171; 255; 9; 160] = Ok [48; 48; 65; 66; 70; 70; 48; 57; 65; 48].
Proof. vm_compute. reflexivity. Qed.

(* ---- base64 ----------------------------------------------------------------------------------------------- *)

Theorem base64_inverts_rfc4648 : forall bs, wf_bytes bs = true -> from_base64 (rfc4648_encode bs) = Ok bs.
Proof. exact from_base64_inverts. Qed.
Print Assumptions base64_inverts_rfc4648.
Example base64_inverts_rfc4648_nv :
  rfc4648_encode [102; 111; 111; 98; 97] = [90; 109; 57; 118; 89; 109; 69; 61] /\      (* "fooba" -> "Zm9vYmE=" (RFC 4648 section 10) *)
  from_base64 [90; 109; 57; 118; 89; 109; 69; 61] = Ok [102; 111; 111; 98; 97] /\
  from_base64 (rfc4648_encode [255]) = Ok [255] /\ from_base64 (rfc4648_encode [0; 128; 255; 254]) = Ok [0; 128; 255; 254].
Proof. vm_compute. repeat split. Qed.

Theorem base64_decodes_every_rfc4648_text : forall s bs, rfc4648_preimage s = Some bs -> from_base64 s = Ok bs.
Proof. exact from_base64_preimage. Qed.
Print Assumptions base64_decodes_every_rfc4648_text.
Example base64_decodes_every_rfc4648_text_nv :
  rfc4648_preimage [90; 109; 57; 118; 89; 109; 69; 61] = Some [102; 111; 111; 98; 97]
  /\ rfc4648_preimage [90; 109; 57; 118; 89; 109; 70; 61] = None.   (* "Zm9vYmF=": non-zero padding bits, not an encoding *)
Proof. exact preimage_of_encode_example. Qed.

Theorem base64_table_inverts_alphabet : forall k, 0 <= k < 64 ->
  (w8 (b64_char k) >? 122) = false /\ nth (Z.to_nat (w8 (b64_char k))) gen_base64de 0 = k.
Proof. exact CodecProofs.base64_table_inverts_alphabet. Qed.
Print Assumptions base64_table_inverts_alphabet.
Example base64_table_nv : length gen_base64de = 123%nat /\ nth 122 gen_base64de 0 = 51 /\ nth 43 gen_base64de 0 = 62.
Proof. vm_compute. repeat split. Qed.

(* the translator emits the element width of the two integer tables and refuses entries that do not fit; seen from Coq: *)
Example tables_fit_their_types : gen_base64de_bits = 8 /\ gen_utf8Offsets_bits = 32
  /\ forallb (fun v => andb (0 <=? v) (v <? 2 ^ gen_base64de_bits)) gen_base64de = true
  /\ forallb (fun v => andb (0 <=? v) (v <? 2 ^ gen_utf8Offsets_bits)) gen_utf8Offsets = true
  /\ forallb (fun v => andb (0 <=? v) (v <? 128)) gen_hexdigits = true /\ length gen_hexdigits = 16%nat.
Proof.
  split; [reflexivity|]. split; [reflexivity|]. split; [vm_compute; reflexivity|]. split; [vm_compute; reflexivity|].
  split; vm_compute; reflexivity.
Qed.

Theorem base64_in_bounds : forall inp, (exists r, from_base64 inp = Ok r) /\ (forall e, from_base64 inp <> Err e).
Proof. exact (fun inp => conj (from_base64_in_bounds inp) (from_base64_never_fails inp)). Qed.
Print Assumptions base64_in_bounds.
Example base64_in_bounds_nv :
  from_base64 [128; 65; 65; 65] = Ok [] /\ from_base64 [255; 255; 255; 255] = Ok [] /\ from_base64 [65; 123; 65; 65] = Ok [] /\
  from_base64 [65; 65; 61; 65] = Ok [0] /\ from_base64 [61; 61; 61; 61] = Ok [] /\ from_base64 [65; 65; 65] = Ok [].
Proof. vm_compute. repeat split. Qed.

(* the same for String::fromBase64(const String&) before fixes/C18/03: its input pointer came from the C-string view, so on an
   attached String whose allocation ends with the window - an RFC 4648 encoding or not - it looked at the byte behind it.
   As repaired it is from_base64 on the window: base64_in_bounds and base64_inverts_rfc4648 apply as they stand. *)
Theorem base64_attached_as_found_refuted : forall s, from_base64_view s [] = Err OutOfBounds.
Proof. exact base64_view_unreadable. Qed.
Print Assumptions base64_attached_as_found_refuted.

Theorem base64_attached_as_found_partial : forall s tail, tail <> [] -> from_base64_view s tail = from_base64 s.
Proof. exact base64_view_readable. Qed.
Print Assumptions base64_attached_as_found_partial.
Example base64_attached_as_found_nv :
  from_base64_view [81; 81; 61; 61] [] = Err OutOfBounds /\ from_base64 [81; 81; 61; 61] = Ok [65] /\     (* "QQ==" *)
  from_base64_view [81; 81; 61; 61] [65] = Ok [65].
Proof. vm_compute. split; [reflexivity|]. split; reflexivity. Qed.

Theorem base64_as_found_refuted :
  wf_bytes [128; 65; 65; 65] = true /\ from_base64_unrepaired [128; 65; 65; 65] = Err OutOfBounds.
Proof. exact from_base64_unrepaired_out_of_bounds. Qed.
Print Assumptions base64_as_found_refuted.
