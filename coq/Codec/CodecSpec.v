(* Reference objects for property C18.  Nothing here looks at the code: RFC 3629 bit layout written
   with div/mod, RFC 4648 base64 with its alphabet string, upper-case hexadecimal text, and decimal
   text defined by its Horner value plus canonical form. *)
From Coq Require Import ZArith List Bool.
Import ListNotations.
Local Open Scope Z_scope.
Local Open Scope bool_scope.

(* ------------------------------------------------------------------------------------------ *)
(* UTF-8 (RFC 3629 section 3 bit layout; surrogates are laid out like any other scalar: the    *)
(* property quantifies over all 1,114,112 code points)                                         *)
(* ------------------------------------------------------------------------------------------ *)

Definition rfc3629 (cp : Z) : list Z :=
  if cp <? 128 then [cp]
  else if cp <? 2048 then [192 + cp / 64; 128 + cp mod 64]
  else if cp <? 65536 then [224 + cp / 4096; 128 + (cp / 64) mod 64; 128 + cp mod 64]
  else [240 + cp / 262144; 128 + (cp / 4096) mod 64; 128 + (cp / 64) mod 64; 128 + cp mod 64].

Definition is_cp (cp : Z) : bool := (0 <=? cp) && (cp <? 1114112).

(* sequence length announced by a lead byte (first column of the RFC's table); 0 = not a lead byte *)
Definition lead_len (b : Z) : Z :=
  if (0 <=? b) && (b <? 128) then 1
  else if (192 <=? b) && (b <? 224) then 2
  else if (224 <=? b) && (b <? 240) then 3
  else if (240 <=? b) && (b <? 248) then 4
  else 0.

Definition is_cont (b : Z) : bool := (128 <=? b) && (b <? 192).

(* the bytes that start the encoding of some code point: 00..7F, C2..DF, E0..EF, F0..F4.  The others (80..BF continuation
   bytes, C0 C1 and F5..FF, which occur nowhere in UTF-8) start no sequence: the property text says nothing about what a
   sequence-length function answers on them, so the reference leaves that open (the check prints `?` there) *)
Definition starts_encoding (b : Z) : bool := ((0 <=? b) && (b <? 128)) || ((194 <=? b) && (b <=? 244)).
(* a code point whose encoding starts with such a byte *)
Definition lead_witness (b : Z) : Z :=
  if b <? 128 then b
  else if b <? 224 then (b - 192) * 64
  else if b <? 240 then Z.max 2048 ((b - 224) * 4096)
  else Z.max 65536 ((b - 240) * 262144).

(* layout validity: every sequence is a lead byte followed by exactly the announced number of
   continuation bytes (no overlong / surrogate / range exclusion - the validator in the code does
   not make them and the property text does not ask for them) *)
Fixpoint layout_valid_fuel (fuel : nat) (bs : list Z) : bool :=
  match fuel with
  | O => false
  | S f =>
    match bs with
    | [] => true
    | b0 :: t =>
      match lead_len b0 with
      | 1 => layout_valid_fuel f t
      | 2 => match t with b1 :: t' => is_cont b1 && layout_valid_fuel f t' | _ => false end
      | 3 => match t with b1 :: b2 :: t' => is_cont b1 && is_cont b2 && layout_valid_fuel f t' | _ => false end
      | 4 => match t with b1 :: b2 :: b3 :: t' => is_cont b1 && is_cont b2 && is_cont b3 && layout_valid_fuel f t' | _ => false end
      | _ => false
      end
    end
  end.
Definition layout_valid (bs : list Z) : bool := layout_valid_fuel (S (length bs)) bs.

(* value carried by the first sequence of bs when read by the layout (None: not a sequence) *)
Definition layout_decode (bs : list Z) : option Z :=
  match bs with
  | [] => None
  | b0 :: t =>
    match lead_len b0, t with
    | 1, _ => Some b0
    | 2, b1 :: _ => if is_cont b1 then Some ((b0 - 192) * 64 + (b1 - 128)) else None
    | 3, b1 :: b2 :: _ => if is_cont b1 && is_cont b2 then Some ((b0 - 224) * 4096 + (b1 - 128) * 64 + (b2 - 128)) else None
    | 4, b1 :: b2 :: b3 :: _ =>
        if is_cont b1 && is_cont b2 && is_cont b3
        then Some ((b0 - 240) * 262144 + (b1 - 128) * 4096 + (b2 - 128) * 64 + (b3 - 128)) else None
    | _, _ => None
    end
  end.

Fixpoint list_eqb (a b : list Z) : bool :=
  match a, b with
  | [], [] => true
  | x :: a', y :: b' => (x =? y) && list_eqb a' b'
  | _, _ => false
  end.

Fixpoint is_prefix (p l : list Z) : bool :=
  match p, l with
  | [], _ => true
  | x :: p', y :: l' => (x =? y) && is_prefix p' l'
  | _, _ => false
  end.

(* "bs starts with the UTF-8 encoding of the code point cp": what a decoder of one character must return *)
Definition utf8_first (bs : list Z) : option Z :=
  match layout_decode bs with
  | Some cp => if is_cp cp && is_prefix (rfc3629 cp) bs then Some cp else None
  | None => None
  end.

(* bs is a concatenation of encodings of code points (three-valued oracle for a validator:
   such text must be accepted, text that is not even layout-valid must be rejected, the rest -
   overlong forms, values above U+10FFFF - is left open by the property) *)
Fixpoint utf8_text_fuel (fuel : nat) (bs : list Z) : bool :=
  match fuel with
  | O => false
  | S f =>
    match bs with
    | [] => true
    | _ => match utf8_first bs with
           | Some cp => utf8_text_fuel f (skipn (length (rfc3629 cp)) bs)
           | None => false
           end
    end
  end.
Definition utf8_text (bs : list Z) : bool := utf8_text_fuel (S (length bs)) bs.

(* ... of encodings of Unicode scalar values: RFC 3629 excludes the surrogates D800..DFFF from UTF-8.  The property asks
   toString/fromString to be inverse on all 1,114,112 code points (surrogates included), it does not ask a validator to
   accept their encodings: the check demands acceptance of this stricter text only and leaves text with encoded
   surrogates open, like overlong forms *)
Definition is_surrogate (cp : Z) : bool := (55296 <=? cp) && (cp <=? 57343).
Fixpoint utf8_strict_fuel (fuel : nat) (bs : list Z) : bool :=
  match fuel with
  | O => false
  | S f =>
    match bs with
    | [] => true
    | _ => match utf8_first bs with
           | Some cp => negb (is_surrogate cp) && utf8_strict_fuel f (skipn (length (rfc3629 cp)) bs)
           | None => false
           end
    end
  end.
Definition utf8_strict (bs : list Z) : bool := utf8_strict_fuel (S (length bs)) bs.

(* ------------------------------------------------------------------------------------------ *)
(* hexadecimal text, upper case                                                                *)
(* ------------------------------------------------------------------------------------------ *)

Definition hex_char (d : Z) : Z := if d <? 10 then 48 + d else 55 + d.   (* '0'+d / 'A'+(d-10) *)
Fixpoint upper_hex (bs : list Z) : list Z :=
  match bs with
  | [] => []
  | b :: t => hex_char (b / 16) :: hex_char (b mod 16) :: upper_hex t
  end.

(* ------------------------------------------------------------------------------------------ *)
(* base64, RFC 4648 section 4                                                                  *)
(* ------------------------------------------------------------------------------------------ *)

(* "ABCDEFGHIJKLMNOPQRSTUVWXYZabcdefghijklmnopqrstuvwxyz0123456789+/" *)
Definition b64_alphabet : list Z :=
  [65; 66; 67; 68; 69; 70; 71; 72; 73; 74; 75; 76; 77; 78; 79; 80; 81; 82; 83; 84; 85; 86; 87; 88; 89; 90;
   97; 98; 99; 100; 101; 102; 103; 104; 105; 106; 107; 108; 109; 110; 111; 112; 113; 114; 115; 116; 117; 118;
   119; 120; 121; 122; 48; 49; 50; 51; 52; 53; 54; 55; 56; 57; 43; 47].
Definition b64_char (k : Z) : Z := nth (Z.to_nat k) b64_alphabet 0.
Definition b64_pad : Z := 61.   (* '=' *)

Fixpoint rfc4648_encode (bs : list Z) : list Z :=
  match bs with
  | [] => []
  | [a] => [b64_char (a / 4); b64_char ((a mod 4) * 16); b64_pad; b64_pad]
  | [a; b] => [b64_char (a / 4); b64_char ((a mod 4) * 16 + b / 16); b64_char ((b mod 16) * 4); b64_pad]
  | a :: b :: c :: t =>
      b64_char (a / 4) :: b64_char ((a mod 4) * 16 + b / 16) :: b64_char ((b mod 16) * 4 + c / 64) :: b64_char (c mod 64)
      :: rfc4648_encode t
  end.

(* reference decoder, used by the oracle only to find the candidate preimage: position of a
   character in the alphabet by linear search *)
Fixpoint index_of (c : Z) (l : list Z) (k : Z) : option Z :=
  match l with
  | [] => None
  | x :: t => if x =? c then Some k else index_of c t (k + 1)
  end.
Definition b64_index (c : Z) : option Z := index_of c b64_alphabet 0.

Fixpoint rfc4648_decode (s : list Z) : option (list Z) :=
  match s with
  | [] => Some []
  | c0 :: c1 :: c2 :: c3 :: t =>
    match b64_index c0, b64_index c1 with
    | Some k0, Some k1 =>
      let o0 := k0 * 4 + k1 / 16 in
      if (c2 =? b64_pad) && (c3 =? b64_pad) then match t with [] => Some [o0] | _ => None end
      else match b64_index c2 with
           | Some k2 =>
             let o1 := (k1 mod 16) * 16 + k2 / 4 in
             if c3 =? b64_pad then match t with [] => Some [o0; o1] | _ => None end
             else match b64_index c3, rfc4648_decode t with
                  | Some k3, Some r => Some (o0 :: o1 :: (k2 mod 4) * 64 + k3 :: r)
                  | _, _ => None
                  end
           | None => None
           end
    | _, _ => None
    end
  | _ => None
  end.

(* the oracle: Some bs iff s is exactly the RFC 4648 encoding of bs *)
Definition rfc4648_preimage (s : list Z) : option (list Z) :=
  match rfc4648_decode s with
  | Some bs => if list_eqb (rfc4648_encode bs) s then Some bs else None
  | None => None
  end.

(* ------------------------------------------------------------------------------------------ *)
(* decimal text                                                                                *)
(* ------------------------------------------------------------------------------------------ *)

Definition is_digit (c : Z) : bool := (48 <=? c) && (c <=? 57).
Definition horner (ds : list Z) : Z := fold_left (fun a c => a * 10 + (c - 48)) ds 0.
(* digits only, at least one, no leading zero except for "0" itself *)
Definition canonical_digits (ds : list Z) : bool :=
  forallb is_digit ds &&
  match ds with
  | [] => false
  | [_] => true
  | d :: _ => negb (d =? 48)
  end.

(* s is THE decimal text of v: optional '-' exactly for negative numbers, canonical digits, value *)
Definition decimal_of (s : list Z) (v : Z) : Prop :=
  if v <? 0 then exists ds, s = 45 :: ds /\ canonical_digits ds = true /\ horner ds = - v
  else canonical_digits s = true /\ horner s = v.

(* executable reference printer (most significant digit first) *)
Fixpoint ref_digits (fuel : nat) (v : Z) : list Z :=
  match fuel with
  | O => []
  | S f => if v <? 10 then [48 + v] else ref_digits f (v / 10) ++ [48 + v mod 10]
  end.
Definition ref_decimal (v : Z) : list Z :=
  if v <? 0 then 45 :: ref_digits 40 (- v) else ref_digits 40 v.

(* executable reference reader: defined on canonical text only *)
Definition ref_value (s : list Z) : option Z :=
  match s with
  | 45 :: ds => if canonical_digits ds && negb (horner ds =? 0) then Some (- horner ds) else None
  | _ => if canonical_digits s then Some (horner s) else None
  end.

Definition in_range (lo hi v : Z) : bool := (lo <=? v) && (v <=? hi).
Definition int_min : Z := -2147483648.
Definition int_max : Z := 2147483647.
Definition uint_max : Z := 4294967295.
Definition int64_min : Z := -9223372036854775808.
Definition int64_max : Z := 9223372036854775807.
Definition uint64_max : Z := 18446744073709551615.

(* ------------------------------------------------------------------------------------------ *)
(* decimal text in general: what strtol(3) / strtoul(3) / atoi(3) document for ANY byte string  *)
(* ------------------------------------------------------------------------------------------ *)

(* isspace in the C locale: space, \t \n \v \f \r *)
Definition is_space (c : Z) : bool := (c =? 32) || ((9 <=? c) && (c <=? 13)).

(* the optional sign *)
Definition sign_text (sg : list Z) (neg : bool) : Prop :=
  (sg = [] /\ neg = false) \/ (sg = [43] /\ neg = false) \/ (sg = [45] /\ neg = true).

Definition first_is (p : Z -> bool) (l : list Z) : bool := match l with c :: _ => p c | [] => false end.

(* "s = white space ++ optional sign ++ longest digit prefix ++ rest": ws is ALL the leading white
   space and sg the sign if there is one (when there is none, what follows is neither white space
   nor a sign), ds are digits and rest does not go on with a digit *)
Definition decimal_shape (s ws sg : list Z) (neg : bool) (ds rest : list Z) : Prop :=
  s = ws ++ sg ++ ds ++ rest /\
  forallb is_space ws = true /\
  sign_text sg neg /\
  (sg = [] -> first_is (fun c => is_space c || (c =? 43) || (c =? 45)) (ds ++ rest) = false) /\
  forallb is_digit ds = true /\
  first_is is_digit rest = false.

(* the value the prefix stands for, per type:
   strtoll - clamped to [LLONG_MIN, LLONG_MAX];
   strtoull - ULLONG_MAX when the magnitude does not fit, otherwise the magnitude, negated in
              unsigned arithmetic after a '-';
   atoi = (int)strtol and (uint)strtoul: clamped / negated at 64 bit FIRST, then truncated to 32 bit;
   no digits: 0 *)
Definition parsed_int64 (neg : bool) (ds : list Z) : Z :=
  match ds with
  | [] => 0
  | _ => if neg then Z.max int64_min (- horner ds) else Z.min int64_max (horner ds)
  end.
Definition parsed_uint64 (neg : bool) (ds : list Z) : Z :=
  match ds with
  | [] => 0
  | _ => if horner ds >? uint64_max then uint64_max
         else if neg then (- horner ds) mod 18446744073709551616 else horner ds
  end.
Definition parsed_int (neg : bool) (ds : list Z) : Z :=
  let r := parsed_int64 neg ds mod 4294967296 in if r <? 2147483648 then r else r - 4294967296.
Definition parsed_uint (neg : bool) (ds : list Z) : Z := parsed_uint64 neg ds mod 4294967296.
