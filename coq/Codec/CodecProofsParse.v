(* Lemmas for property C18 (component Codec), part 3: the integer parsers on ALL byte strings.
   (1) the checked-read machines over the terminated buffer never fail, never look beyond the
       terminator and compute the list functions strtol64 / strtoul64;
   (2) what these compute: white space skipped, optional sign, longest digit prefix, the value of
       that prefix clamped / wrapped per type (parsed_int64 and its siblings in CodecSpec), the rest ignored;
   (3) the canonical-text and round-trip statements as corollaries of (2). *)
From Coq Require Import ZArith List Bool Lia ZifyBool ZifyNat ZifyN.
From Common Require Import Words ListAux.
From Codec Require Import Gen_Codec CodecSpec CodecModel CodecProofs CodecProofsInt.
Import ListNotations.
Local Open Scope Z_scope.
Local Open Scope bool_scope.
Ltac Zify.zify_post_hook ::= Z.div_mod_to_equations.

(* ------------------------------------------------------------------------------------------ *)
(* (1) checked reads                                                                            *)
(* ------------------------------------------------------------------------------------------ *)

Lemma peek_skipn : forall i buf c t, skipn i buf = c :: t -> peek buf i = Ok c /\ skipn (S i) buf = t.
Proof.
  induction i as [|i IH]; intros [|x buf] c t E; cbn [skipn] in E; try discriminate.
  - injection E as -> ->. split; reflexivity.
  - destruct (IH buf c t E) as [P S']. split; [exact P|exact S'].
Qed.

Lemma skip_space_at_ok : forall s fuel buf i junk,
  skipn i buf = s ++ 0 :: junk -> (length s < fuel)%nat ->
  exists j, skip_space_at fuel buf i = Ok j /\ skipn j buf = skip_space s ++ 0 :: junk.
Proof.
  induction s as [|c t IH]; intros [|f] buf i junk E L; cbn [length] in L; try lia.
  - cbn [app] in E. destruct (peek_skipn _ _ _ _ E) as [P _].
    cbn [skip_space_at]. rewrite P. cbn [bind]. exists i. split; [reflexivity|exact E].
  - cbn [app] in E. destruct (peek_skipn _ _ _ _ E) as [P E'].
    cbn [skip_space_at skip_space]. rewrite P. cbn [bind]. destruct (c_isspace c).
    + apply IH; [exact E'|lia].
    + exists i. split; [reflexivity|exact E].
Qed.

(* the sign test of the list function, written with comparisons *)
Lemma split_sign_eqb c t :
  split_sign (c :: t) = if c =? 45 then (true, t) else if c =? 43 then (false, t) else (false, c :: t).
Proof.
  destruct c as [|p|p]; try reflexivity.
  do 6 (try (destruct p as [p|p|]; try reflexivity)).
Qed.

Lemma sign_at_ok s buf i junk : skipn i buf = s ++ 0 :: junk ->
  exists j, sign_at buf i = Ok (fst (split_sign s), j) /\ skipn j buf = snd (split_sign s) ++ 0 :: junk.
Proof.
  intros E. destruct s as [|c t].
  - cbn [app] in E. destruct (peek_skipn _ _ _ _ E) as [P _].
    unfold sign_at. rewrite P. cbn [bind]. exists i. split; [reflexivity|exact E].
  - cbn [app] in E. destruct (peek_skipn _ _ _ _ E) as [P E'].
    unfold sign_at. rewrite P. cbn [bind]. rewrite split_sign_eqb.
    destruct (c =? 45); [exists (S i); split; [reflexivity|exact E']|].
    destruct (c =? 43); [exists (S i); split; [reflexivity|exact E']|].
    exists i. split; [reflexivity|exact E].
Qed.

Lemma digits_at_ok : forall s fuel buf i junk acc n,
  skipn i buf = s ++ 0 :: junk -> (length s < fuel)%nat ->
  digits_at fuel buf i acc n = Ok (digits_value s acc n).
Proof.
  induction s as [|c t IH]; intros [|f] buf i junk acc n E L; cbn [length] in L; try lia.
  - cbn [app] in E. destruct (peek_skipn _ _ _ _ E) as [P _].
    cbn [digits_at]. rewrite P. reflexivity.
  - cbn [app] in E. destruct (peek_skipn _ _ _ _ E) as [P E'].
    cbn [digits_at digits_value]. rewrite P. cbn [bind]. destruct (c_isdigit c); [|reflexivity].
    apply (IH f buf (S i) junk); [exact E'|lia].
Qed.

Lemma skipn_suffix_length {A} j (buf a b : list A) : skipn j buf = a ++ b -> (length a + length b <= length buf)%nat.
Proof.
  intros E. apply (f_equal (@length A)) in E. rewrite skipn_length, app_length in E. lia.
Qed.

(* whatever follows the terminator: the scanner stops at the terminator at the latest, every read succeeds *)
Lemma scan_at_ok s junk : scan_at (s ++ 0 :: junk) = Ok (scan s).
Proof.
  unfold scan_at, scan. set (buf := s ++ 0 :: junk).
  assert (E0 : skipn 0 buf = s ++ 0 :: junk) by reflexivity.
  destruct (skip_space_at_ok s (S (length buf)) buf 0%nat junk E0) as (j & -> & E1).
  { unfold buf. rewrite app_length. cbn [length]. lia. }
  cbn [bind]. destruct (sign_at_ok (skip_space s) buf j junk E1) as (j2 & -> & E2). cbn [bind fst snd].
  destruct (split_sign (skip_space s)) as [neg s2]. cbn [fst snd] in *.
  rewrite (digits_at_ok s2 (S (length buf)) buf j2 junk 0 0%nat E2).
  - reflexivity.
  - pose proof (skipn_suffix_length j2 buf s2 (0 :: junk) E2). lia.
Qed.

Lemma strtol64_at_ok s junk : strtol64_at (s ++ 0 :: junk) = Ok (strtol64 s).
Proof.
  unfold strtol64_at. rewrite scan_at_ok. cbn [bind]. rewrite strtol64_scan.
  destruct (scan s) as [neg [v n]]. reflexivity.
Qed.

Lemma strtoul64_at_ok s junk : strtoul64_at (s ++ 0 :: junk) = Ok (strtoul64 s).
Proof.
  unfold strtoul64_at. rewrite scan_at_ok. cbn [bind]. rewrite strtoul64_scan.
  destruct (scan s) as [neg [v n]]. reflexivity.
Qed.

(* the four conversions on the String's own buffer: total, equal to the list functions *)
Lemma parsers_checked_total s :
  to_int_chk s = Ok (to_int s) /\ to_uint_chk s = Ok (to_uint s) /\
  to_int64_chk s = Ok (to_int64 s) /\ to_uint64_chk s = Ok (to_uint64 s).
Proof.
  unfold to_int_chk, to_uint_chk, to_int64_chk, to_uint64_chk, c_str, to_int, to_uint, to_int64, to_uint64.
  rewrite (strtol64_at_ok s []), (strtoul64_at_ok s []). repeat split; reflexivity.
Qed.

Lemma parsers_never_fail s e :
  to_int_chk s <> Err e /\ to_uint_chk s <> Err e /\ to_int64_chk s <> Err e /\ to_uint64_chk s <> Err e.
Proof.
  destruct (parsers_checked_total s) as (-> & -> & -> & ->). repeat split; discriminate.
Qed.

(* nothing beyond the terminator is looked at: any bytes there (also none at all) give the same result,
   and bytes of the string behind an embedded NUL are not looked at either *)
Lemma parsers_stop_at_terminator s junk :
  strtol64_at (s ++ 0 :: junk) = strtol64_at (c_str s) /\ strtoul64_at (s ++ 0 :: junk) = strtoul64_at (c_str s).
Proof. unfold c_str. rewrite !strtol64_at_ok, !strtoul64_at_ok. split; reflexivity. Qed.

(* ------------------------------------------------------------------------------------------ *)
(* (2) what is computed, for every byte string                                                  *)
(* ------------------------------------------------------------------------------------------ *)

Lemma skip_space_app : forall ws l, forallb is_space ws = true -> first_is is_space l = false -> skip_space (ws ++ l) = l.
Proof.
  induction ws as [|c t IH]; intros l H F.
  - cbn [app]. destruct l as [|x l]; [reflexivity|]. cbn [first_is] in F. cbn [skip_space].
    change (c_isspace x) with (is_space x). rewrite F. reflexivity.
  - cbn [forallb] in H. apply andb_prop in H. destruct H as [Hc Ht].
    cbn [app skip_space]. change (c_isspace c) with (is_space c). rewrite Hc. apply IH; assumption.
Qed.

Lemma digits_value_app : forall ds rest acc n, forallb is_digit ds = true -> first_is is_digit rest = false ->
  digits_value (ds ++ rest) acc n = (fold_left dstep ds acc, (n + length ds)%nat).
Proof.
  induction ds as [|c t IH]; intros rest acc n H F.
  - cbn [app fold_left length]. replace (n + 0)%nat with n by lia.
    destruct rest as [|x r]; [reflexivity|]. cbn [first_is] in F. cbn [digits_value].
    change (c_isdigit x) with (is_digit x). rewrite F. reflexivity.
  - cbn [forallb] in H. apply andb_prop in H. destruct H as [Hc Ht].
    cbn [app digits_value]. change (c_isdigit c) with (is_digit c). rewrite Hc.
    rewrite IH by assumption. cbn [fold_left length]. unfold dstep at 2. f_equal. lia.
Qed.

Lemma scan_of_shape s ws sg neg ds rest : decimal_shape s ws sg neg ds rest ->
  scan s = (neg, (horner ds, length ds)).
Proof.
  intros (-> & Hws & Hsg & Hns & Hds & Hrest). unfold scan.
  assert (NS : first_is is_space (sg ++ ds ++ rest) = false).
  { destruct Hsg as [[-> ->]|[[-> ->]|[-> ->]]]; try reflexivity.
    specialize (Hns eq_refl). cbn [app]. destruct (ds ++ rest) as [|c l]; [reflexivity|].
    cbn [first_is] in *. destruct (is_space c); [discriminate|reflexivity]. }
  rewrite skip_space_app by assumption.
  assert (SS : split_sign (sg ++ ds ++ rest) = (neg, ds ++ rest)).
  { destruct Hsg as [[-> ->]|[[-> ->]|[-> ->]]]; try reflexivity.
    specialize (Hns eq_refl). cbn [app]. destruct (ds ++ rest) as [|c l]; [reflexivity|].
    cbn [first_is] in Hns. rewrite split_sign_eqb.
    destruct (c =? 45); [rewrite !orb_true_r in Hns; discriminate|].
    destruct (c =? 43); [rewrite !orb_true_r in Hns; discriminate|reflexivity]. }
  rewrite SS. rewrite (digits_value_app ds rest 0 0%nat Hds Hrest). reflexivity.
Qed.

Lemma length_zero_iff_nil {A} (l : list A) : (length l =? 0)%nat = match l with [] => true | _ => false end.
Proof. destruct l; reflexivity. Qed.

Lemma strtol64_of_shape s ws sg neg ds rest : decimal_shape s ws sg neg ds rest -> strtol64 s = parsed_int64 neg ds.
Proof.
  intros Sh. rewrite strtol64_scan, (scan_of_shape _ _ _ _ _ _ Sh). unfold parsed_int64, int64_min, int64_max.
  rewrite length_zero_iff_nil. destruct ds as [|d t]; [reflexivity|]. destruct neg.
  - destruct (horner (d :: t) >? 9223372036854775808) eqn:E; lia.
  - destruct (horner (d :: t) >? 9223372036854775807) eqn:E; lia.
Qed.

Lemma strtoul64_of_shape s ws sg neg ds rest : decimal_shape s ws sg neg ds rest -> strtoul64 s = parsed_uint64 neg ds.
Proof.
  intros Sh. rewrite strtoul64_scan, (scan_of_shape _ _ _ _ _ _ Sh). unfold parsed_uint64, uint64_max, w64.
  rewrite length_zero_iff_nil. destruct ds as [|d t]; reflexivity.
Qed.

(* every byte string has the shape *)
Lemma span_exists (p : Z -> bool) : forall l, exists a b, l = a ++ b /\ forallb p a = true /\ first_is p b = false.
Proof.
  induction l as [|c t IH].
  - exists [], []. repeat split.
  - destruct (p c) eqn:E.
    + destruct IH as (a & b & -> & Ha & Hb). exists (c :: a), b. cbn [app forallb]. rewrite E. repeat split; assumption.
    + exists [], (c :: t). cbn [app forallb first_is]. repeat split; assumption.
Qed.

Lemma decimal_shape_exists s : exists ws sg neg ds rest, decimal_shape s ws sg neg ds rest.
Proof.
  destruct (span_exists is_space s) as (ws & l1 & -> & Hws & Hl1).
  assert (C : exists sg neg l2, l1 = sg ++ l2 /\ sign_text sg neg /\
              (sg = [] -> first_is (fun c => is_space c || (c =? 43) || (c =? 45)) l2 = false)).
  { destruct l1 as [|c t].
    - exists [], false, []. split; [reflexivity|]. split; [left; split; reflexivity|reflexivity].
    - destruct (c =? 43) eqn:E43; [|destruct (c =? 45) eqn:E45].
      + assert (c = 43) by lia. subst c. exists [43], false, t. split; [reflexivity|]. split; [right; left; split; reflexivity|discriminate].
      + assert (c = 45) by lia. subst c. exists [45], true, t. split; [reflexivity|]. split; [right; right; split; reflexivity|discriminate].
      + exists [], false, (c :: t). split; [reflexivity|]. split; [left; split; reflexivity|].
        intros _. cbn [first_is] in *. rewrite Hl1, E43, E45. reflexivity. }
  destruct C as (sg & neg & l2 & -> & Hsg & Hns).
  destruct (span_exists is_digit l2) as (ds & rest & -> & Hds & Hrest).
  exists ws, sg, neg, ds, rest. repeat split; assumption.
Qed.

(* the statement about all byte strings: shape and the value of each conversion *)
Lemma parsers_on_all_strings s :
  exists ws sg neg ds rest, decimal_shape s ws sg neg ds rest /\
    to_int64 s = parsed_int64 neg ds /\ to_uint64 s = parsed_uint64 neg ds /\
    to_int s = parsed_int neg ds /\ to_uint s = parsed_uint neg ds.
Proof.
  destruct (decimal_shape_exists s) as (ws & sg & neg & ds & rest & Sh).
  exists ws, sg, neg, ds, rest. split; [exact Sh|].
  unfold to_int64, to_uint64, to_int, to_uint, parsed_int, parsed_uint.
  rewrite (strtol64_of_shape _ _ _ _ _ _ Sh), (strtoul64_of_shape _ _ _ _ _ _ Sh). repeat split; reflexivity.
Qed.

(* ... and any way of reading s in that shape gives these values (so: trailing bytes, the amount of white space
   and a '+' do not matter) *)
Lemma parsers_value_of_shape s ws sg neg ds rest : decimal_shape s ws sg neg ds rest ->
  to_int64 s = parsed_int64 neg ds /\ to_uint64 s = parsed_uint64 neg ds /\
  to_int s = parsed_int neg ds /\ to_uint s = parsed_uint neg ds.
Proof.
  intros Sh. unfold to_int64, to_uint64, to_int, to_uint, parsed_int, parsed_uint.
  rewrite (strtol64_of_shape _ _ _ _ _ _ Sh), (strtoul64_of_shape _ _ _ _ _ _ Sh). repeat split; reflexivity.
Qed.

(* ------------------------------------------------------------------------------------------ *)
(* (3) corollaries: canonical text, print-then-parse                                            *)
(* ------------------------------------------------------------------------------------------ *)

Lemma canonical_first_digit ds : canonical_digits ds = true ->
  forallb is_digit ds = true /\ ds <> [] /\ first_is (fun c => is_space c || (c =? 43) || (c =? 45)) ds = false.
Proof.
  intros H. destruct (canonical_nonempty ds H) as (d & t & -> & Hd & Hall).
  split; [exact Hall|]. split; [discriminate|]. cbn [first_is]. unfold is_space. lia.
Qed.

Lemma shape_of_decimal s v : decimal_of s v ->
  exists sg neg ds, decimal_shape s [] sg neg ds [] /\ ds <> [] /\ (if neg then - horner ds else horner ds) = v.
Proof.
  unfold decimal_of. destruct (v <? 0) eqn:E.
  - intros (ds & -> & Hc & Hh). destruct (canonical_first_digit ds Hc) as (Hd & Hn & _).
    exists [45], true, ds. split; [|split; [exact Hn|lia]].
    split; [cbn [app]; rewrite app_nil_r; reflexivity|]. split; [reflexivity|].
    split; [right; right; split; reflexivity|]. split; [discriminate|]. split; [exact Hd|reflexivity].
  - intros (Hc & Hh). destruct (canonical_first_digit s Hc) as (Hd & Hn & Hf).
    exists [], false, s. split; [|split; [exact Hn|exact Hh]].
    split; [cbn [app]; rewrite app_nil_r; reflexivity|]. split; [reflexivity|].
    split; [left; split; reflexivity|]. split; [intros _; rewrite app_nil_r; exact Hf|]. split; [exact Hd|reflexivity].
Qed.

Lemma horner_nonneg ds : forallb is_digit ds = true -> 0 <= horner ds.
Proof.
  intros H. unfold horner. assert (G : forall l acc, forallb is_digit l = true -> 0 <= acc -> 0 <= fold_left (fun a c => a * 10 + (c - 48)) l acc).
  { induction l as [|c t IH]; intros acc Hl Ha; [exact Ha|].
    cbn [forallb] in Hl. apply andb_prop in Hl. destruct Hl as [Hc Ht]. cbn [fold_left]. apply IH; [exact Ht|].
    unfold is_digit in Hc. lia. }
  apply G; [exact H|lia].
Qed.

(* parse of THE decimal text of an in-range value, from the general statement *)
Lemma integer_parses_canonical_cor s v : decimal_of s v ->
  (int_min <= v <= int_max -> to_int s = v) /\
  (0 <= v <= uint_max -> to_uint s = v) /\
  (int64_min <= v <= int64_max -> to_int64 s = v) /\
  (0 <= v <= uint64_max -> to_uint64 s = v).
Proof.
  intros D. destruct (shape_of_decimal s v D) as (sg & neg & ds & Sh & Hn & Hv).
  destruct (parsers_value_of_shape _ _ _ _ _ _ Sh) as (E64 & EU64 & E32 & EU32).
  assert (Hd : forallb is_digit ds = true) by (destruct Sh as (_ & _ & _ & _ & Hd & _); exact Hd).
  pose proof (horner_nonneg ds Hd) as Hh.
  assert (P64 : int64_min <= v <= int64_max -> parsed_int64 neg ds = v).
  { unfold parsed_int64, int64_min, int64_max. intros R. destruct ds as [|d t]; [congruence|]. destruct neg; lia. }
  assert (PU64 : 0 <= v <= uint64_max -> parsed_uint64 neg ds = v).
  { unfold parsed_uint64, uint64_max. intros R. destruct ds as [|d t]; [congruence|].
    destruct neg.
    - assert (horner (d :: t) = 0) by lia. assert (v = 0) by lia. subst v.
      replace (horner (d :: t) >? 18446744073709551615) with false by lia. rewrite H. reflexivity.
    - replace (horner (d :: t) >? 18446744073709551615) with false by lia. exact Hv. }
  unfold int_min, int_max, uint_max, int64_min, int64_max, uint64_max in *.
  split; [|split; [|split]]; intros R.
  - rewrite E32. unfold parsed_int. rewrite P64 by lia.
    destruct (v mod 4294967296 <? 2147483648) eqn:E; lia.
  - rewrite EU32. unfold parsed_uint. rewrite PU64 by lia. lia.
  - rewrite E64. apply P64. exact R.
  - rewrite EU64. apply PU64. exact R.
Qed.

Lemma integer_roundtrips_cast_cor v :
  to_int (from_int v) = sx32 v /\ to_uint (from_uint v) = w32 v /\
  to_int64 (from_int64 v) = sx64 v /\ to_uint64 (from_uint64 v) = w64 v.
Proof.
  pose proof (sx32_range v). pose proof (w32_range v). pose proof (sx64_range v). pose proof (w64_range v).
  unfold int_min, int_max, uint_max, int64_min, int64_max, uint64_max in *.
  split; [|split; [|split]].
  - apply (proj1 (integer_parses_canonical_cor _ _ (proj1 (from_int_decimal v)))). unfold int_min, int_max. lia.
  - apply (proj1 (proj2 (integer_parses_canonical_cor _ _ (proj1 (from_uint_decimal v))))). unfold uint_max. lia.
  - apply (proj1 (proj2 (proj2 (integer_parses_canonical_cor _ _ (proj1 (from_int64_decimal v)))))). unfold int64_min, int64_max. lia.
  - apply (proj2 (proj2 (proj2 (integer_parses_canonical_cor _ _ (proj1 (from_uint64_decimal v)))))). unfold uint64_max. lia.
Qed.

Lemma integer_roundtrips_in_range_cor :
  (forall v, int_min <= v <= int_max -> to_int (from_int v) = v) /\
  (forall v, 0 <= v <= uint_max -> to_uint (from_uint v) = v) /\
  (forall v, int64_min <= v <= int64_max -> to_int64 (from_int64 v) = v) /\
  (forall v, 0 <= v <= uint64_max -> to_uint64 (from_uint64 v) = v).
Proof.
  unfold int_min, int_max, uint_max, int64_min, int64_max, uint64_max.
  split; [|split; [|split]]; intros v R; destruct (integer_roundtrips_cast_cor v) as (A & B & C & D).
  - rewrite A. apply sx32_id. exact R.
  - rewrite B. apply w32_id. exact R.
  - rewrite C. apply sx64_id. exact R.
  - rewrite D. apply w64_id. exact R.
Qed.

(* non-canonical forms of one number read alike: white space before it, a '+', leading zeros, and anything that does
   not start with a digit after it change nothing *)
Lemma same_prefix_value_same_results s1 s2 ws1 sg1 ds1 rest1 ws2 sg2 ds2 rest2 neg :
  decimal_shape s1 ws1 sg1 neg ds1 rest1 -> decimal_shape s2 ws2 sg2 neg ds2 rest2 ->
  ds1 <> [] -> ds2 <> [] -> horner ds1 = horner ds2 ->
  to_int s1 = to_int s2 /\ to_uint s1 = to_uint s2 /\ to_int64 s1 = to_int64 s2 /\ to_uint64 s1 = to_uint64 s2.
Proof.
  intros S1 S2 N1 N2 Hh.
  destruct (parsers_value_of_shape _ _ _ _ _ _ S1) as (A1 & B1 & C1 & D1).
  destruct (parsers_value_of_shape _ _ _ _ _ _ S2) as (A2 & B2 & C2 & D2).
  assert (P : parsed_int64 neg ds1 = parsed_int64 neg ds2 /\ parsed_uint64 neg ds1 = parsed_uint64 neg ds2).
  { unfold parsed_int64, parsed_uint64. destruct ds1; [congruence|]. destruct ds2; [congruence|]. rewrite Hh. split; reflexivity. }
  destruct P as [P1 P2]. unfold parsed_int, parsed_uint in *. rewrite C1, C2, D1, D2, A1, A2, B1, B2, P1, P2. repeat split; reflexivity.
Qed.

Lemma horner_leading_zeros zs ds : forallb (fun c => c =? 48) zs = true -> horner (zs ++ ds) = horner ds.
Proof.
  unfold horner. rewrite fold_left_app. intros H. f_equal.
  induction zs as [|z t IH]; [reflexivity|]. cbn [forallb] in H. apply andb_prop in H. destruct H as [Hz Ht].
  cbn [fold_left]. replace (0 * 10 + (z - 48)) with 0 by lia. apply IH. exact Ht.
Qed.

Lemma zeros_are_digits zs : forallb (fun c => c =? 48) zs = true -> forallb is_digit zs = true.
Proof.
  induction zs as [|z t IH]; [reflexivity|]. cbn [forallb]. intros H. apply andb_prop in H. destruct H as [Hz Ht].
  rewrite IH by exact Ht. unfold is_digit. lia.
Qed.

Lemma noncanonical_forms_agree ws zs ds rest :
  forallb is_space ws = true -> forallb (fun c => c =? 48) zs = true -> forallb is_digit ds = true -> ds <> [] ->
  first_is is_digit rest = false ->
  (forall sg, sg = [] \/ sg = [43] ->
     let s := ws ++ sg ++ (zs ++ ds) ++ rest in
     to_int s = to_int ds /\ to_uint s = to_uint ds /\ to_int64 s = to_int64 ds /\ to_uint64 s = to_uint64 ds) /\
  (let s := ws ++ [45] ++ (zs ++ ds) ++ rest in
   to_int s = to_int (45 :: ds) /\ to_uint s = to_uint (45 :: ds) /\ to_int64 s = to_int64 (45 :: ds) /\ to_uint64 s = to_uint64 (45 :: ds)).
Proof.
  intros Hws Hzs Hds Hn Hrest.
  assert (Hzd : forallb is_digit (zs ++ ds) = true) by (rewrite forallb_app, (zeros_are_digits zs Hzs), Hds; reflexivity).
  assert (Hzn : zs ++ ds <> []) by (destruct zs; [exact Hn|discriminate]).
  assert (F : forall l r, forallb is_digit l = true -> l <> [] ->
              first_is (fun c => is_space c || (c =? 43) || (c =? 45)) (l ++ r) = false).
  { intros [|c l] r Hl Hne; [congruence|]. cbn [forallb] in Hl. apply andb_prop in Hl. destruct Hl as [Hc _].
    cbn [app first_is]. unfold is_digit in Hc. unfold is_space. lia. }
  split.
  - intros sg Hsg s.
    apply (same_prefix_value_same_results s ds ws sg (zs ++ ds) rest [] [] ds [] false); auto.
    + split; [reflexivity|]. split; [exact Hws|]. split; [destruct Hsg as [-> | ->]; [left|right; left]; split; reflexivity|].
      split; [intros _; apply F; assumption|]. split; [exact Hzd|exact Hrest].
    + split; [cbn [app]; rewrite app_nil_r; reflexivity|]. split; [reflexivity|]. split; [left; split; reflexivity|].
      split; [intros _; apply F; assumption|]. split; [exact Hds|reflexivity].
    + apply horner_leading_zeros. exact Hzs.
  - intros s.
    apply (same_prefix_value_same_results s (45 :: ds) ws [45] (zs ++ ds) rest [] [45] ds [] true); auto.
    + split; [reflexivity|]. split; [exact Hws|]. split; [right; right; split; reflexivity|].
      split; [discriminate|]. split; [exact Hzd|exact Hrest].
    + split; [cbn [app]; rewrite app_nil_r; reflexivity|]. split; [reflexivity|]. split; [right; right; split; reflexivity|].
      split; [discriminate|]. split; [exact Hds|reflexivity].
    + apply horner_leading_zeros. exact Hzs.
Qed.
