(* Lemmas for property C18 (component Codec), part 2: decimal conversions, and the decoders against
   the reference readers of CodecSpec (utf8_first / utf8_text). *)
From Coq Require Import ZArith List Bool Lia ZifyBool ZifyNat ZifyN.
From Common Require Import Words ListAux.
From Codec Require Import Gen_Codec CodecSpec CodecModel CodecProofs.
Import ListNotations.
Local Open Scope Z_scope.
Local Open Scope bool_scope.
Ltac Zify.zify_post_hook ::= Z.div_mod_to_equations.

(* ------------------------------------------------------------------------------------------ *)
(* the digit loop of the printer = the reference printer                                        *)
(* ------------------------------------------------------------------------------------------ *)

Definition dstep (a c : Z) : Z := a * 10 + (c - 48).

Lemma horner_unfold ds : horner ds = fold_left dstep ds 0.
Proof. reflexivity. Qed.

Lemma horner_snoc ds x : horner (ds ++ [x]) = horner ds * 10 + (x - 48).
Proof. unfold horner. rewrite fold_left_app. reflexivity. Qed.

Lemma fmt_loop_ref : forall fuel v acc, 0 <= v -> fmt_loop fuel v acc = ref_digits fuel v ++ acc.
Proof.
  induction fuel as [|f IH]; intros v acc Hv; [reflexivity|].
  cbn [fmt_loop ref_digits].
  destruct (v <? 10) eqn:E.
  - replace (v / 10 =? 0) with true by lia. replace (v mod 10) with v by lia. reflexivity.
  - replace (v / 10 =? 0) with false by lia.
    rewrite IH by lia. rewrite <- app_assoc. reflexivity.
Qed.

(* more fuel than digits does not change the reference printer *)
Lemma ref_digits_fuel : forall f v k, 0 <= v < 10 ^ Z.of_nat f -> (0 < f)%nat ->
  ref_digits (f + k) v = ref_digits f v.
Proof.
  induction f as [|f IH]; intros v k Hv Hf; [lia|].
  cbn [Nat.add ref_digits].
  destruct (v <? 10) eqn:E; [reflexivity|].
  destruct f as [|f'].
  { change (10 ^ Z.of_nat 1) with 10 in Hv. lia. }
  rewrite IH; [reflexivity| |lia].
  rewrite Nat2Z.inj_succ, Z.pow_succ_r in Hv by lia. lia.
Qed.

Lemma is_digit_range c : is_digit c = true <-> 48 <= c <= 57.
Proof. unfold is_digit. lia. Qed.

(* the digits of a positive number: all digits, first one not '0', Horner value v *)
Lemma ref_digits_pos : forall f v, 0 < v < 10 ^ Z.of_nat f ->
  exists d t, ref_digits f v = d :: t /\ 49 <= d <= 57 /\ forallb is_digit t = true /\ horner (d :: t) = v.
Proof.
  induction f as [|f IH]; intros v Hv.
  { change (10 ^ Z.of_nat 0) with 1 in Hv. lia. }
  cbn [ref_digits]. destruct (v <? 10) eqn:E.
  - exists (48 + v), []. repeat split; try lia. unfold horner. cbn [fold_left]. lia.
  - rewrite Nat2Z.inj_succ, Z.pow_succ_r in Hv by lia.
    destruct (IH (v / 10)) as (d & t & Hr & Hd & Ht & Hh); [lia|].
    rewrite Hr. exists d, (t ++ [48 + v mod 10]). split; [reflexivity|]. split; [exact Hd|]. split.
    + rewrite forallb_app, Ht. cbn [forallb]. unfold is_digit. lia.
    + change (d :: t ++ [48 + v mod 10]) with ((d :: t) ++ [48 + v mod 10]).
      rewrite horner_snoc, Hh. lia.
Qed.

Lemma ref_digits_canonical f v : 0 <= v < 10 ^ Z.of_nat f -> (0 < f)%nat ->
  canonical_digits (ref_digits f v) = true /\ horner (ref_digits f v) = v.
Proof.
  intros Hv Hf. destruct (Z.eq_dec v 0) as [->|Hne].
  - destruct f; [lia|]. cbn [ref_digits]. split; reflexivity.
  - destruct (ref_digits_pos f v) as (d & t & Hr & Hd & Ht & Hh); [lia|].
    rewrite Hr. split; [|exact Hh].
    unfold canonical_digits. cbn [forallb]. rewrite Ht.
    replace (is_digit d) with true by (unfold is_digit; lia).
    destruct t; [reflexivity|]. cbn [andb]. lia.
Qed.

Lemma fmt_u_ref v : 0 <= v < 10 ^ 20 -> fmt_u v = ref_digits 40 v.
Proof.
  intros H. unfold fmt_u. rewrite fmt_loop_ref by lia. rewrite app_nil_r.
  symmetry. apply (ref_digits_fuel 20 v 20); [exact H|lia].
Qed.

Lemma fmt_u_canonical v : 0 <= v < 10 ^ 20 -> canonical_digits (fmt_u v) = true /\ horner (fmt_u v) = v.
Proof.
  intros H. unfold fmt_u. rewrite fmt_loop_ref by lia. rewrite app_nil_r.
  apply ref_digits_canonical; [exact H|lia].
Qed.

Lemma fmt_d_ref v : - 10 ^ 20 < v < 10 ^ 20 -> fmt_d v = ref_decimal v.
Proof.
  intros H. unfold fmt_d, ref_decimal.
  destruct (v <? 0) eqn:E; rewrite fmt_u_ref by lia; reflexivity.
Qed.

Lemma fmt_d_decimal v : - 10 ^ 20 < v < 10 ^ 20 -> decimal_of (fmt_d v) v.
Proof.
  intros H. unfold decimal_of, fmt_d. destruct (v <? 0) eqn:E.
  - exists (fmt_u (- v)). split; [reflexivity|]. apply fmt_u_canonical. lia.
  - apply fmt_u_canonical. lia.
Qed.

Lemma fmt_u_decimal v : 0 <= v < 10 ^ 20 -> decimal_of (fmt_u v) v.
Proof.
  intros H. unfold decimal_of. replace (v <? 0) with false by lia. apply fmt_u_canonical. exact H.
Qed.

(* ranges of the four casts *)
Lemma sx32_range v : -2147483648 <= sx32 v <= 2147483647.
Proof. unfold sx32, w32. cbv zeta. destruct (v mod 4294967296 <? 2147483648) eqn:E; lia. Qed.
Lemma sx64_range v : -9223372036854775808 <= sx64 v <= 9223372036854775807.
Proof. unfold sx64, w64. cbv zeta. destruct (v mod 18446744073709551616 <? 9223372036854775808) eqn:E; lia. Qed.
Lemma w64_range v : 0 <= w64 v <= 18446744073709551615.
Proof. unfold w64. lia. Qed.
Lemma sx32_id v : -2147483648 <= v <= 2147483647 -> sx32 v = v.
Proof. intros H. unfold sx32, w32. cbv zeta. destruct (v mod 4294967296 <? 2147483648) eqn:E; lia. Qed.
Lemma sx64_id v : -9223372036854775808 <= v <= 9223372036854775807 -> sx64 v = v.
Proof. intros H. unfold sx64, w64. cbv zeta. destruct (v mod 18446744073709551616 <? 9223372036854775808) eqn:E; lia. Qed.
Lemma w64_id v : 0 <= v <= 18446744073709551615 -> w64 v = v.
Proof. intros H. unfold w64. lia. Qed.
Lemma w32_id v : 0 <= v <= 4294967295 -> w32 v = v.
Proof. intros H. unfold w32. lia. Qed.

Lemma pow10_20 : 10 ^ 20 = 100000000000000000000.
Proof. reflexivity. Qed.

(* printing: the text is THE canonical decimal text of the (cast) argument, and equals the reference printer *)
Lemma from_int_decimal v : decimal_of (from_int v) (sx32 v) /\ from_int v = ref_decimal (sx32 v).
Proof.
  pose proof (sx32_range v) as R. unfold from_int.
  split; [apply fmt_d_decimal|apply fmt_d_ref]; rewrite pow10_20; lia.
Qed.
Lemma from_int64_decimal v : decimal_of (from_int64 v) (sx64 v) /\ from_int64 v = ref_decimal (sx64 v).
Proof.
  pose proof (sx64_range v) as R. unfold from_int64.
  split; [apply fmt_d_decimal|apply fmt_d_ref]; rewrite pow10_20; lia.
Qed.
Lemma from_uint_decimal v : decimal_of (from_uint v) (w32 v) /\ from_uint v = ref_decimal (w32 v).
Proof.
  pose proof (w32_range v) as R. unfold from_uint.
  split; [apply fmt_u_decimal; rewrite pow10_20; lia|].
  unfold ref_decimal. replace (w32 v <? 0) with false by lia. apply fmt_u_ref. rewrite pow10_20. lia.
Qed.
Lemma from_uint64_decimal v : decimal_of (from_uint64 v) (w64 v) /\ from_uint64 v = ref_decimal (w64 v).
Proof.
  pose proof (w64_range v) as R. unfold from_uint64.
  split; [apply fmt_u_decimal; rewrite pow10_20; lia|].
  unfold ref_decimal. replace (w64 v <? 0) with false by lia. apply fmt_u_ref. rewrite pow10_20. lia.
Qed.

(* ------------------------------------------------------------------------------------------ *)
(* the parsers read canonical decimal text exactly                                              *)
(* ------------------------------------------------------------------------------------------ *)

Lemma digits_value_all : forall ds acc n, forallb is_digit ds = true ->
  digits_value ds acc n = (fold_left dstep ds acc, (n + length ds)%nat).
Proof.
  induction ds as [|c t IH]; intros acc n H.
  - cbn [digits_value fold_left length]. f_equal. lia.
  - cbn [forallb] in H. apply andb_prop in H. destruct H as [Hc Ht].
    cbn [digits_value]. unfold c_isdigit. unfold is_digit in Hc. rewrite Hc.
    rewrite IH by exact Ht. cbn [fold_left length]. unfold dstep at 2. f_equal. lia.
Qed.

Lemma canonical_nonempty ds : canonical_digits ds = true ->
  exists d t, ds = d :: t /\ 48 <= d <= 57 /\ forallb is_digit ds = true.
Proof.
  unfold canonical_digits. intros H. apply andb_prop in H. destruct H as [Hd Hc].
  destruct ds as [|d t]; [discriminate|].
  exists d, t. split; [reflexivity|]. split; [|exact Hd].
  cbn [forallb] in Hd. apply andb_prop in Hd. destruct Hd as [Hd _]. apply is_digit_range. exact Hd.
Qed.

Lemma skip_space_digit d t : 48 <= d <= 57 -> skip_space (d :: t) = d :: t.
Proof. intros H. cbn [skip_space]. unfold c_isspace. replace ((d =? 32) || (9 <=? d) && (d <=? 13)) with false by lia. reflexivity. Qed.

Lemma split_sign_digit d t : 48 <= d <= 57 -> split_sign (d :: t) = (false, d :: t).
Proof.
  intros H.
  assert (C : d = 48 \/ d = 49 \/ d = 50 \/ d = 51 \/ d = 52 \/ d = 53 \/ d = 54 \/ d = 55 \/ d = 56 \/ d = 57) by lia.
  destruct C as [->|[->|[->|[->|[->|[->|[->|[->|[->| ->]]]]]]]]]; reflexivity.
Qed.

(* the scanner part shared by strtol and strtoul, on canonical text *)
Definition scan (s : list Z) : bool * (Z * nat) :=
  let (neg, s2) := split_sign (skip_space s) in (neg, digits_value s2 0 0).

Lemma scan_nonneg s : canonical_digits s = true -> scan s = (false, (horner s, length s)) /\ (0 < length s)%nat.
Proof.
  intros H. destruct (canonical_nonempty s H) as (d & t & -> & Hd & Hall).
  unfold scan. rewrite skip_space_digit, split_sign_digit by exact Hd. cbv iota beta.
  rewrite digits_value_all by exact Hall. split; [reflexivity|cbn [length]; lia].
Qed.

Lemma scan_neg ds : canonical_digits ds = true -> scan (45 :: ds) = (true, (horner ds, length ds)) /\ (0 < length ds)%nat.
Proof.
  intros H. destruct (canonical_nonempty ds H) as (d & t & -> & Hd & Hall).
  unfold scan. change (skip_space (45 :: d :: t)) with (45 :: d :: t).
  change (split_sign (45 :: d :: t)) with (true, d :: t). cbv iota beta.
  rewrite digits_value_all by exact Hall. split; [reflexivity|cbn [length]; lia].
Qed.

Lemma strtol64_scan s : strtol64 s =
  let '(neg, (v, n)) := scan s in
  if (n =? 0)%nat then 0
  else if neg then (if v >? 9223372036854775808 then -9223372036854775808 else - v)
  else (if v >? 9223372036854775807 then 9223372036854775807 else v).
Proof. unfold strtol64, scan. destruct (split_sign (skip_space s)) as [neg s2]. destruct (digits_value s2 0 0). reflexivity. Qed.

Lemma strtoul64_scan s : strtoul64 s =
  let '(neg, (v, n)) := scan s in
  if (n =? 0)%nat then 0
  else if v >? 18446744073709551615 then 18446744073709551615
  else if neg then w64 (- v) else v.
Proof. unfold strtoul64, scan. destruct (split_sign (skip_space s)) as [neg s2]. destruct (digits_value s2 0 0). reflexivity. Qed.

Lemma strtol64_decimal s v : decimal_of s v -> -9223372036854775808 <= v <= 9223372036854775807 -> strtol64 s = v.
Proof.
  intros D R. rewrite strtol64_scan. unfold decimal_of in D. destruct (v <? 0) eqn:E.
  - destruct D as (ds & -> & Hc & Hh). destruct (scan_neg ds Hc) as [-> Hl]. rewrite Hh.
    replace (length ds =? 0)%nat with false by lia.
    replace (- v >? 9223372036854775808) with false by lia. lia.
  - destruct D as (Hc & Hh). destruct (scan_nonneg s Hc) as [-> Hl]. rewrite Hh.
    replace (length s =? 0)%nat with false by lia.
    replace (v >? 9223372036854775807) with false by lia. reflexivity.
Qed.

Lemma strtoul64_decimal s v : decimal_of s v -> 0 <= v <= 18446744073709551615 -> strtoul64 s = v.
Proof.
  intros D R. rewrite strtoul64_scan. unfold decimal_of in D. replace (v <? 0) with false in D by lia.
  destruct D as (Hc & Hh). destruct (scan_nonneg s Hc) as [-> Hl]. rewrite Hh.
  replace (length s =? 0)%nat with false by lia.
  replace (v >? 18446744073709551615) with false by lia. reflexivity.
Qed.

(* strtoul on the text of a negative number negates modulo 2^64 (what the code does; not asked by the property) *)
Lemma strtoul64_negative s v : decimal_of s v -> -18446744073709551615 <= v < 0 -> strtoul64 s = w64 v.
Proof.
  intros D R. rewrite strtoul64_scan. unfold decimal_of in D. replace (v <? 0) with true in D by lia.
  destruct D as (ds & -> & Hc & Hh). destruct (scan_neg ds Hc) as [-> Hl]. rewrite Hh.
  replace (length ds =? 0)%nat with false by lia.
  replace (- v >? 18446744073709551615) with false by lia. f_equal. lia.
Qed.

(* exact parse of the canonical text of every value of the type *)
Lemma to_int_decimal s v : decimal_of s v -> int_min <= v <= int_max -> to_int s = v.
Proof. unfold int_min, int_max, to_int. intros D R. rewrite (strtol64_decimal s v D) by lia. apply sx32_id. exact R. Qed.
Lemma to_uint_decimal s v : decimal_of s v -> 0 <= v <= uint_max -> to_uint s = v.
Proof. unfold uint_max, to_uint. intros D R. rewrite (strtoul64_decimal s v D) by lia. apply w32_id. exact R. Qed.
Lemma to_int64_decimal s v : decimal_of s v -> int64_min <= v <= int64_max -> to_int64 s = v.
Proof. unfold int64_min, int64_max, to_int64. intros D R. apply strtol64_decimal; assumption. Qed.
Lemma to_uint64_decimal s v : decimal_of s v -> 0 <= v <= uint64_max -> to_uint64 s = v.
Proof. unfold uint64_max, to_uint64. intros D R. apply strtoul64_decimal; assumption. Qed.

(* print then parse: the identity on the type, the C cast outside it *)
Lemma int_roundtrip v : to_int (from_int v) = sx32 v.
Proof. apply to_int_decimal; [apply from_int_decimal|]. pose proof (sx32_range v). unfold int_min, int_max. lia. Qed.
Lemma uint_roundtrip v : to_uint (from_uint v) = w32 v.
Proof. apply to_uint_decimal; [apply from_uint_decimal|]. pose proof (w32_range v). unfold uint_max. lia. Qed.
Lemma int64_roundtrip v : to_int64 (from_int64 v) = sx64 v.
Proof. apply to_int64_decimal; [apply from_int64_decimal|]. pose proof (sx64_range v). unfold int64_min, int64_max. lia. Qed.
Lemma uint64_roundtrip v : to_uint64 (from_uint64 v) = w64 v.
Proof. apply to_uint64_decimal; [apply from_uint64_decimal|]. pose proof (w64_range v). unfold uint64_max. lia. Qed.

Lemma integer_roundtrips_in_range :
  (forall v, int_min <= v <= int_max -> to_int (from_int v) = v) /\
  (forall v, 0 <= v <= uint_max -> to_uint (from_uint v) = v) /\
  (forall v, int64_min <= v <= int64_max -> to_int64 (from_int64 v) = v) /\
  (forall v, 0 <= v <= uint64_max -> to_uint64 (from_uint64 v) = v).
Proof.
  unfold int_min, int_max, uint_max, int64_min, int64_max, uint64_max.
  split; [|split; [|split]]; intros v R.
  - rewrite int_roundtrip. apply sx32_id. exact R.
  - rewrite uint_roundtrip. apply w32_id. exact R.
  - rewrite int64_roundtrip. apply sx64_id. exact R.
  - rewrite uint64_roundtrip. apply w64_id. exact R.
Qed.

Lemma integer_prints_canonical v :
  (decimal_of (from_int v) (sx32 v) /\ from_int v = ref_decimal (sx32 v)) /\
  (decimal_of (from_uint v) (w32 v) /\ from_uint v = ref_decimal (w32 v)) /\
  (decimal_of (from_int64 v) (sx64 v) /\ from_int64 v = ref_decimal (sx64 v)) /\
  (decimal_of (from_uint64 v) (w64 v) /\ from_uint64 v = ref_decimal (w64 v)).
Proof. exact (conj (from_int_decimal v) (conj (from_uint_decimal v) (conj (from_int64_decimal v) (from_uint64_decimal v)))). Qed.

Lemma integer_parses_canonical s v : decimal_of s v ->
  (int_min <= v <= int_max -> to_int s = v) /\
  (0 <= v <= uint_max -> to_uint s = v) /\
  (int64_min <= v <= int64_max -> to_int64 s = v) /\
  (0 <= v <= uint64_max -> to_uint64 s = v).
Proof.
  intros D. split; [|split; [|split]]; intros R.
  - apply to_int_decimal; assumption.
  - apply to_uint_decimal; assumption.
  - apply to_int64_decimal; assumption.
  - apply to_uint64_decimal; assumption.
Qed.

(* ------------------------------------------------------------------------------------------ *)
(* the decoders against the reference readers                                                    *)
(* ------------------------------------------------------------------------------------------ *)

Lemma is_prefix_app p : forall l, is_prefix p l = true -> exists rest, l = p ++ rest.
Proof.
  induction p as [|x p IH]; intros l H.
  - exists l. reflexivity.
  - destruct l as [|y l]; [discriminate|]. cbn [is_prefix] in H. apply andb_prop in H. destruct H as [Hxy Hp].
    destruct (IH l Hp) as (rest & ->). exists rest. cbn [app]. f_equal. lia.
Qed.

(* whenever the range starts with the UTF-8 encoding of a code point, fromString returns it *)
Lemma from_string_utf8_first bs cp : utf8_first bs = Some cp -> from_string bs = Ok cp.
Proof.
  unfold utf8_first. destruct (layout_decode bs) as [c|]; [|discriminate].
  destruct (is_cp c && is_prefix (rfc3629 c) bs) eqn:E; [|discriminate].
  intros H. injection H as ->. apply andb_prop in E. destruct E as [Hc Hp].
  destruct (is_prefix_app _ _ Hp) as (rest & ->).
  apply from_string_rfc3629. apply is_cp_range. exact Hc.
Qed.

(* a lead byte announcing more bytes than the range holds: fromString returns 0 and reads nothing beyond *)
Lemma from_string_truncated b0 t : 128 <= b0 < 256 ->
  Z.of_nat (length (b0 :: t)) < lead_len b0 -> from_string (b0 :: t) = Ok 0.
Proof.
  intros Hb Hl. unfold from_string. rewrite of_nat_length_cons in *.
  replace (1 + Z.of_nat (length t) =? 0) with false by lia.
  cbn [peek nth_error bind]. rewrite w8_small, land_128_small by lia.
  replace (b0 <? 128) with false by lia.
  rewrite lead_len_of_utf8_len by lia.
  replace (1 + Z.of_nat (length t) <? lead_len b0) with true by lia. reflexivity.
Qed.

Lemma skipn_app_exact {A} (a b : list A) : skipn (length a) (a ++ b) = b.
Proof. induction a as [|x a IH]; [reflexivity|]. cbn [length app skipn]. exact IH. Qed.

Lemma utf8_text_fuel_decompose : forall f bs, utf8_text_fuel f bs = true ->
  exists cps, (forall cp, In cp cps -> 0 <= cp < 1114112) /\ bs = flat_map rfc3629 cps.
Proof.
  induction f as [|f IH]; intros bs H; [discriminate|].
  cbn [utf8_text_fuel] in H. destruct bs as [|b0 t].
  { exists []. split; [intros cp []|reflexivity]. }
  remember (b0 :: t) as bs eqn:Ebs.
  unfold utf8_first in H. destruct (layout_decode bs) as [c|]; [|discriminate].
  destruct (is_cp c && is_prefix (rfc3629 c) bs) eqn:E; [|discriminate].
  apply andb_prop in E. destruct E as [Hc Hp].
  destruct (is_prefix_app _ _ Hp) as (rest & Hrest). rewrite Hrest in H.
  rewrite skipn_app_exact in H.
  destruct (IH rest H) as (cps & Hr & ->).
  exists (c :: cps). split.
  - intros cp [<-|Hin]; [apply is_cp_range; exact Hc|apply Hr; exact Hin].
  - rewrite Hrest. reflexivity.
Qed.

(* isValid accepts every concatenation of encodings of code points *)
Lemma is_valid_utf8_text bs : utf8_text bs = true -> is_valid bs = Ok true.
Proof.
  intros H. destruct (utf8_text_fuel_decompose _ _ H) as (cps & Hr & ->).
  rewrite <- to_string_n_rfc3629 by exact Hr. apply is_valid_to_string_n. exact Hr.
Qed.

(* the three readers never fail a read, for every byte list; what they return *)
Lemma readers_in_bounds bs : wf_bytes bs = true ->
  (exists v, from_string bs = Ok v) /\ is_valid bs = Ok (layout_valid bs) /\
  (forall b, In b bs -> utf8_length b = lead_len b).
Proof.
  intros H. split; [apply from_string_in_bounds|]. split; [apply is_valid_layout; exact H|].
  intros b Hb. apply utf8_length_lead_len. apply (proj1 (wf_bytes_forall bs) H). exact Hb.
Qed.

Lemma from_string_never_fails bs : forall e, from_string bs <> Err e.
Proof. intros e. destruct (from_string_in_bounds bs) as (v & ->). discriminate. Qed.

Lemma is_valid_never_fails bs : wf_bytes bs = true -> forall e, is_valid bs <> Err e.
Proof. intros H e. rewrite is_valid_layout by exact H. discriminate. Qed.

Lemma from_base64_never_fails inp : forall e, from_base64 inp <> Err e.
Proof. intros e. rewrite from_base64_eq. discriminate. Qed.

Lemma from_hex_never_fails data : wf_bytes data = true -> forall e, from_hex data <> Err e.
Proof. intros H e. rewrite from_hex_upper_hex by exact H. discriminate. Qed.

(* surrogates D800..DFFF: the encoder lays them out as ordinary three-byte sequences (CESU-style),
   the decoder returns them and the validator accepts them - the code makes no exclusion *)
Lemma surrogates_encoded cp : 55296 <= cp <= 57343 ->
  to_string cp = [224 + cp / 4096; 128 + (cp / 64) mod 64; 128 + cp mod 64]
  /\ from_string (to_string cp) = Ok cp /\ is_valid (to_string cp) = Ok true.
Proof.
  intros H. destruct (utf8_roundtrip_all cp) as (E & R & V); [lia|].
  split; [|split; assumption]. rewrite E. unfold rfc3629.
  replace (cp <? 128) with false by lia. replace (cp <? 2048) with false by lia.
  replace (cp <? 65536) with true by lia. reflexivity.
Qed.

(* beyond U+10FFFF nothing is appended (append returns false) *)
Lemma to_string_all_uint32 cp : 0 <= cp < 4294967296 ->
  to_string cp = if cp <? 1114112 then rfc3629 cp else [].
Proof.
  intros H. destruct (cp <? 1114112) eqn:E; [apply to_string_rfc3629|apply to_string_beyond]; lia.
Qed.

(* ------------------------------------------------------------------------------------------ *)
(* fromBase64 on everything the reference oracle calls an RFC 4648 encoding                      *)
(* ------------------------------------------------------------------------------------------ *)

Lemma list_eqb_eq : forall a b, list_eqb a b = true -> a = b.
Proof.
  induction a as [|x a IH]; intros [|y b] H; try discriminate; [reflexivity|].
  cbn [list_eqb] in H. apply andb_prop in H. destruct H as [Hxy Hab]. f_equal; [lia|apply IH; exact Hab].
Qed.

Lemma index_of_range c : forall l k0 k, index_of c l k0 = Some k -> k0 <= k < k0 + Z.of_nat (length l).
Proof.
  induction l as [|x t IH]; intros k0 k H; [discriminate|].
  cbn [index_of] in H. cbn [length]. destruct (x =? c).
  - injection H as <-. lia.
  - apply IH in H. lia.
Qed.

Lemma b64_index_range c k : b64_index c = Some k -> 0 <= k < 64.
Proof. unfold b64_index. intros H. apply index_of_range in H. change (Z.of_nat (length b64_alphabet)) with 64 in H. lia. Qed.

Lemma rfc4648_decode_wf : forall n s bs, (length s <= n)%nat -> rfc4648_decode s = Some bs -> wf_bytes bs = true.
Proof.
  induction n as [|n IH]; intros s bs Hn H.
  - destruct s; [|cbn [length] in Hn; lia]. injection H as <-. reflexivity.
  - destruct s as [|c0 [|c1 [|c2 [|c3 t]]]]; try discriminate.
    { injection H as <-. reflexivity. }
    cbn [rfc4648_decode] in H.
    destruct (b64_index c0) as [k0|] eqn:E0; [|discriminate].
    destruct (b64_index c1) as [k1|] eqn:E1; [|discriminate].
    apply b64_index_range in E0. apply b64_index_range in E1.
    assert (B0 : is_byte (k0 * 4 + k1 / 16) = true) by (unfold is_byte; lia).
    destruct ((c2 =? b64_pad) && (c3 =? b64_pad)).
    { destruct t; [|discriminate]. injection H as <-. unfold wf_bytes. cbn [forallb]. rewrite B0. reflexivity. }
    destruct (b64_index c2) as [k2|] eqn:E2; [|discriminate].
    apply b64_index_range in E2.
    assert (B1 : is_byte (k1 mod 16 * 16 + k2 / 4) = true) by (unfold is_byte; lia).
    destruct (c3 =? b64_pad).
    { destruct t; [|discriminate]. injection H as <-. unfold wf_bytes. cbn [forallb]. rewrite B0, B1. reflexivity. }
    destruct (b64_index c3) as [k3|] eqn:E3; [|discriminate].
    apply b64_index_range in E3.
    destruct (rfc4648_decode t) as [r|] eqn:Er; [|discriminate].
    injection H as <-.
    assert (B2 : is_byte (k2 mod 4 * 64 + k3) = true) by (unfold is_byte; lia).
    unfold wf_bytes. cbn [forallb]. rewrite B0, B1, B2. cbn [andb].
    apply (IH t r); [cbn [length] in Hn; lia|exact Er].
Qed.

Lemma from_base64_preimage s bs : rfc4648_preimage s = Some bs -> from_base64 s = Ok bs.
Proof.
  unfold rfc4648_preimage. destruct (rfc4648_decode s) as [d|] eqn:Ed; [|discriminate].
  destruct (list_eqb (rfc4648_encode d) s) eqn:Ee; [|discriminate].
  intros H. injection H as <-. apply list_eqb_eq in Ee. rewrite <- Ee.
  apply from_base64_inverts. apply (rfc4648_decode_wf (length s) s d); [lia|exact Ed].
Qed.

Lemma preimage_of_encode_example :
  rfc4648_preimage [90; 109; 57; 118; 89; 109; 69; 61] = Some [102; 111; 111; 98; 97]
  /\ rfc4648_preimage [90; 109; 57; 118; 89; 109; 70; 61] = None.   (* "Zm9vYmF=": non-zero padding bits *)
Proof. split; vm_compute; reflexivity. Qed.

(* ------------------------------------------------------------------------------------------ *)
(* isValid looks at its input only through (unsigned char) / (char) casts: any list of integers  *)
(* behaves like the byte list of its residues, so no hypothesis on the input is needed           *)
(* ------------------------------------------------------------------------------------------ *)

Lemma peek_map_w8 buf i : peek (map w8 buf) i = match peek buf i with Ok b => Ok (w8 b) | Err e => Err e end.
Proof. unfold peek. rewrite nth_error_map. destruct (nth_error buf i); reflexivity. Qed.

Lemma w8_idem b : w8 (w8 b) = w8 b.
Proof. unfold w8. apply Z.mod_mod. lia. Qed.

Lemma is_valid_loop_w8 : forall fuel buf total pos len,
  is_valid_loop fuel (map w8 buf) total pos len = is_valid_loop fuel buf total pos len.
Proof.
  induction fuel as [|f IH]; intros buf total pos len; [reflexivity|].
  cbn [is_valid_loop]. destruct (pos <? total)%nat; [|reflexivity].
  rewrite !peek_map_w8.
  destruct (peek buf pos) as [c0|e0]; [|reflexivity]. cbn [bind]. rewrite sx8_w8.
  destruct (len <? utf8_len (sx8 c0)); [reflexivity|].
  destruct (peek buf (pos + 1)) as [b1|e1]; destruct (peek buf (pos + 2)) as [b2|e2];
    destruct (peek buf (pos + 3)) as [b3|e3];
    destruct (utf8_len (sx8 c0) =? 4); destruct (utf8_len (sx8 c0) =? 3); destruct (utf8_len (sx8 c0) =? 2);
    destruct (utf8_len (sx8 c0) =? 1); cbn [bind]; rewrite ?w8_idem, ?sx8_w8; try reflexivity;
    match goal with |- (if negb ?c then _ else _) = _ => destruct c; cbn [negb]; try reflexivity; apply IH end.
Qed.

Lemma wf_map_w8 buf : wf_bytes (map w8 buf) = true.
Proof.
  apply wf_bytes_forall. intros b Hb. apply in_map_iff in Hb. destruct Hb as (x & <- & _). unfold w8. lia.
Qed.

Lemma is_valid_any buf : is_valid buf = Ok (layout_valid (map w8 buf)).
Proof.
  rewrite <- (is_valid_layout (map w8 buf) (wf_map_w8 buf)).
  unfold is_valid. rewrite map_length. symmetry. apply is_valid_loop_w8.
Qed.

Lemma is_valid_never_fails_any buf : forall e, is_valid buf <> Err e.
Proof. intros e. rewrite is_valid_any. discriminate. Qed.
