(* Executable model of the codecs of libnstd, decision by decision.  No proofs in this file.
     Unicode::append/toString/length/fromString/isValid   include/nstd/Unicode.hpp
     String::fromHex, String::fromBase64                  src/String.cpp
     String::fromInt/UInt/Int64/UInt64 (printf %d %u %lld %llu) and toInt/... (atoi, strtoul, atoll,
     strtoull): libc is MODELLED here (glibc, LP64) by reference decimal functions.
   Every read of an input range, of a table, and every access to the output buffer of fromBase64
   goes through bounded accessors returning Err; "never reads beyond the range" is `<> Err _`.
   fromBase64 is modelled AFTER the repair fixes/C18/01-base64-unsigned-compare.patch (the test
   `in[i] > 'z'` made on the unsigned byte); `from_base64_unrepaired` keeps the code as found. *)
From Coq Require Import ZArith List Bool.
From Common Require Import Words ListAux.
From Codec Require Import Gen_Codec.
Import ListNotations.
Local Open Scope Z_scope.
Local Open Scope bool_scope.

Inductive err := OutOfBounds | ReadUninit | OutOfFuel.
Inductive res (A : Type) := Ok (a : A) | Err (e : err).
Arguments Ok {A} a.
Arguments Err {A} e.
Definition bind {A B} (m : res A) (k : A -> res B) : res B :=
  match m with Ok a => k a | Err e => Err e end.
Notation "'do' x <- m ; k" := (bind m (fun x => k)) (at level 200, x name, m at level 100, k at level 200).

(* bounded read of byte i of a range / table *)
Definition peek (s : list Z) (i : nat) : res Z :=
  match nth_error s i with Some b => Ok b | None => Err OutOfBounds end.

(* ------------------------------------------------------------------------------------------ *)
(* Unicode.hpp                                                                                 *)
(* ------------------------------------------------------------------------------------------ *)

(* Unicode::append(uint32 ch, String&), non-_UNICODE branch; `~(0x80UL - 1)` is Z.lnot 127 on the
   unbounded two's complement view (ch < 2^32 <= width of unsigned long).  (char)x = w8 x. *)
Definition to_string (ch0 : Z) : list Z :=
  let ch := w32 ch0 in
  if Z.land ch (Z.lnot (128 - 1)) =? 0 then [w8 ch]
  else if Z.land ch (Z.lnot (2048 - 1)) =? 0 then
    [w8 (Z.lor (Z.shiftr ch 6) 192); w8 (Z.lor (Z.land ch 63) 128)]
  else if Z.land ch (Z.lnot (65536 - 1)) =? 0 then
    [w8 (Z.lor (Z.shiftr ch 12) 224); w8 (Z.lor (Z.land (Z.shiftr ch 6) 63) 128); w8 (Z.lor (Z.land ch 63) 128)]
  else if ch <? 1114112 then
    [w8 (Z.lor (Z.shiftr ch 18) 240); w8 (Z.lor (Z.land (Z.shiftr ch 12) 63) 128);
     w8 (Z.lor (Z.land (Z.shiftr ch 6) 63) 128); w8 (Z.lor (Z.land ch 63) 128)]
  else [].

(* Unicode::toString(const uint32*, usize) / append(data, size, str) *)
Definition to_string_n (cps : list Z) : list Z := flat_map to_string cps.

(* Unicode::length(char ch): c is the (signed) char value; `&` on the promoted int *)
Definition utf8_len (c : Z) : Z :=
  if Z.land c 128 =? 0 then 1
  else if Z.land c 224 =? 192 then 2
  else if Z.land c 240 =? 224 then 3
  else if Z.land c 248 =? 240 then 4
  else 0.
Definition utf8_length (b : Z) : Z := utf8_len (sx8 b).

(* Unicode::fromString(const char* ch, usize len) on an exactly sized range; uint32 arithmetic.
   The switch falls through: case 4, case 3, case 2, default. *)
Definition from_string (buf : list Z) : res Z :=
  let len := Z.of_nat (length buf) in
  if len =? 0 then Ok 0 else
  do b0 <- peek buf 0;
  if Z.land (w8 b0) 128 =? 0 then Ok (w8 b0) else
  let req := utf8_len (sx8 b0) in
  if len <? req then Ok 0 else
  do s4 <- (if req =? 4 then do b <- peek buf 0; Ok (shl32 (w8 b) 6, 1%nat) else Ok (0, 0%nat));
  do s3 <- (if (req =? 4) || (req =? 3)
            then do b <- peek buf (snd s4); Ok (shl32 (add32 (fst s4) (w8 b)) 6, S (snd s4)) else Ok s4);
  do s2 <- (if (req =? 4) || (req =? 3) || (req =? 2)
            then do b <- peek buf (snd s3); Ok (shl32 (add32 (fst s3) (w8 b)) 6, S (snd s3)) else Ok s3);
  do b <- peek buf (snd s2);
  let r := add32 (fst s2) (w8 b) in
  do off <- peek gen_utf8Offsets (Z.to_nat req);
  Ok (w32 (r - off)).

(* Unicode::isValid(const char* ch, usize len).  pos = ch - start, total = end - start, len = the
   running length.  One unit of fuel per loop test; S (length buf) suffices. *)
Fixpoint is_valid_loop (fuel : nat) (buf : list Z) (total pos : nat) (len : Z) : res bool :=
  match fuel with
  | O => Err OutOfFuel
  | S f =>
    if (pos <? total)%nat then
      do c0 <- peek buf pos;
      let minLen := utf8_len (sx8 c0) in
      if len <? minLen then Ok false else
      do ok <- (if minLen =? 4 then
                  do b1 <- peek buf (pos + 1); do b2 <- peek buf (pos + 2); do b3 <- peek buf (pos + 3);
                  Ok (Z.land (Z.lor (Z.lor (w8 b1) (Z.shiftl (w8 b2) 8)) (Z.shiftl (w8 b3) 16)) 12632256 =? 8421504)
                else if minLen =? 3 then
                  do b1 <- peek buf (pos + 1); do b2 <- peek buf (pos + 2);
                  Ok (Z.land (Z.lor (w8 b1) (Z.shiftl (w8 b2) 8)) 49344 =? 32896)
                else if minLen =? 2 then
                  do b1 <- peek buf (pos + 1); Ok (Z.land (sx8 b1) 192 =? 128)
                else if minLen =? 1 then Ok true
                else Ok false);
      if negb ok then Ok false
      else is_valid_loop f buf total (pos + Z.to_nat minLen) (len - minLen)
    else Ok true
  end.
Definition is_valid (buf : list Z) : res bool :=
  is_valid_loop (S (length buf)) buf (length buf) 0 (Z.of_nat (length buf)).

(* ------------------------------------------------------------------------------------------ *)
(* String::fromHex                                                                             *)
(* ------------------------------------------------------------------------------------------ *)

Fixpoint from_hex_loop (rem : nat) (data : list Z) (i : nat) (acc : list Z) : res (list Z) :=
  match rem with
  | O => Ok acc
  | S r =>
    do b <- peek data i;
    do h <- peek gen_hexdigits (Z.to_nat (Z.shiftr (w8 b) 4));
    do l <- peek gen_hexdigits (Z.to_nat (Z.land (w8 b) 15));
    from_hex_loop r data (S i) (acc ++ [h; l])
  end.
Definition from_hex (data : list Z) : res (list Z) := from_hex_loop (length data) data 0 [].

(* ------------------------------------------------------------------------------------------ *)
(* String::fromBase64                                                                          *)
(* ------------------------------------------------------------------------------------------ *)

(* the heap buffer behind `out`: cells are None until written *)
Definition obuf := list (option Z).
Definition rd (o : obuf) (j : nat) : res Z :=
  match nth_error o j with
  | None => Err OutOfBounds
  | Some None => Err ReadUninit
  | Some (Some v) => Ok v
  end.
Definition wr (o : obuf) (j : nat) (v : Z) : res obuf :=
  if (j <? length o)%nat then Ok (upd j (Some (w8 v)) o) else Err OutOfBounds.

Inductive b64_exit := Bailed | Finished (o : obuf) (j : nat).   (* `return String();` / loop left *)

(* one pass of the loop body for index i; rem = inlen - i (the for loop is bounded by construction).
   `repaired` selects the comparison: true = (unsigned char)in[i] > 'z', false = in[i] > 'z' on char *)
Fixpoint b64_loop (repaired : bool) (rem : nat) (inp : list Z) (i : nat) (o : obuf) (j : nat) : res b64_exit :=
  match rem with
  | O => Ok (Finished o j)
  | S r =>
    do ci <- peek inp i;
    if (if repaired then w8 ci else sx8 ci) >? 122 then Ok Bailed else
    do c <- peek gen_base64de (Z.to_nat (w8 ci));
    if c =? 255 then (if sx8 ci =? 61 then Ok (Finished o j) else Ok Bailed)
    else
      let ph := Z.land (Z.of_nat i) 3 in
      if ph =? 0 then
        do o1 <- wr o j (Z.land (Z.shiftl c 2) 255);
        b64_loop repaired r inp (S i) o1 j
      else if ph =? 1 then
        do x <- rd o j;
        do o1 <- wr o j (Z.lor x (Z.land (Z.shiftr c 4) 3));
        do o2 <- wr o1 (S j) (Z.shiftl (Z.land c 15) 4);
        b64_loop repaired r inp (S i) o2 (S j)
      else if ph =? 2 then
        do x <- rd o j;
        do o1 <- wr o j (Z.lor x (Z.land (Z.shiftr c 2) 15));
        do o2 <- wr o1 (S j) (Z.shiftl (Z.land c 3) 6);
        b64_loop repaired r inp (S i) o2 (S j)
      else
        do x <- rd o j;
        do o1 <- wr o j (Z.lor x c);
        b64_loop repaired r inp (S i) o1 (S j)
  end.

(* result.resize(j): the first j cells become the string (they must have been written) *)
Fixpoint take_init (o : obuf) (j : nat) {struct j} : res (list Z) :=
  match j with
  | O => Ok []
  | S j' => match o with
            | [] => Err OutOfBounds
            | None :: _ => Err ReadUninit
            | Some v :: t => do r <- take_init t j'; Ok (v :: r)
            end
  end.

Definition from_base64_gen (repaired : bool) (inp : list Z) : res (list Z) :=
  let inlen := length inp in
  if negb (Z.land (Z.of_nat inlen) 3 =? 0) then Ok [] else
  (* reserve(inlen): capacity = inlen | 3, plus the terminator cell *)
  let cap := Z.to_nat (Z.lor (Z.of_nat inlen) 3) in
  let o := repeat (@None Z) (S cap) in
  do e <- b64_loop repaired inlen inp 0 o 0;
  match e with
  | Bailed => Ok []
  | Finished o' j => take_init o' j
  end.
Definition from_base64 : list Z -> res (list Z) := from_base64_gen true.
Definition from_base64_unrepaired : list Z -> res (list Z) := from_base64_gen false.

(* ------------------------------------------------------------------------------------------ *)
(* decimal conversions (libc modelled: glibc, LP64)                                            *)
(* ------------------------------------------------------------------------------------------ *)

(* the digit loop of vfprintf's %u/%llu: least significant digit first, written backwards *)
Fixpoint fmt_loop (fuel : nat) (v : Z) (acc : list Z) : list Z :=
  match fuel with
  | O => acc
  | S f => let acc' := (48 + v mod 10) :: acc in
           if v / 10 =? 0 then acc' else fmt_loop f (v / 10) acc'
  end.
Definition fmt_u (v : Z) : list Z := fmt_loop 20 v [].
Definition fmt_d (v : Z) : list Z := if v <? 0 then 45 :: fmt_u (- v) else fmt_u v.

Definition from_int (v : Z) : list Z := fmt_d (sx32 v).       (* "%d"   *)
Definition from_uint (v : Z) : list Z := fmt_u (w32 v).       (* "%u"   *)
Definition from_int64 (v : Z) : list Z := fmt_d (sx64 v).     (* "%lld" *)
Definition from_uint64 (v : Z) : list Z := fmt_u (w64 v).     (* "%llu" *)

(* strtol family, base 10, endptr ignored: white space, optional sign, longest digit prefix,
   clamped to the range of (unsigned) long = 64 bit; a NUL byte or the end of the string stops it *)
Definition c_isspace (c : Z) : bool := (c =? 32) || ((9 <=? c) && (c <=? 13)).
Definition c_isdigit (c : Z) : bool := (48 <=? c) && (c <=? 57).
Fixpoint skip_space (s : list Z) : list Z :=
  match s with
  | c :: t => if c_isspace c then skip_space t else s
  | [] => []
  end.
Fixpoint digits_value (s : list Z) (acc : Z) (n : nat) : Z * nat :=
  match s with
  | c :: t => if c_isdigit c then digits_value t (acc * 10 + (c - 48)) (S n) else (acc, n)
  | [] => (acc, n)
  end.
Definition split_sign (s : list Z) : bool * list Z :=
  match s with
  | 45 :: t => (true, t)
  | 43 :: t => (false, t)
  | _ => (false, s)
  end.
Definition strtol64 (s : list Z) : Z :=
  let (neg, s2) := split_sign (skip_space s) in
  let (v, n) := digits_value s2 0 0 in
  if (n =? 0)%nat then 0
  else if neg then (if v >? 9223372036854775808 then -9223372036854775808 else - v)
  else (if v >? 9223372036854775807 then 9223372036854775807 else v).
Definition strtoul64 (s : list Z) : Z :=
  let (neg, s2) := split_sign (skip_space s) in
  let (v, n) := digits_value s2 0 0 in
  if (n =? 0)%nat then 0
  else if v >? 18446744073709551615 then 18446744073709551615
  else if neg then w64 (- v) else v.

Definition to_int (s : list Z) : Z := sx32 (strtol64 s).        (* (int)strtol(s, 0, 10) = atoi *)
Definition to_uint (s : list Z) : Z := w32 (strtoul64 s).       (* (uint)strtoul(s, 0, 10)     *)
Definition to_int64 (s : list Z) : Z := strtol64 s.             (* atoll                       *)
Definition to_uint64 (s : list Z) : Z := strtoul64 s.           (* strtoull(s, 0, 10)          *)

(* ------------------------------------------------------------------------------------------ *)
(* the same parsers as machines over the C string, every byte fetched with a checked read       *)
(* ------------------------------------------------------------------------------------------ *)

(* `const char*` of a String: its bytes followed by the terminator that String keeps behind them.
   strtol and friends walk this buffer one byte at a time; [peek] makes a read beyond the end of the
   buffer an error.  i = index of the next byte; one unit of fuel per byte, S (length buf) suffices. *)
Definition c_str (s : list Z) : list Z := s ++ [0].

Fixpoint skip_space_at (fuel : nat) (buf : list Z) (i : nat) : res nat :=
  match fuel with
  | O => Err OutOfFuel
  | S f => do c <- peek buf i; if c_isspace c then skip_space_at f buf (S i) else Ok i
  end.

Definition sign_at (buf : list Z) (i : nat) : res (bool * nat) :=
  do c <- peek buf i;
  if c =? 45 then Ok (true, S i) else if c =? 43 then Ok (false, S i) else Ok (false, i).

Fixpoint digits_at (fuel : nat) (buf : list Z) (i : nat) (acc : Z) (n : nat) : res (Z * nat) :=
  match fuel with
  | O => Err OutOfFuel
  | S f => do c <- peek buf i;
           if c_isdigit c then digits_at f buf (S i) (acc * 10 + (c - 48)) (S n) else Ok (acc, n)
  end.

(* sign, magnitude of the digit prefix, number of digits *)
Definition scan_at (buf : list Z) : res (bool * (Z * nat)) :=
  do i <- skip_space_at (S (length buf)) buf 0;
  do sg <- sign_at buf i;
  do vn <- digits_at (S (length buf)) buf (snd sg) 0 0;
  Ok (fst sg, vn).

Definition strtol64_at (buf : list Z) : res Z :=
  do r <- scan_at buf;
  let '(neg, (v, n)) := r in
  Ok (if (n =? 0)%nat then 0
      else if neg then (if v >? 9223372036854775808 then -9223372036854775808 else - v)
      else (if v >? 9223372036854775807 then 9223372036854775807 else v)).

Definition strtoul64_at (buf : list Z) : res Z :=
  do r <- scan_at buf;
  let '(neg, (v, n)) := r in
  Ok (if (n =? 0)%nat then 0
      else if v >? 18446744073709551615 then 18446744073709551615
      else if neg then w64 (- v) else v).

(* String::toInt() ... on the String's own buffer (what the driver runs) *)
Definition to_int_chk (s : list Z) : res Z := do v <- strtol64_at (c_str s); Ok (sx32 v).
Definition to_uint_chk (s : list Z) : res Z := do v <- strtoul64_at (c_str s); Ok (w32 v).
Definition to_int64_chk (s : list Z) : res Z := strtol64_at (c_str s).
Definition to_uint64_chk (s : list Z) : res Z := strtoul64_at (c_str s).

(* ------------------------------------------------------------------------------------------ *)
(* Strings that do not own their bytes (String::attach(p, n)): the C-string view                *)
(* ------------------------------------------------------------------------------------------ *)

(* The block the caller attached is window ++ tail: `tail` = whatever lies behind the window inside
   the same allocation ([] = the allocation ends with the window).  String::operator const char*()
   const (String.hpp:84-89) reads block[n] with n = length of the window; when that byte is not NUL
   it detaches (heap copy of the window plus a terminator) and hands out the copy, otherwise the
   block itself.  The read of block[n] is a checked read: with tail = [] it is out of bounds. *)
Definition c_view (s tail : list Z) : res (list Z) :=
  do t <- peek (s ++ tail) (length s);
  if t =? 0 then Ok (s ++ tail) else Ok (c_str s).

(* String::toInt() ... on an attached String: atoi and friends run on that view *)
Definition to_int_att (s tail : list Z) : res Z := do b <- c_view s tail; do v <- strtol64_at b; Ok (sx32 v).
Definition to_uint_att (s tail : list Z) : res Z := do b <- c_view s tail; do v <- strtoul64_at b; Ok (w32 v).
Definition to_int64_att (s tail : list Z) : res Z := do b <- c_view s tail; strtol64_at b.
Definition to_uint64_att (s tail : list Z) : res Z := do b <- c_view s tail; strtoul64_at b.

(* Unicode::fromString(const String&) / isValid(const String&) AS FOUND: `fromString(str, str.length())`
   converts str through the C-string view first, then runs the reader on the first n bytes of what the
   view hands out (the window in both cases).  As repaired (fixes/C18/02) the String overloads pass the
   window itself: from_string s / is_valid s, whatever the tail. *)
Definition from_string_view (s tail : list Z) : res Z := do _ <- c_view s tail; from_string s.
Definition is_valid_view (s tail : list Z) : res bool := do _ <- c_view s tail; is_valid s.

(* String::fromBase64(const String&) AS FOUND took its input pointer through the same view (`(const char* )data`) and then
   read exactly data.length() bytes from it; as repaired (fixes/C18/03) it reads the String's text directly:
   from_base64 s, whatever lies behind the window. *)
Definition from_base64_view (s tail : list Z) : res (list Z) := do _ <- c_view s tail; from_base64 s.
