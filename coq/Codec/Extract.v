From Coq Require Extraction ExtrOcamlBasic.
From Common Require Import Words.
From Codec Require Import CodecSpec CodecModel.
Extraction Language OCaml.
Extraction "model.ml" anchor
  to_string to_string_n utf8_length from_string is_valid from_hex from_base64 from_base64_unrepaired
  from_int from_uint from_int64 from_uint64 to_int to_uint to_int64 to_uint64 to_int_chk to_uint_chk to_int64_chk to_uint64_chk strtol64_at strtoul64_at
  c_view to_int_att to_uint_att to_int64_att to_uint64_att from_string_view is_valid_view from_base64_view
  rfc3629 is_cp lead_len starts_encoding lead_witness is_surrogate utf8_strict layout_valid utf8_first utf8_text upper_hex rfc4648_encode rfc4648_preimage
  ref_decimal ref_value in_range int_min int_max uint_max int64_min int64_max uint64_max.
