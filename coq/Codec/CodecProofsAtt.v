(* Lemmas for property C18 (component Codec), part 4: Strings that do not own their bytes
   (String::attach).  The C-string view reads the byte behind the window; with a readable byte there
   the four integer conversions and the String overloads of the UTF-8 readers see the window only,
   whatever that byte and the bytes behind it are; without one the view is an out-of-bounds read. *)
From Coq Require Import ZArith List Bool Lia.
From Common Require Import Words ListAux.
From Codec Require Import Gen_Codec CodecSpec CodecModel CodecProofs CodecProofsInt CodecProofsParse.
Import ListNotations.
Local Open Scope Z_scope.

Lemma peek_app_here : forall (s : list Z) t tl, peek (s ++ t :: tl) (length s) = Ok t.
Proof.
  intros s t tl. unfold peek. rewrite nth_error_app2 by apply le_n. rewrite Nat.sub_diag. reflexivity.
Qed.

Lemma peek_end : forall (s : list Z), peek (s ++ []) (length s) = Err OutOfBounds.
Proof.
  intros s. unfold peek. rewrite app_nil_r.
  destruct (nth_error s (length s)) eqn:E; [|reflexivity].
  exfalso. assert (H : nth_error s (length s) <> None) by (rewrite E; discriminate).
  apply nth_error_Some in H. exact (Nat.lt_irrefl _ H).
Qed.

(* the view of a window with a readable byte behind it: the block when that byte is NUL, else a terminated copy *)
Lemma c_view_readable s t tl :
  c_view s (t :: tl) = Ok (if t =? 0 then s ++ 0 :: tl else s ++ [0]).
Proof.
  unfold c_view. rewrite peek_app_here. cbn [bind]. unfold c_str.
  destruct (t =? 0) eqn:E; [|reflexivity]. apply Z.eqb_eq in E. subst t. reflexivity.
Qed.

Lemma c_view_unreadable s : c_view s [] = Err OutOfBounds.
Proof. unfold c_view. rewrite peek_end. reflexivity. Qed.

Lemma attached_parsers_window s tail : tail <> [] ->
  to_int_att s tail = Ok (to_int s) /\ to_uint_att s tail = Ok (to_uint s) /\
  to_int64_att s tail = Ok (to_int64 s) /\ to_uint64_att s tail = Ok (to_uint64 s).
Proof.
  intros Hne. destruct tail as [|t tl]; [contradiction Hne; reflexivity|].
  unfold to_int_att, to_uint_att, to_int64_att, to_uint64_att, to_int, to_uint, to_int64, to_uint64.
  rewrite c_view_readable. cbn [bind].
  destruct (t =? 0).
  - rewrite (strtol64_at_ok s tl), (strtoul64_at_ok s tl).
    split; [reflexivity|]. split; [reflexivity|]. split; reflexivity.
  - rewrite (strtol64_at_ok s []), (strtoul64_at_ok s []).
    split; [reflexivity|]. split; [reflexivity|]. split; reflexivity.
Qed.

(* ... hence equal to the conversions of an owning String with the same bytes *)
Lemma attached_parsers_as_owned s tail : tail <> [] ->
  to_int_att s tail = to_int_chk s /\ to_uint_att s tail = to_uint_chk s /\
  to_int64_att s tail = to_int64_chk s /\ to_uint64_att s tail = to_uint64_chk s.
Proof.
  intros Hne. destruct (attached_parsers_window s tail Hne) as (-> & -> & -> & ->).
  destruct (parsers_checked_total s) as (-> & -> & -> & ->).
  split; [reflexivity|]. split; [reflexivity|]. split; reflexivity.
Qed.

Lemma attached_parsers_unreadable s :
  to_int_att s [] = Err OutOfBounds /\ to_uint_att s [] = Err OutOfBounds /\
  to_int64_att s [] = Err OutOfBounds /\ to_uint64_att s [] = Err OutOfBounds.
Proof.
  unfold to_int_att, to_uint_att, to_int64_att, to_uint64_att. rewrite c_view_unreadable.
  split; [reflexivity|]. split; [reflexivity|]. split; reflexivity.
Qed.

Lemma readers_view_readable s tail : tail <> [] ->
  from_string_view s tail = from_string s /\ is_valid_view s tail = is_valid s.
Proof.
  intros Hne. destruct tail as [|t tl]; [contradiction Hne; reflexivity|].
  unfold from_string_view, is_valid_view. rewrite c_view_readable. split; reflexivity.
Qed.

Lemma readers_view_unreadable s :
  from_string_view s [] = Err OutOfBounds /\ is_valid_view s [] = Err OutOfBounds.
Proof.
  unfold from_string_view, is_valid_view. rewrite c_view_unreadable. split; reflexivity.
Qed.

(* ------------------------------------------------------------------------------------------ *)
(* Unicode::length on the bytes that start an encoding: the length of that encoding             *)
(* ------------------------------------------------------------------------------------------ *)
From Coq Require Import ZifyBool.
Ltac Zify.zify_post_hook ::= Z.div_mod_to_equations.

Ltac split_ifs := repeat match goal with |- context [if ?c then _ else _] => destruct c eqn:? end.

Lemma length_of_lead_byte cp : 0 <= cp < 1114112 ->
  utf8_length (hd 0 (rfc3629 cp)) = Z.of_nat (length (rfc3629 cp)) /\ starts_encoding (hd 0 (rfc3629 cp)) = true.
Proof.
  intros H. unfold rfc3629.
  destruct (cp <? 128) eqn:E1; [|destruct (cp <? 2048) eqn:E2; [|destruct (cp <? 65536) eqn:E3]]; cbn [hd length].
  - rewrite utf8_length_lead_len by lia. unfold lead_len, starts_encoding. split; [split_ifs; lia|lia].
  - assert (B : 194 <= 192 + cp / 64 <= 223) by lia. remember (192 + cp / 64) as b eqn:Eb; clear Eb.
    rewrite utf8_length_lead_len by lia. unfold lead_len, starts_encoding. split; [split_ifs; lia|lia].
  - assert (B : 224 <= 224 + cp / 4096 <= 239) by lia. remember (224 + cp / 4096) as b eqn:Eb; clear Eb.
    rewrite utf8_length_lead_len by lia. unfold lead_len, starts_encoding. split; [split_ifs; lia|lia].
  - assert (B : 240 <= 240 + cp / 262144 <= 244) by lia. remember (240 + cp / 262144) as b eqn:Eb; clear Eb.
    rewrite utf8_length_lead_len by lia. unfold lead_len, starts_encoding. split; [split_ifs; lia|lia].
Qed.

Lemma starts_encoding_has_witness b : starts_encoding b = true ->
  0 <= lead_witness b < 1114112 /\ hd 0 (rfc3629 (lead_witness b)) = b.
Proof.
  intros H. assert (R : 0 <= b < 256) by (unfold starts_encoding in H; lia).
  assert (G : (negb (starts_encoding b) ||
               ((0 <=? lead_witness b) && (lead_witness b <? 1114112) && (hd 0 (rfc3629 (lead_witness b)) =? b)))%bool = true).
  { clear H. revert b R.
    apply (sweep1 (fun b => (negb (starts_encoding b) ||
               ((0 <=? lead_witness b) && (lead_witness b <? 1114112) && (hd 0 (rfc3629 (lead_witness b)) =? b)))%bool) 256).
    vm_compute. reflexivity. }
  rewrite H in G. cbn [negb orb] in G. lia.
Qed.

(* the other 77 bytes start no encoding *)
Lemma other_bytes_start_nothing b cp : 0 <= cp < 1114112 -> hd 0 (rfc3629 cp) = b -> starts_encoding b = true.
Proof. intros H <-. apply (length_of_lead_byte cp H). Qed.

(* strict UTF-8 text (no encoded surrogates) is in particular a concatenation of encodings of code points *)
Lemma utf8_strict_fuel_text : forall fuel bs, utf8_strict_fuel fuel bs = true -> utf8_text_fuel fuel bs = true.
Proof.
  induction fuel as [|f IH]; intros bs H; [discriminate H|].
  cbn [utf8_strict_fuel] in H. cbn [utf8_text_fuel].
  destruct bs as [|b t]; [reflexivity|].
  destruct (utf8_first (b :: t)) as [cp|]; [|discriminate H].
  apply andb_true_iff in H. destruct H as [_ H]. apply IH. exact H.
Qed.

Lemma utf8_strict_is_text bs : utf8_strict bs = true -> utf8_text bs = true.
Proof. apply utf8_strict_fuel_text. Qed.

Lemma is_valid_utf8_strict bs : utf8_strict bs = true -> is_valid bs = Ok true.
Proof. intros H. apply is_valid_utf8_text, utf8_strict_is_text, H. Qed.

Lemma base64_view_readable s tail : tail <> [] -> from_base64_view s tail = from_base64 s.
Proof.
  intros Hne. destruct tail as [|t tl]; [contradiction Hne; reflexivity|].
  unfold from_base64_view. rewrite c_view_readable. reflexivity.
Qed.

Lemma base64_view_unreadable s : from_base64_view s [] = Err OutOfBounds.
Proof. unfold from_base64_view. rewrite c_view_unreadable. reflexivity. Qed.
