(* Lemmas for property C18 (component Codec), part 4: Strings that do not own their bytes
   (String::attach).  The C-string view reads the byte behind the window; with a readable byte there
   the four integer conversions and the String overloads of the UTF-8 readers see the window only,
   whatever that byte and the bytes behind it are; without one the view is an out-of-bounds read. *)
From Coq Require Import ZArith List Bool Lia.
From Common Require Import Words ListAux.
From Codec Require Import Gen_Codec CodecSpec CodecModel CodecProofs CodecProofsInt CodecProofsParse.
Import ListNotations.
Local Open Scope Z_scope.

Lemma peek_app_here : forall (s : list Z) t tl, peek (s ++ t :: tl) (length s) = Ok t.
Proof.
  intros s t tl. unfold peek. rewrite nth_error_app2 by apply le_n. rewrite Nat.sub_diag. reflexivity.
Qed.

Lemma peek_end : forall (s : list Z), peek (s ++ []) (length s) = Err OutOfBounds.
Proof.
  intros s. unfold peek. rewrite app_nil_r.
  destruct (nth_error s (length s)) eqn:E; [|reflexivity].
  exfalso. assert (H : nth_error s (length s) <> None) by (rewrite E; discriminate).
  apply nth_error_Some in H. exact (Nat.lt_irrefl _ H).
Qed.

(* the view of a window with a readable byte behind it: the block when that byte is NUL, else a terminated copy *)
Lemma c_view_readable s t tl :
  c_view s (t :: tl) = Ok (if t =? 0 then s ++ 0 :: tl else s ++ [0]).
Proof.
  unfold c_view. rewrite peek_app_here. cbn [bind]. unfold c_str.
  destruct (t =? 0) eqn:E; [|reflexivity]. apply Z.eqb_eq in E. subst t. reflexivity.
Qed.

Lemma c_view_unreadable s : c_view s [] = Err OutOfBounds.
Proof. unfold c_view. rewrite peek_end. reflexivity. Qed.

Lemma attached_parsers_window s tail : tail <> [] ->
  to_int_att s tail = Ok (to_int s) /\ to_uint_att s tail = Ok (to_uint s) /\
  to_int64_att s tail = Ok (to_int64 s) /\ to_uint64_att s tail = Ok (to_uint64 s).
Proof.
  intros Hne. destruct tail as [|t tl]; [contradiction Hne; reflexivity|].
  unfold to_int_att, to_uint_att, to_int64_att, to_uint64_att, to_int, to_uint, to_int64, to_uint64.
  rewrite c_view_readable. cbn [bind].
  destruct (t =? 0).
  - rewrite (strtol64_at_ok s tl), (strtoul64_at_ok s tl).
    split; [reflexivity|]. split; [reflexivity|]. split; reflexivity.
  - rewrite (strtol64_at_ok s []), (strtoul64_at_ok s []).
    split; [reflexivity|]. split; [reflexivity|]. split; reflexivity.
Qed.

(* ... hence equal to the conversions of an owning String with the same bytes *)
Lemma attached_parsers_as_owned s tail : tail <> [] ->
  to_int_att s tail = to_int_chk s /\ to_uint_att s tail = to_uint_chk s /\
  to_int64_att s tail = to_int64_chk s /\ to_uint64_att s tail = to_uint64_chk s.
Proof.
  intros Hne. destruct (attached_parsers_window s tail Hne) as (-> & -> & -> & ->).
  destruct (parsers_checked_total s) as (-> & -> & -> & ->).
  split; [reflexivity|]. split; [reflexivity|]. split; reflexivity.
Qed.

Lemma attached_parsers_unreadable s :
  to_int_att s [] = Err OutOfBounds /\ to_uint_att s [] = Err OutOfBounds /\
  to_int64_att s [] = Err OutOfBounds /\ to_uint64_att s [] = Err OutOfBounds.
Proof.
  unfold to_int_att, to_uint_att, to_int64_att, to_uint64_att. rewrite c_view_unreadable.
  split; [reflexivity|]. split; [reflexivity|]. split; reflexivity.
Qed.

Lemma readers_view_readable s tail : tail <> [] ->
  from_string_view s tail = from_string s /\ is_valid_view s tail = is_valid s.
Proof.
  intros Hne. destruct tail as [|t tl]; [contradiction Hne; reflexivity|].
  unfold from_string_view, is_valid_view. rewrite c_view_readable. split; reflexivity.
Qed.

Lemma readers_view_unreadable s :
  from_string_view s [] = Err OutOfBounds /\ is_valid_view s [] = Err OutOfBounds.
Proof.
  unfold from_string_view, is_valid_view. rewrite c_view_unreadable. split; reflexivity.
Qed.
