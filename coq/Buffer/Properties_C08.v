(* Property C08 - only statements closed by `exact`, each followed by Print Assumptions.

   Clause of the property text                          theorem(s) below
   ---------------------------------------------------  ------------------------------------------------
   "after any sequence of append, prepend, assign,      C08_refines_queue (whole histories from the empty
    resize, reserve, removeFront, removeBack, clear,    world), C08_refines_queue_step (one step from any
    free, swap, copy and attach a Buffer exposes        related pair of states); per method and per branch:
    exactly the bytes a reference byte queue holds      C08_assign, C08_prepend (head-room / in-place shift /
    (bytes newly exposed by a growing resize are        reallocate), C08_resize (reallocate / in place /
    unspecified)"                                       compact to front / non-owning), C08_append,
                                                        C08_append_self, C08_remove_front, C08_remove_back,
                                                        C08_reserve, C08_clear
   "whenever it owns its storage one readable zero      C08_terminator (every variable of every reachable
    byte follows the last data byte"                    world: the cell at [stop] is inside the allocation
                                                        of capacity+1 cells and holds 0)
   "it never reads or writes outside its own            C08_memory_safe (histories), C08_memory_safe_step
    allocation or the attached range"                   (one step from any reachable world): the only error
                                                        the model can produce is BadArg (an operand variable
                                                        that does not exist - exactly when the reference
                                                        object rejects the history).  OutOfBounds (rd/wr
                                                        outside the allocation, read outside the attached
                                                        range), WriteForeign (any non-empty write through a
                                                        pointer into attached memory or a _capacity field),
                                                        Overlap (Memory::copy on overlapping ranges) and
                                                        BadState never occur.  Foreign memory has no write
                                                        operation in the model at all: [BReg r] carries [r]
                                                        unchanged (C08_no_foreign_write).
   representation invariant                             C08_invariant_initial_and_preserved, C08_rep_invariant
   (buffer <= start <= end <= buffer + capacity, ...)   (spelled out for every reachable world)

   Quantifier "for all histories, sizes and front/back offsets, including histories that mix attach
   with owning operations": every theorem is for all op lists / all states satisfying [inv]; op lists
   contain OAttach, OSwap and the aliasing calls (v = v, v.append(v), v.prepend(v)) without restriction.
   Not modelled (see level_note of checks/C08.py): the order of delete[] relative to the copy out of
   the old storage (AddressSanitizer in the correspondence run), wrap-around of size arithmetic for
   resize / reserve / constructor arguments near 2^64 (sizes are [nat] here; such a request cannot be
   allocated).  removeFront / removeBack take every usize: C08_remove_clamp. *)
From Coq Require Import ZArith List.
From Common Require Import ListAux.
From Buffer Require Import BufferSpec BufferModel BufferProofs.
Import ListNotations.

(* ---- (4) representation invariant --------------------------------------------------------------- *)

Theorem C08_invariant_initial_and_preserved :
  winv [] /\ forall w o w' a, winv w -> step w o = Ok (w', a) -> winv w'.
Proof. exact (conj (Forall_nil inv) step_inv_lemma). Qed.
Print Assumptions C08_invariant_initial_and_preserved.

Theorem C08_reachable_inv : forall w, reachable w -> winv w.
Proof. exact reachable_inv_lemma. Qed.
Print Assumptions C08_reachable_inv.

Theorem C08_rep_invariant : forall w b, reachable w -> In b w ->
  match own b with
  | Some a => wb b = BOwn /\ length a = capf b + 1 /\ start b <= stop b /\ stop b <= capf b
  | None => capf b = 0 /\
            match wb b with
            | BOwn => False
            | BReg r => start b <= stop b /\ stop b <= length r
            | BCap _ => start b = 0 /\ stop b = 0
            end
  end.
Proof. exact rep_lemma. Qed.
Print Assumptions C08_rep_invariant.

(* ---- (1) memory safety -------------------------------------------------------------------------- *)

Theorem C08_memory_safe_step : forall w o e, winv w -> step w o = Err e ->
  e = BadArg /\ spec_step (map exposed w) o = None.
Proof. exact step_safe_lemma. Qed.
Print Assumptions C08_memory_safe_step.

Theorem C08_memory_safe : forall ops e, run [] ops = Err e -> e = BadArg /\ spec_run [] ops = None.
Proof. exact run_safe_lemma. Qed.
Print Assumptions C08_memory_safe.

Theorem C08_run_reachable : forall ops w w' rs, reachable w -> run w ops = Ok (w', rs) -> reachable w'.
Proof. exact run_reachable_lemma. Qed.
Print Assumptions C08_run_reachable.

(* the only write primitive, applied through a window that is not into the own allocation (attached
   range or _capacity field), succeeds only for zero bytes and changes nothing; every other attempt is
   Err WriteForeign, which C08_memory_safe excludes *)
Theorem C08_no_foreign_write : forall b off d b', wr_win b off d = Ok b' -> wb b <> BOwn -> d = [] /\ b' = b.
Proof. exact wr_win_foreign_lemma. Qed.
Print Assumptions C08_no_foreign_write.

(* ---- (2) refinement to the reference byte queue ------------------------------------------------- *)

Theorem C08_refines_queue_step : forall w qs o, winv w -> wref w qs ->
  match spec_step qs o with
  | Some (qs', a') => exists w' a, step w o = Ok (w', a) /\ winv w' /\ wref w' qs' /\ ans_ref a a'
  | None => step w o = Err BadArg
  end.
Proof. exact step_sim_lemma. Qed.
Print Assumptions C08_refines_queue_step.

Theorem C08_refines_queue : forall ops w qs, winv w -> wref w qs ->
  match spec_run qs ops with
  | Some (qs', rs') => exists w' rs, run w ops = Ok (w', rs) /\ winv w' /\ wref w' qs' /\ Forall2 ans_ref rs rs'
  | None => run w ops = Err BadArg
  end.
Proof. exact run_sim_lemma. Qed.
Print Assumptions C08_refines_queue.

(* per method, per branch: from any state satisfying the invariant the call succeeds, re-establishes
   the invariant and exposes exactly these bytes *)
Theorem C08_assign : forall b d, inv b -> exists b', assign_ b d = Ok b' /\ inv b' /\ exposed b' = d.
Proof. exact assign_ok. Qed.
Print Assumptions C08_assign.

Theorem C08_prepend : forall b d, inv b -> exists b', prepend_ b d = Ok b' /\ inv b' /\ exposed b' = d ++ exposed b.
Proof. exact prepend_ok. Qed.
Print Assumptions C08_prepend.

Theorem C08_resize : forall b n, inv b ->
  exists b' t, resize_ b n = Ok b' /\ inv b' /\
               exposed b' = firstn n (exposed b) ++ t /\ length t = n - size b /\ (owns b' = true \/ n = 0).
Proof. exact resize_ok. Qed.
Print Assumptions C08_resize.

Theorem C08_append : forall b d, inv b -> exists b', append_ b d = Ok b' /\ inv b' /\ exposed b' = exposed b ++ d.
Proof. exact append_ok. Qed.
Print Assumptions C08_append.

Theorem C08_append_self : forall b, inv b -> exists b', append_self b = Ok b' /\ inv b' /\ exposed b' = exposed b ++ exposed b.
Proof. exact append_self_ok. Qed.
Print Assumptions C08_append_self.

Theorem C08_remove_front : forall self b n, inv b ->
  exists b', remove_front self b n = Ok b' /\ inv b' /\ exposed b' = skipn n (exposed b).
Proof. exact remove_front_ok. Qed.
Print Assumptions C08_remove_front.

Theorem C08_remove_back : forall self b n, inv b ->
  exists b', remove_back self b n = Ok b' /\ inv b' /\ exposed b' = firstn (size b - n) (exposed b).
Proof. exact remove_back_ok. Qed.
Print Assumptions C08_remove_back.

(* removeFront / removeBack with an argument at or beyond the current size: the result does not depend on
   the argument (model and reference alike).  Sizes are [nat]; the drivers pass an argument above 10^6
   (e.g. 2^64-1, which the repaired code handles by comparing sizes instead of pointers) as size+1. *)
Theorem C08_remove_clamp : forall self b n m, size b <= n -> size b <= m ->
  remove_front self b n = remove_front self b m /\ remove_back self b n = remove_back self b m.
Proof. exact remove_clamp_lemma. Qed.
Print Assumptions C08_remove_clamp.

Theorem C08_spec_remove_clamp : forall (q : queue) n m, length q <= n -> length q <= m ->
  skipn n q = skipn m q /\ firstn (length q - n) q = firstn (length q - m) q.
Proof. exact spec_remove_clamp_lemma. Qed.
Print Assumptions C08_spec_remove_clamp.

Theorem C08_reserve : forall b c, inv b -> exists b', reserve_ b c = Ok b' /\ inv b' /\ exposed b' = exposed b.
Proof. exact reserve_ok. Qed.
Print Assumptions C08_reserve.

Theorem C08_clear : forall b, inv b -> exists b', clear_ b = Ok b' /\ inv b' /\ exposed b' = [].
Proof. exact clear_ok. Qed.
Print Assumptions C08_clear.

(* ---- (3) terminator ----------------------------------------------------------------------------- *)

Theorem C08_terminator : forall w b, reachable w -> In b w -> owns b = true ->
  exists a, own b = Some a /\ length a = capf b + 1 /\ stop b < length a /\
            nth_error a (stop b) = Some (Some 0%Z) /\ after_end b = Some (Some 0%Z).
Proof. exact terminator_lemma. Qed.
Print Assumptions C08_terminator.

(* ---- non-vacuity -------------------------------------------------------------------------------- *)

(* one history through every branch of prepend (head-room, in-place shift, reallocate from an owning
   and from an attached state) and resize (reallocate, in place, compact to front, non-owning), mixing
   attach, swap and the aliasing calls *)
Definition ex_ops : list op :=
  [ ONewData [1;2;3]%Z;          (* v0 = "123", capacity 3                                  *)
    OReserve 0 10;               (* reallocate to capacity 10                                *)
    ORemoveFront 0 1;            (* head-room 1                                              *)
    OPrepend 0 [9]%Z;            (* prepend: head-room                          -> 9 2 3      *)
    ORemoveFront 0 2;            (* head-room 2, "3"                                          *)
    OPrepend 0 [7;7;7]%Z;        (* prepend: in-place shift                     -> 7 7 7 3    *)
    ORemoveFront 0 1;            (* start 1                                     -> 7 7 3      *)
    OResize 0 5;                 (* resize: in place, two unspecified bytes                   *)
    ORemoveFront 0 3;            (* start 4, size 2                                           *)
    OResize 0 8;                 (* resize: compact to front                                  *)
    OResize 0 12;                (* resize: reallocate                                        *)
    OAssign 0 [4;5]%Z;
    OPrepend 0 [1;1;1;1;1;1;1;1;1;1;1]%Z;   (* prepend: reallocate (owning)                   *)
    ONew;                        (* v1 default                                                *)
    OAttach 1 [65;66;67]%Z;      (* v1 attached "ABC"                                         *)
    ORemoveFront 1 1;            (* window moves inside the attached range     -> B C         *)
    OPrepend 1 [64]%Z;           (* prepend: reallocate from an attached state -> @ B C       *)
    OAttach 1 [70;71]%Z;
    OAppend 1 [72]%Z;            (* append on attached: resize reallocates     -> F G H       *)
    OAttach 1 [80;81]%Z;
    OResize 1 0;                 (* resize: non-owning                                        *)
    OSwap 0 1;
    OAppendB 1 1;                (* b.append(b)                                               *)
    OPrependB 0 1;
    OAsg 0 0;
    OEq 0 1;
    ORemoveBack 1 100;
    OFree 0 ].

Example ex_run_ok :
  exists w rs, run [] ex_ops = Ok (w, rs) /\ map exposed w = [ []; [] ] /\ map owns w = [false; true] /\
               map after_end w = [None; Some (Some 0%Z)].
Proof. eexists. eexists. vm_compute. repeat split. Qed.

Example ex_spec_accepts : exists qs rs, spec_run [] ex_ops = Some (qs, rs).
Proof. eexists. eexists. vm_compute. reflexivity. Qed.

Definition ex_prefix := firstn 13 ex_ops.
Example ex_prefix_state :
  exists w rs, run [] ex_prefix = Ok (w, rs) /\
    map exposed w = [ map (@Some Z) [1;1;1;1;1;1;1;1;1;1;1;4;5]%Z ] /\ map after_end w = [Some (Some 0%Z)].
Proof. eexists. eexists. vm_compute. repeat split. Qed.

(* a growing resize exposes bytes the reference leaves unspecified; the model shows stale ones *)
Example ex_resize_unspecified :
  spec_run [] (firstn 8 ex_ops) = Some ([ [Some 7; Some 7; Some 3; None; None]%Z ], [None;None;None;None;None;None;None;None]) /\
  exists w rs, run [] (firstn 8 ex_ops) = Ok (w, rs) /\ map exposed w = [ [Some 7; Some 7; Some 3; Some 0; None]%Z ].
Proof. split; [vm_compute; reflexivity|]. eexists. eexists. vm_compute. split; reflexivity. Qed.

(* the error the safety theorem leaves possible does occur, and only for a missing variable *)
Example ex_badarg : run [] [ONew; OClear 1] = Err BadArg /\ spec_run [] [ONew; OClear 1] = None.
Proof. vm_compute. split; reflexivity. Qed.

(* the invariant and the terminator are not vacuous: a reachable world with an owning variable with
   head-room, slack and a terminator inside its allocation *)
Example ex_reachable :
  exists w b a, reachable w /\ In b w /\ owns b = true /\ own b = Some a /\
                start b = 1 /\ stop b = 3 /\ capf b = 10 /\ length a = 11 /\ nth_error a 3 = Some (Some 0%Z).
Proof.
  destruct (run [] (firstn 3 ex_ops)) as [[w rs]|e] eqn:E; [|vm_compute in E; discriminate].
  pose proof (run_reachable_lemma _ _ _ _ reach_init E) as R.
  vm_compute in E. injection E as Ew _. subst w.
  eexists. eexists. eexists. split; [exact R|]. split; [left; reflexivity|]. vm_compute. repeat split.
Qed.

Example ex_foreign_write_refused :
  wr_win (attach_ (default_ 0) [1;2;3]%Z) 3 [Some 0%Z] = Err WriteForeign /\
  wr_win (attach_ (default_ 0) [1;2;3]%Z) 3 [] = Ok (attach_ (default_ 0) [1;2;3]%Z).
Proof. split; reflexivity. Qed.

Example ex_remove_clamp :
  remove_back 0 (mkbuf (Some [Some 1; Some 2; Some 0; None]%Z) BOwn 0 2 3) 5 =
  Ok (mkbuf (Some [Some 0; Some 2; Some 0; None]%Z) BOwn 0 0 3).
Proof. reflexivity. Qed.
