(* Property C08 - only statements closed by `exact`, each followed by Print Assumptions. *)
From Coq Require Import ZArith List.
From Common Require Import ListAux.
From Buffer Require Import BufferSpec BufferModel BufferProofs.
Import ListNotations.
