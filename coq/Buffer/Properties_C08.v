(* Property C08 - only statements closed by `exact`, each followed by Print Assumptions.

   Clause of the property text                          theorem(s) below
   ---------------------------------------------------  ------------------------------------------------
   "after any sequence of append, prepend, assign,      C08_refines_queue (whole histories from the empty
    resize, reserve, removeFront, removeBack, clear,    world), C08_refines_queue_step (one step from any
    free, swap, copy and attach a Buffer exposes        related pair of states); per method and per branch:
    exactly the bytes a reference byte queue holds      C08_assign, C08_prepend (head-room / in-place shift /
    (bytes newly exposed by a growing resize are        reallocate), C08_resize (reallocate / in place /
    unspecified)"                                       compact to front / non-owning), C08_append,
                                                        C08_append_self, C08_remove_front, C08_remove_back,
                                                        C08_reserve, C08_clear; with a source pointer into
                                                        the Buffer itself: C08_append_at, C08_assign_at,
                                                        C08_prepend_at.  reserve is a hint: the reference
                                                        queue stays as it is for every argument, and for an
                                                        argument no allocation can follow (hint_unsat) the
                                                        reference accepts both outcomes; the model, like the
                                                        code, gives up there (C08_reserve_hint) - so the
                                                        history theorems carry the alternative "or the model
                                                        stopped at such a hint", and C08_refines_queue_nohint
                                                        is the exact statement for histories without one
   "whenever it owns its storage one readable zero      C08_terminator (every variable of every reachable
    byte follows the last data byte"                    world: the cell at [stop] is inside the allocation
                                                        of capacity+1 cells and holds 0)
   "it never reads or writes outside its own            C08_memory_safe (histories), C08_memory_safe_step
    allocation or the attached range"                   (one step from any reachable world): the model never
                                                        produces OutOfBounds (rd/wr outside the allocation,
                                                        read outside the attached range), WriteForeign (any
                                                        non-empty write through a pointer into attached
                                                        memory or a _capacity field), Overlap (Memory::copy
                                                        on overlapping ranges) or BadState.  The two errors
                                                        left are BadArg, exactly when the reference rejects
                                                        the history (operand variable missing, a data range
                                                        of more than max_bytes bytes, a pointer "inside v"
                                                        that is not), and AllocFail, exactly when the
                                                        reference says SUnsat (see "sizes") or the operation
                                                        is a reserve that cannot be followed.  Foreign memory
                                                        has no write operation in the model at all: [BReg r]
                                                        carries [r] unchanged (C08_no_foreign_write).
   "... for all sizes"                                  every caller-chosen usize is an N (2^64-1 included).
                                                        C08_allocate: Buffer::allocate(c) returns c+1 cells
                                                        for c < max_bytes = PTRDIFF_MAX and fails for every
                                                        other c, c = 2^64-1 included (where c + 1 wraps to 0).
                                                        C08_allocate_wrapping_refuted: the request the code
                                                        formed before fixes/C08/10, new char[c + 1], succeeds
                                                        for c = 2^64-1 with a block of 0 cells, and the
                                                        terminator write that follows is OutOfBounds.
                                                        C08_sums_do_not_wrap: the usize sums of append and
                                                        prepend equal the mathematical sums for every window
                                                        that satisfies the invariant and every data range
                                                        that can exist.  C08_remove_clamp: removeFront /
                                                        removeBack treat every n >= size alike.
   representation invariant                             C08_invariant_initial_and_preserved, C08_rep_invariant
   (buffer <= start <= end <= buffer + capacity, ...)   (spelled out for every reachable world, with
                                                        capacity < max_bytes)

   Quantifier "for all histories, sizes and front/back offsets, including histories that mix attach
   with owning operations": every theorem is for all op lists / all states satisfying [inv]; op lists
   contain OAttach, OSwap and the aliasing calls (v = v, v.append(v), v.prepend(v), v.append(v + off, n),
   v.assign(v + off, n), v.prepend(v + off, n)) without restriction.
   Not modelled (see level_note of checks/C08.py): the order of delete[] relative to the copy out of
   the old storage (AddressSanitizer in the correspondence run); whether new[] satisfies a request of at
   most max_bytes bytes (the model says yes). *)
From Coq Require Import ZArith NArith List.
From Common Require Import ListAux.
From Buffer Require Import BufferSpec BufferModel BufferProofs.
Import ListNotations.

(* ---- (4) representation invariant --------------------------------------------------------------- *)

Theorem C08_invariant_initial_and_preserved :
  winv [] /\ forall w o w' a, winv w -> step w o = Ok (w', a) -> winv w'.
Proof. exact (conj (Forall_nil inv) step_inv_lemma). Qed.
Print Assumptions C08_invariant_initial_and_preserved.

Theorem C08_reachable_inv : forall w, reachable w -> winv w.
Proof. exact reachable_inv_lemma. Qed.
Print Assumptions C08_reachable_inv.

Theorem C08_rep_invariant : forall w b, reachable w -> In b w ->
  match own b with
  | Some a => wb b = BOwn /\ length a = capf b + 1 /\ start b <= stop b /\ stop b <= capf b /\
              (N.of_nat (capf b) < max_bytes)%N
  | None => capf b = 0 /\
            match wb b with
            | BOwn => False
            | BReg r => start b <= stop b /\ stop b <= length r /\ (N.of_nat (length r) < max_bytes)%N
            | BCap _ => start b = 0 /\ stop b = 0
            end
  end.
Proof. exact rep_lemma. Qed.
Print Assumptions C08_rep_invariant.

(* ---- sizes: the allocation request, sums in usize arithmetic ------------------------------------- *)

(* Buffer::allocate(capacity) of the repaired code: capacity + 1 cells whenever that fits into an
   object, a failed allocation for every other capacity - also for 2^64-1, where capacity + 1 is 0 *)
Theorem C08_allocate : forall c,
  ((c < max_bytes)%N -> allocate c = Ok (new_array (N.to_nat c + 1))) /\
  ((max_bytes <= c)%N -> allocate c = Err AllocFail).
Proof. exact (fun c => conj (allocate_ok c) (allocate_fail c)). Qed.
Print Assumptions C08_allocate.

(* new char[capacity + 1] as written before fixes/C08/10: for capacity = 2^64-1 the request is for 0
   bytes, it succeeds, and the block has no room for the terminator the next statement writes *)
Theorem C08_allocate_wrapping_refuted :
  exists c, (max_bytes <= c)%N /\ allocate_wrapping c = Ok [] /\ wr [] 0 [Some 0%Z] = Err OutOfBounds.
Proof. exact allocate_wrapping_refuted_lemma. Qed.
Print Assumptions C08_allocate_wrapping_refuted.

Theorem C08_sums_do_not_wrap : forall a b,
  (N.of_nat a < max_bytes)%N -> (N.of_nat b < max_bytes)%N -> add_usize (N.of_nat a) (N.of_nat b) = N.of_nat (a + b).
Proof. exact add_usize_small. Qed.
Print Assumptions C08_sums_do_not_wrap.

(* ---- (1) memory safety -------------------------------------------------------------------------- *)

Theorem C08_memory_safe_step : forall w o e, winv w -> step w o = Err e ->
  (e = BadArg /\ spec_step (map exposed w) o = SReject) \/
  (e = AllocFail /\ (spec_step (map exposed w) o = SUnsat \/ hint_unsat o = true)).
Proof. exact step_safe_lemma. Qed.
Print Assumptions C08_memory_safe_step.

Theorem C08_memory_safe : forall ops e, run [] ops = Err e ->
  (e = BadArg /\ spec_run [] ops = SReject) \/
  (e = AllocFail /\ (spec_run [] ops = SUnsat \/ existsb hint_unsat ops = true)).
Proof. exact run_safe_lemma. Qed.
Print Assumptions C08_memory_safe.

Theorem C08_run_reachable : forall ops w w' rs, reachable w -> run w ops = Ok (w', rs) -> reachable w'.
Proof. exact run_reachable_lemma. Qed.
Print Assumptions C08_run_reachable.

(* the only write primitive, applied through a window that is not into the own allocation (attached
   range or _capacity field), succeeds only for zero bytes and changes nothing; every other attempt is
   Err WriteForeign, which C08_memory_safe excludes *)
Theorem C08_no_foreign_write : forall b off d b', wr_win b off d = Ok b' -> wb b <> BOwn -> d = [] /\ b' = b.
Proof. exact wr_win_foreign_lemma. Qed.
Print Assumptions C08_no_foreign_write.

(* ---- (2) refinement to the reference byte queue ------------------------------------------------- *)

(* one step.  Where the reference has an answer the model has the same one - except for a reserve that no
   allocation can follow (hint_unsat): the reference keeps the queues (the text says nothing else about it) and
   allows an implementation to stop; the model, like the code, stops with a failed allocation *)
Theorem C08_refines_queue_step : forall w qs o, winv w -> wref w qs ->
  match spec_step qs o with
  | SOk (qs', a') => if hint_unsat o then step w o = Err AllocFail
                     else exists w' a, step w o = Ok (w', a) /\ winv w' /\ wref w' qs' /\ ans_ref a a'
  | SReject => step w o = Err BadArg
  | SUnsat => step w o = Err AllocFail
  end.
Proof. exact step_sim_lemma. Qed.
Print Assumptions C08_refines_queue_step.

(* the hint itself: the reference leaves every queue as it is and answers nothing; the model gives up *)
Theorem C08_reserve_hint : forall w qs o, winv w -> wref w qs -> hint_unsat o = true ->
  match spec_step qs o with
  | SOk (qs', a') => qs' = qs /\ a' = None /\ step w o = Err AllocFail
  | SReject => step w o = Err BadArg
  | SUnsat => False
  end.
Proof. exact step_hint. Qed.
Print Assumptions C08_reserve_hint.

(* histories: either the model stopped at a hint that cannot be followed (the reference goes on from there), or
   the reference decides the outcome *)
Theorem C08_refines_queue : forall ops w qs, winv w -> wref w qs ->
  (run w ops = Err AllocFail /\ existsb hint_unsat ops = true) \/
  match spec_run qs ops with
  | SOk (qs', rs') => exists w' rs, run w ops = Ok (w', rs) /\ winv w' /\ wref w' qs' /\ Forall2 ans_ref rs rs'
  | SReject => run w ops = Err BadArg
  | SUnsat => run w ops = Err AllocFail
  end.
Proof. exact run_sim_lemma. Qed.
Print Assumptions C08_refines_queue.

Theorem C08_refines_queue_nohint : forall ops w qs, winv w -> wref w qs -> existsb hint_unsat ops = false ->
  match spec_run qs ops with
  | SOk (qs', rs') => exists w' rs, run w ops = Ok (w', rs) /\ winv w' /\ wref w' qs' /\ Forall2 ans_ref rs rs'
  | SReject => run w ops = Err BadArg
  | SUnsat => run w ops = Err AllocFail
  end.
Proof. exact run_sim_nohint_lemma. Qed.
Print Assumptions C08_refines_queue_nohint.

(* per method, per branch: from any state satisfying the invariant the call either succeeds,
   re-establishes the invariant and exposes exactly these bytes - or the bytes it needs do not fit
   into an object and it fails as an allocation *)
Theorem C08_assign : forall b d, inv b ->
  if fitsN (N.of_nat (length d)) then exists b', assign_ b d = Ok b' /\ inv b' /\ exposed b' = d
  else assign_ b d = Err AllocFail.
Proof. exact assign_ok. Qed.
Print Assumptions C08_assign.

Theorem C08_prepend : forall b d, inv b -> (N.of_nat (length d) < max_bytes)%N ->
  if fitsN (N.of_nat (length d + size b)) then exists b', prepend_ b d = Ok b' /\ inv b' /\ exposed b' = d ++ exposed b
  else prepend_ b d = Err AllocFail.
Proof. exact prepend_ok. Qed.
Print Assumptions C08_prepend.

Theorem C08_resize : forall b n, inv b ->
  if fitsN n then
    exists b', resize_ b n = Ok b' /\
      exists t, inv b' /\ exposed b' = firstn (N.to_nat n) (exposed b) ++ t /\ length t = N.to_nat n - size b /\
                (owns b' = true \/ n = 0%N)
  else resize_ b n = Err AllocFail.
Proof. exact resize_ok. Qed.
Print Assumptions C08_resize.

Theorem C08_append : forall b d, inv b -> (N.of_nat (length d) < max_bytes)%N ->
  if fitsN (N.of_nat (size b + length d)) then exists b', append_ b d = Ok b' /\ inv b' /\ exposed b' = exposed b ++ d
  else append_ b d = Err AllocFail.
Proof. exact append_ok. Qed.
Print Assumptions C08_append.

Theorem C08_append_self : forall b, inv b ->
  if fitsN (N.of_nat (size b + size b)) then exists b', append_self b = Ok b' /\ inv b' /\ exposed b' = exposed b ++ exposed b
  else append_self b = Err AllocFail.
Proof. exact append_self_ok. Qed.
Print Assumptions C08_append_self.

(* the source is [n] bytes at offset [off] inside the Buffer's own window *)
Theorem C08_append_at : forall b off n, inv b -> off + n <= size b ->
  if fitsN (N.of_nat (size b + n)) then
    exists b', append_at b off n = Ok b' /\ inv b' /\ exposed b' = exposed b ++ slice (exposed b) off n
  else append_at b off n = Err AllocFail.
Proof. exact append_at_ok. Qed.
Print Assumptions C08_append_at.

Theorem C08_assign_at : forall b off n, inv b -> off + n <= size b ->
  if fitsN (N.of_nat n) then exists b', assign_at b off n = Ok b' /\ inv b' /\ exposed b' = slice (exposed b) off n
  else assign_at b off n = Err AllocFail.
Proof. exact assign_at_ok. Qed.
Print Assumptions C08_assign_at.

Theorem C08_prepend_at : forall b off n, inv b -> off + n <= size b ->
  if fitsN (N.of_nat (n + size b)) then
    exists b', prepend_at b off n = Ok b' /\ inv b' /\ exposed b' = slice (exposed b) off n ++ exposed b
  else prepend_at b off n = Err AllocFail.
Proof. exact prepend_at_ok. Qed.
Print Assumptions C08_prepend_at.

Theorem C08_remove_front : forall self b n, inv b ->
  exists b', remove_front self b n = Ok b' /\ inv b' /\
             exposed b' = if (N.of_nat (size b) <=? n)%N then [] else skipn (N.to_nat n) (exposed b).
Proof. exact remove_front_ok. Qed.
Print Assumptions C08_remove_front.

Theorem C08_remove_back : forall self b n, inv b ->
  exists b', remove_back self b n = Ok b' /\ inv b' /\
             exposed b' = if (N.of_nat (size b) <=? n)%N then [] else firstn (size b - N.to_nat n) (exposed b).
Proof. exact remove_back_ok. Qed.
Print Assumptions C08_remove_back.

(* removeFront / removeBack with an argument at or beyond the current size: the result does not depend on
   the argument, up to and including 2^64-1 (the repaired code compares sizes instead of pointers) *)
Theorem C08_remove_clamp : forall self b n m, (N.of_nat (size b) <= n)%N -> (N.of_nat (size b) <= m)%N ->
  remove_front self b n = remove_front self b m /\ remove_back self b n = remove_back self b m.
Proof. exact remove_clamp_lemma. Qed.
Print Assumptions C08_remove_clamp.

Theorem C08_reserve : forall b c, inv b ->
  if fitsN c then exists b', reserve_ b c = Ok b' /\ inv b' /\ exposed b' = exposed b
  else reserve_ b c = Err AllocFail.
Proof. exact reserve_ok. Qed.
Print Assumptions C08_reserve.

Theorem C08_clear : forall b, inv b -> exists b', clear_ b = Ok b' /\ inv b' /\ exposed b' = [].
Proof. exact clear_ok. Qed.
Print Assumptions C08_clear.

(* ---- (3) terminator ----------------------------------------------------------------------------- *)

Theorem C08_terminator : forall w b, reachable w -> In b w -> owns b = true ->
  exists a, own b = Some a /\ length a = capf b + 1 /\ stop b < length a /\
            nth_error a (stop b) = Some (Some 0%Z) /\ after_end b = Some (Some 0%Z).
Proof. exact terminator_lemma. Qed.
Print Assumptions C08_terminator.

(* ---- non-vacuity -------------------------------------------------------------------------------- *)

(* one history through every branch of prepend (head-room, in-place shift, reallocate from an owning
   and from an attached state) and resize (reallocate, in place, compact to front, non-owning), mixing
   attach, swap and the aliasing calls *)
Definition ex_ops : list op :=
  [ ONewData [1;2;3]%Z;          (* v0 = "123", capacity 3                                  *)
    OReserve 0 10%N;               (* reallocate to capacity 10                                *)
    ORemoveFront 0 1%N;            (* head-room 1                                              *)
    OPrepend 0 [9]%Z;            (* prepend: head-room                          -> 9 2 3      *)
    ORemoveFront 0 2%N;            (* head-room 2, "3"                                          *)
    OPrepend 0 [7;7;7]%Z;        (* prepend: in-place shift                     -> 7 7 7 3    *)
    ORemoveFront 0 1%N;            (* start 1                                     -> 7 7 3      *)
    OResize 0 5%N;                 (* resize: in place, two unspecified bytes                   *)
    ORemoveFront 0 3%N;            (* start 4, size 2                                           *)
    OResize 0 8%N;                 (* resize: compact to front                                  *)
    OResize 0 12%N;                (* resize: reallocate                                        *)
    OAssign 0 [4;5]%Z;
    OPrepend 0 [1;1;1;1;1;1;1;1;1;1;1]%Z;   (* prepend: reallocate (owning)                   *)
    ONew;                        (* v1 default                                                *)
    OAttach 1 [65;66;67]%Z;      (* v1 attached "ABC"                                         *)
    ORemoveFront 1 1%N;            (* window moves inside the attached range     -> B C         *)
    OPrepend 1 [64]%Z;           (* prepend: reallocate from an attached state -> @ B C       *)
    OAttach 1 [70;71]%Z;
    OAppend 1 [72]%Z;            (* append on attached: resize reallocates     -> F G H       *)
    OAttach 1 [80;81]%Z;
    OResize 1 0%N;                 (* resize: non-owning                                        *)
    OSwap 0 1;
    OAppendB 1 1;                (* b.append(b)                                               *)
    OPrependB 0 1;
    OAsg 0 0;
    OEq 0 1;
    ORemoveBack 1 usize_max;
    OFree 0 ].

Example ex_run_ok :
  exists w rs, run [] ex_ops = Ok (w, rs) /\ map exposed w = [ []; [] ] /\ map owns w = [false; true] /\
               map after_end w = [None; Some (Some 0%Z)].
Proof. eexists. eexists. vm_compute. repeat split. Qed.

Example ex_spec_accepts : exists qs rs, spec_run [] ex_ops = SOk (qs, rs).
Proof. eexists. eexists. vm_compute. reflexivity. Qed.

Definition ex_prefix := firstn 13 ex_ops.
Example ex_prefix_state :
  exists w rs, run [] ex_prefix = Ok (w, rs) /\
    map exposed w = [ map (@Some Z) [1;1;1;1;1;1;1;1;1;1;1;4;5]%Z ] /\ map after_end w = [Some (Some 0%Z)].
Proof. eexists. eexists. vm_compute. repeat split. Qed.

(* a growing resize exposes bytes the reference leaves unspecified; the model shows stale ones *)
Example ex_resize_unspecified :
  spec_run [] (firstn 8 ex_ops) = SOk ([ [Some 7; Some 7; Some 3; None; None]%Z ], [None;None;None;None;None;None;None;None]) /\
  exists w rs, run [] (firstn 8 ex_ops) = Ok (w, rs) /\ map exposed w = [ [Some 7; Some 7; Some 3; Some 0; None]%Z ].
Proof. split; [vm_compute; reflexivity|]. eexists. eexists. vm_compute. split; reflexivity. Qed.

(* the error the safety theorem leaves possible does occur, and only for a missing variable *)
Example ex_badarg : run [] [ONew; OClear 1] = Err BadArg /\ spec_run [] [ONew; OClear 1] = SReject.
Proof. vm_compute. split; reflexivity. Qed.

(* the invariant and the terminator are not vacuous: a reachable world with an owning variable with
   head-room, slack and a terminator inside its allocation *)
Example ex_reachable :
  exists w b a, reachable w /\ In b w /\ owns b = true /\ own b = Some a /\
                start b = 1 /\ stop b = 3 /\ capf b = 10 /\ length a = 11 /\ nth_error a 3 = Some (Some 0%Z).
Proof.
  destruct (run [] (firstn 3 ex_ops)) as [[w rs]|e] eqn:E; [|vm_compute in E; discriminate].
  pose proof (run_reachable_lemma _ _ _ _ reach_init E) as R.
  vm_compute in E. injection E as Ew _. subst w.
  eexists. eexists. eexists. split; [exact R|]. split; [left; reflexivity|]. vm_compute. repeat split.
Qed.

Example ex_foreign_write_refused :
  wr_win (attach_ (default_ 0) [1;2;3]%Z) 3 [Some 0%Z] = Err WriteForeign /\
  wr_win (attach_ (default_ 0) [1;2;3]%Z) 3 [] = Ok (attach_ (default_ 0) [1;2;3]%Z).
Proof. split; reflexivity. Qed.

Example ex_remove_clamp :
  remove_back 0 (mkbuf (Some [Some 1; Some 2; Some 0; None]%Z) BOwn 0 2 3) usize_max =
  Ok (mkbuf (Some [Some 0; Some 2; Some 0; None]%Z) BOwn 0 0 3).
Proof. reflexivity. Qed.

(* sizes at the top of usize: resize / the capacity constructor with 2^64-1 (where capacity + 1 wraps),
   2^64-2 and 2^63-1 end as failed allocations in model and reference; 2^63-1 is the first capacity that
   does not fit; reserve with such an argument ends as a failed allocation in the model and is a no-op of
   the reference *)
Example ex_usize_max :
  run [] [ONew; OResize 0 usize_max] = Err AllocFail /\ spec_run [] [ONew; OResize 0 usize_max] = SUnsat /\
  run [] [ONewData [1;2;3]%Z; OReserve 0 usize_max] = Err AllocFail /\
  (* the hint: the reference keeps the queue and goes on *)
  spec_run [] [ONewData [1;2;3]%Z; OReserve 0 usize_max; OAppend 0 [4]%Z] = SOk ([known [1;2;3;4]%Z], [None;None;None]) /\
  hint_unsat (OReserve 0 usize_max) = true /\ hint_unsat (OReserve 0 (max_bytes - 1)) = false /\
  existsb hint_unsat ex_ops = false /\
  run [] [ONewCap usize_max] = Err AllocFail /\ spec_run [] [ONewCap usize_max] = SUnsat /\
  run [] [ONew; OResize 0 (usize_max - 1)] = Err AllocFail /\
  run [] [ONew; OResize 0 max_bytes] = Err AllocFail /\
  allocate usize_max = Err AllocFail /\ allocate_wrapping usize_max = Ok [].
Proof. vm_compute. repeat split. Qed.

(* a source inside the Buffer itself: append after a reallocating resize, assign with overlap, prepend
   after the in-place shift *)
Example ex_inside :
  exists w rs, run [] [ ONewData [1;2;3]%Z; OAppendAt 0 1 2;       (* 1 2 3 2 3, reallocated             *)
                        ORemoveFront 0 1%N; OAssignAt 0 1 3;        (* 3 2 3, moved down over itself      *)
                        OReserve 0 9%N; ORemoveFront 0 1%N; OPrependAt 0 1 1 ]    (* 3 2 3 through head-room *)
               = Ok (w, rs) /\ map exposed w = [ map (@Some Z) [3;2;3]%Z ] /\ map after_end w = [Some (Some 0%Z)].
Proof. eexists. eexists. vm_compute. repeat split. Qed.
