(* Executable model of include/nstd/Buffer.hpp (after the repairs fixes/C08/01..13), method by
   method and branch by branch.  No proofs in this file.

   Sizes.  Every usize argument chosen by the caller (constructor capacity, resize, reserve,
   removeFront, removeBack) is an [N]; the two sums the code forms in usize arithmetic
   (capacity + 1 before every new[], old size + size in append / prepend) are written with their
   wrap-around ([succ_usize], [add_usize]).  new[] fails ([AllocFail]) for a request above
   [alloc_limit] = PTRDIFF_MAX and succeeds otherwise.  Offsets into and lengths of existing
   memory stay [nat].

   Memory.  An owned allocation [new char[n]] is a list of n cells, [None] = uninitialised.
   Foreign memory handed to attach() is an immutable byte list (the model refuses every
   non-empty write through a pointer that is not into the own allocation).  The two window
   pointers bufferStart/bufferEnd always share one base:
     BOwn      offsets into the own allocation (pointer [buffer])
     BReg r    offsets into the attached foreign range r
     BCap v    the address of variable v's [_capacity] field (what an empty, non-owning Buffer
               points at; after swap it can be the field of ANOTHER variable), one byte wide,
               never read or written except by zero-length copies
   [capf] is the [_capacity] member, kept separately from the real size of the allocation exactly
   as in the code.  Every access goes through rd/wr with bounds; an access outside yields Err. *)
From Coq Require Import ZArith NArith List Bool Arith Lia.
From Common Require Import ListAux.
From Buffer Require Import BufferSpec.
Import ListNotations.

Inductive err := OutOfBounds | WriteForeign | Overlap | BadState | BadArg | AllocFail.
Inductive res (A : Type) := Ok (a : A) | Err (e : err).
Arguments Ok {A} a.
Arguments Err {A} e.

Definition bind {A B} (r : res A) (f : A -> res B) : res B :=
  match r with Ok a => f a | Err e => Err e end.
Notation "'do' x <- r ; k" := (bind r (fun x => k)) (at level 200, x name, r at level 100, k at level 200).

Definition alloc := list cell.
Inductive base := BOwn | BReg (r : list Z) | BCap (v : nat).
Record buf := mkbuf { own : option alloc; wb : base; start : nat; stop : nat; capf : nat }.

Definition slice {A} (l : list A) (off n : nat) : list A := firstn n (skipn off l).
Definition splice {A} (l : list A) (off : nat) (d : list A) : list A :=
  firstn off l ++ d ++ skipn (off + length d) l.

Definition new_array (n : nat) : alloc := repeat None n.            (* the block new char[n] returns *)

(* ---- usize arithmetic and operator new[] --------------------------------------------------- *)

Definition usize_max : N := 18446744073709551615.
Definition succ_usize (c : N) : N := if (c =? usize_max)%N then 0%N else (c + 1)%N.       (* c + 1 *)
Definition add_usize (a b : N) : N := ((a + b) mod (usize_max + 1))%N.                    (* a + b *)
Definition alloc_limit : N := max_bytes.

(* new char[req]: a request for 0 bytes succeeds *)
Definition new_bytes (req : N) : res alloc :=
  if (req <=? alloc_limit)%N then Ok (new_array (N.to_nat req)) else Err AllocFail.

(* Buffer::allocate(capacity) (fixes/C08/10): capacity + 1 bytes; when that sum wraps to 0 the
   request is capacity itself, which cannot be satisfied *)
Definition allocate (c : N) : res alloc :=
  let s := succ_usize c in
  new_bytes (if (s =? 0)%N then c else s).

(* what every allocation site did before: new char[capacity + 1] *)
Definition allocate_wrapping (c : N) : res alloc := new_bytes (succ_usize c).

Definition rd (a : alloc) (off n : nat) : res (list cell) :=
  if off + n <=? length a then Ok (slice a off n) else Err OutOfBounds.
Definition wr (a : alloc) (off : nat) (d : list cell) : res alloc :=
  if off + length d <=? length a then Ok (splice a off d) else Err OutOfBounds.

(* read n bytes through a window-based pointer (base of b, offset off) *)
Definition rd_win (b : buf) (off n : nat) : res (list cell) :=
  match wb b with
  | BOwn => match own b with Some a => rd a off n | None => Err BadState end
  | BReg r => if off + n <=? length r then Ok (map (@Some Z) (slice r off n)) else Err OutOfBounds
  | BCap _ => if (off =? 0) && (n =? 0) then Ok [] else Err OutOfBounds
  end.

(* write through a window-based pointer *)
Definition wr_win (b : buf) (off : nat) (d : list cell) : res buf :=
  match wb b with
  | BOwn => match own b with
            | Some a => do a' <- wr a off d; Ok (mkbuf (Some a') BOwn (start b) (stop b) (capf b))
            | None => Err BadState
            end
  | _ => match d with [] => Ok b | _ => Err WriteForeign end
  end.

Definition size (b : buf) : nat := stop b - start b.
(* the bytes [bufferStart, bufferEnd) as a copy reads them *)
Definition win (b : buf) : res (list cell) := rd_win b (start b) (size b).

Definition set_terminator (b : buf) : res buf := wr_win b (stop b) [Some 0%Z].     (* *bufferEnd = 0 *)
Definition terminate_if_owned (b : buf) : res buf :=                               (* if(buffer) *bufferEnd = 0 *)
  match own b with Some _ => set_terminator b | None => Ok b end.

(* ---- constructors ---------------------------------------------------------------------- *)

Definition default_ (self : nat) : buf := mkbuf None (BCap self) 0 0 0.

Definition ctor_cap (n : N) : res buf :=
  do a0 <- allocate n;
  set_terminator (mkbuf (Some a0) BOwn 0 0 (N.to_nat n)).

(* Buffer(const byte*, usize) and, with d = the other's window, Buffer(const Buffer&) *)
Definition ctor_data (d : list cell) : res buf :=
  let n := length d in
  do a0 <- allocate (N.of_nat n);
  do a <- wr a0 0 d;
  set_terminator (mkbuf (Some a) BOwn 0 n n).

(* ---- attach ---------------------------------------------------------------------------- *)

Definition attach_ (b : buf) (r : list Z) : buf := mkbuf None (BReg r) 0 (length r) 0.

(* ---- operator= / assign ---------------------------------------------------------------- *)

Definition copy_in (b : buf) (d : list cell) : res buf :=
  match own b with
  | None => Err BadState
  | Some a => do a' <- wr a 0 d;
              set_terminator (mkbuf (Some a') BOwn 0 (length d) (capf b))
  end.

Definition assign_ (b : buf) (d : list cell) : res buf :=
  let n := length d in
  if capf b <? n then
    do a0 <- allocate (N.of_nat n);
    copy_in (mkbuf (Some a0) (wb b) (start b) (stop b) n) d
  else match own b with
       | None => Ok (mkbuf None (wb b) (start b) (start b) (capf b))
       | Some _ => copy_in b d
       end.

(* b.assign((const byte* )b + off, n): the source lies inside the window.  In place the bytes are
   moved (Memory::move, fixes/C08/11).  The reallocating branch releases the old block before it
   copies; a window never holds more than capacity bytes, so with a source inside the window that
   branch is taken only by a non-owning Buffer, whose attached bytes stay where they are. *)
Definition assign_at (b : buf) (off n : nat) : res buf :=
  if capf b <? n then
    match own b with
    | Some _ => Err BadState
    | None =>
        do a0 <- allocate (N.of_nat n);
        do d <- rd_win b (start b + off) n;
        copy_in (mkbuf (Some a0) (wb b) (start b) (stop b) n) d
    end
  else match own b with
       | None => Ok (mkbuf None (wb b) (start b) (start b) (capf b))
       | Some _ => do d <- rd_win b (start b + off) n; copy_in b d
       end.

(* ---- prepend --------------------------------------------------------------------------- *)

(* buffer && (usize)(bufferStart - buffer) >= size *)
Definition headroom (b : buf) (n : nat) : res bool :=
  match own b with
  | None => Ok false
  | Some _ => match wb b with BOwn => Ok (n <=? start b) | _ => Err BadState end
  end.

Definition prepend_realloc (b : buf) (d : list cell) (req : N) : res buf :=
  let n := length d in
  do a0 <- allocate req;
  let r := N.to_nat req in
  do n1 <- wr a0 0 d;
  do old <- rd_win b (start b) (size b);
  do n2 <- wr n1 n old;
  set_terminator (mkbuf (Some n2) BOwn 0 r r).

Definition prepend_ (b : buf) (d : list cell) : res buf :=
  let n := length d in
  do hr <- headroom b n;
  if hr then
    wr_win (mkbuf (own b) (wb b) (start b - n) (stop b) (capf b)) (start b - n) d
  else
    let req := add_usize (N.of_nat n) (N.of_nat (size b)) in     (* requiredCapacity = size + oldSize *)
    match own b with
    | Some a =>
        if (req <=? N.of_nat (capf b))%N then
          do old <- rd a (start b) (size b);            (* Memory::move(buffer + size, bufferStart, oldSize) *)
          do a1 <- wr a n old;
          do a2 <- wr a1 0 d;
          set_terminator (mkbuf (Some a2) BOwn 0 (N.to_nat req) (capf b))
        else prepend_realloc b d req
    | None => prepend_realloc b d req
    end.

Definition disjoint (p q n : nat) : bool := (n =? 0) || (p + n <=? q) || (q + n <=? p).

(* b.prepend((const byte* )b + off, n).  Head-room and reallocation read the source where it is
   (the old block is released after the copies).  The in-place shift moves the window first; the
   repaired code (fixes/C08/13) follows a source that pointed into the window. *)
Definition prepend_at (b : buf) (off n : nat) : res buf :=
  do hr <- headroom b n;
  if hr then
    do d <- rd_win b (start b + off) n;
    if disjoint (start b + off) (start b - n) n then
      wr_win (mkbuf (own b) (wb b) (start b - n) (stop b) (capf b)) (start b - n) d
    else Err Overlap
  else
    let req := add_usize (N.of_nat n) (N.of_nat (size b)) in
    match own b with
    | Some a =>
        if (req <=? N.of_nat (capf b))%N then
          do old <- rd a (start b) (size b);
          do a1 <- wr a n old;
          let src := if off <? size b then n + off else start b + off in
          do d <- rd a1 src n;
          if disjoint src 0 n then
            do a2 <- wr a1 0 d;
            set_terminator (mkbuf (Some a2) BOwn 0 (N.to_nat req) (capf b))
          else Err Overlap
        else do d <- rd_win b (start b + off) n; prepend_realloc b d req
    | None => do d <- rd_win b (start b + off) n; prepend_realloc b d req
    end.

(* ---- resize / append ------------------------------------------------------------------- *)

Definition resize_ (b : buf) (sz : N) : res buf :=
  if (N.of_nat (capf b) <? sz)%N then
    do a0 <- allocate sz;
    let n := N.to_nat sz in
    do old <- rd_win b (start b) (Nat.min (size b) n);
    do n1 <- wr a0 0 old;
    set_terminator (mkbuf (Some n1) BOwn 0 n n)
  else
  let n := N.to_nat sz in
  match own b with
       | Some a =>
           match wb b with
           | BOwn =>
               if start b + n <=? capf b then
                 set_terminator (mkbuf (own b) BOwn (start b) (start b + n) (capf b))
               else
                 do old <- rd a (start b) (size b);     (* Memory::move(buffer, bufferStart, size) *)
                 do a1 <- wr a 0 old;
                 set_terminator (mkbuf (Some a1) BOwn 0 n (capf b))
           | _ => Err BadState
           end
       | None => Ok (mkbuf None (wb b) (start b) (start b) (capf b))
       end.

Definition append_ (b : buf) (d : list cell) : res buf :=
  let n := length d in
  do b1 <- resize_ b (add_usize (N.of_nat (size b)) (N.of_nat n));      (* bufferEnd - bufferStart + size *)
  do b2 <- wr_win b1 (stop b1 - n) d;
  terminate_if_owned b2.

(* b.append(b): the source is read after the resize, through the updated pointers *)
Definition append_self (b : buf) : res buf :=
  let n := size b in
  do b1 <- resize_ b (add_usize (N.of_nat n) (N.of_nat n));
  do d <- rd_win b1 (start b1) n;
  if disjoint (start b1) (stop b1 - n) n then
    do b2 <- wr_win b1 (stop b1 - n) d;
    terminate_if_owned b2
  else Err Overlap.

(* b.append((const byte* )b + off, n): resize may move the window or release the old block; the
   repaired code (fixes/C08/12) finds a source that pointed into the window again afterwards.  A
   source that is not inside the window is the old bufferEnd with n = 0: nothing is read. *)
Definition append_at (b : buf) (off n : nat) : res buf :=
  let inside := off <? size b in
  do b1 <- resize_ b (add_usize (N.of_nat (size b)) (N.of_nat n));
  if inside then
    do d <- rd_win b1 (start b1 + off) n;
    if disjoint (start b1 + off) (stop b1 - n) n then
      do b2 <- wr_win b1 (stop b1 - n) d;
      terminate_if_owned b2
    else Err Overlap
  else if n =? 0 then terminate_if_owned b1 else Err BadState.

(* ---- removeFront / removeBack ---------------------------------------------------------- *)

(* bufferStart = bufferEnd = buffer ? buffer : (byte* )&_capacity *)
Definition reset_empty (self : nat) (b : buf) : buf :=
  match own b with
  | Some _ => mkbuf (own b) BOwn 0 0 (capf b)
  | None => mkbuf None (BCap self) 0 0 (capf b)
  end.

(* the repaired code compares sizes, not pointers: if(size >= (usize)(bufferEnd - bufferStart)) *)
Definition remove_front (self : nat) (b : buf) (n : N) : res buf :=
  if (N.of_nat (size b) <=? n)%N then terminate_if_owned (reset_empty self b)
  else Ok (mkbuf (own b) (wb b) (start b + N.to_nat n) (stop b) (capf b)).

Definition remove_back (self : nat) (b : buf) (n : N) : res buf :=
  let b1 := if (N.of_nat (size b) <=? n)%N then reset_empty self b
            else mkbuf (own b) (wb b) (start b) (stop b - N.to_nat n) (capf b) in
  terminate_if_owned b1.

(* ---- reserve / clear / free ------------------------------------------------------------ *)

Definition reserve_ (b : buf) (c : N) : res buf :=
  if (c <=? N.of_nat (capf b))%N then Ok b
  else
    let n := size b in
    let c' := if (c <? N.of_nat n)%N then N.of_nat n else c in
    do a0 <- allocate c';
    do old <- rd_win b (start b) n;
    do n1 <- wr a0 0 old;
    set_terminator (mkbuf (Some n1) BOwn 0 n (N.to_nat c')).

Definition clear_ (b : buf) : res buf :=
  match own b with
  | Some _ => set_terminator (mkbuf (own b) BOwn 0 0 (capf b))
  | None => Ok (mkbuf None (wb b) (start b) (start b) (capf b))
  end.

Definition free_ (self : nat) (b : buf) : buf := mkbuf None (BCap self) 0 0 0.

(* ---- the world: all variables ---------------------------------------------------------- *)

Definition world := list buf.

Definition get (w : world) (v : nat) : res buf :=
  match nth_error w v with Some b => Ok b | None => Err BadArg end.

Definition ret1 (w : world) (v : nat) (r : res buf) : res (world * option bool) :=
  do b <- r; Ok (upd v b w, None).

(* the pointer argument b + off with n bytes behind it points at bytes b exposes *)
Definition at_ok (b : buf) (off n : nat) : bool := off + n <=? size b.

Definition step (w : world) (o : op) : res (world * option bool) :=
  if negb (data_ok o) then Err BadArg else      (* a byte range of more than max_bytes bytes is not an input *)
  match o with
  | ONew => Ok (w ++ [default_ (length w)], None)
  | ONewCap n => do b <- ctor_cap n; Ok (w ++ [b], None)
  | ONewData d => do b <- ctor_data (known d); Ok (w ++ [b], None)
  | ONewCopy x => do s <- get w x; do d <- win s; do b <- ctor_data d; Ok (w ++ [b], None)
  | OAttach v d => do b <- get w v; Ok (upd v (attach_ b d) w, None)
  | OAsg v x =>
      do b <- get w v; do s <- get w x;
      if v =? x then Ok (w, None)                         (* if(this == &other) return *this; *)
      else do d <- win s; ret1 w v (assign_ b d)
  | OAssign v d => do b <- get w v; ret1 w v (assign_ b (known d))
  | OPrepend v d => do b <- get w v; ret1 w v (prepend_ b (known d))
  | OPrependB v x =>
      do b <- get w v; do s <- get w x;
      if v =? x then                                      (* Buffer copy( *this); prepend(copy, copy.size()) *)
        do d <- win s; do t <- ctor_data d; do d' <- win t; ret1 w v (prepend_ b d')
      else do d <- win s; ret1 w v (prepend_ b d)
  | OAppend v d => do b <- get w v; ret1 w v (append_ b (known d))
  | OAppendB v x =>
      do b <- get w v; do s <- get w x;
      if v =? x then ret1 w v (append_self b)
      else do d <- win s; ret1 w v (append_ b d)
  | OResize v n => do b <- get w v; ret1 w v (resize_ b n)
  | OReserve v n => do b <- get w v; ret1 w v (reserve_ b n)
  | ORemoveFront v n => do b <- get w v; ret1 w v (remove_front v b n)
  | ORemoveBack v n => do b <- get w v; ret1 w v (remove_back v b n)
  | OClear v => do b <- get w v; ret1 w v (clear_ b)
  | OFree v => do b <- get w v; Ok (upd v (free_ v b) w, None)
  | OSwap v x => do b <- get w v; do s <- get w x; Ok (upd x b (upd v s w), None)
  | OEq v x =>
      do b <- get w v; do s <- get w x;
      do d <- win b; do e <- win s;
      Ok (w, q_eq d e)
  | OAppendAt v off n => do b <- get w v; if at_ok b off n then ret1 w v (append_at b off n) else Err BadArg
  | OAssignAt v off n => do b <- get w v; if at_ok b off n then ret1 w v (assign_at b off n) else Err BadArg
  | OPrependAt v off n => do b <- get w v; if at_ok b off n then ret1 w v (prepend_at b off n) else Err BadArg
  end.

Fixpoint run (w : world) (ops : list op) : res (world * list (option bool)) :=
  match ops with
  | [] => Ok (w, [])
  | o :: rest =>
      do wr1 <- step w o;
      do wr2 <- run (fst wr1) rest;
      Ok (fst wr2, snd wr1 :: snd wr2)
  end.

(* ---- what is observed ------------------------------------------------------------------ *)

(* the exposed bytes: size() and operator const byte*; total (empty when the pointers are broken) *)
Definition exposed (b : buf) : list cell :=
  match win b with Ok d => d | Err _ => [] end.

(* the byte *bufferEnd of a Buffer that owns storage *)
Definition after_end (b : buf) : option cell :=
  match own b, wb b with
  | Some a, BOwn => nth_error a (stop b)
  | _, _ => None
  end.

Definition owns (b : buf) : bool := match own b with Some _ => true | None => false end.
