(* Executable model of include/nstd/Buffer.hpp (after the repairs fixes/C08/01..09), method by
   method and branch by branch.  No proofs in this file.

   Memory.  An owned allocation [new char[n]] is a list of n cells, [None] = uninitialised.
   Foreign memory handed to attach() is an immutable byte list (the model refuses every
   non-empty write through a pointer that is not into the own allocation).  The two window
   pointers bufferStart/bufferEnd always share one base:
     BOwn      offsets into the own allocation (pointer [buffer])
     BReg r    offsets into the attached foreign range r
     BCap v    the address of variable v's [_capacity] field (what an empty, non-owning Buffer
               points at; after swap it can be the field of ANOTHER variable), one byte wide,
               never read or written except by zero-length copies
   [capf] is the [_capacity] member, kept separately from the real size of the allocation exactly
   as in the code.  Every access goes through rd/wr with bounds; an access outside yields Err. *)
From Coq Require Import ZArith List Bool Arith Lia.
From Common Require Import ListAux.
From Buffer Require Import BufferSpec.
Import ListNotations.

Inductive err := OutOfBounds | WriteForeign | Overlap | BadState | BadArg.
Inductive res (A : Type) := Ok (a : A) | Err (e : err).
Arguments Ok {A} a.
Arguments Err {A} e.

Definition bind {A B} (r : res A) (f : A -> res B) : res B :=
  match r with Ok a => f a | Err e => Err e end.
Notation "'do' x <- r ; k" := (bind r (fun x => k)) (at level 200, x name, r at level 100, k at level 200).

Definition alloc := list cell.
Inductive base := BOwn | BReg (r : list Z) | BCap (v : nat).
Record buf := mkbuf { own : option alloc; wb : base; start : nat; stop : nat; capf : nat }.

Definition slice {A} (l : list A) (off n : nat) : list A := firstn n (skipn off l).
Definition splice {A} (l : list A) (off : nat) (d : list A) : list A :=
  firstn off l ++ d ++ skipn (off + length d) l.

Definition new_array (n : nat) : alloc := repeat None n.            (* new char[n] *)

Definition rd (a : alloc) (off n : nat) : res (list cell) :=
  if off + n <=? length a then Ok (slice a off n) else Err OutOfBounds.
Definition wr (a : alloc) (off : nat) (d : list cell) : res alloc :=
  if off + length d <=? length a then Ok (splice a off d) else Err OutOfBounds.

(* read n bytes through a window-based pointer (base of b, offset off) *)
Definition rd_win (b : buf) (off n : nat) : res (list cell) :=
  match wb b with
  | BOwn => match own b with Some a => rd a off n | None => Err BadState end
  | BReg r => if off + n <=? length r then Ok (map (@Some Z) (slice r off n)) else Err OutOfBounds
  | BCap _ => if (off =? 0) && (n =? 0) then Ok [] else Err OutOfBounds
  end.

(* write through a window-based pointer *)
Definition wr_win (b : buf) (off : nat) (d : list cell) : res buf :=
  match wb b with
  | BOwn => match own b with
            | Some a => do a' <- wr a off d; Ok (mkbuf (Some a') BOwn (start b) (stop b) (capf b))
            | None => Err BadState
            end
  | _ => match d with [] => Ok b | _ => Err WriteForeign end
  end.

Definition size (b : buf) : nat := stop b - start b.
(* the bytes [bufferStart, bufferEnd) as a copy reads them *)
Definition win (b : buf) : res (list cell) := rd_win b (start b) (size b).

Definition set_terminator (b : buf) : res buf := wr_win b (stop b) [Some 0%Z].     (* *bufferEnd = 0 *)
Definition terminate_if_owned (b : buf) : res buf :=                               (* if(buffer) *bufferEnd = 0 *)
  match own b with Some _ => set_terminator b | None => Ok b end.

(* ---- constructors ---------------------------------------------------------------------- *)

Definition default_ (self : nat) : buf := mkbuf None (BCap self) 0 0 0.

Definition ctor_cap (n : nat) : res buf :=
  set_terminator (mkbuf (Some (new_array (n + 1))) BOwn 0 0 n).

(* Buffer(const byte*, usize) and, with d = the other's window, Buffer(const Buffer&) *)
Definition ctor_data (d : list cell) : res buf :=
  let n := length d in
  do a <- wr (new_array (n + 1)) 0 d;
  set_terminator (mkbuf (Some a) BOwn 0 n n).

(* ---- attach ---------------------------------------------------------------------------- *)

Definition attach_ (b : buf) (r : list Z) : buf := mkbuf None (BReg r) 0 (length r) 0.

(* ---- operator= / assign ---------------------------------------------------------------- *)

Definition copy_in (b : buf) (d : list cell) : res buf :=
  match own b with
  | None => Err BadState
  | Some a => do a' <- wr a 0 d;
              set_terminator (mkbuf (Some a') BOwn 0 (length d) (capf b))
  end.

Definition assign_ (b : buf) (d : list cell) : res buf :=
  let n := length d in
  if capf b <? n then
    copy_in (mkbuf (Some (new_array (n + 1))) (wb b) (start b) (stop b) n) d
  else match own b with
       | None => Ok (mkbuf None (wb b) (start b) (start b) (capf b))
       | Some _ => copy_in b d
       end.

(* ---- prepend --------------------------------------------------------------------------- *)

(* buffer && (usize)(bufferStart - buffer) >= size *)
Definition headroom (b : buf) (n : nat) : res bool :=
  match own b with
  | None => Ok false
  | Some _ => match wb b with BOwn => Ok (n <=? start b) | _ => Err BadState end
  end.

Definition prepend_realloc (b : buf) (d : list cell) : res buf :=
  let n := length d in
  let req := n + size b in
  do n1 <- wr (new_array (req + 1)) 0 d;
  do old <- rd_win b (start b) (size b);
  do n2 <- wr n1 n old;
  set_terminator (mkbuf (Some n2) BOwn 0 req req).

Definition prepend_ (b : buf) (d : list cell) : res buf :=
  let n := length d in
  do hr <- headroom b n;
  if hr then
    wr_win (mkbuf (own b) (wb b) (start b - n) (stop b) (capf b)) (start b - n) d
  else
    let req := n + size b in
    match own b with
    | Some a =>
        if req <=? capf b then
          do old <- rd a (start b) (size b);            (* Memory::move(buffer + size, bufferStart, oldSize) *)
          do a1 <- wr a n old;
          do a2 <- wr a1 0 d;
          set_terminator (mkbuf (Some a2) BOwn 0 req (capf b))
        else prepend_realloc b d
    | None => prepend_realloc b d
    end.

(* ---- resize / append ------------------------------------------------------------------- *)

Definition resize_ (b : buf) (n : nat) : res buf :=
  if capf b <? n then
    do old <- rd_win b (start b) (Nat.min (size b) n);
    do n1 <- wr (new_array (n + 1)) 0 old;
    set_terminator (mkbuf (Some n1) BOwn 0 n n)
  else match own b with
       | Some a =>
           match wb b with
           | BOwn =>
               if start b + n <=? capf b then
                 set_terminator (mkbuf (own b) BOwn (start b) (start b + n) (capf b))
               else
                 do old <- rd a (start b) (size b);     (* Memory::move(buffer, bufferStart, size) *)
                 do a1 <- wr a 0 old;
                 set_terminator (mkbuf (Some a1) BOwn 0 n (capf b))
           | _ => Err BadState
           end
       | None => Ok (mkbuf None (wb b) (start b) (start b) (capf b))
       end.

Definition append_ (b : buf) (d : list cell) : res buf :=
  let n := length d in
  do b1 <- resize_ b (size b + n);
  do b2 <- wr_win b1 (stop b1 - n) d;
  terminate_if_owned b2.

(* b.append(b): the source is read after the resize, through the updated pointers *)
Definition disjoint (p q n : nat) : bool := (n =? 0) || (p + n <=? q) || (q + n <=? p).
Definition append_self (b : buf) : res buf :=
  let n := size b in
  do b1 <- resize_ b (n + n);
  do d <- rd_win b1 (start b1) n;
  if disjoint (start b1) (stop b1 - n) n then
    do b2 <- wr_win b1 (stop b1 - n) d;
    terminate_if_owned b2
  else Err Overlap.

(* ---- removeFront / removeBack ---------------------------------------------------------- *)

(* bufferStart = bufferEnd = buffer ? buffer : (byte* )&_capacity *)
Definition reset_empty (self : nat) (b : buf) : buf :=
  match own b with
  | Some _ => mkbuf (own b) BOwn 0 0 (capf b)
  | None => mkbuf None (BCap self) 0 0 (capf b)
  end.

(* the repaired code compares sizes, not pointers: if(size >= (usize)(bufferEnd - bufferStart)) *)
Definition remove_front (self : nat) (b : buf) (n : nat) : res buf :=
  if size b <=? n then terminate_if_owned (reset_empty self b)
  else Ok (mkbuf (own b) (wb b) (start b + n) (stop b) (capf b)).

Definition remove_back (self : nat) (b : buf) (n : nat) : res buf :=
  let b1 := if size b <=? n then reset_empty self b
            else mkbuf (own b) (wb b) (start b) (stop b - n) (capf b) in
  terminate_if_owned b1.

(* ---- reserve / clear / free ------------------------------------------------------------ *)

Definition reserve_ (b : buf) (c : nat) : res buf :=
  if c <=? capf b then Ok b
  else
    let n := size b in
    let c' := if c <? n then n else c in
    do old <- rd_win b (start b) n;
    do n1 <- wr (new_array (c' + 1)) 0 old;
    set_terminator (mkbuf (Some n1) BOwn 0 n c').

Definition clear_ (b : buf) : res buf :=
  match own b with
  | Some _ => set_terminator (mkbuf (own b) BOwn 0 0 (capf b))
  | None => Ok (mkbuf None (wb b) (start b) (start b) (capf b))
  end.

Definition free_ (self : nat) (b : buf) : buf := mkbuf None (BCap self) 0 0 0.

(* ---- the world: all variables ---------------------------------------------------------- *)

Definition world := list buf.

Definition get (w : world) (v : nat) : res buf :=
  match nth_error w v with Some b => Ok b | None => Err BadArg end.

Definition ret1 (w : world) (v : nat) (r : res buf) : res (world * option bool) :=
  do b <- r; Ok (upd v b w, None).

Definition step (w : world) (o : op) : res (world * option bool) :=
  match o with
  | ONew => Ok (w ++ [default_ (length w)], None)
  | ONewCap n => do b <- ctor_cap n; Ok (w ++ [b], None)
  | ONewData d => do b <- ctor_data (known d); Ok (w ++ [b], None)
  | ONewCopy x => do s <- get w x; do d <- win s; do b <- ctor_data d; Ok (w ++ [b], None)
  | OAttach v d => do b <- get w v; Ok (upd v (attach_ b d) w, None)
  | OAsg v x =>
      do b <- get w v; do s <- get w x;
      if v =? x then Ok (w, None)                         (* if(this == &other) return *this; *)
      else do d <- win s; ret1 w v (assign_ b d)
  | OAssign v d => do b <- get w v; ret1 w v (assign_ b (known d))
  | OPrepend v d => do b <- get w v; ret1 w v (prepend_ b (known d))
  | OPrependB v x =>
      do b <- get w v; do s <- get w x;
      if v =? x then                                      (* Buffer copy( *this); prepend(copy, copy.size()) *)
        do d <- win s; do t <- ctor_data d; do d' <- win t; ret1 w v (prepend_ b d')
      else do d <- win s; ret1 w v (prepend_ b d)
  | OAppend v d => do b <- get w v; ret1 w v (append_ b (known d))
  | OAppendB v x =>
      do b <- get w v; do s <- get w x;
      if v =? x then ret1 w v (append_self b)
      else do d <- win s; ret1 w v (append_ b d)
  | OResize v n => do b <- get w v; ret1 w v (resize_ b n)
  | OReserve v n => do b <- get w v; ret1 w v (reserve_ b n)
  | ORemoveFront v n => do b <- get w v; ret1 w v (remove_front v b n)
  | ORemoveBack v n => do b <- get w v; ret1 w v (remove_back v b n)
  | OClear v => do b <- get w v; ret1 w v (clear_ b)
  | OFree v => do b <- get w v; Ok (upd v (free_ v b) w, None)
  | OSwap v x => do b <- get w v; do s <- get w x; Ok (upd x b (upd v s w), None)
  | OEq v x =>
      do b <- get w v; do s <- get w x;
      do d <- win b; do e <- win s;
      Ok (w, q_eq d e)
  end.

Fixpoint run (w : world) (ops : list op) : res (world * list (option bool)) :=
  match ops with
  | [] => Ok (w, [])
  | o :: rest =>
      do wr1 <- step w o;
      do wr2 <- run (fst wr1) rest;
      Ok (fst wr2, snd wr1 :: snd wr2)
  end.

(* ---- what is observed ------------------------------------------------------------------ *)

(* the exposed bytes: size() and operator const byte*; total (empty when the pointers are broken) *)
Definition exposed (b : buf) : list cell :=
  match win b with Ok d => d | Err _ => [] end.

(* the byte *bufferEnd of a Buffer that owns storage *)
Definition after_end (b : buf) : option cell :=
  match own b, wb b with
  | Some a, BOwn => nth_error a (stop b)
  | _, _ => None
  end.

Definition owns (b : buf) : bool := match own b with Some _ => true | None => false end.
