(* Property C08, reference object: every Buffer variable is a byte queue.
   This file does not look at the code.  A cell is [Some b] (a known byte) or [None]
   (unspecified: the bytes a growing resize newly exposes).

   Variables are numbered in creation order and live until the end of the history.  Every size
   argument is a number of the machine ([N]; the drivers pass every usize up to 2^64-1).

   reserve is a hint: the reference queue is the same before and after, whatever the argument.  What an
   implementation does with a hint that cannot be followed (room for more than max_bytes bytes) the
   property text does not say - it may ignore it, or give up as it gives up on every request for
   storage that cannot exist.  [hint_unsat] names these operations; the reference accepts both
   outcomes for them (see checks/C08.py judge), BufferModel - like the code - takes the second.

   Three answers.  [SReject]: the history has no meaning - a variable that does not exist yet, a
   byte range handed in that is not a possible object (longer than max_bytes), or a pointer
   argument "inside v" that does not point at bytes v exposes.  [SUnsat]: the operation needs an
   object that cannot exist - more than max_bytes = PTRDIFF_MAX bytes for the data and its
   terminator; no allocator satisfies such a request, and the property (which assumes that
   storage can be had) says nothing beyond "the request fails as a request".  [SOk]: every other
   history, including all aliasing ones (b = b, b.append(b), b.prepend(b), b.swap(b), b == b,
   b.append(b + off, n), b.assign(b + off, n), b.prepend(b + off, n)). *)
From Coq Require Import ZArith NArith List Bool Arith Lia.
From Common Require Import ListAux.
Import ListNotations.

Definition cell := option Z.
Definition queue := list cell.

(* PTRDIFF_MAX: no object is larger; n data bytes fit when n bytes and one terminator do *)
Definition max_bytes : N := 9223372036854775807.
Definition fitsN (n : N) : bool := (n <? max_bytes)%N.
Definition fits (n : nat) : bool := fitsN (N.of_nat n).

Inductive op :=
| ONew                                  (* Buffer b;                      *)
| ONewCap (n : N)                       (* Buffer b(n);                   *)
| ONewData (d : list Z)                 (* Buffer b(data, size);          *)
| ONewCopy (w : nat)                    (* Buffer b(w);                   *)
| OAttach (v : nat) (d : list Z)        (* v.attach(fresh foreign memory holding d, |d|) *)
| OAsg (v w : nat)                      (* v = w;                         *)
| OAssign (v : nat) (d : list Z)        (* v.assign(data, size);          *)
| OPrepend (v : nat) (d : list Z)
| OPrependB (v w : nat)                 (* v.prepend(w);                  *)
| OAppend (v : nat) (d : list Z)
| OAppendB (v w : nat)                  (* v.append(w);                   *)
| OResize (v : nat) (n : N)
| OReserve (v : nat) (n : N)
| ORemoveFront (v : nat) (n : N)
| ORemoveBack (v : nat) (n : N)
| OClear (v : nat)
| OFree (v : nat)
| OSwap (v w : nat)
| OEq (v w : nat)                       (* result of v == w               *)
| OAppendAt (v off n : nat)             (* v.append((const byte* )v + off, n);  the n bytes lie inside v *)
| OAssignAt (v off n : nat)             (* v.assign((const byte* )v + off, n);                            *)
| OPrependAt (v off n : nat).           (* v.prepend((const byte* )v + off, n);                           *)

Definition known (d : list Z) : queue := map (@Some Z) d.

(* a byte range handed in is an object that exists *)
Definition data_ok (o : op) : bool :=
  match o with
  | ONewData d | OAttach _ d | OAssign _ d | OPrepend _ d | OAppend _ d => fits (length d)
  | _ => true
  end.

(* v == w: decided by the first position at which the two queues are known to differ; an
   unspecified byte met before that leaves the answer unspecified. *)
Fixpoint cmp_cells (x y : list cell) : option bool :=
  match x, y with
  | [], [] => Some true
  | Some a :: x', Some b :: y' => if Z.eqb a b then cmp_cells x' y' else Some false
  | _ :: _, _ :: _ => None
  | _, _ => Some false
  end.

Definition q_eq (x y : queue) : option bool :=
  if Nat.eqb (length x) (length y) then cmp_cells x y else Some false.

Definition q_resize (q : queue) (n : nat) : queue :=
  if n <=? length q then firstn n q else q ++ repeat None (n - length q).

(* the bytes at [off, off+n) of a queue *)
Definition q_part (q : queue) (off n : nat) : queue := firstn n (skipn off q).

Inductive sres (A : Type) := SOk (a : A) | SReject | SUnsat.
Arguments SOk {A} a.
Arguments SReject {A}.
Arguments SUnsat {A}.

Definition sstep := sres (list queue * option bool).

(* [need q]: the number of data bytes the operation asks one object to hold (decided before the
   new queue is built); [f q]: the new queue *)
Definition on1 (qs : list queue) (v : nat) (need : queue -> N) (f : queue -> queue) : sstep :=
  match nth_error qs v with
  | Some q => if fitsN (need q) then SOk (upd v (f q) qs, None) else SUnsat
  | None => SReject
  end.

Definition on2 (qs : list queue) (v w : nat) (need : queue -> queue -> N) (f : queue -> queue -> queue) : sstep :=
  match nth_error qs v, nth_error qs w with
  | Some q, Some p => if fitsN (need q p) then SOk (upd v (f q p) qs, None) else SUnsat
  | _, _ => SReject
  end.

(* the pointer argument v + off with n bytes behind it lies inside the bytes v exposes *)
Definition on1at (qs : list queue) (v off n : nat) (need : queue -> N) (f : queue -> queue) : sstep :=
  match nth_error qs v with
  | Some q => if off + n <=? length q then on1 qs v need f else SReject
  | None => SReject
  end.

Definition len (q : queue) : N := N.of_nat (length q).

Definition spec_step (qs : list queue) (o : op) : sstep :=
  if negb (data_ok o) then SReject else
  match o with
  | ONew => SOk (qs ++ [[]], None)
  | ONewCap n => if fitsN n then SOk (qs ++ [[]], None) else SUnsat
  | ONewData d => SOk (qs ++ [known d], None)
  | ONewCopy w => match nth_error qs w with
                  | Some p => if fitsN (len p) then SOk (qs ++ [p], None) else SUnsat
                  | None => SReject
                  end
  | OAttach v d => on1 qs v (fun _ => 0%N) (fun _ => known d)
  | OAsg v w => on2 qs v w (fun _ p => len p) (fun _ p => p)
  | OAssign v d => on1 qs v (fun _ => N.of_nat (length d)) (fun _ => known d)
  | OPrepend v d => on1 qs v (fun q => N.of_nat (length d) + len q)%N (fun q => known d ++ q)
  | OPrependB v w => on2 qs v w (fun q p => len p + len q)%N (fun q p => p ++ q)
  | OAppend v d => on1 qs v (fun q => len q + N.of_nat (length d))%N (fun q => q ++ known d)
  | OAppendB v w => on2 qs v w (fun q p => len q + len p)%N (fun q p => q ++ p)
  | OResize v n => on1 qs v (fun _ => n) (fun q => q_resize q (N.to_nat n))
  | OReserve v n => on1 qs v (fun _ => 0%N) (fun q => q)          (* a hint: the queue stays *)
  | ORemoveFront v n => on1 qs v (fun _ => 0%N) (fun q => if (len q <=? n)%N then [] else skipn (N.to_nat n) q)
  | ORemoveBack v n => on1 qs v (fun _ => 0%N) (fun q => if (len q <=? n)%N then [] else firstn (length q - N.to_nat n) q)
  | OClear v => on1 qs v (fun _ => 0%N) (fun _ => [])
  | OFree v => on1 qs v (fun _ => 0%N) (fun _ => [])
  | OSwap v w => match nth_error qs v, nth_error qs w with
                 | Some q, Some p => SOk (upd w q (upd v p qs), None)
                 | _, _ => SReject
                 end
  | OEq v w => match nth_error qs v, nth_error qs w with
               | Some q, Some p => SOk (qs, q_eq q p)
               | _, _ => SReject
               end
  | OAppendAt v off n => on1at qs v off n (fun q => len q + N.of_nat n)%N (fun q => q ++ q_part q off n)
  | OAssignAt v off n => on1at qs v off n (fun _ => N.of_nat n) (fun q => q_part q off n)
  | OPrependAt v off n => on1at qs v off n (fun q => N.of_nat n + len q)%N (fun q => q_part q off n ++ q)
  end.

(* a hint for room that cannot exist: the only operation whose outcome the reference leaves open *)
Definition hint_unsat (o : op) : bool :=
  match o with
  | OReserve _ n => negb (fitsN n)
  | _ => false
  end.

Fixpoint spec_run (qs : list queue) (ops : list op) : sres (list queue * list (option bool)) :=
  match ops with
  | [] => SOk (qs, [])
  | o :: rest =>
      match spec_step qs o with
      | SReject => SReject
      | SUnsat => SUnsat
      | SOk (qs', r) =>
          match spec_run qs' rest with
          | SReject => SReject
          | SUnsat => SUnsat
          | SOk (qs'', rs) => SOk (qs'', r :: rs)
          end
      end
  end.

(* what "exposes exactly the bytes the queue holds" means for one byte and for one answer:
   where the reference is specified the implementation agrees *)
Definition cell_ref (m s : cell) : Prop := s = None \/ s = m.
Definition ans_ref (m s : option bool) : Prop := s = None \/ s = m.
