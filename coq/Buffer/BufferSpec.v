(* Property C08, reference object: every Buffer variable is a byte queue.
   This file does not look at the code.  A cell is [Some b] (a known byte) or [None]
   (unspecified: the bytes a growing resize newly exposes).

   Variables are numbered in creation order and live until the end of the history.  A history
   the reference object does not accept (a variable that does not exist yet) has no meaning and
   [spec_step] answers [None]; every other history, including all aliasing ones
   (b = b, b.append(b), b.prepend(b), b.swap(b), b == b), is accepted. *)
From Coq Require Import ZArith List Bool Arith Lia.
From Common Require Import ListAux.
Import ListNotations.

Definition cell := option Z.
Definition queue := list cell.

Inductive op :=
| ONew                                  (* Buffer b;                      *)
| ONewCap (n : nat)                     (* Buffer b(n);                   *)
| ONewData (d : list Z)                 (* Buffer b(data, size);          *)
| ONewCopy (w : nat)                    (* Buffer b(w);                   *)
| OAttach (v : nat) (d : list Z)        (* v.attach(fresh foreign memory holding d, |d|) *)
| OAsg (v w : nat)                      (* v = w;                         *)
| OAssign (v : nat) (d : list Z)        (* v.assign(data, size);          *)
| OPrepend (v : nat) (d : list Z)
| OPrependB (v w : nat)                 (* v.prepend(w);                  *)
| OAppend (v : nat) (d : list Z)
| OAppendB (v w : nat)                  (* v.append(w);                   *)
| OResize (v : nat) (n : nat)
| OReserve (v : nat) (n : nat)
| ORemoveFront (v : nat) (n : nat)
| ORemoveBack (v : nat) (n : nat)
| OClear (v : nat)
| OFree (v : nat)
| OSwap (v w : nat)
| OEq (v w : nat).                      (* result of v == w               *)

Definition known (d : list Z) : queue := map (@Some Z) d.

(* v == w: decided by the first position at which the two queues are known to differ; an
   unspecified byte met before that leaves the answer unspecified. *)
Fixpoint cmp_cells (x y : list cell) : option bool :=
  match x, y with
  | [], [] => Some true
  | Some a :: x', Some b :: y' => if Z.eqb a b then cmp_cells x' y' else Some false
  | _ :: _, _ :: _ => None
  | _, _ => Some false
  end.

Definition q_eq (x y : queue) : option bool :=
  if Nat.eqb (length x) (length y) then cmp_cells x y else Some false.

Definition q_resize (q : queue) (n : nat) : queue :=
  if n <=? length q then firstn n q else q ++ repeat None (n - length q).

Definition on1 (qs : list queue) (v : nat) (f : queue -> queue) : option (list queue * option bool) :=
  match nth_error qs v with
  | Some q => Some (upd v (f q) qs, None)
  | None => None
  end.

Definition on2 (qs : list queue) (v w : nat) (f : queue -> queue -> queue) : option (list queue * option bool) :=
  match nth_error qs v, nth_error qs w with
  | Some q, Some p => Some (upd v (f q p) qs, None)
  | _, _ => None
  end.

Definition spec_step (qs : list queue) (o : op) : option (list queue * option bool) :=
  match o with
  | ONew => Some (qs ++ [[]], None)
  | ONewCap _ => Some (qs ++ [[]], None)
  | ONewData d => Some (qs ++ [known d], None)
  | ONewCopy w => match nth_error qs w with Some p => Some (qs ++ [p], None) | None => None end
  | OAttach v d => on1 qs v (fun _ => known d)
  | OAsg v w => on2 qs v w (fun _ p => p)
  | OAssign v d => on1 qs v (fun _ => known d)
  | OPrepend v d => on1 qs v (fun q => known d ++ q)
  | OPrependB v w => on2 qs v w (fun q p => p ++ q)
  | OAppend v d => on1 qs v (fun q => q ++ known d)
  | OAppendB v w => on2 qs v w (fun q p => q ++ p)
  | OResize v n => on1 qs v (fun q => q_resize q n)
  | OReserve v _ => on1 qs v (fun q => q)
  | ORemoveFront v n => on1 qs v (fun q => skipn n q)
  | ORemoveBack v n => on1 qs v (fun q => firstn (length q - n) q)
  | OClear v => on1 qs v (fun _ => [])
  | OFree v => on1 qs v (fun _ => [])
  | OSwap v w => match nth_error qs v, nth_error qs w with
                 | Some q, Some p => Some (upd w q (upd v p qs), None)
                 | _, _ => None
                 end
  | OEq v w => match nth_error qs v, nth_error qs w with
               | Some q, Some p => Some (qs, q_eq q p)
               | _, _ => None
               end
  end.

Fixpoint spec_run (qs : list queue) (ops : list op) : option (list queue * list (option bool)) :=
  match ops with
  | [] => Some (qs, [])
  | o :: rest =>
      match spec_step qs o with
      | None => None
      | Some (qs', r) =>
          match spec_run qs' rest with
          | None => None
          | Some (qs'', rs) => Some (qs'', r :: rs)
          end
      end
  end.

(* what "exposes exactly the bytes the queue holds" means for one byte and for one answer:
   where the reference is specified the implementation agrees *)
Definition cell_ref (m s : cell) : Prop := s = None \/ s = m.
Definition ans_ref (m s : option bool) : Prop := s = None \/ s = m.
