From Coq Require Extraction ExtrOcamlBasic.
From Common Require Import Words.
From Buffer Require Import BufferSpec BufferModel.
Extraction Language OCaml.
Extraction "model.ml" anchor step spec_step hint_unsat exposed after_end owns.
