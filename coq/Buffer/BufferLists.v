(* List facts behind the memory model: slice / splice through nth_error, and a tactic that
   decides equalities between lists built from them position by position. *)
From Coq Require Import ZArith List Bool Arith Lia.
From Common Require Import ListAux.
From Buffer Require Import BufferSpec BufferModel.
Import ListNotations.

Arguments Nat.min : simpl never.
Arguments Nat.sub : simpl never.

Lemma nth_error_ext' {A} (l1 l2 : list A) : (forall i, nth_error l1 i = nth_error l2 i) -> l1 = l2.
Proof.
  revert l2; induction l1 as [|x t IH]; intros [|y u] H; auto.
  - specialize (H 0); discriminate.
  - specialize (H 0); discriminate.
  - f_equal.
    + specialize (H 0). simpl in H. congruence.
    + apply IH. intro i. exact (H (S i)).
Qed.

Lemma nth_error_firstn_if {A} (l : list A) n i :
  nth_error (firstn n l) i = if i <? n then nth_error l i else None.
Proof.
  revert n i; induction l as [|x t IH]; intros [|n] [|i]; simpl; auto.
  - destruct (S i <? S n); auto.
  - rewrite IH. change (S i <? S n) with (i <? n). reflexivity.
Qed.

Lemma nth_error_skipn_add {A} (l : list A) k i : nth_error (skipn k l) i = nth_error l (k + i).
Proof.
  revert l; induction k as [|k IH]; intros [|x t]; simpl; auto.
  destruct i; reflexivity.
Qed.

Lemma nth_error_app_if {A} (l1 l2 : list A) i :
  nth_error (l1 ++ l2) i = if i <? length l1 then nth_error l1 i else nth_error l2 (i - length l1).
Proof.
  destruct (i <? length l1) eqn:E.
  - apply Nat.ltb_lt in E. apply nth_error_app1; exact E.
  - apply Nat.ltb_ge in E. apply nth_error_app2; exact E.
Qed.

Lemma nth_error_repeat_if {A} (x : A) n i : nth_error (repeat x n) i = if i <? n then Some x else None.
Proof.
  revert i; induction n as [|n IH]; intros [|i]; simpl; auto.
  rewrite IH. reflexivity.
Qed.

Lemma nth_error_slice {A} (l : list A) off n i :
  nth_error (slice l off n) i = if i <? n then nth_error l (off + i) else None.
Proof. unfold slice. rewrite nth_error_firstn_if, nth_error_skipn_add. reflexivity. Qed.

Lemma nth_error_splice {A} (l d : list A) off i :
  off <= length l ->
  nth_error (splice l off d) i =
  if i <? off then nth_error l i
  else if i <? off + length d then nth_error d (i - off)
  else nth_error l i.
Proof.
  intro H. unfold splice.
  rewrite nth_error_app_if, firstn_length, Nat.min_l by exact H.
  rewrite nth_error_firstn_if.
  destruct (i <? off) eqn:E1; [reflexivity|]. apply Nat.ltb_ge in E1.
  rewrite nth_error_app_if.
  destruct (i - off <? length d) eqn:E2.
  - apply Nat.ltb_lt in E2. replace (i <? off + length d) with true by (symmetry; apply Nat.ltb_lt; lia). reflexivity.
  - apply Nat.ltb_ge in E2. replace (i <? off + length d) with false by (symmetry; apply Nat.ltb_ge; lia).
    rewrite nth_error_skipn_add. f_equal. lia.
Qed.

Lemma slice_length {A} (l : list A) off n : off + n <= length l -> length (slice l off n) = n.
Proof. intro H. unfold slice. rewrite firstn_length, skipn_length. lia. Qed.

Lemma splice_length {A} (l d : list A) off : off + length d <= length l -> length (splice l off d) = length l.
Proof. intro H. unfold splice. rewrite !app_length, firstn_length, skipn_length. lia. Qed.

Lemma known_length d : length (known d) = length d.
Proof. apply map_length. Qed.

Lemma new_array_length n : length (new_array n) = n.
Proof. apply repeat_length. Qed.

Lemma nth_error_known d i : nth_error (known d) i = option_map (@Some Z) (nth_error d i).
Proof. apply nth_error_map. Qed.

Lemma nth_error_new_array n i : nth_error (new_array n) i = if i <? n then Some None else None.
Proof. apply nth_error_repeat_if. Qed.

(* ---- the tactics ---------------------------------------------------------------------- *)

Ltac len :=
  repeat first
    [ rewrite app_length | rewrite known_length | rewrite new_array_length | rewrite repeat_length
    | rewrite map_length
    | rewrite firstn_length
    | rewrite skipn_length
    | rewrite splice_length by (len; lia)
    | rewrite slice_length by (len; lia)
    | progress cbn [length] ].

Ltac nth_norm :=
  repeat first
    [ rewrite nth_error_slice
    | rewrite nth_error_splice by (len; lia)
    | rewrite nth_error_app_if
    | rewrite nth_error_repeat_if
    | rewrite nth_error_new_array
    | rewrite nth_error_map
    | rewrite nth_error_firstn_if
    | rewrite nth_error_skipn_add
    | progress len ].

Ltac split_ifs :=
  repeat match goal with
         | |- context [if ?c then _ else _] =>
             let E := fresh "E" in
             destruct c eqn:E;
             [ first [apply Nat.ltb_lt in E | apply Nat.leb_le in E | apply Nat.eqb_eq in E | idtac]
             | first [apply Nat.ltb_ge in E | apply Nat.leb_gt in E | apply Nat.eqb_neq in E | idtac] ]
         end.

Ltac nth_finish :=
  first
    [ reflexivity
    | assumption
    | exfalso; lia
    | match goal with H : nth_error ?a _ = ?v |- nth_error ?a _ = ?v => rewrite <- H; f_equal; lia end
    | f_equal; lia
    | f_equal; f_equal; lia
    | match goal with |- context [nth_error ?l ?k] => rewrite (proj2 (nth_error_None l k)) by (len; lia); reflexivity end
    | symmetry; apply nth_error_None; len; lia
    | apply nth_error_None; len; lia
    | match goal with |- nth_error [_] ?k = _ => replace k with 0 by lia; reflexivity end
    | match goal with |- _ = nth_error [_] ?k => replace k with 0 by lia; reflexivity end ].

(* equality of two lists, position by position *)
Ltac list_eq :=
  apply nth_error_ext'; let i := fresh "i" in intro i; nth_norm; split_ifs; nth_finish.

(* one position of a list *)
Ltac nth_at := nth_norm; split_ifs; nth_finish.

(* ---- bounded accesses that succeed ---------------------------------------------------- *)

Lemma rd_ok a off n : off + n <= length a -> rd a off n = Ok (slice a off n).
Proof. intro H. unfold rd. apply Nat.leb_le in H. rewrite H. reflexivity. Qed.

Lemma wr_ok a off d : off + length d <= length a -> wr a off d = Ok (splice a off d).
Proof. intro H. unfold wr. apply Nat.leb_le in H. rewrite H. reflexivity. Qed.

Lemma splice_nil {A} (l : list A) off : splice l off [] = l.
Proof. unfold splice. cbn [length app]. rewrite Nat.add_0_r. apply firstn_skipn. Qed.

Lemma slice_all {A} (l : list A) : slice l 0 (length l) = l.
Proof. unfold slice. cbn [skipn]. apply firstn_all. Qed.

Lemma slice_zero {A} (l : list A) off : slice l off 0 = [].
Proof. reflexivity. Qed.
