From Coq Require Import ZArith List Bool Arith Lia.
From Common Require Import ListAux.
From Buffer Require Import BufferSpec BufferModel.
Import ListNotations.
