(* Proofs for property C08 about the model in BufferModel.v.

   inv b        the representation invariant of one Buffer variable (own b = Some a: the window
                is inside the allocation of capf+1 cells and the cell at [stop] holds 0; own b =
                None: capf = 0 and the window is inside the attached range or is the empty window
                on a _capacity field)
   ref b q      the bytes the model exposes agree with the reference queue wherever the queue
                is specified
   Every method is shown to succeed from [inv] (no Err: no access outside the own allocation /
   the attached range, no write into foreign memory), to re-establish [inv] and to expose
   exactly the expected bytes.  The world-level statements follow by case analysis on the op. *)
From Coq Require Import ZArith List Bool Arith Lia.
From Common Require Import ListAux.
From Buffer Require Import BufferSpec BufferModel BufferLists.
Import ListNotations.

(* ---- invariant and abstraction ---------------------------------------------------------- *)

Definition inv (b : buf) : Prop :=
  match own b with
  | Some a => wb b = BOwn /\ length a = capf b + 1 /\ start b <= stop b /\ stop b <= capf b
              /\ nth_error a (stop b) = Some (Some 0%Z)
  | None => capf b = 0 /\
            match wb b with
            | BOwn => False
            | BReg r => start b <= stop b /\ stop b <= length r
            | BCap _ => start b = 0 /\ stop b = 0
            end
  end.

Definition ref (b : buf) (q : queue) : Prop := Forall2 cell_ref (exposed b) q.
Definition winv (w : world) : Prop := Forall inv w.
Definition wref (w : world) (qs : list queue) : Prop := Forall2 ref w qs.

(* the exposed bytes in closed form *)
Definition view (b : buf) : list cell :=
  match own b with
  | Some a => slice a (start b) (stop b - start b)
  | None => match wb b with
            | BReg r => known (slice r (start b) (stop b - start b))
            | _ => []
            end
  end.

Lemma rd_win_prefix b k : inv b -> k <= stop b - start b -> rd_win b (start b) k = Ok (firstn k (view b)).
Proof.
  intros I Hk. unfold inv in I. unfold rd_win, view.
  destruct (own b) as [a|] eqn:Eo.
  - destruct I as (Hw & Hl & Hse & Hec & Ht). rewrite Hw.
    rewrite rd_ok by lia. f_equal. list_eq.
  - destruct I as (Hc & I). destruct (wb b) as [|r|v] eqn:Ew; [contradiction| |].
    + destruct I as [Hse Her].
      replace (start b + k <=? length r) with true by (symmetry; apply Nat.leb_le; lia).
      f_equal. unfold known. list_eq.
    + destruct I as [Hs He]. rewrite Hs.
      replace k with 0 by lia. reflexivity.
Qed.

Lemma view_length b : inv b -> length (view b) = stop b - start b.
Proof.
  intros I. unfold inv in I. unfold view.
  destruct (own b) as [a|] eqn:Eo.
  - destruct I as (Hw & Hl & Hse & Hec & Ht). len. reflexivity.
  - destruct I as (Hc & I). destruct (wb b) as [|r|v] eqn:Ew; [contradiction| |].
    + destruct I as [Hse Her]. len. reflexivity.
    + destruct I as [Hs He]. cbn [length]. lia.
Qed.

Lemma inv_le b : inv b -> start b <= stop b.
Proof.
  unfold inv. destruct (own b); [lia|]. destruct (wb b); lia.
Qed.

Lemma win_inv b : inv b -> win b = Ok (view b).
Proof.
  intro I. unfold win, size. rewrite rd_win_prefix by (auto; lia).
  f_equal. rewrite <- (view_length b I). apply firstn_all.
Qed.

Lemma exposed_inv b : inv b -> exposed b = view b.
Proof. intro I. unfold exposed. rewrite win_inv by exact I. reflexivity. Qed.

Lemma exposed_length b : inv b -> length (exposed b) = size b.
Proof. intro I. rewrite exposed_inv by exact I. apply view_length; exact I. Qed.

(* ---- the common tail of every owning branch: write the terminator ------------------------ *)

Lemma finish_own a s e c :
  length a = c + 1 -> s <= e -> e <= c ->
  exists b', set_terminator (mkbuf (Some a) BOwn s e c) = Ok b' /\ inv b' /\
             exposed b' = slice a s (e - s) /\ owns b' = true /\ capf b' = c /\ start b' = s /\ stop b' = e.
Proof.
  intros Hl Hse Hec.
  exists (mkbuf (Some (splice a e [Some 0%Z])) BOwn s e c).
  assert (I : inv (mkbuf (Some (splice a e [Some 0%Z])) BOwn s e c)).
  { unfold inv; cbn [own wb start stop capf]. repeat split; try lia.
    - len. exact Hl.
    - nth_at. }
  split; [|split; [exact I|split; [|repeat split]]].
  - unfold set_terminator, wr_win; cbn [own wb start stop capf].
    rewrite wr_ok by (cbn [length]; lia). reflexivity.
  - rewrite exposed_inv by exact I. unfold view; cbn [own wb start stop capf]. list_eq.
Qed.

Lemma splice_same {A} (a : list A) e x : nth_error a e = Some x -> splice a e [x] = a.
Proof.
  intro H. assert (He : e < length a) by (apply nth_error_Some; congruence).
  apply nth_error_ext'; intro i. rewrite nth_error_splice by lia. cbn [length].
  destruct (i <? e) eqn:E1; [reflexivity|]. apply Nat.ltb_ge in E1.
  destruct (i <? e + 1) eqn:E2; [|reflexivity]. apply Nat.ltb_lt in E2.
  replace i with e by lia. rewrite Nat.sub_diag. cbn [nth_error]. symmetry; exact H.
Qed.

Lemma terminate_ok b : inv b -> terminate_if_owned b = Ok b.
Proof.
  intro I. unfold inv in I. unfold terminate_if_owned, set_terminator, wr_win.
  destruct b as [o w s e c]; cbn [own wb start stop capf] in *.
  destruct o as [a|]; [|reflexivity].
  destruct I as (Hw & Hl & Hse & Hec & Ht). subst w.
  rewrite wr_ok by (cbn [length]; lia). cbn [bind]. rewrite splice_same by exact Ht. reflexivity.
Qed.

(* ---- assign / operator= ------------------------------------------------------------------ *)

Lemma assign_ok b d : inv b -> exists b', assign_ b d = Ok b' /\ inv b' /\ exposed b' = d.
Proof.
  intro I. unfold assign_.
  destruct (capf b <? length d) eqn:E.
  - unfold copy_in; cbn [own wb start stop capf].
    rewrite wr_ok by (len; lia). cbn [bind].
    destruct (finish_own (splice (new_array (length d + 1)) 0 d) 0 (length d) (length d)) as (b' & H1 & H2 & H3 & _);
      [len; lia | lia | lia |].
    exists b'. split; [exact H1|split; [exact H2|]]. rewrite H3. list_eq.
  - apply Nat.ltb_ge in E. pose proof I as I0. unfold inv in I.
    destruct (own b) as [a|] eqn:Eo.
    + destruct I as (Hw & Hl & Hse & Hec & Ht).
      unfold copy_in. rewrite Eo. rewrite wr_ok by lia. cbn [bind].
      destruct (finish_own (splice a 0 d) 0 (length d) (capf b)) as (b' & H1 & H2 & H3 & _);
        [len; lia | lia | lia |].
      exists b'. split; [exact H1|split; [exact H2|]]. rewrite H3. list_eq.
    + destruct I as (Hc & I).
      assert (Hd : d = []) by (destruct d; [reflexivity|cbn [length] in E; lia]).
      eexists. split; [reflexivity|].
      assert (I' : inv (mkbuf None (wb b) (start b) (start b) (capf b))).
      { unfold inv; cbn [own wb start stop capf]. split; [exact Hc|].
        destruct (wb b); [contradiction|lia|lia]. }
      split; [exact I'|]. rewrite exposed_inv by exact I'. unfold view; cbn [own wb start stop capf].
      subst d. rewrite Nat.sub_diag. destruct (wb b); reflexivity.
Qed.

(* ---- prepend: head-room / in-place shift / reallocate -------------------------------------- *)

Lemma prepend_realloc_ok b d : inv b -> exists b', prepend_realloc b d = Ok b' /\ inv b' /\ exposed b' = d ++ exposed b.
Proof.
  intro I. unfold prepend_realloc.
  rewrite wr_ok by (len; lia). cbn [bind].
  rewrite rd_win_prefix by (auto; unfold size; lia). cbn [bind].
  pose proof (view_length b I) as Hv. unfold size.
  rewrite firstn_all2 by lia.
  rewrite wr_ok by (len; lia). cbn [bind].
  set (req := length d + (stop b - start b)).
  destruct (finish_own (splice (splice (new_array (req + 1)) 0 d) (length d) (view b)) 0 req req) as (b' & H1 & H2 & H3 & _);
    [len; lia | lia | lia |].
  exists b'. split; [exact H1|split; [exact H2|]]. rewrite H3, exposed_inv by exact I.
  subst req. list_eq.
Qed.

Lemma prepend_ok b d : inv b -> exists b', prepend_ b d = Ok b' /\ inv b' /\ exposed b' = d ++ exposed b.
Proof.
  intro I. pose proof (exposed_inv b I) as Ex. pose proof I as I0.
  unfold inv in I. unfold view in Ex. unfold prepend_, headroom.
  destruct (own b) as [a|] eqn:Eo.
  - destruct I as (Hw & Hl & Hse & Hec & Ht). rewrite Hw. cbn [bind].
    destruct (length d <=? start b) eqn:Eh.
    + (* head-room *)
      apply Nat.leb_le in Eh.
      unfold wr_win; cbn [own wb start stop capf].
      rewrite wr_ok by lia. cbn [bind].
      eexists. split; [reflexivity|].
      assert (I' : inv (mkbuf (Some (splice a (start b - length d) d)) BOwn (start b - length d) (stop b) (capf b))).
      { unfold inv; cbn [own wb start stop capf]. repeat split; try lia.
        - len. exact Hl.
        - nth_at. }
      split; [exact I'|]. rewrite exposed_inv by exact I'. unfold view; cbn [own wb start stop capf].
      rewrite Ex. list_eq.
    + apply Nat.leb_gt in Eh. unfold size.
      destruct (length d + (stop b - start b) <=? capf b) eqn:Ec.
      * (* in-place shift *)
        apply Nat.leb_le in Ec.
        rewrite rd_ok by lia. cbn [bind].
        rewrite wr_ok by (len; lia). cbn [bind].
        rewrite wr_ok by (len; lia). cbn [bind].
        destruct (finish_own (splice (splice a (length d) (slice a (start b) (stop b - start b))) 0 d) 0
                             (length d + (stop b - start b)) (capf b)) as (b' & H1 & H2 & H3 & _);
          [len; lia | lia | lia |].
        exists b'. split; [exact H1|split; [exact H2|]]. rewrite H3, Ex. list_eq.
      * apply prepend_realloc_ok; exact I0.
  - cbn [bind]. apply prepend_realloc_ok; exact I0.
Qed.

(* ---- resize: reallocate / in place / compact to front / non-owning ------------------------- *)

Lemma resize_ok b n : inv b ->
  exists b' t, resize_ b n = Ok b' /\ inv b' /\
               exposed b' = firstn n (exposed b) ++ t /\ length t = n - size b /\
               (owns b' = true \/ n = 0).
Proof.
  intro I. pose proof (exposed_inv b I) as Ex. pose proof (view_length b I) as Hv. pose proof I as I0.
  unfold inv in I. unfold resize_.
  destruct (capf b <? n) eqn:E.
  - (* reallocate *)
    apply Nat.ltb_lt in E. unfold size.
    rewrite rd_win_prefix by (auto; lia). cbn [bind].
    rewrite wr_ok by (len; lia). cbn [bind].
    destruct (finish_own (splice (new_array (n + 1)) 0 (firstn (Nat.min (stop b - start b) n) (view b))) 0 n n)
      as (b' & H1 & H2 & H3 & H4 & _); [len; lia | lia | lia |].
    exists b', (repeat None (n - (stop b - start b))).
    split; [exact H1|split; [exact H2|split; [|split; [len; reflexivity|left; exact H4]]]].
    rewrite H3, Ex. list_eq.
  - apply Nat.ltb_ge in E. unfold view in Ex.
    destruct (own b) as [a|] eqn:Eo.
    + destruct I as (Hw & Hl & Hse & Hec & Ht). rewrite Hw.
      destruct (start b + n <=? capf b) eqn:Ei.
      * (* in place *)
        apply Nat.leb_le in Ei.
        destruct (finish_own a (start b) (start b + n) (capf b)) as (b' & H1 & H2 & H3 & H4 & _); [lia | lia | lia |].
        exists b', (slice a (stop b) (n - (stop b - start b))).
        split; [exact H1|split; [exact H2|split; [|split; [unfold size; len; reflexivity|left; exact H4]]]].
        rewrite H3, Ex. list_eq.
      * (* compact to front *)
        apply Nat.leb_gt in Ei. unfold size.
        rewrite rd_ok by lia. cbn [bind].
        rewrite wr_ok by (len; lia). cbn [bind].
        destruct (finish_own (splice a 0 (slice a (start b) (stop b - start b))) 0 n (capf b))
          as (b' & H1 & H2 & H3 & H4 & _); [len; lia | lia | lia |].
        exists b', (slice a (stop b - start b) (n - (stop b - start b))).
        split; [exact H1|split; [exact H2|split; [|split; [len; reflexivity|left; exact H4]]]].
        rewrite H3, Ex. list_eq.
    + destruct I as (Hc & I).
      exists (mkbuf None (wb b) (start b) (start b) (capf b)), [].
      split; [reflexivity|].
      assert (I' : inv (mkbuf None (wb b) (start b) (start b) (capf b))).
      { unfold inv; cbn [own wb start stop capf]. split; [exact Hc|].
        destruct (wb b); [contradiction|lia|lia]. }
      split; [exact I'|]. split; [|split; [cbn [length]; lia|right; lia]].
      rewrite exposed_inv by exact I'. unfold view; cbn [own wb start stop capf].
      replace n with 0 by lia. rewrite Nat.sub_diag. destruct (wb b); reflexivity.
Qed.

(* ---- append = resize, then overwrite the tail, then terminate ------------------------------ *)

Lemma overwrite_tail b d :
  inv b -> length d <= size b -> (owns b = true \/ length d = 0) ->
  exists b', wr_win b (stop b - length d) d = Ok b' /\ inv b' /\
             exposed b' = firstn (size b - length d) (exposed b) ++ d.
Proof.
  intros I Hn Ho. pose proof (exposed_inv b I) as Ex. pose proof I as I0.
  unfold inv in I. unfold view in Ex. unfold size in *. unfold wr_win.
  destruct (own b) as [a|] eqn:Eo.
  - destruct I as (Hw & Hl & Hse & Hec & Ht). rewrite Hw.
    rewrite wr_ok by lia. cbn [bind].
    eexists. split; [reflexivity|].
    assert (I' : inv (mkbuf (Some (splice a (stop b - length d) d)) BOwn (start b) (stop b) (capf b))).
    { unfold inv; cbn [own wb start stop capf]. repeat split; try lia.
      - len. exact Hl.
      - nth_at. }
    split; [exact I'|]. rewrite exposed_inv by exact I'. unfold view; cbn [own wb start stop capf].
    rewrite Ex. list_eq.
  - assert (Hd : d = []).
    { destruct Ho as [Ho|Ho]; [unfold owns in Ho; rewrite Eo in Ho; discriminate|].
      destruct d; [reflexivity|discriminate]. }
    subst d. exists b. split; [destruct (wb b); [destruct I as [_ []]|reflexivity|reflexivity]|]. split; [exact I0|].
    cbn [length]. rewrite Nat.sub_0_r, app_nil_r.
    symmetry. apply firstn_all2. rewrite exposed_length by exact I0. unfold size. lia.
Qed.

Lemma append_ok b d : inv b -> exists b', append_ b d = Ok b' /\ inv b' /\ exposed b' = exposed b ++ d.
Proof.
  intro I. unfold append_.
  destruct (resize_ok b (size b + length d) I) as (b1 & t & H1 & I1 & Ex1 & Ht & Ho1).
  rewrite H1. cbn [bind].
  pose proof (exposed_length b I) as Hl. pose proof (exposed_length b1 I1) as Hl1.
  rewrite firstn_all2 in Ex1 by lia.
  assert (Hs1 : size b1 = size b + length d).
  { rewrite <- Hl1, Ex1, app_length. lia. }
  destruct (overwrite_tail b1 d I1) as (b2 & H2 & I2 & Ex2); [lia | destruct Ho1; [left; assumption|right; lia] |].
  rewrite H2. cbn [bind]. rewrite terminate_ok by exact I2.
  exists b2. split; [reflexivity|split; [exact I2|]].
  rewrite Ex2, Ex1, Hs1. replace (size b + length d - length d) with (length (exposed b)) by lia.
  rewrite firstn_app, Nat.sub_diag, firstn_all. cbn [firstn]. rewrite app_nil_r. reflexivity.
Qed.

Lemma append_self_ok b : inv b -> exists b', append_self b = Ok b' /\ inv b' /\ exposed b' = exposed b ++ exposed b.
Proof.
  intro I. unfold append_self.
  destruct (resize_ok b (size b + size b) I) as (b1 & t & H1 & I1 & Ex1 & Ht & Ho1).
  rewrite H1. cbn [bind].
  pose proof (exposed_length b I) as Hl. pose proof (exposed_length b1 I1) as Hl1.
  rewrite firstn_all2 in Ex1 by lia.
  assert (Hs1 : size b1 = size b + size b).
  { rewrite <- Hl1, Ex1, app_length. lia. }
  change (size b1) with (stop b1 - start b1) in Hs1.
  rewrite rd_win_prefix by (auto; lia). cbn [bind].
  assert (Hf : firstn (size b) (view b1) = exposed b).
  { rewrite <- exposed_inv by exact I1. rewrite Ex1, <- Hl, firstn_app, Nat.sub_diag, firstn_all.
    cbn [firstn]. apply app_nil_r. }
  rewrite Hf.
  replace (disjoint (start b1) (stop b1 - size b) (size b)) with true.
  2:{ symmetry. unfold disjoint. apply orb_true_iff. left. apply orb_true_iff. right. apply Nat.leb_le. pose proof (inv_le b1 I1). lia. }
  pose proof (overwrite_tail b1 (exposed b) I1) as OT. rewrite Hl in OT.
  destruct OT as (b2 & H2 & I2 & Ex2); [change (size b1) with (stop b1 - start b1); lia | destruct Ho1; [left; assumption|right; lia] |].
  rewrite H2. cbn [bind]. rewrite terminate_ok by exact I2.
  exists b2. split; [reflexivity|split; [exact I2|]].
  rewrite Ex2, Ex1. change (size b1) with (stop b1 - start b1). rewrite Hs1.
  replace (size b + size b - size b) with (length (exposed b)) by lia.
  rewrite firstn_app, Nat.sub_diag, firstn_all. cbn [firstn]. rewrite app_nil_r. reflexivity.
Qed.

(* ---- removeFront / removeBack -------------------------------------------------------------- *)

(* the state after "bufferStart = bufferEnd = buffer ? buffer : &_capacity", from any window *)
Lemma reset_then_terminate self o w s e c :
  (match o with Some a => length a = c + 1 | None => c = 0 end) ->
  exists b', terminate_if_owned (reset_empty self (mkbuf o w s e c)) = Ok b' /\ inv b' /\ exposed b' = [].
Proof.
  intro H. unfold reset_empty; cbn [own wb start stop capf].
  destruct o as [a|].
  - unfold terminate_if_owned; cbn [own].
    destruct (finish_own a 0 0 c) as (b' & H1 & H2 & H3 & _); [exact H|lia|lia|].
    exists b'. split; [exact H1|split; [exact H2|]]. rewrite H3. reflexivity.
  - eexists. split; [reflexivity|].
    assert (I' : inv (mkbuf None (BCap self) 0 0 c)).
    { unfold inv; cbn [own wb start stop capf]. lia. }
    split; [exact I'|]. rewrite exposed_inv by exact I'. reflexivity.
Qed.

Lemma inv_shape b : inv b -> match own b with Some a => length a = capf b + 1 | None => capf b = 0 end.
Proof. unfold inv. destruct (own b); tauto. Qed.

Lemma remove_front_ok self b n : inv b ->
  exists b', remove_front self b n = Ok b' /\ inv b' /\ exposed b' = skipn n (exposed b).
Proof.
  intro I. pose proof (exposed_inv b I) as Ex. pose proof (exposed_length b I) as Hl. pose proof I as I0.
  pose proof (inv_le b I) as Hle.
  unfold remove_front.
  destruct (size b <=? n) eqn:E.
  - apply Nat.leb_le in E. destruct b as [o w s e c]; cbn [own wb start stop capf] in *.
    destruct (reset_then_terminate self o w s e c (inv_shape _ I)) as (b' & H1 & H2 & H3).
    exists b'. split; [exact H1|split; [exact H2|]]. rewrite H3.
    symmetry. apply skipn_all2. lia.
  - apply Nat.leb_gt in E. unfold size in E. eexists. split; [reflexivity|].
    unfold inv in I. unfold view in Ex.
    assert (I' : inv (mkbuf (own b) (wb b) (start b + n) (stop b) (capf b))).
    { unfold inv; cbn [own wb start stop capf]. destruct (own b) as [a|].
      - repeat split; try tauto; lia.
      - destruct (wb b); [tauto|lia|lia]. }
    split; [exact I'|]. rewrite exposed_inv by exact I'. rewrite Ex. unfold view; cbn [own wb start stop capf].
    destruct (own b) as [a|].
    + destruct I as (Hw & Hl' & Hse & Hec & Ht). list_eq.
    + destruct I as (Hc & I). destruct (wb b) as [|r|v]; [contradiction| |].
      * destruct I as [Hse Her]. unfold known. list_eq.
      * symmetry. apply skipn_nil.
Qed.

Lemma remove_back_ok self b n : inv b ->
  exists b', remove_back self b n = Ok b' /\ inv b' /\ exposed b' = firstn (size b - n) (exposed b).
Proof.
  intro I. pose proof (exposed_inv b I) as Ex. pose proof I as I0. pose proof (inv_le b I) as Hle.
  unfold remove_back.
  destruct (size b <=? n) eqn:E.
  - apply Nat.leb_le in E. destruct b as [o w s e c]; cbn [own wb start stop capf] in *.
    destruct (reset_then_terminate self o w s e c (inv_shape _ I)) as (b' & H1 & H2 & H3).
    exists b'. split; [exact H1|split; [exact H2|]]. rewrite H3.
    replace (size _ - n) with 0 by lia. reflexivity.
  - apply Nat.leb_gt in E. unfold inv in I. unfold view in Ex. unfold size in *.
    destruct (own b) as [a|] eqn:Eo.
    + destruct I as (Hw & Hl' & Hse & Hec & Ht).
      unfold terminate_if_owned; cbn [own]. rewrite Hw.
      destruct (finish_own a (start b) (stop b - n) (capf b)) as (b' & H1 & H2 & H3 & _); [lia|lia|lia|].
      exists b'. split; [exact H1|split; [exact H2|]]. rewrite H3, Ex. list_eq.
    + destruct I as (Hc & I). unfold terminate_if_owned; cbn [own].
      eexists. split; [reflexivity|].
      assert (I' : inv (mkbuf None (wb b) (start b) (stop b - n) (capf b))).
      { unfold inv; cbn [own wb start stop capf]. split; [exact Hc|]. destruct (wb b); [tauto|lia|lia]. }
      split; [exact I'|]. rewrite exposed_inv by exact I'. rewrite Ex. unfold view; cbn [own wb start stop capf].
      destruct (wb b) as [|r|v]; [contradiction| |].
      * destruct I as [Hse Her]. unfold known. list_eq.
      * symmetry. apply firstn_nil.
Qed.

(* an argument at or beyond the current size acts like any other such argument (the drivers use this
   to pass sizes near 2^64, which [nat] cannot hold, as size+1) *)
Lemma remove_clamp_lemma self b n m : size b <= n -> size b <= m ->
  remove_front self b n = remove_front self b m /\ remove_back self b n = remove_back self b m.
Proof.
  intros Hn Hm. unfold remove_front, remove_back.
  apply Nat.leb_le in Hn. apply Nat.leb_le in Hm. rewrite Hn, Hm. split; reflexivity.
Qed.

Lemma spec_remove_clamp_lemma (q : queue) n m : length q <= n -> length q <= m ->
  skipn n q = skipn m q /\ firstn (length q - n) q = firstn (length q - m) q.
Proof.
  intros Hn Hm. split.
  - rewrite !skipn_all2 by lia. reflexivity.
  - replace (length q - n) with 0 by lia. replace (length q - m) with 0 by lia. reflexivity.
Qed.

(* ---- reserve / clear / free / attach / constructors ---------------------------------------- *)

Lemma reserve_ok b c : inv b -> exists b', reserve_ b c = Ok b' /\ inv b' /\ exposed b' = exposed b.
Proof.
  intro I. unfold reserve_.
  destruct (c <=? capf b) eqn:E; [exists b; auto|].
  apply Nat.leb_gt in E.
  pose proof (view_length b I) as Hv.
  rewrite rd_win_prefix by (auto; unfold size; lia). cbn [bind]. unfold size.
  rewrite firstn_all2 by lia.
  set (c' := if c <? stop b - start b then stop b - start b else c).
  assert (Hc' : stop b - start b <= c').
  { subst c'. destruct (c <? stop b - start b) eqn:E2; [lia|apply Nat.ltb_ge in E2; lia]. }
  rewrite wr_ok by (len; lia). cbn [bind].
  destruct (finish_own (splice (new_array (c' + 1)) 0 (view b)) 0 (stop b - start b) c') as (b' & H1 & H2 & H3 & _);
    [len; lia|lia|lia|].
  exists b'. split; [exact H1|split; [exact H2|]]. rewrite H3, exposed_inv by exact I. list_eq.
Qed.

Lemma clear_ok b : inv b -> exists b', clear_ b = Ok b' /\ inv b' /\ exposed b' = [].
Proof.
  intro I. unfold clear_. unfold inv in I.
  destruct (own b) as [a|] eqn:Eo.
  - destruct I as (Hw & Hl & Hse & Hec & Ht).
    destruct (finish_own a 0 0 (capf b)) as (b' & H1 & H2 & H3 & _); [lia|lia|lia|].
    exists b'. split; [exact H1|split; [exact H2|]]. rewrite H3. reflexivity.
  - destruct I as (Hc & I). eexists. split; [reflexivity|].
    assert (I' : inv (mkbuf None (wb b) (start b) (start b) (capf b))).
    { unfold inv; cbn [own wb start stop capf]. split; [exact Hc|]. destruct (wb b); [tauto|lia|lia]. }
    split; [exact I'|]. rewrite exposed_inv by exact I'. unfold view; cbn [own wb start stop capf].
    rewrite Nat.sub_diag. destruct (wb b); reflexivity.
Qed.

Lemma default_ok self : inv (default_ self) /\ exposed (default_ self) = [].
Proof.
  assert (I : inv (default_ self)) by (unfold inv, default_; cbn [own wb start stop capf]; lia).
  split; [exact I|]. rewrite exposed_inv by exact I. reflexivity.
Qed.

Lemma free_ok self b : inv (free_ self b) /\ exposed (free_ self b) = [].
Proof. exact (default_ok self). Qed.

Lemma attach_ok b r : inv (attach_ b r) /\ exposed (attach_ b r) = known r.
Proof.
  assert (I : inv (attach_ b r)) by (unfold inv, attach_; cbn [own wb start stop capf]; lia).
  split; [exact I|]. rewrite exposed_inv by exact I. unfold view, attach_; cbn [own wb start stop capf].
  rewrite Nat.sub_0_r. f_equal. apply slice_all.
Qed.

Lemma ctor_cap_ok n : exists b', ctor_cap n = Ok b' /\ inv b' /\ exposed b' = [].
Proof.
  unfold ctor_cap.
  destruct (finish_own (new_array (n + 1)) 0 0 n) as (b' & H1 & H2 & H3 & _); [len; lia|lia|lia|].
  exists b'. split; [exact H1|split; [exact H2|]]. rewrite H3. reflexivity.
Qed.

Lemma ctor_data_ok d : exists b', ctor_data d = Ok b' /\ inv b' /\ exposed b' = d.
Proof.
  unfold ctor_data. rewrite wr_ok by (len; lia). cbn [bind].
  destruct (finish_own (splice (new_array (length d + 1)) 0 d) 0 (length d) (length d)) as (b' & H1 & H2 & H3 & _);
    [len; lia|lia|lia|].
  exists b'. split; [exact H1|split; [exact H2|]]. rewrite H3. list_eq.
Qed.

(* ---- the reference relation on byte lists --------------------------------------------------- *)

Lemma cr_refl l : Forall2 cell_ref l l.
Proof. induction l; constructor; [right; reflexivity|assumption]. Qed.

Lemma F2_firstn {A B} (R : A -> B -> Prop) n l l' : Forall2 R l l' -> Forall2 R (firstn n l) (firstn n l').
Proof.
  intro H. revert n. induction H as [|x y l l' Hxy H IH]; intros [|n]; cbn [firstn]; constructor; auto.
Qed.

Lemma F2_skipn {A B} (R : A -> B -> Prop) n l l' : Forall2 R l l' -> Forall2 R (skipn n l) (skipn n l').
Proof.
  intro H. revert n. induction H as [|x y l l' Hxy H IH]; intros [|n]; cbn [skipn]; try constructor; auto.
Qed.

Lemma F2_length {A B} (R : A -> B -> Prop) l l' : Forall2 R l l' -> length l = length l'.
Proof. induction 1; cbn [length]; congruence. Qed.

Lemma cr_none t k : length t = k -> Forall2 cell_ref t (repeat None k).
Proof.
  revert k. induction t as [|x t IH]; intros [|k] H; cbn [repeat length] in *; try discriminate; constructor.
  - left; reflexivity.
  - apply IH. congruence.
Qed.

Lemma cr_resize x q n t :
  Forall2 cell_ref x q -> length t = n - length x -> Forall2 cell_ref (firstn n x ++ t) (q_resize q n).
Proof.
  intros H Ht. pose proof (F2_length _ _ _ H) as Hl. unfold q_resize.
  destruct (n <=? length q) eqn:E.
  - apply Nat.leb_le in E. replace t with (@nil cell) by (destruct t; [reflexivity|cbn [length] in Ht; lia]).
    rewrite app_nil_r. apply F2_firstn; exact H.
  - apply Nat.leb_gt in E. rewrite firstn_all2 by lia.
    apply Forall2_app; [exact H|]. apply cr_none. lia.
Qed.

Lemma cmp_cells_ref x y x' y' :
  Forall2 cell_ref x x' -> Forall2 cell_ref y y' -> ans_ref (cmp_cells x y) (cmp_cells x' y').
Proof.
  intro Hx. revert y y'. induction Hx as [|a a' x x' Ha Hx IH]; intros y y' Hy.
  - destruct Hy as [|b b' y y' Hb Hy]; right; reflexivity.
  - destruct Hy as [|b b' y y' Hb Hy].
    + destruct a, a'; right; reflexivity.
    + destruct Ha as [Ha|Ha]; [subst a'; left; destruct b'; reflexivity|]. subst a'.
      destruct Hb as [Hb|Hb]; [subst b'; left; destruct a; reflexivity|]. subst b'.
      destruct a as [a|]; [|right; reflexivity].
      destruct b as [b|]; [|right; reflexivity].
      cbn [cmp_cells]. destruct (Z.eqb a b); [apply IH; exact Hy|right; reflexivity].
Qed.

Lemma q_eq_ref x y x' y' :
  Forall2 cell_ref x x' -> Forall2 cell_ref y y' -> ans_ref (q_eq x y) (q_eq x' y').
Proof.
  intros Hx Hy. unfold q_eq. rewrite (F2_length _ _ _ Hx), (F2_length _ _ _ Hy).
  destruct (length x' =? length y'); [apply cmp_cells_ref; assumption|right; reflexivity].
Qed.

(* ---- worlds ------------------------------------------------------------------------------- *)

Lemma Forall_upd {A} (P : A -> Prop) n x l : Forall P l -> P x -> Forall P (upd n x l).
Proof.
  intros H Hx. revert n. induction H as [|y l Hy H IH]; intros [|n]; cbn [upd]; constructor; auto.
Qed.

Lemma F2_upd {A B} (R : A -> B -> Prop) n x y l l' : Forall2 R l l' -> R x y -> Forall2 R (upd n x l) (upd n y l').
Proof.
  intros H Hxy. revert n. induction H as [|a b l l' Hab H IH]; intros [|n]; cbn [upd]; constructor; auto.
Qed.

Lemma F2_nth {A B} (R : A -> B -> Prop) l l' n :
  Forall2 R l l' ->
  match nth_error l' n with
  | Some y => exists x, nth_error l n = Some x /\ R x y
  | None => nth_error l n = None
  end.
Proof.
  intro H. revert n. induction H as [|a b l l' Hab H IH]; intros [|n]; cbn [nth_error]; auto.
  - exists a. auto.
  - apply IH.
Qed.

Lemma Forall_nth {A} (P : A -> Prop) l n x : Forall P l -> nth_error l n = Some x -> P x.
Proof. intros H Hn. rewrite Forall_forall in H. apply H. eapply nth_error_In; exact Hn. Qed.

Lemma get_sim w qs v : winv w -> wref w qs ->
  match nth_error qs v with
  | Some q => exists b, get w v = Ok b /\ inv b /\ ref b q
  | None => get w v = Err BadArg
  end.
Proof.
  intros Iw Rw. pose proof (F2_nth _ _ _ v Rw) as H. unfold get.
  destruct (nth_error qs v) as [q|].
  - destruct H as (b & Hb & Hr). exists b. rewrite Hb. split; [reflexivity|split; [|exact Hr]].
    eapply Forall_nth; eassumption.
  - rewrite H. reflexivity.
Qed.

Definition sim_goal (r : res (world * option bool)) (s : option (list queue * option bool)) : Prop :=
  match s with
  | Some (qs', a') => exists w' a, r = Ok (w', a) /\ winv w' /\ wref w' qs' /\ ans_ref a a'
  | None => r = Err BadArg
  end.

Lemma ret1_sim w qs v rb q' :
  winv w -> wref w qs ->
  (exists b', rb = Ok b' /\ inv b' /\ ref b' q') ->
  sim_goal (ret1 w v rb) (Some (upd v q' qs, None)).
Proof.
  intros Iw Rw (b' & Hb & Ib & Rb). subst rb. unfold sim_goal, ret1. cbn [bind].
  exists (upd v b' w), None. split; [reflexivity|].
  split; [apply Forall_upd; assumption|split; [apply F2_upd; assumption|right; reflexivity]].
Qed.

Lemma on1_sim w qs v (F : buf -> res buf) (f : queue -> queue) :
  winv w -> wref w qs ->
  (forall b q, inv b -> ref b q -> exists b', F b = Ok b' /\ inv b' /\ ref b' (f q)) ->
  sim_goal (do b <- get w v; ret1 w v (F b)) (on1 qs v f).
Proof.
  intros Iw Rw HF. pose proof (get_sim w qs v Iw Rw) as G. unfold on1.
  destruct (nth_error qs v) as [q|].
  - destruct G as (b & Hg & Ib & Rb). rewrite Hg. cbn [bind].
    apply ret1_sim; auto.
  - rewrite G. reflexivity.
Qed.

Lemma get2_sim w qs v x : winv w -> wref w qs ->
  match nth_error qs v, nth_error qs x with
  | Some q, Some p => exists b s, get w v = Ok b /\ get w x = Ok s /\ inv b /\ inv s /\ ref b q /\ ref s p
  | _, _ => forall K : buf -> buf -> res (world * option bool), (do b <- get w v; do s <- get w x; K b s) = Err BadArg
  end.
Proof.
  intros Iw Rw. pose proof (get_sim w qs v Iw Rw) as G1. pose proof (get_sim w qs x Iw Rw) as G2.
  destruct (nth_error qs v) as [q|].
  - destruct G1 as (b & Hb & Ib & Rb). destruct (nth_error qs x) as [p|].
    + destruct G2 as (s & Hs & Is & Rs). exists b, s. auto 10.
    + intro K. rewrite Hb, G2. reflexivity.
  - intro K. rewrite G1. reflexivity.
Qed.

Lemma ref_eq b q E : exposed b = E -> Forall2 cell_ref E q -> ref b q.
Proof. intros H H2. unfold ref. rewrite H. exact H2. Qed.

Ltac finish_op H :=
  let b' := fresh "b'" in let H1 := fresh "H1" in let H2 := fresh "H2" in let H3 := fresh "H3" in
  destruct H as (b' & H1 & H2 & H3); exists b'; split; [exact H1|split; [exact H2|]];
  eapply ref_eq; [exact H3|].

Theorem step_sim_lemma w qs o : winv w -> wref w qs -> sim_goal (step w o) (spec_step qs o).
Proof.
  intros Iw Rw. pose proof (F2_length _ _ _ Rw) as Hlen.
  destruct o as [ |n|d|x|v d|v x|v d|v d|v x|v d|v x|v n|v n|v n|v n|v|v|v x|v x];
    cbn [step spec_step].
  - (* ONew *)
    exists (w ++ [default_ (length w)]), None. split; [reflexivity|].
    destruct (default_ok (length w)) as [I E].
    split; [apply Forall_app; split; [exact Iw|constructor; [exact I|constructor]]|].
    split; [|right; reflexivity].
    apply Forall2_app; [exact Rw|constructor; [|constructor]]. eapply ref_eq; [exact E|constructor].
  - (* ONewCap *)
    destruct (ctor_cap_ok n) as (b' & H1 & I & E). rewrite H1. cbn [bind].
    exists (w ++ [b']), None. split; [reflexivity|].
    split; [apply Forall_app; split; [exact Iw|constructor; [exact I|constructor]]|].
    split; [|right; reflexivity].
    apply Forall2_app; [exact Rw|constructor; [|constructor]]. eapply ref_eq; [exact E|constructor].
  - (* ONewData *)
    destruct (ctor_data_ok (known d)) as (b' & H1 & I & E). rewrite H1. cbn [bind].
    exists (w ++ [b']), None. split; [reflexivity|].
    split; [apply Forall_app; split; [exact Iw|constructor; [exact I|constructor]]|].
    split; [|right; reflexivity].
    apply Forall2_app; [exact Rw|constructor; [|constructor]]. eapply ref_eq; [exact E|apply cr_refl].
  - (* ONewCopy *)
    pose proof (get_sim w qs x Iw Rw) as G.
    destruct (nth_error qs x) as [p|]; [|rewrite G; reflexivity].
    destruct G as (s & Hs & Is & Rs). rewrite Hs. cbn [bind].
    rewrite win_inv by exact Is. cbn [bind].
    destruct (ctor_data_ok (view s)) as (b' & H1 & I & E). rewrite H1. cbn [bind].
    exists (w ++ [b']), None. split; [reflexivity|].
    split; [apply Forall_app; split; [exact Iw|constructor; [exact I|constructor]]|].
    split; [|right; reflexivity].
    apply Forall2_app; [exact Rw|constructor; [|constructor]]. eapply ref_eq; [exact E|].
    rewrite <- exposed_inv by exact Is. exact Rs.
  - (* OAttach *)
    apply (on1_sim w qs v (fun b => Ok (attach_ b d)) (fun _ => known d) Iw Rw).
    intros b q Ib Rb. destruct (attach_ok b d) as [I E].
    exists (attach_ b d). split; [reflexivity|split; [exact I|]]. eapply ref_eq; [exact E|apply cr_refl].
  - (* OAsg *)
    pose proof (get2_sim w qs v x Iw Rw) as G. unfold on2.
    destruct (nth_error qs v) as [q|] eqn:Eq; [destruct (nth_error qs x) as [p|] eqn:Ep|];
      [|exact (G _)|exact (G _)].
    destruct G as (b & s & Hb & Hs & Ib & Is & Rb & Rs). rewrite Hb, Hs. cbn [bind].
    destruct (v =? x) eqn:Evx.
    + apply Nat.eqb_eq in Evx. subst x. assert (p = q) by congruence. subst p.
      exists w, None. split; [reflexivity|split; [exact Iw|split; [|right; reflexivity]]].
      replace (upd v q qs) with qs; [exact Rw|].
      clear -Eq. revert v Eq. induction qs as [|h t IH]; intros [|v] Eq; cbn [upd nth_error] in *; try discriminate.
      * congruence.
      * f_equal. apply IH. exact Eq.
    + rewrite win_inv by exact Is. cbn [bind]. apply ret1_sim; auto.
      pose proof (assign_ok b (view s) Ib) as H. finish_op H.
      rewrite <- exposed_inv by exact Is. exact Rs.
  - (* OAssign *)
    apply (on1_sim w qs v (fun b => assign_ b (known d)) (fun _ => known d) Iw Rw).
    intros b q Ib Rb. pose proof (assign_ok b (known d) Ib) as H. finish_op H. apply cr_refl.
  - (* OPrepend *)
    apply (on1_sim w qs v (fun b => prepend_ b (known d)) (fun q => known d ++ q) Iw Rw).
    intros b q Ib Rb. pose proof (prepend_ok b (known d) Ib) as H. finish_op H.
    apply Forall2_app; [apply cr_refl|exact Rb].
  - (* OPrependB *)
    pose proof (get2_sim w qs v x Iw Rw) as G. unfold on2.
    destruct (nth_error qs v) as [q|] eqn:Eq; [destruct (nth_error qs x) as [p|] eqn:Ep|];
      [|exact (G _)|exact (G _)].
    destruct G as (b & s & Hb & Hs & Ib & Is & Rb & Rs). rewrite Hb, Hs. cbn [bind].
    rewrite win_inv by exact Is. cbn [bind].
    destruct (v =? x) eqn:Evx.
    + destruct (ctor_data_ok (view s)) as (t & Ht & It & Et). rewrite Ht. cbn [bind].
      rewrite win_inv by exact It. cbn [bind]. apply ret1_sim; auto.
      pose proof (prepend_ok b (view t) Ib) as H. finish_op H.
      apply Forall2_app; [|exact Rb].
      rewrite <- exposed_inv by exact It. rewrite Et. rewrite <- exposed_inv by exact Is. exact Rs.
    + apply ret1_sim; auto.
      pose proof (prepend_ok b (view s) Ib) as H. finish_op H.
      apply Forall2_app; [|exact Rb]. rewrite <- exposed_inv by exact Is. exact Rs.
  - (* OAppend *)
    apply (on1_sim w qs v (fun b => append_ b (known d)) (fun q => q ++ known d) Iw Rw).
    intros b q Ib Rb. pose proof (append_ok b (known d) Ib) as H. finish_op H.
    apply Forall2_app; [exact Rb|apply cr_refl].
  - (* OAppendB *)
    pose proof (get2_sim w qs v x Iw Rw) as G. unfold on2.
    destruct (nth_error qs v) as [q|] eqn:Eq; [destruct (nth_error qs x) as [p|] eqn:Ep|];
      [|exact (G _)|exact (G _)].
    destruct G as (b & s & Hb & Hs & Ib & Is & Rb & Rs). rewrite Hb, Hs. cbn [bind].
    destruct (v =? x) eqn:Evx.
    + apply Nat.eqb_eq in Evx. subst x. assert (p = q) by congruence. subst p.
      apply ret1_sim; auto.
      pose proof (append_self_ok b Ib) as H. finish_op H.
      apply Forall2_app; exact Rb.
    + rewrite win_inv by exact Is. cbn [bind]. apply ret1_sim; auto.
      pose proof (append_ok b (view s) Ib) as H. finish_op H.
      apply Forall2_app; [exact Rb|]. rewrite <- exposed_inv by exact Is. exact Rs.
  - (* OResize *)
    apply (on1_sim w qs v (fun b => resize_ b n) (fun q => q_resize q n) Iw Rw).
    intros b q Ib Rb. destruct (resize_ok b n Ib) as (b' & t & H1 & H2 & H3 & H4 & _).
    exists b'. split; [exact H1|split; [exact H2|]]. eapply ref_eq; [exact H3|].
    apply cr_resize; [exact Rb|]. rewrite exposed_length by exact Ib. exact H4.
  - (* OReserve *)
    apply (on1_sim w qs v (fun b => reserve_ b n) (fun q => q) Iw Rw).
    intros b q Ib Rb. pose proof (reserve_ok b n Ib) as H. finish_op H. exact Rb.
  - (* ORemoveFront *)
    apply (on1_sim w qs v (fun b => remove_front v b n) (fun q => skipn n q) Iw Rw).
    intros b q Ib Rb. pose proof (remove_front_ok v b n Ib) as H. finish_op H. apply F2_skipn; exact Rb.
  - (* ORemoveBack *)
    apply (on1_sim w qs v (fun b => remove_back v b n) (fun q => firstn (length q - n) q) Iw Rw).
    intros b q Ib Rb. pose proof (remove_back_ok v b n Ib) as H. finish_op H.
    rewrite <- (F2_length _ _ _ Rb), exposed_length by exact Ib. apply F2_firstn; exact Rb.
  - (* OClear *)
    apply (on1_sim w qs v (fun b => clear_ b) (fun _ => []) Iw Rw).
    intros b q Ib Rb. pose proof (clear_ok b Ib) as H. finish_op H. constructor.
  - (* OFree *)
    apply (on1_sim w qs v (fun b => Ok (free_ v b)) (fun _ => []) Iw Rw).
    intros b q Ib Rb. destruct (free_ok v b) as [I E].
    exists (free_ v b). split; [reflexivity|split; [exact I|]]. eapply ref_eq; [exact E|constructor].
  - (* OSwap *)
    pose proof (get2_sim w qs v x Iw Rw) as G.
    destruct (nth_error qs v) as [q|] eqn:Eq; [destruct (nth_error qs x) as [p|] eqn:Ep|];
      [|exact (G _)|exact (G _)].
    destruct G as (b & s & Hb & Hs & Ib & Is & Rb & Rs). rewrite Hb, Hs. cbn [bind].
    exists (upd x b (upd v s w)), None. split; [reflexivity|].
    split; [apply Forall_upd; [apply Forall_upd|]; assumption|].
    split; [apply F2_upd; [apply F2_upd|]; assumption|right; reflexivity].
  - (* OEq *)
    pose proof (get2_sim w qs v x Iw Rw) as G.
    destruct (nth_error qs v) as [q|] eqn:Eq; [destruct (nth_error qs x) as [p|] eqn:Ep|];
      [|exact (G _)|exact (G _)].
    destruct G as (b & s & Hb & Hs & Ib & Is & Rb & Rs). rewrite Hb, Hs. cbn [bind].
    rewrite !win_inv by assumption. cbn [bind].
    exists w, (q_eq (view b) (view s)). split; [reflexivity|split; [exact Iw|split; [exact Rw|]]].
    rewrite <- !exposed_inv by assumption. apply q_eq_ref; assumption.
Qed.

(* ---- histories ------------------------------------------------------------------------------ *)

Definition run_goal (r : res (world * list (option bool))) (s : option (list queue * list (option bool))) : Prop :=
  match s with
  | Some (qs', rs') => exists w' rs, r = Ok (w', rs) /\ winv w' /\ wref w' qs' /\ Forall2 ans_ref rs rs'
  | None => r = Err BadArg
  end.

Lemma run_sim_lemma ops : forall w qs, winv w -> wref w qs -> run_goal (run w ops) (spec_run qs ops).
Proof.
  induction ops as [|o rest IH]; intros w qs Iw Rw; cbn [run spec_run].
  - exists w, []. auto.
  - pose proof (step_sim_lemma w qs o Iw Rw) as S. unfold sim_goal in S.
    destruct (spec_step qs o) as [[qs1 a1']|].
    + destruct S as (w1 & a1 & H1 & Iw1 & Rw1 & Ha1). rewrite H1. cbn [bind fst snd].
      pose proof (IH w1 qs1 Iw1 Rw1) as R. unfold run_goal in R.
      destruct (spec_run qs1 rest) as [[qs2 rs2']|].
      * destruct R as (w2 & rs2 & H2 & Iw2 & Rw2 & Hrs). rewrite H2. cbn [bind fst snd].
        exists w2, (a1 :: rs2). split; [reflexivity|split; [exact Iw2|split; [exact Rw2|]]].
        constructor; assumption.
      * rewrite R. reflexivity.
    + rewrite S. reflexivity.
Qed.

Lemma wref_self w : wref w (map exposed w).
Proof. induction w; constructor; [apply cr_refl|assumption]. Qed.

Inductive reachable : world -> Prop :=
| reach_init : reachable []
| reach_step w o w' a : reachable w -> step w o = Ok (w', a) -> reachable w'.

Lemma step_inv_lemma w o w' a : winv w -> step w o = Ok (w', a) -> winv w'.
Proof.
  intros Iw H. pose proof (step_sim_lemma w (map exposed w) o Iw (wref_self w)) as S. unfold sim_goal in S.
  destruct (spec_step (map exposed w) o) as [[qs1 a1']|].
  - destruct S as (w1 & a1 & H1 & Iw1 & _). congruence.
  - congruence.
Qed.

Lemma reachable_inv_lemma w : reachable w -> winv w.
Proof.
  induction 1 as [|w o w' a Hr IH Hs]; [constructor|]. eapply step_inv_lemma; eassumption.
Qed.

Lemma step_safe_lemma w o e : winv w -> step w o = Err e -> e = BadArg /\ spec_step (map exposed w) o = None.
Proof.
  intros Iw H. pose proof (step_sim_lemma w (map exposed w) o Iw (wref_self w)) as S. unfold sim_goal in S.
  destruct (spec_step (map exposed w) o) as [[qs1 a1']|].
  - destruct S as (w1 & a1 & H1 & _). congruence.
  - split; [congruence|reflexivity].
Qed.

Lemma run_reachable_lemma ops : forall w w' rs, reachable w -> run w ops = Ok (w', rs) -> reachable w'.
Proof.
  induction ops as [|o rest IH]; intros w w' rs Hr H; cbn [run] in H.
  - congruence.
  - destruct (step w o) as [[w1 a1]|e] eqn:E1; cbn [bind fst snd] in H; [|discriminate].
    destruct (run w1 rest) as [[w2 rs2]|e] eqn:E2; cbn [bind fst snd] in H; [|discriminate].
    assert (w2 = w') by congruence. subst w2.
    eapply IH; [|exact E2]. eapply reach_step; eassumption.
Qed.

Lemma run_safe_lemma ops e : run [] ops = Err e -> e = BadArg /\ spec_run [] ops = None.
Proof.
  intro H. pose proof (run_sim_lemma ops [] [] (Forall_nil _) (Forall2_nil _)) as R. unfold run_goal in R.
  destruct (spec_run [] ops) as [[qs rs]|].
  - destruct R as (w' & rs' & H1 & _). congruence.
  - split; [congruence|reflexivity].
Qed.

Lemma terminator_lemma w b : reachable w -> In b w -> owns b = true ->
  exists a, own b = Some a /\ length a = capf b + 1 /\ stop b < length a /\
            nth_error a (stop b) = Some (Some 0%Z) /\ after_end b = Some (Some 0%Z).
Proof.
  intros Hr Hin Ho. pose proof (reachable_inv_lemma w Hr) as Iw.
  unfold winv in Iw. rewrite Forall_forall in Iw. pose proof (Iw b Hin) as I.
  unfold inv in I. unfold owns in Ho. unfold after_end.
  destruct (own b) as [a|]; [|discriminate].
  destruct I as (Hw & Hl & Hse & Hec & Ht). exists a. rewrite Hw.
  repeat split; try assumption; lia.
Qed.

(* the representation invariant, spelled out *)
Lemma rep_lemma w b : reachable w -> In b w ->
  match own b with
  | Some a => wb b = BOwn /\ length a = capf b + 1 /\ start b <= stop b /\ stop b <= capf b
  | None => capf b = 0 /\
            match wb b with
            | BOwn => False
            | BReg r => start b <= stop b /\ stop b <= length r
            | BCap _ => start b = 0 /\ stop b = 0
            end
  end.
Proof.
  intros Hr Hin. pose proof (reachable_inv_lemma w Hr) as Iw.
  unfold winv in Iw. rewrite Forall_forall in Iw. pose proof (Iw b Hin) as I.
  unfold inv in I. destruct (own b); tauto.
Qed.

(* a successful write through a pointer that is not into the own allocation wrote nothing *)
Lemma wr_win_foreign_lemma b off d b' : wr_win b off d = Ok b' -> wb b <> BOwn -> d = [] /\ b' = b.
Proof.
  unfold wr_win. intros H Hn.
  destruct (wb b) as [|r|v]; [congruence| |]; (destruct d; [split; [reflexivity|congruence]|discriminate]).
Qed.
